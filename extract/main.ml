let () =
  let b = Buffer.create 65536 in
  (try
    while true do
      let line = input_line stdin in
      let toks = Array.of_list (List.filter (fun t -> t <> "") (String.split_on_char ' ' line)) in
      Buffer.clear b;
      if Array.length toks > 0 then begin
        let s = { Driver.toks = toks; pos = 1 } in
        (try Cmds.dispatch toks.(0) s b with
         | Driver.Oracle_miss (f, x, y) -> Buffer.clear b; Printf.bprintf b "oracle-miss %d %d %d" f x y
         | Failure m -> Buffer.clear b; Printf.bprintf b "driver-failure %s" m
         | Invalid_argument m -> Buffer.clear b; Printf.bprintf b "driver-invalid %s" m
         | Stack_overflow -> Buffer.clear b; Printf.bprintf b "driver-stack-overflow");
        print_string (Buffer.contents b)
      end;
      print_newline ()
    done
  with End_of_file -> ())
