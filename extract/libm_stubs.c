/* libm_stubs.c — the libm oracle of the model runner: the same glibc libm
   functions Rust's f32::sin etc. resolve to, called on bit patterns.
   fn ids as F32.libm_id: 0 sin 1 cos 2 tan 3 asin 4 acos 5 atan 6 exp 7 ln
   8 atan2 9 rem_euclid (fmodf + the fix-up of core::f32::rem_euclid) 10 div_euclid,
   11 exp2f, 12 fmodf (the f32 `%`). */
#include <math.h>
#include <stdint.h>
#include <string.h>
#include <caml/mlvalues.h>

static float of_bits(uint32_t b) { float f; memcpy(&f, &b, 4); return f; }
static uint32_t to_bits(float f) { uint32_t b; memcpy(&b, &f, 4); return b; }

value fv_libm(value vf, value va, value vb) {
  int fn = Int_val(vf);
  volatile float a = of_bits((uint32_t)Long_val(va));
  volatile float b = of_bits((uint32_t)Long_val(vb));
  float r;
  switch (fn) {
    case 0: r = sinf(a); break;
    case 1: r = cosf(a); break;
    case 2: r = tanf(a); break;
    case 3: r = asinf(a); break;
    case 4: r = acosf(a); break;
    case 5: r = atanf(a); break;
    case 6: r = expf(a); break;
    case 7: r = logf(a); break;
    case 8: r = atan2f(a, b); break;
    case 9: { float m = fmodf(a, b); r = (m < 0.0f) ? m + fabsf(b) : m; break; }
    case 10: { /* core::f32::div_euclid */
      float q = truncf(a / b);
      if (fmodf(a, b) < 0.0f) r = (b > 0.0f) ? q - 1.0f : q + 1.0f; else r = q;
      break; }
    case 11: r = exp2f(a); break;
    case 12: r = fmodf(a, b); break;
    default: r = NAN;
  }
  uint32_t out = to_bits(r);
  if (r != r) out = 0x7fc00000u;
  return Val_long((long)out);
}
