(* driver.ml — hand-written glue around the extracted model (model.ml).
   Reads one case per line (unsigned integers, f32 as bit patterns), prints one
   canonical result line per case in the same format as the Rust harness. *)
type ostr = string   (* OCaml's string: the extracted model has its own [string] *)
open Model

(* ---- integer conversions (Z, positive, nat stay the extracted inductives) ---- *)
let rec pos_of_int (n : int) : positive =
  if n = 1 then XH else if n land 1 = 0 then XO (pos_of_int (n lsr 1)) else XI (pos_of_int (n lsr 1))
let z_of_int (n : int) : z = if n = 0 then Z0 else if n > 0 then Zpos (pos_of_int n) else Zneg (pos_of_int (-n))
let rec int_of_pos (p : positive) : int =
  match p with XH -> 1 | XO q -> 2 * int_of_pos q | XI q -> 2 * int_of_pos q + 1
let int_of_z (x : z) : int = match x with Z0 -> 0 | Zpos p -> int_of_pos p | Zneg p -> - (int_of_pos p)
let rec nat_of_int (n : int) : nat = if n <= 0 then O else S (nat_of_int (n - 1))
let int_of_nat (n : nat) : int = let rec go acc = function O -> acc | S m -> go (acc + 1) m in go 0 n

(* small nats are shared to keep allocation down *)
let nat_cache = Array.init 4096 (fun _ -> O)
let () = for i = 1 to 4095 do nat_cache.(i) <- S nat_cache.(i-1) done
let nat_of_int n = if n >= 0 && n < 4096 then nat_cache.(n) else nat_of_int n

let f32_of_int (b : int) : f32 = of_bits (z_of_int b)
let int_of_f32 (f : f32) : int = int_of_z (to_bits f)

(* ---- token stream ---- *)
type stream = { toks : ostr array; mutable pos : int }
let next_tok s = let t = s.toks.(s.pos) in s.pos <- s.pos + 1; t
let next s = int_of_string (next_tok s)
let next_nat s = nat_of_int (next s)
let next_f32 s = f32_of_int (next s)
let at_end s = s.pos >= Array.length s.toks
let rec times n f = if n <= 0 then [] else let x = f () in x :: times (n - 1) f

(* ---- opcode tables ---- *)
let uops = [| UNeg; UAbs; URecip; USqrt; USquare; UFloor; UCeil; URound; USin; UCos; UTan;
              UAsin; UAcos; UAtan; UExp; ULn; UNot; URand; UCopy |]
let bops = [| BAdd; BSub; BMul; BDiv; BAtan; BMin; BMax; BCompare; BMod; BAnd; BOr; BMix |]
let index_of arr x = let r = ref (-1) in Array.iteri (fun i y -> if y = x then r := i) arr; !r

let parse_op s : f32 op =
  match next s with
  | 0 -> let a = next_nat s in let i = next_nat s in OOutput (a, i)
  | 1 -> let o = next_nat s in let i = next_nat s in OInput (o, i)
  | 2 -> let o = next_nat s in let c = next_f32 s in OCopyImm (o, c)
  | 3 -> let u = uops.(next s) in let o = next_nat s in let a = next_nat s in OUn (u, o, a)
  | 4 -> let b = bops.(next s) in let o = next_nat s in let l = next_nat s in let r = next_nat s in OBinRR (b, o, l, r)
  | 5 -> let b = bops.(next s) in let o = next_nat s in let a = next_nat s in let c = next_f32 s in OBinRI (b, o, a, c)
  | 6 -> let b = bops.(next s) in let o = next_nat s in let a = next_nat s in let c = next_f32 s in OBinIR (b, o, a, c)
  | 7 -> let r = next_nat s in let m = next_nat s in OLoad (r, m)
  | 8 -> let r = next_nat s in let m = next_nat s in OStore (r, m)
  | t -> failwith (Printf.sprintf "bad op tag %d" t)
let parse_tape s = let n = next s in times n (fun () -> parse_op s)

let buf_op b (o : f32 op) =
  let p = Printf.bprintf in
  let n = int_of_nat in
  match o with
  | OOutput (a, i) -> p b " 0 %d %d" (n a) (n i)
  | OInput (o, i) -> p b " 1 %d %d" (n o) (n i)
  | OCopyImm (o, c) -> p b " 2 %d %d" (n o) (int_of_f32 c)
  | OUn (u, o, a) -> p b " 3 %d %d %d" (index_of uops u) (n o) (n a)
  | OBinRR (bo, o, l, r) -> p b " 4 %d %d %d %d" (index_of bops bo) (n o) (n l) (n r)
  | OBinRI (bo, o, a, c) -> p b " 5 %d %d %d %d" (index_of bops bo) (n o) (n a) (int_of_f32 c)
  | OBinIR (bo, o, a, c) -> p b " 6 %d %d %d %d" (index_of bops bo) (n o) (n a) (int_of_f32 c)
  | OLoad (r, m) -> p b " 7 %d %d" (n r) (n m)
  | OStore (r, m) -> p b " 8 %d %d" (n r) (n m)
let buf_tape b (t : f32 op list) =
  Printf.bprintf b "%d" (List.length t); List.iter (buf_op b) t

let parse_arena s : f32 cnode list =
  let n = next s in
  times n (fun () ->
    match next s with
    | 0 -> NInput (next_nat s)
    | 1 -> NConst (next_f32 s)
    | 2 -> let u = uops.(next s) in let a = next_nat s in NUnary (u, a)
    | 3 -> let bo = bops.(next s) in let l = next_nat s in let r = next_nat s in NBinary (bo, l, r)
    | t -> failwith (Printf.sprintf "bad node tag %d" t))

(* ---- libm oracle: a table recorded by the harness from the same process's libm ---- *)
exception Oracle_miss of int * int * int
external fv_libm : int -> int -> int -> int = "fv_libm"
(* the process's own libm (glibc, as Rust's f32 methods use), via libm_stubs.c *)
let libm_oracle : oracle = fun f a b -> z_of_int (fv_libm (int_of_z f) (int_of_z a) (int_of_z b))
(* a table recorded by the harness takes precedence and is cross-checked against libm *)
let parse_oracle s : oracle =
  let n = next s in
  let h = Hashtbl.create (2 * n + 1) in
  for _ = 1 to n do
    let f = next s in let a = next s in let b = next s in let r = next s in
    Hashtbl.replace h (f, a, b) r
  done;
  fun f a b ->
    let k = (int_of_z f, int_of_z a, int_of_z b) in
    match Hashtbl.find_opt h k with
    | Some r -> z_of_int r
    | None -> libm_oracle f a b

let buf_bits b (l : f32 list) = List.iter (fun f -> Printf.bprintf b " %d" (int_of_f32 f)) l

let choice_code = function TUnknown -> 0 | TLeft -> 1 | TRight -> 2 | TBoth -> 3

(* ---- Coq strings ---- *)
let ascii_of_char (c : char) : ascii =
  let n = Char.code c in let b i = (n lsr i) land 1 = 1 in
  Ascii (b 0, b 1, b 2, b 3, b 4, b 5, b 6, b 7)
let char_of_ascii (Ascii (b0, b1, b2, b3, b4, b5, b6, b7)) : char =
  let v b i = if b then 1 lsl i else 0 in
  Char.chr (v b0 0 + v b1 1 + v b2 2 + v b3 3 + v b4 4 + v b5 5 + v b6 6 + v b7 7)
let coq_string (s : ostr) : Model.string =
  let r = ref EmptyString in
  for i = Stdlib.String.length s - 1 downto 0 do r := String (ascii_of_char s.[i], !r) done; !r
let ocaml_string (s : Model.string) : ostr =
  let b = Buffer.create 64 in
  let rec go = function EmptyString -> () | String (c, r) -> Buffer.add_char b (char_of_ascii c); go r in
  go s; Buffer.contents b
