(* cmds.ml — one function per case kind; each prints exactly what the Rust
   harness prints for the implementation. *)
open Model
open Driver

let sem_of (o : oracle) = f32_sem o

let c01 s b =
  let n = next_nat s in
  let arena = parse_arena s in
  let nroots = next s in
  let roots = times nroots (fun () -> next_nat s) in
  let nvars = next s in
  let npts = next s in
  let pts = times npts (fun () ->
    let skip = next s = 1 in
    let vals = Array.of_list (times nvars (fun () -> next_f32 s)) in
    (skip, vals)) in
  let orc = parse_oracle s in
  (* the hypothesis of the flatten theorems, checked on the arena the implementation built *)
  (fun k -> k (); if not (arena_okb arena roots) then Printf.bprintf b " | aok 0") @@ fun () ->
  match flatten arena roots with
  | Err c -> Printf.bprintf b "ssa err %d" (int_of_nat c)
  | Ok (t, vars) ->
    Printf.bprintf b "ssa "; buf_tape b t.t_ops;
    Printf.bprintf b " cc %d oc %d | vars %d" (int_of_nat t.t_choices) (int_of_nat t.t_outputs) (List.length vars);
    List.iter (fun v -> Printf.bprintf b " %d" (int_of_nat v)) vars;
    (match reg_tape_new n t.t_ops with
     | Err _ -> Printf.bprintf b " | reg err | pt err | sl err"
     | Ok (rt, slots) ->
       Printf.bprintf b " | reg %d " (int_of_nat slots); buf_tape b rt;
       let section name =
         Printf.bprintf b " | %s" name;
         List.iter (fun (skip, vals) ->
           if skip then Printf.bprintf b " x"
           else if name = "sl" && vars = [] then Printf.bprintf b " novars"
           else begin
             let inputs = List.map (fun v -> vals.(int_of_nat v)) vars in
             let (outs, _) = run_point orc rt t.t_outputs inputs in
             buf_bits b outs
           end) pts in
       section "pt"; section "sl");
    Printf.bprintf b " | ref";
    List.iter (fun (skip, vals) ->
      if skip then Printf.bprintf b " x"
      else begin
        let env v = let i = int_of_nat v in if i < Array.length vals then vals.(i) else fnan in
        let all = Array.of_list (arena_eval (sem_of orc) arena env) in
        List.iter (fun r -> Printf.bprintf b " %d" (int_of_f32 all.(int_of_nat r))) roots
      end) pts

(* Stage-A validator on a (ssa tape, register tape) pair, e.g. the implementation's own *)
let cmd_val s b =
  let ssa = parse_tape s in
  let reg = parse_tape s in
  Printf.bprintf b "val %d wf %d" (if check_alloc f32_eqb ssa reg then 1 else 0) (if ssa_wf ssa then 1 else 0)

(* interval bounds on the wire: the sign of a zero bound is dropped (see harness fmt_interval) *)
let ib (f : f32) : int = let b = int_of_f32 f in if b = 0x80000000 then 0 else b

(* ---- C04: traces, simplification, chains ---------------------------------- *)
let buf_trace b (t : tchoice list) =
  if trace_useful t then begin
    Printf.bprintf b "%d" (List.length t);
    List.iter (fun c -> Printf.bprintf b " %d" (choice_code c)) t
  end else Printf.bprintf b "none"

let buf_ssa_section b ops cc oc =
  buf_tape b ops; Printf.bprintf b " cc %d oc %d" (int_of_nat cc) (int_of_nat oc)

type c04_input = IPoint of f32 array | IBox of (f32 * f32) array

(* one level: tracing evaluation on the input, outputs at the samples.
   Returns Some trace (full list) when the tracing evaluation succeeded. *)
let c04_level ?(jit=false) orc b tag (reg : f32 op list) nout (vars : nat list) inp samples : tchoice list option =
  let inputs_of vals = List.map (fun v -> vals.(int_of_nat v)) vars in
  let tr =
    match inp with
    | IPoint p -> let (_, tr) = run_point orc reg nout (inputs_of p) in Some tr
    | IBox bx ->
      let ins = List.map (fun v -> let (l, u) = bx.(int_of_nat v) in mk_interval orc l u) vars in
      let (outs, tr) = run_interval orc reg nout ins in
      if List.exists (fun o -> o = None) outs then (Printf.bprintf b " | i%d panic" tag; None)
      else begin
        if not jit then begin
          Printf.bprintf b " | i%d" tag;
          List.iter (function Some i -> Printf.bprintf b " %d %d" (ib i.lo) (ib i.hi) | None -> ()) outs
        end;
        Some tr
      end in
  Printf.bprintf b " | o%d" tag;
  List.iter (fun sp -> let (outs, _) = run_point orc reg nout (inputs_of sp) in
    List.iter (fun f -> let v = int_of_f32 f in Printf.bprintf b " %d" (if v = 0x80000000 then 0 else v)) outs) samples;
  tr

(* A trace returned by the JIT is judged against the model's own for the same input:
   point traces must be equal; an interval entry must be the model's or the more
   conservative Both (the JIT's interval arithmetic may be wider than the interpreter's). *)
let jit_trace_ok mode (mine : tchoice list) (given : tchoice list option) : bool =
  match given with
  | None -> if mode = 0 then not (trace_useful mine) else true
  | Some g ->
    List.length g = List.length mine &&
    (if mode = 0 then g = mine || (not (trace_useful mine) && not (trace_useful g))
     else List.for_all2 (fun gc mc -> gc = mc || gc = TBoth) g mine)

let code_choice = function 0 -> TUnknown | 1 -> TLeft | 2 -> TRight | _ -> TBoth

let c04 s b =
  let jit = next s = 1 in
  let n = next_nat s in
  let m = next_nat s in
  let arena = parse_arena s in
  let nroots = next s in
  let roots = times nroots (fun () -> next_nat s) in
  let nvars = next s in
  let mode = next s in
  let inp =
    if mode = 0 then IPoint (Array.of_list (times nvars (fun () -> next_f32 s)))
    else IBox (Array.of_list (times nvars (fun () -> let l = next_f32 s in let u = next_f32 s in (l, u)))) in
  let ns = next s in
  let samples = times ns (fun () -> Array.of_list (times nvars (fun () -> next_f32 s))) in
  let given = if jit then Array.of_list (times 2 (fun () ->
      let some = next s = 1 in let k = next s in
      let l = times k (fun () -> code_choice (next s)) in if some then Some l else None))
    else [||] in
  let jt_ok = ref true in
  (* which trace drives the simplification, and what is printed as tr *)
  let pick level (mine : tchoice list) : tchoice list =
    if jit then begin
      if not (jit_trace_ok mode mine given.(level)) then begin jt_ok := false;
        if Sys.getenv_opt "FV_DEBUG" <> None then begin
          prerr_string (Printf.sprintf "level %d mode %d mine:" level mode); List.iter (fun c -> prerr_string (Printf.sprintf " %d" (choice_code c))) mine;
          prerr_string " given:"; (match given.(level) with Some g -> List.iter (fun c -> prerr_string (Printf.sprintf " %d" (choice_code c))) g | None -> prerr_string " none"); prerr_newline () end end;
      match given.(level) with Some g -> g | None -> List.map (fun _ -> TBoth) mine
    end else mine in
  let c04_level = c04_level ~jit in
  let orc = libm_oracle in
  (fun k -> k (); if jit && not !jt_ok then Printf.bprintf b " | jt bad") @@ fun () ->
  match flatten arena roots with
  | Err _ -> Printf.bprintf b "build err"
  | Ok (t, vars) ->
    match reg_tape_new n t.t_ops with
    | Err _ -> Printf.bprintf b "build err"
    | Ok (rt, slots) ->
      Printf.bprintf b "p "; buf_ssa_section b t.t_ops t.t_choices t.t_outputs;
      Printf.bprintf b " | pr %d " (int_of_nat slots); buf_tape b rt;
      let nout = t.t_outputs in
      let tr0 = c04_level orc b 0 rt nout vars inp samples in
      (match tr0 with
       | None -> Printf.bprintf b " | tr none"
       | Some tr0 ->
         let tr0 = pick 0 tr0 in
         Printf.bprintf b " | tr "; buf_trace b tr0;
         let used0 = if trace_useful tr0 then tr0 else List.map (fun _ -> TBoth) tr0 in
         match fsimplify m t.t_ops t.t_choices used0 with
         | Err c -> Printf.bprintf b " | s1 %s" (if int_of_nat c = 200 then "badtrace" else "err")
         | Ok z1 ->
           Printf.bprintf b " | s1 "; buf_ssa_section b z1.z_ssa z1.z_choices z1.z_outputs;
           Printf.bprintf b " | r1 %d " (int_of_nat z1.z_slots); buf_tape b z1.z_reg;
           let tr1 = c04_level orc b 1 z1.z_reg z1.z_outputs vars inp samples in
           (match tr1 with
            | None -> Printf.bprintf b " | tr2 none"
            | Some tr1 ->
              let tr1 = pick 1 tr1 in
              Printf.bprintf b " | tr2 "; buf_trace b tr1;
              let used1 = if trace_useful tr1 then tr1 else List.map (fun _ -> TBoth) tr1 in
              match fsimplify n z1.z_ssa z1.z_choices used1 with
              | Err c -> Printf.bprintf b " | s2 %s" (if int_of_nat c = 200 then "badtrace" else "err")
              | Ok z2 ->
                Printf.bprintf b " | s2 "; buf_ssa_section b z2.z_ssa z2.z_choices z2.z_outputs;
                Printf.bprintf b " | r2 %d " (int_of_nat z2.z_slots); buf_tape b z2.z_reg;
                ignore (c04_level orc b 2 z2.z_reg z2.z_outputs vars inp samples)))

(* ---- C20: traces of the four tracing evaluators ----------------------------- *)
let c20 s b =
  let arena = parse_arena s in
  let nroots = next s in
  let roots = times nroots (fun () -> next_nat s) in
  let nvars = next s in
  let p = Array.of_list (times nvars (fun () -> next_f32 s)) in
  let bx = Array.of_list (times nvars (fun () -> let l = next_f32 s in let u = next_f32 s in (l, u))) in
  let given = Array.of_list (times 2 (fun () ->
      let some = next s = 1 in let k = next s in
      let l = times k (fun () -> code_choice (next s)) in if some then Some l else None)) in
  let ji_panic = next s = 1 in
  let orc = libm_oracle in
  match flatten arena roots with
  | Err _ -> Printf.bprintf b "build err"
  | Ok (t, vars) ->
    match reg_tape_new (nat_of_int 255) t.t_ops with
    | Err _ -> Printf.bprintf b "build err"
    | Ok (rt, _) ->
      Printf.bprintf b "cc %d" (int_of_nat t.t_choices);
      let (_, tp) = run_point orc rt t.t_outputs (List.map (fun v -> p.(int_of_nat v)) vars) in
      Printf.bprintf b " | tp "; buf_trace b tp;
      let ins = List.map (fun v -> let (l, u) = bx.(int_of_nat v) in mk_interval orc l u) vars in
      let (outs, ti) = run_interval orc rt t.t_outputs ins in
      let panic = List.exists (fun o -> o = None) outs in
      if panic then Printf.bprintf b " | ti panic" else (Printf.bprintf b " | ti "; buf_trace b ti);
      let ok = jit_trace_ok 0 tp given.(0) && (panic || ji_panic || jit_trace_ok 1 ti given.(1)) in
      if not ok then Printf.bprintf b " | jt bad"

(* ---- C03: interval evaluation of every node, and through a transform matrix -- *)
let c03 s b =
  let arena = parse_arena s in
  let nroots = next s in
  let roots = times nroots (fun () -> next_nat s) in
  let nvars = next s in
  let bx = Array.of_list (times nvars (fun () -> let l = next_f32 s in let u = next_f32 s in (l, u))) in
  let diffed = next s = 1 in
  let with_tv = next s = 1 in
  let mat = times 16 (fun () -> next_f32 s) in
  if not diffed then Printf.bprintf b "iv x | tv x" else
  let orc = libm_oracle in
  match flatten arena roots with
  | Err _ -> Printf.bprintf b "build err"
  | Ok (t, vars) ->
    match reg_tape_new (nat_of_int 255) t.t_ops with
    | Err _ -> Printf.bprintf b "build err"
    | Ok (rt, _) ->
      let ins = List.map (fun v -> let (l, u) = bx.(int_of_nat v) in mk_interval orc l u) vars in
      let (outs, _) = run_interval orc rt t.t_outputs ins in
      Printf.bprintf b "iv";
      if List.exists (fun o -> o = None) outs then Printf.bprintf b " panic"
      else List.iter (function Some i -> Printf.bprintf b " %d %d" (ib i.lo) (ib i.hi) | None -> ()) outs;
      (* Shape-level evaluation of the last root through the matrix *)
      if not with_tv then Printf.bprintf b " | tv none" else begin
        let last = List.nth roots (nroots - 1) in
        match flatten arena [last] with
        | Err _ -> Printf.bprintf b " | tv none"
        | Ok (t1, vars1) ->
          match reg_tape_new (nat_of_int 255) t1.t_ops with
          | Err _ -> Printf.bprintf b " | tv none"
          | Ok (rt1, _) ->
            let iv k = let (l, u) = bx.(k) in mk_interval orc l u in
            (match iv 0, iv 1, iv 2 with
             | Some x, Some y, Some z ->
               (match itransform (f32_fl orc) x y z mat with
                | None -> Printf.bprintf b " | tv none"
                | Some ((tx, ty), tz) ->
                  let ins = List.map (fun v -> match int_of_nat v with 0 -> Some tx | 1 -> Some ty | _ -> Some tz) vars1 in
                  let (outs, _) = run_interval orc rt1 t1.t_outputs ins in
                  (match outs with
                   | [Some i] -> Printf.bprintf b " | tv %d %d" (ib i.lo) (ib i.hi)
                   | _ -> Printf.bprintf b " | tv none"))
             | _ -> Printf.bprintf b " | tv none")
      end

(* ---- C05: interpreter grad-slice evaluation, every node exported ------------------ *)
let cb32n f = let v = int_of_f32 f in if v land 0x7fffffff > 0x7f800000 then 0x7fc00000 else v
let c05 s b =
  let arena = parse_arena s in
  let nroots = next s in
  let roots = times nroots (fun () -> next_nat s) in
  let nvars = next s in
  let npts = next s in
  let pts = times npts (fun () -> Array.of_list (times nvars (fun () ->
    let v = next_f32 s in let dx = next_f32 s in let dy = next_f32 s in let dz = next_f32 s in
    { gv = v; gx = dx; gy = dy; gz = dz }))) in
  let orc = libm_oracle in
  match flatten arena roots with
  | Err _ -> Printf.bprintf b "g build"
  | Ok (t, vars) ->
    match reg_tape_new (nat_of_int 255) t.t_ops with
    | Err _ -> Printf.bprintf b "g build"
    | Ok (rt, _) ->
      Printf.bprintf b "g";
      if vars <> [] then
      List.iter (fun p ->
        let inputs = List.map (fun v -> p.(int_of_nat v)) vars in
        let sem = f32_grad_sem orc in
        let st = eval_tape sem rt inputs (fun _ -> sem.s_dflt) (List.map (fun _ -> sem.s_dflt) roots) in
        List.iter (fun g -> Printf.bprintf b " %d %d %d %d" (int_of_f32 g.gv) (int_of_f32 g.gx) (int_of_f32 g.gy) (int_of_f32 g.gz)) st.m_out) pts;
      (* the transform section: Transformable for Grad, then the tape of the last root alone *)
      if not (at_end s) then begin
        if next s = 1 then begin
          let mat = times 16 (fun () -> next_f32 s) in
          let last = List.nth roots (List.length roots - 1) in
          (match rtape_of arena last, pts with
           | Ok t, p :: _ ->
             let g = geval_pt orc mat t p.(0).gv p.(1).gv p.(2).gv in
             Printf.bprintf b " | t %d %d %d %d" (cb32n g.gv) (cb32n g.gx) (cb32n g.gy) (cb32n g.gz)
           | _ -> Printf.bprintf b " | t build")
        end else Printf.bprintf b " | t x"
      end

(* ---- C12 / C13: the Context model ------------------------------------------------- *)
let buf_arena b (c : f32 cnode list) =
  Printf.bprintf b "%d" (List.length c);
  List.iter (function
    | NInput v -> Printf.bprintf b " 0 %d" (int_of_nat v)
    | NConst f -> Printf.bprintf b " 1 %d" (int_of_f32 f)
    | NUnary (u, a) -> Printf.bprintf b " 2 %d %d" (index_of uops u) (int_of_nat a)
    | NBinary (bo, l, r) -> Printf.bprintf b " 3 %d %d %d" (index_of bops bo) (int_of_nat l) (int_of_nat r)) c

let c12 s b =
  let n = next s in
  let orc = libm_oracle in
  let ctx = ref [] in
  Printf.bprintf b "ret";
  for _ = 1 to n do
    let r =
      match next s with
      | 0 -> let v = next_nat s in var !ctx v
      | 1 -> let c = next_f32 s in constant !ctx c
      | 2 -> let u = uops.(next s) in let a = next_nat s in op_unary orc !ctx a u
      | _ -> let bo = bops.(next s) in let a = next_nat s in let c = next_nat s in build_bin orc !ctx bo a c in
    match r with
    | Ok (c', node) -> ctx := c'; Printf.bprintf b " %d" (int_of_nat node)
    | Err _ -> Printf.bprintf b " bad"
  done;
  Printf.bprintf b " | arena "; buf_arena b !ctx

let parse_tree s : tnode list =
  let n = next s in
  times n (fun () ->
    match next s with
    | 0 -> TInput (next_nat s)
    | 1 -> TConst (next_f32 s)
    | 2 -> let u = uops.(next s) in let a = next_nat s in TUn (u, a)
    | 3 -> let bo = bops.(next s) in let l = next_nat s in let r = next_nat s in TBin (bo, l, r)
    | 4 -> let t = next_nat s in let x = next_nat s in let y = next_nat s in let z = next_nat s in TRemapAxes (t, x, y, z)
    | 5 -> let t = next_nat s in let m = times 16 (fun () -> next_f32 s) in TRemapAffine (t, m)
    | k -> failwith (Printf.sprintf "bad tree tag %d" k))

let c13 s b =
  let t = parse_tree s in
  let root = next_nat s in
  (match import libm_oracle t root [] with
  | Err c -> Printf.bprintf b "node err %d" (int_of_nat c)
  | Ok (ctx, node) -> Printf.bprintf b "node %d | arena " (int_of_nat node); buf_arena b ctx);
  (* the flattening of two consecutive affine remaps: Tree::remap_affine stores next * mat *)
  if s.pos < Array.length s.toks && s.toks.(s.pos) = "F" then begin
    s.pos <- s.pos + 1;
    let m1 = times 12 (fun () -> next_f32 s) in
    let m2 = times 12 (fun () -> next_f32 s) in
    Printf.bprintf b " | fl";
    List.iter (fun f -> let v = int_of_f32 f in Printf.bprintf b " %d" (if v land 0x7fffffff > 0x7f800000 then 0x7fc00000 else v)) (aff_mul f32_sc m1 m2)
  end

(* ---- C16: shape builders ------------------------------------------------------------ *)
(* a tree table (no remaps inside the inputs the harness sends... but handle them anyway) -> AST *)
let etree_of_table (t : tnode list) (root : int) : f32 etree =
  let arr = Array.of_list t in
  let rec go i =
    match arr.(i) with
    | TInput v -> (match int_of_nat v with 0 -> EX | 1 -> EY | 2 -> EZ | _ -> EVar v)
    | TConst c -> EConst c
    | TUn (u, a) -> EUn (u, go (int_of_nat a))
    | TBin (bo, l, r) -> EBin (bo, go (int_of_nat l), go (int_of_nat r))
    | TRemapAxes (t', x, y, z) -> ERemapAxes (go (int_of_nat t'), go (int_of_nat x), go (int_of_nat y), go (int_of_nat z))
    | TRemapAffine (t', m) -> ERemapAffine (go (int_of_nat t'), (match m with a::b::c::d::e::f::g::h::i::j::k::l::_ -> [a;b;c;d;e;f;g;h;i;j;k;l] | _ -> m)) in
  go root

let c16 s b =
  let id = next s in
  let np = next s in
  let p = Array.of_list (times np (fun () -> next_f32 s)) in
  let ni = next s in
  let inputs = times ni (fun () -> let t = parse_tree s in let root = next s in etree_of_table t root) in
  let i0 () = List.nth inputs 0 and i1 () = List.nth inputs 1 in
  let v3 k = mk3 p.(k) p.(k+1) p.(k+2) in
  let tree : f32 etree =
    match id with
    | 0 -> s_circle p.(0) p.(1) p.(2)
    | 1 -> s_rectangle p.(0) p.(1) p.(2) p.(3)
    | 2 -> s_sphere (v3 0) p.(3)
    | 3 -> s_box (v3 0) (v3 3)
    | 4 -> s_plane (v3 0) p.(3)
    | 5 -> s_union inputs
    | 6 -> s_intersection inputs
    | 7 -> s_inverse (i0 ())
    | 8 -> s_difference (i0 ()) (i1 ())
    | 9 -> s_blend (i0 ()) (i1 ()) p.(0)
    | 10 -> s_move (i0 ()) (v3 0)
    | 11 -> s_scale (i0 ()) (v3 0)
    | 12 -> s_scale_uniform (i0 ()) p.(0)
    | 13 -> s_reflect (i0 ()) (v3 0) p.(3)
    | 14 -> s_reflect_x (i0 ()) p.(0)
    | 15 -> s_reflect_y (i0 ()) p.(0)
    | 16 -> s_reflect_z (i0 ()) p.(0)
    | 17 -> s_reflect_xy (i0 ()) p.(0)
    | 18 | 19 | 20 | 21 -> s_rotate (i0 ()) (Array.to_list (Array.sub p 0 9)) (v3 9)
    | 22 -> s_revolve_y (i0 ()) p.(0)
    | 23 -> s_extrude_z (i0 ()) p.(0) p.(1)
    | 24 -> s_loft_z (i0 ()) (i1 ()) p.(0) p.(1)
    | 25 -> s_repeat_x (i0 ()) p.(0) p.(1)
    | _ -> s_named_plane (nat_of_int (int_of_f32 p.(0) |> fun bits -> if bits = 0 then 0 else if bits = 0x3f800000 then 1 else 2)) in
  match import_tree libm_oracle tree with
  | Err c -> Printf.bprintf b "node err %d" (int_of_nat c)
  | Ok (ctx, node) -> Printf.bprintf b "node %d | arena " (int_of_nat node); buf_arena b ctx

(* ---- C19: the solver's seed table --------------------------------------------------- *)
let c19 s b =
  let nfree = next s in
  let k = next s in
  let gis = times k (fun () -> next s) in
  Printf.bprintf b "nfree %d | seeds" nfree;
  let ns = int_of_nat (samples (nat_of_int nfree)) in
  List.iter (fun gi ->
    Printf.bprintf b " ; %d:" gi;
    for j = 0 to ns - 1 do
      let ((x, y), z) = seed (nat_of_int gi) (nat_of_int j) in
      Printf.bprintf b " %d%d%d" (if x then 1 else 0) (if y then 1 else 0) (if z then 1 else 0)
    done) gis;
  (* the exit test at the starting point: when it holds, solve returns the start unchanged (theorem
     C19_exit_test_at_start_is_fixpoint); when it does not, the model makes no prediction *)
  if s.pos < Array.length s.toks && s.toks.(s.pos) = "D" then begin
    s.pos <- s.pos + 1;
    let neq = next s in let nf = next s in
    let rows = times neq (fun () -> times nf (fun () -> next_f32 s)) in
    let res = times neq (fun () -> next_f32 s) in
    let cur = times nf (fun () -> next_f32 s) in
    Printf.bprintf b " | stay %s" (if done32 res rows cur then "1" else "?")
  end





(* ---- C06 / C07: the renderer models on the f32 instance ------------------------------ *)
let cb32 f = let v = int_of_f32 f in
  if v land 0x7fffffff > 0x7f800000 then 0x7fc00000 else if v = 0x80000000 then 0 else v
let c06 s b =
  let arena = parse_arena s in
  let root = next_nat s in
  let mat = times 16 (fun () -> next_f32 s) in
  let zs = next_f32 s in
  let pp = next s = 1 in
  let nt = next s in
  let tiles = times nt (fun () -> z_of_int (next s)) in
  let w = z_of_int (next s) in let h = z_of_int (next s) in
  match rtape_of arena root with
  | Err c -> Printf.bprintf b "build err %d" (int_of_nat c)
  | Ok t ->
    let img = render2_32 libm_oracle mat zs pp tiles w h t in
    Printf.bprintf b "img";
    List.iter (function
      | Fill (inside, depth) -> Printf.bprintf b " F%d.%d" (if inside then 1 else 0) (int_of_nat depth)
      | Dist v -> Printf.bprintf b " %d" (cb32 v)) img
let c07 s b =
  let arena = parse_arena s in
  let root = next_nat s in
  let mat = times 16 (fun () -> next_f32 s) in
  let nt = next s in
  let tiles = times nt (fun () -> z_of_int (next s)) in
  let w = z_of_int (next s) in let h = z_of_int (next s) in let d = z_of_int (next s) in
  match rtape_of arena root with
  | Err c -> Printf.bprintf b "build err %d" (int_of_nat c)
  | Ok t ->
    let (img, ok) = render3_32 libm_oracle mat tiles w h d t in
    Printf.bprintf b "%s" (if ok then "img" else "assert-failed");
    List.iter (fun p -> let ((nx, ny), nz) = p.g_normal in
      Printf.bprintf b " %d:%d,%d,%d" (int_of_z p.g_depth) (cb32 nx) (cb32 ny) (cb32 nz)) img


(* ---- C08: the verified mesh checker on the implementation's mesh ---------------------- *)
let n_of_int (k : int) : n = if k = 0 then N0 else Npos (pos_of_int k)
let rec float_of_pos = function XH -> 1.0 | XO q -> 2.0 *. float_of_pos q | XI q -> 2.0 *. float_of_pos q +. 1.0
let float_of_z = function Z0 -> 0.0 | Zpos p -> float_of_pos p | Zneg p -> -. (float_of_pos p)
let c08 s b =
  let nv = next s in let nt = next s in
  (* a finite f32 as mantissa * 2^exponent *)
  let dyadic bits =
    let sign = if bits land 0x80000000 <> 0 then -1 else 1 in
    let e = (bits lsr 23) land 0xff in let m = bits land 0x7fffff in
    if e = 0 then (z_of_int (sign * m), z_of_int (-149)) else (z_of_int (sign * (m lor 0x800000)), z_of_int (e - 150)) in
  let verts = times nv (fun () -> let x = dyadic (next s) in let y = dyadic (next s) in let z = dyadic (next s) in ((x, y), z)) in
  let tris = times nt (fun () -> let a = n_of_int (next s) in let b2 = n_of_int (next s) in let c = n_of_int (next s) in ((a, b2), c)) in
  let ((ok, v), e) = check_mesh (n_of_int nv) verts tris in
  (* six times the signed volume is v * 2^e: print the sign and, scaled to a float, the volume itself *)
  let vf = (float_of_z v) *. (2.0 ** float_of_int (int_of_z e)) /. 6.0 in
  (* the sign of the exact volume, with the same dead band as the harness (|volume| <= 1e-6 counts as zero) *)
  Printf.bprintf b "manifold %d | volsign %d" (if ok then 1 else 0) (if vf > 1e-6 then 1 else if vf < -1e-6 then -1 else 0)

(* ---- C09: task counts of the raster fan-out and of the octree expansion -------------- *)
let c09 s b =
  match next_tok s with
  | "raster" ->
    let w = next_nat s in let h = next_nat s in
    let n = next s in
    let tiles = times n (fun () -> next_nat s) in
    Printf.bprintf b "tasks %d" (int_of_nat (raster_task_count w h tiles))
  | "octree" ->
    let depth = next_nat s in let threads = next_nat s in
    Printf.bprintf b "tasks %d" (int_of_nat (octree_task_count depth threads))
  | _ -> Printf.bprintf b "-"

(* ---- C14: shape evaluation: transform, slot filling by identity, tape run ------------ *)
let c14 s b =
  let arena = parse_arena s in
  let root = next_nat s in
  let n = next_nat s in
  let nit = next s in
  let it = times nit (fun () -> let v = next_nat s in let i = next_nat s in (v, i)) in
  let mat = if next s = 1 then Some (times 16 (fun () -> next_f32 s)) else None in
  let x = next_f32 s in let y = next_f32 s in let z = next_f32 s in
  let nsup = next s in
  let sup = times nsup (fun () -> let v = next s in let f = next_f32 s in (v, f)) in
  let vars v = List.assoc_opt (int_of_nat v) sup in
  let orc = libm_oracle in
  let cb f = let v = int_of_f32 f in if v land 0x7fffffff > 0x7f800000 then 0x7fc00000 else v in
  match flatten arena [root] with
  | Err c -> Printf.bprintf b "flatten err %d" (int_of_nat c)
  | Ok (t, vm) ->
    Printf.bprintf b "vars"; List.iter (fun v -> Printf.bprintf b " %d" (int_of_nat v)) vm;
    let ((x', y'), z') = (match mat with Some m -> ftransform m x y z | None -> ((x, y), z)) in
    Printf.bprintf b " | xyz %d %d %d" (cb x') (cb y') (cb z');
    (match reg_tape_new n t.t_ops with
     | Err _ -> Printf.bprintf b " | out alloc-err"
     | Ok (rt, _) ->
       (match shape_point orc rt vm it mat x y z vars with
        | Err _ -> Printf.bprintf b " | out missing"
        | Ok [v] -> Printf.bprintf b " | out %d" (cb v)
        | Ok _ -> Printf.bprintf b " | out arity"));
    (* Shape::bind / ShapeVars::check over the same iteration order *)
    (match vars_check vars it with
     | None -> Printf.bprintf b " | bind ok"
     | Some w -> Printf.bprintf b " | bind %d" (int_of_nat w))


(* ---- C17: the scripting model ------------------------------------------------------- *)
let err_name = function
  | ETypeMismatch -> "type-mismatch" | EMissingField -> "missing-field" | EUnknownField -> "unknown-field"
  | EMissingArg -> "missing-arg" | EExtraArg -> "extra-arg" | ECompareTree -> "compare-tree"
  | ENoSuchFunction -> "no-such-function" | EVarNotFound -> "var-not-found" | EPropNotFound -> "prop-not-found"
  | EArith -> "arith" | EOutputType -> "output-type" | EParse -> "parse" | EInternal -> "internal" | EUnsupported -> "?"
let rec buf_etree b (t : z etree) =
  match t with
  | EX -> Buffer.add_string b "X" | EY -> Buffer.add_string b "Y" | EZ -> Buffer.add_string b "Z"
  | EVar v -> Printf.bprintf b "V%d" (int_of_nat v)
  | EConst c -> Printf.bprintf b "C%d" (let v = int_of_z c in if v land 0x7fffffff > 0x7f800000 then 0x7fc00000 else v)
  | EUn (u, a) -> Printf.bprintf b "U%d(" (index_of uops u); buf_etree b a; Buffer.add_char b ')'
  | EBin (o, l, r) -> Printf.bprintf b "B%d(" (index_of bops o); buf_etree b l; Buffer.add_char b ','; buf_etree b r; Buffer.add_char b ')'
  | ERemapAxes (t, x, y, z) -> Buffer.add_string b "R("; buf_etree b t; Buffer.add_char b ','; buf_etree b x; Buffer.add_char b ','; buf_etree b y; Buffer.add_char b ','; buf_etree b z; Buffer.add_char b ')'
  | ERemapAffine (t, m) -> Buffer.add_string b "A("; buf_etree b t; List.iter (fun c -> Printf.bprintf b ";%d" (let v = int_of_z c in if v land 0x7fffffff > 0x7f800000 then 0x7fc00000 else v)) m; Buffer.add_char b ')'
let c17 s b =
  (* tokens up to "|R" are the wire expression; then the rotation table *)
  let wire = Buffer.create 256 in
  let fin = ref false in
  while not !fin && not (at_end s) do
    let t = next_tok s in
    if t = "|R" then fin := true else begin (if Buffer.length wire > 0 then Buffer.add_char wire ' '); Buffer.add_string wire t end
  done;
  let n = if at_end s then 0 else next s in
  let table = times n (fun () ->
    let key = times 4 (fun () -> next s) in
    let m = times 9 (fun () -> next_f32 s) in (key, m)) in
  let miss = ref false in
  let rot (v : f32 vec3) (a : f32) : f32 list =
    let key = [int_of_f32 v.vx; int_of_f32 v.vy; int_of_f32 v.vz; int_of_f32 a] in
    match List.assoc_opt key table with Some m -> m | None -> miss := true; times 9 (fun () -> fnan) in
  match run_wire rot (coq_string (Buffer.contents wire)) with
  | None -> Printf.bprintf b "res wire-parse-error"
  | Some (_, r) ->
    (match r with
     | RErr e -> if !miss || e = EUnsupported then Printf.bprintf b "res ?" else Printf.bprintf b "res err | cls %s" (err_name e)
     | ROk t -> if !miss then Printf.bprintf b "res ?" else begin Printf.bprintf b "res "; buf_etree b t end)
let c17src s b =
  let wire = Stdlib.String.concat " " (Array.to_list (Array.sub s.toks 1 (Array.length s.toks - 1))) in
  match run_wire (fun _ _ -> []) (coq_string wire) with
  | None -> Printf.bprintf b "wire-parse-error"
  | Some (src, _) -> Buffer.add_string b (ocaml_string src)

(* ---- C18: view manipulation (fidget-gui Canvas2 / Canvas3), f32 instance ------------- *)
let c18 s b =
  let dim = next s in
  let orc = libm_oracle in
  let num = f32_num orc in
  let zz () = let x = next s in let y = next s in (z_of_int x, z_of_int y) in
  (* canonical bits: NaN -> 0x7fc00000, -0 -> +0 *)
  let cb f = let v = int_of_f32 f in
    if v land 0x7fffffff > 0x7f800000 then 0x7fc00000 else if v = 0x80000000 then 0 else v in
  let finite f = (int_of_f32 f) land 0x7f800000 <> 0x7f800000 in
  let pos_opt () = match next_tok s with "N" -> None | _ -> Some (zz ()) in
  let mode_of = function 1 -> Some Pan | 2 -> Some Rotate | _ -> None in
  if dim = 2 then begin
    let size = zz () in
    let n = next s in
    let c = ref (f_canvas2_new orc size) in
    let blown = ref false in
    for _ = 1 to n do
      let e = match next_tok s with
        | "I" -> let sz = zz () in
                 let cur = (match next_tok s with "N" -> None | _ -> let p = zz () in let d = next s in Some (p, d = 1)) in
                 let sc = next_f32 s in EInteract2 (sz, cur, sc)
        | "B" -> EBeginDrag2 (zz ())
        | "D" -> EDrag2 (zz ())
        | "E" -> EEndDrag2
        | "Z" -> let a = next_f32 s in let p = pos_opt () in EZoom2 (a, p)
        | "R" -> EResize2 (zz ())
        | t -> failwith ("c18 event " ^ t) in
      let (c', fl) = step2 num !c e in
      c := c';
      let v = c'.c2_view in
      let (cx, cy) = v.v2_center in
      if not (finite v.v2_scale && finite cx && finite cy) then blown := true;
      if !blown then Printf.bprintf b "! ; " else
      Printf.bprintf b "%s %d %d %d ; "
        (match fl with None -> "-" | Some true -> "1" | Some false -> "0") (cb cx) (cb cy) (cb v.v2_scale)
    done
  end else begin
    let (w, h) = zz () in let d = z_of_int (next s) in
    let n = next s in
    let c = ref (f_canvas3_new orc ((w, h), d)) in
    let tainted = ref false in
    let blown = ref false in
    for _ = 1 to n do
      let e = match next_tok s with
        | "I" -> let (w, h) = zz () in let d = z_of_int (next s) in
                 let cur = (match next_tok s with "N" -> None | _ -> let p = zz () in let m = next s in Some (p, mode_of m)) in
                 let sc = next_f32 s in EInteract3 (((w, h), d), cur, sc)
        | "B" -> let p = zz () in let m = next s in EBeginDrag3 (p, (if m = 2 then Rotate else Pan))
        | "D" -> EDrag3 (zz ())
        | "E" -> EEndDrag3
        | "Z" -> let a = next_f32 s in let p = pos_opt () in EZoom3 (a, p)
        | t -> failwith ("c18 event " ^ t) in
      let (c', fl) = step3 num !c e in
      c := c';
      let v = c'.c3_view in
      let ((cx, cy), cz) = v.v3_center in
      (* once yaw or pitch has been non-zero the matrix products of nalgebra and of the
         model round differently: the centre and the flags are then not compared *)
      let zooming = (match e with EInteract3 _ | EZoom3 _ -> true | _ -> false) in
      let rotated_by_now = !tainted || cb v.v3_yaw <> 0 || cb v.v3_pitch <> 0 in
      if not (finite v.v3_scale) || (not rotated_by_now && not (finite cx && finite cy && finite cz)) then blown := true;
      if !blown then Printf.bprintf b "! ; " else
      if !tainted || (zooming && (cb v.v3_yaw <> 0 || cb v.v3_pitch <> 0)) then
        Printf.bprintf b "? ~ ~ ~ %d %d %d ; " (cb v.v3_scale) (cb v.v3_yaw) (cb v.v3_pitch)
      else
        Printf.bprintf b "%s %d %d %d %d %d %d ; "
          (match fl with None -> "-" | Some true -> "1" | Some false -> "0")
          (cb cx) (cb cy) (cb cz) (cb v.v3_scale) (cb v.v3_yaw) (cb v.v3_pitch);
      if cb v.v3_yaw <> 0 || cb v.v3_pitch <> 0 then tainted := true
    done
  end

(* ---- C11: interpreter interval evaluation: value or panic ---------------------- *)
let c11 s b =
  let arena = parse_arena s in
  let nroots = next s in
  let roots = times nroots (fun () -> next_nat s) in
  let nvars = next s in
  let bx = Array.of_list (times nvars (fun () -> let l = next_f32 s in let u = next_f32 s in (l, u))) in
  let orc = libm_oracle in
  match flatten arena roots with
  | Err _ -> Printf.bprintf b "iv build"
  | Ok (t, vars) ->
    match reg_tape_new (nat_of_int 255) t.t_ops with
    | Err _ -> Printf.bprintf b "iv build"
    | Ok (rt, _) ->
      let ins = List.map (fun v -> let (l, u) = bx.(int_of_nat v) in mk_interval orc l u) vars in
      let (outs, _) = run_interval orc rt t.t_outputs ins in
      (* atan2 met with both argument intervals exactly zero (every node of the arena evaluated): its result depends on the
         signs of the zeros, which f32::min / max of two zeros (unspecified in Rust) decide; outside the model *)
      let atan00 =
        let n = List.length arena in
        let all = List.filter (fun i -> match List.nth arena i with NConst _ -> false | _ -> true) (List.init n (fun i -> i)) in
        match flatten arena (List.map nat_of_int all) with
        | Err _ -> false
        | Ok (t2, vars2) ->
          (match reg_tape_new (nat_of_int 255) t2.t_ops with
           | Err _ -> false
           | Ok (rt2, _) ->
             let ins2 = List.map (fun v -> let (l, u) = bx.(int_of_nat v) in mk_interval orc l u) vars2 in
             let (o2, _) = run_interval orc rt2 t2.t_outputs ins2 in
             let tbl = Hashtbl.create 64 in
             List.iteri (fun k i -> Hashtbl.replace tbl i (List.nth o2 k)) all;
             let zero i = match List.nth arena i with
               | NConst c -> let v = int_of_f32 c in v = 0 || v = 0x80000000
               | _ -> (match Hashtbl.find_opt tbl i with Some (Some iv) -> let z f = let v = int_of_f32 f in v = 0 || v = 0x80000000 in z iv.lo || z iv.hi | _ -> false) in
             (* a zero BOUND of either argument is enough: atan2 jumps by 2 pi with the sign of a zero first argument *)
             (* ... and the bit-hashing opcodes see the sign of a zero operand (the recorded finding hash-of-signed-zero) *)
             List.exists (fun nd -> match nd with
               | NBinary (bo, l, r) -> (bo = BAtan || bo = BMix) && (zero (int_of_nat l) || zero (int_of_nat r))
               | NUnary (u, a) -> u = URand && zero (int_of_nat a)
               | _ -> false) arena) in
      if atan00 then Printf.bprintf b "iv ?" else begin
      Printf.bprintf b "iv";
      if List.exists (fun o -> o = None) outs then Printf.bprintf b " panic"
      else List.iter (function Some i -> Printf.bprintf b " %d %d" (ib i.lo) (ib i.hi) | None -> ()) outs end

(* ---- C15: bytecode ------------------------------------------------------------ *)
let imm_bits (f : f32) : z = to_bits f
let imm_of_bits (x : z) : f32 = of_bits x

let c15 s b =
  let n = next_nat s in
  let arena = parse_arena s in
  let nroots = next s in
  let roots = times nroots (fun () -> next_nat s) in
  let nvars = next s in
  let npts = next s in
  let pts = times npts (fun () ->
    let skip = next s = 1 in
    let vals = Array.of_list (times nvars (fun () -> next_f32 s)) in (skip, vals)) in
  let orc = libm_oracle in
  match flatten arena roots with
  | Err _ -> Printf.bprintf b "build err"
  | Ok (t, vars) ->
    match reg_tape_new n t.t_ops with
    | Err _ -> Printf.bprintf b "build err"
    | Ok (rt, slots) ->
      match bytecode_new imm_bits n rt with
      | Err c -> Printf.bprintf b (if int_of_nat c = 61 then "bc reserved" else "bc err")
      | Ok ((words, regs), mems) ->
        Printf.bprintf b "reg %d " (int_of_nat slots); buf_tape b rt;
        Printf.bprintf b " | bc %d %d %d" (int_of_nat regs) (int_of_z mems) (List.length words);
        List.iter (fun w -> Printf.bprintf b " %d" (int_of_z w)) words;
        Printf.bprintf b " | pt";
        (* the documentation-only decoder + the generic evaluator *)
        (match decode imm_of_bits words with
         | None -> Printf.bprintf b " undecodable"
         | Some ops ->
           List.iter (fun (skip, vals) ->
             if skip then Printf.bprintf b " x" else begin
               let inputs = List.map (fun v -> vals.(int_of_nat v)) vars in
               let sem = f32_sem orc in
               let st = run_fwd sem inputs ops (init_state (fun _ -> fnan) (List.map (fun _ -> fnan) roots)) in
               buf_bits b st.m_out
             end) pts)

(* verified equivalence of the implementation's bytecode (decoded per the docs) and its register tape *)
let cmd_bcval s b =
  let reg = parse_tape s in
  let regs = next_nat s in let mems = next_nat s in
  let nw = next s in
  let words = times nw (fun () -> z_of_int (next s)) in
  match decode imm_of_bits words with
  | None -> Printf.bprintf b "bcval undecodable"
  | Some ops ->
    let eq = check_equiv f32_eqb (List.rev reg) ops in
    let bounds = List.for_all (fun o -> op_in_bounds regs mems o) ops in
    Printf.bprintf b "bcval %d bounds %d" (if eq then 1 else 0) (if bounds then 1 else 0)

(* Stage-A validator for a simplification: parent tape, trace (evaluation order), child tape *)
let cmd_sval s b =
  let parent = parse_tape s in
  let k = next s in
  let tr = times k (fun () -> code_choice (next s)) in
  let child = parse_tape s in
  Printf.bprintf b "sval %d wf %d" (if check_simplify f32_eqb parent tr child then 1 else 0)
    (if ssa_wf child then 1 else 0)

let dispatch cmd s b =
  match cmd with
  | "sval" -> cmd_sval s b
  | "c15" -> c15 s b
  | "c03" -> c03 s b
  | "c11" -> c11 s b
  | "c05" -> c05 s b
  | "c12" -> c12 s b
  | "c13" -> c13 s b
  | "c16" -> c16 s b
  | "c19" -> c19 s b
  | "c18" -> c18 s b
  | "c17" -> c17 s b
  | "c17src" -> c17src s b
  | "c14" -> c14 s b
  | "c09" -> c09 s b
  | "c08" -> c08 s b
  | "c06" -> c06 s b
  | "c07" -> c07 s b
  | "bcval" -> cmd_bcval s b
  | "c20" -> c20 s b
  | "c04" -> c04 s b
  | "c01" -> c01 s b
  | "val" -> cmd_val s b
  | _ -> Printf.bprintf b "unknown-command %s" cmd
