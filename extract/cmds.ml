(* cmds.ml — one function per case kind; each prints exactly what the Rust
   harness prints for the implementation. *)
open Model
open Driver

let sem_of (o : oracle) = f32_sem o

let c01 s b =
  let n = next_nat s in
  let arena = parse_arena s in
  let nroots = next s in
  let roots = times nroots (fun () -> next_nat s) in
  let nvars = next s in
  let npts = next s in
  let pts = times npts (fun () ->
    let skip = next s = 1 in
    let vals = Array.of_list (times nvars (fun () -> next_f32 s)) in
    (skip, vals)) in
  let orc = parse_oracle s in
  match flatten arena roots with
  | Err c -> Printf.bprintf b "ssa err %d" (int_of_nat c)
  | Ok (t, vars) ->
    Printf.bprintf b "ssa "; buf_tape b t.t_ops;
    Printf.bprintf b " cc %d oc %d | vars %d" (int_of_nat t.t_choices) (int_of_nat t.t_outputs) (List.length vars);
    List.iter (fun v -> Printf.bprintf b " %d" (int_of_nat v)) vars;
    (match reg_tape_new n t.t_ops with
     | Err _ -> Printf.bprintf b " | reg err | pt err | sl err"
     | Ok (rt, slots) ->
       Printf.bprintf b " | reg %d " (int_of_nat slots); buf_tape b rt;
       let section name =
         Printf.bprintf b " | %s" name;
         List.iter (fun (skip, vals) ->
           if skip then Printf.bprintf b " x"
           else if name = "sl" && vars = [] then Printf.bprintf b " novars"
           else begin
             let inputs = List.map (fun v -> vals.(int_of_nat v)) vars in
             let (outs, _) = run_point orc rt t.t_outputs inputs in
             buf_bits b outs
           end) pts in
       section "pt"; section "sl");
    Printf.bprintf b " | ref";
    List.iter (fun (skip, vals) ->
      if skip then Printf.bprintf b " x"
      else begin
        let env v = let i = int_of_nat v in if i < Array.length vals then vals.(i) else fnan in
        let all = Array.of_list (arena_eval (sem_of orc) arena env) in
        List.iter (fun r -> Printf.bprintf b " %d" (int_of_f32 all.(int_of_nat r))) roots
      end) pts

(* Stage-A validator on a (ssa tape, register tape) pair, e.g. the implementation's own *)
let cmd_val s b =
  let ssa = parse_tape s in
  let reg = parse_tape s in
  Printf.bprintf b "val %d wf %d" (if check_alloc f32_eqb ssa reg then 1 else 0) (if ssa_wf ssa then 1 else 0)

let dispatch cmd s b =
  match cmd with
  | "c01" -> c01 s b
  | "val" -> cmd_val s b
  | _ -> Printf.bprintf b "unknown-command %s" cmd
