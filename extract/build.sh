#!/bin/sh
# Extract the model and build the runner.  Run from anywhere.
set -e
cd "$(dirname "$0")"
coqc -Q ../coq/theories FV -Q ../coq/gen FVGen Extract.v >/dev/null
ocamlfind ocamlopt -w -a -O3 -o runner libm_stubs.c model.mli model.ml driver.ml cmds.ml main.ml -cclib -lm 2>/dev/null \
  || ocamlfind ocamlopt -w -a -o runner libm_stubs.c model.mli model.ml driver.ml cmds.ml main.ml -cclib -lm
