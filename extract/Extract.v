(* Extraction of the executable model.  ExtrOcamlBasic only: Extract Inductive for
   bool option unit list prod sumbool sumor, Extract Inlined Constant andb/orb.
   No Extract Constant of our own; Z, positive, N, nat stay inductive. *)
From Coq Require Import ExtrOcamlBasic.
From FV Require Import F32 Ops Tape Lru Alloc Flatten F32Sem CtxEval Run01 Validate F32Eq SsaWf Simplify Interval F32Interval SimplifyValidate Bytecode Equiv FlattenPass2 Grad Ctx Expr Shapes Shapes32 Solver Solver32 View View32 ShapeEval ShapeCheck ShapeEval32 Sched Render2 Render3 Render32 MeshCheck Script.
Extraction Language OCaml.
Extraction "model.ml"
  of_bits to_bits f32_sem reg_tape_new flatten arena_eval run_point eval_tape
  lru_new lru_poke lru_pop check_alloc f32_eqb ssa_wf run_interval mk_interval trace_useful fsimplify reg_tape_alloc check_simplify bytecode_new decode check_equiv op_in_bounds run_fwd init_state itransform f32_fl arena_okb f32_grad_sem constant var op_unary build_bin import import_tree mk3 s_circle s_rectangle s_sphere s_box s_plane s_union s_intersection s_inverse s_difference s_blend s_move s_scale s_scale_uniform s_rotate s_reflect s_reflect_x s_reflect_y s_reflect_z s_reflect_xy s_revolve_y s_extrude_z s_loft_z s_repeat_x s_named_plane seed samples f_run2 f_run3 f_canvas2_new f_canvas3_new f_view2_w2m f_view3_w2m ftransform shape_point raster_task_count octree_task_count render2_32 render3_32 rtape_of geval_pt check_mesh run_wire vars_check done32.
