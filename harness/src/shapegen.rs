//! Random shapes for the rendering / meshing checks: CSG of fidget-shapes primitives with
//! transforms, random expression DAGs without free variables, and the bundled models.
use crate::dag::*;
use crate::rng::*;
use fidget_core::context::{Context, Node, Tree};
use fidget_shapes::types::{Vec2, Vec3};
use fidget_shapes::*;

pub struct GenShape { pub ctx: Context, pub root: Node, pub kind: &'static str }

fn r1(r: &mut Rng, lo: f32, hi: f32) -> f32 { lo + (hi - lo) * r.unit() as f32 }

fn prim2(r: &mut Rng) -> Tree {
    match r.below(3) {
        0 => Circle { center: Vec2::new(r1(r, -0.7, 0.7), r1(r, -0.7, 0.7)), radius: r1(r, 0.1, 0.6) }.into(),
        1 => { let (x, y) = (r1(r, -0.8, 0.4), r1(r, -0.8, 0.4)); Rectangle { lower: Vec2::new(x, y), upper: Vec2::new(x + r1(r, 0.1, 0.8), y + r1(r, 0.1, 0.8)) }.into() }
        _ => { let c: Tree = Circle { center: Vec2::new(r1(r, -0.5, 0.5), r1(r, -0.5, 0.5)), radius: r1(r, 0.3, 0.6) }.into();
               RotateZ { shape: c.clone() , angle: r1(r, 0.0, 360.0), center: Vec3::new(0.0, 0.0, 0.0) }.into() }
    }
}
fn prim3(r: &mut Rng, inside_unit: bool) -> Tree {
    let m = if inside_unit { 0.45 } else { 0.8 };
    match r.below(5) {
        // a ball whose squared distance is written as the expanded polynomial: on coarse cells the
        // interval of the polynomial dips below zero and sqrt gives the NaN interval (undecided, not empty)
        3 => { let c = [r1(r, -m, m), r1(r, -m, m), r1(r, -m, m)]; let rad = r1(r, 0.2, 0.45);
               let (x, y, z) = Tree::axes();
               let q = x.square() + y.square() + z.square() - x * (2.0 * c[0]) - y * (2.0 * c[1]) - z * (2.0 * c[2]) + (c[0] * c[0] + c[1] * c[1] + c[2] * c[2]);
               q.sqrt() - rad }
        // the exact box distance length(max(q, 0)) + min(max(q.x, q.y, q.z), 0): the gradient of sqrt at 0 is NaN on the faces
        4 => { let c = [r1(r, -0.3, 0.3), r1(r, -0.3, 0.3), r1(r, -0.3, 0.3)]; let hsz = [r1(r, 0.15, 0.4), r1(r, 0.15, 0.4), r1(r, 0.15, 0.4)];
               let (x, y, z) = Tree::axes();
               let q = [(x - c[0]).abs() - hsz[0], (y - c[1]).abs() - hsz[1], (z - c[2]).abs() - hsz[2]];
               let outside = (q[0].max(0.0).square() + q[1].max(0.0).square() + q[2].max(0.0).square()).sqrt();
               let inside = q[0].max(q[1].clone()).max(q[2].clone()).min(0.0);
               outside + inside + 0.02 }
        0 => Sphere { center: Vec3::new(r1(r, -m, m), r1(r, -m, m), r1(r, -m, m)), radius: r1(r, 0.15, 0.45) }.into(),
        1 => { let (x, y, z) = (r1(r, -m, 0.1), r1(r, -m, 0.1), r1(r, -m, 0.1));
               fidget_shapes::Box { lower: Vec3::new(x, y, z), upper: Vec3::new(x + r1(r, 0.15, 0.45), y + r1(r, 0.15, 0.45), z + r1(r, 0.15, 0.45)) }.into() }
        _ => { let s: Tree = Sphere { center: Vec3::new(0.0, 0.0, 0.0), radius: r1(r, 0.2, 0.4) }.into();
               Scale { shape: s, scale: Vec3::new(r1(r, 0.5, 1.2), r1(r, 0.5, 1.2), r1(r, 0.5, 1.2)) }.into() }
    }
}

fn csg(r: &mut Rng, depth: usize, three: bool, inside_unit: bool) -> Tree {
    if depth == 0 || r.chance(0.25) { return if three { prim3(r, inside_unit) } else { prim2(r) }; }
    let a = csg(r, depth - 1, three, inside_unit);
    let b = csg(r, depth - 1, three, inside_unit);
    match r.below(5) {
        0 | 1 => Union { input: vec![a, b] }.into(),
        2 => Intersection { input: vec![a, b] }.into(),
        3 => Difference { shape: a, cutout: b }.into(),
        _ => { let k = r1(r, 0.05, 0.25); Blend { a, b, radius: k }.into() }
    }
}

/// A 2D or 3D CSG shape. `inside_unit`: keep the surface strictly inside (-1,1)^3 (for meshing).
pub fn gen_csg(r: &mut Rng, three: bool, inside_unit: bool) -> GenShape {
    let d = r.range(0, 3);
    let t = csg(r, d, three, inside_unit);
    let mut ctx = Context::new();
    let root = ctx.import(&t);
    GenShape { ctx, root, kind: if three { "csg3" } else { "csg2" } }
}

/// A random expression over X, Y, Z only (choice-heavy half of the time).
pub fn gen_expr(r: &mut Rng) -> GenShape {
    let cfg = DagCfg { max_ops: 30, max_outputs: 1, max_free_vars: 0, p_const_operand: 0.25, p_special_const: 0.0, p_recent: 0.5,
                       choice_heavy: r.chance(0.6), no_hash: true, const_roots: false, choice_chain: if r.chance(0.4) { r.range(1, 5) } else { 0 } };
    let d = gen_dag(r, &cfg);
    GenShape { root: d.roots[0], ctx: d.ctx, kind: "expr" }
}

pub fn bundled(name: &str) -> GenShape {
    let path = format!("/repo/models/{name}");
    let text = std::fs::read(&path).expect("bundled model");
    let (ctx, root) = Context::from_text(&text[..]).unwrap();
    GenShape { ctx, root, kind: "bundled" }
}

/// Polyhedral shapes centred at the origin with bounding radius below 0.95, meant to be meshed through a PURE rotation
/// (oblique creases and thin walls relative to the grid: where cell collapse and two-sheet leaves meet).
pub fn gen_oblique(r: &mut Rng) -> GenShape {
    let bx = |r: &mut Rng, hx: f32, hy: f32, hz: f32| -> Tree { let _ = r; fidget_shapes::Box { lower: Vec3::new(-hx, -hy, -hz), upper: Vec3::new(hx, hy, hz) }.into() };
    let t: Tree = match r.below(5) {
        // a plain box (the round-2 witness: 1.0 x 0.6 x 0.8)
        0 => { let (a, b, c) = (r1(r, 0.25, 0.52), r1(r, 0.2, 0.5), r1(r, 0.2, 0.5)); bx(r, a, b, c) }
        // a thin slab or blade
        1 => { let (a, b) = (r1(r, 0.3, 0.6), r1(r, 0.3, 0.6)); let c = r1(r, 0.03, 0.12); bx(r, a, b, c) }
        // a box with a slot cut out (thin walls)
        2 => { let o = bx(r, 0.5, 0.4, 0.4); let w = r1(r, 0.05, 0.25); let c = bx(r, w, 0.6, 0.25); Difference { shape: o, cutout: c }.into() }
        // two crossing boxes (stairs / cross)
        3 => { let (a, b) = (r1(r, 0.15, 0.3), r1(r, 0.15, 0.3)); let p = bx(r, 0.55, a, b); let q = bx(r, a, 0.55, b * 0.7); Union { input: vec![p, q] }.into() }
        // a box clipped by a ball (curved and flat faces meeting in a crease)
        _ => { let o = bx(r, 0.5, 0.45, 0.4); let s: Tree = Sphere { center: Vec3::new(0.0, 0.0, 0.0), radius: r1(r, 0.5, 0.7) }.into(); Intersection { input: vec![o, s] }.into() }
    };
    let mut ctx = Context::new();
    let root = ctx.import(&t);
    GenShape { ctx, root, kind: "oblique" }
}
