//! C18: view manipulation (fidget-gui Canvas2 / Canvas3): zoom keeps the point under the
//! cursor, panning tracks the grab, `changed` flags are honest, rotation stays in range.
//! Random event sequences (callback mode and immediate mode mixed), arbitrary image sizes,
//! integer cursor positions (also off-screen), scroll amounts that are and are not multiples
//! of 100.  The f32 instance of the Coq model replays the same events bit for bit (after a
//! rotation only scale / yaw / pitch are compared, see cmds.ml); the oracle below checks the
//! property itself on the implementation, in f64.
use crate::rng::*;
use fidget_core::render::{ImageSize, VoxelSize};
use fidget_gui::{Canvas2, Canvas3, CursorState, DragMode, View2, View3};
use nalgebra::{Point2, Point3};
use std::collections::BTreeMap;
use std::fmt::Write as _;

fn cb(f: f32) -> u32 { if f.is_nan() { 0x7fc00000 } else if f.to_bits() == 0x8000_0000 { 0 } else { f.to_bits() } }

fn gen_size(r: &mut Rng) -> u32 {
    match r.below(4) { 0 => *r.pick(&[64u32, 128, 256, 512, 1024]), 1 => r.range(1, 40) as u32, _ => r.range(50, 2000) as u32 }
}
fn gen_pos(r: &mut Rng, w: u32, h: u32) -> (i32, i32) {
    if r.chance(0.1) { (r.range(0, 300) as i32 - 150, r.range(0, 3000) as i32 - 500) }
    else { (r.below(w as usize + 1) as i32, r.below(h as usize + 1) as i32) }
}
fn gen_scroll(r: &mut Rng) -> f32 {
    // rarely: a scroll so large that the scale saturates (0 or infinity)
    if r.chance(0.06) { let m = r.range(5000, 30000) as f32; return if r.chance(0.6) { -m } else { m }; }
    match r.below(6) { 0 => 0.0, 1 => 100.0 * (r.range(0, 6) as f32 - 3.0), 2 => (r.unit() * 400.0 - 200.0) as f32,
        3 => *r.pick(&[1.0f32, -1.0, 50.0, -50.0, 37.5, 250.0, -0.0]), 4 => 0.0, _ => (r.range(0, 40) as f32 - 20.0) * 10.0 }
}

fn close(a: f64, b: f64, scale: f64) -> bool { (a - b).abs() <= 2e-4 * (1.0 + scale) }

pub fn run(seed: u64, count: usize, outdir: &str) -> std::io::Result<i32> {
    let mut rng = Rng::new(seed ^ 0xC18);
    let (mut cases, mut impls, mut oracle) = (String::new(), String::new(), String::new());
    let mut fails = 0usize;
    let mut hist: BTreeMap<String, usize> = BTreeMap::new();
    let mut distinct = std::collections::BTreeSet::new();
    let mut samples_out: Vec<String> = vec![];
    for ci in 0..count {
        let mut r = rng.fork();
        let three = ci % 2 == 1;
        let n = r.range(3, 14);
        let mut bad: Vec<String> = vec![];
        let mut line;
        let mut il = String::new();
        if !three {
            let (mut w, mut h) = (gen_size(&mut r), gen_size(&mut r));
            line = format!("c18 2 {w} {h} {n}");
            let mut c = Canvas2::new(ImageSize::new(w, h));
            let mut blown = false; // the scale has been infinite / NaN: nalgebra's 0 * inf terms are not modelled
            let mut grab: Option<(Point2<f32>, f32)> = None; // model point under the grab, scale at grab time
            for _ in 0..n {
                let before = c.view();
                let had_drag = grab.is_some();
                let k = r.below(10);
                let flag: Option<bool>;
                let mut zoom_at: Option<(i32, i32)> = None;
                let mut dragged_to: Option<(i32, i32)> = None;
                match k {
                    0 | 1 => { // immediate mode
                        if r.chance(0.3) { w = gen_size(&mut r); h = gen_size(&mut r); }
                        let cur = if r.chance(0.15) { None } else { let p = gen_pos(&mut r, w, h); Some((p, r.chance(0.6))) };
                        let sc = if r.chance(0.5) { 0.0 } else { gen_scroll(&mut r) };
                        write!(line, " I {w} {h} {} {}", match cur { None => "N".to_string(), Some((p, d)) => format!("C {} {} {}", p.0, p.1, d as u8) }, sc.to_bits()).unwrap();
                        *hist.entry("interact2".into()).or_default() += 1;
                        if let Some((p, true)) = cur {
                            if !had_drag { let wpt = ImageSize::new(w, h).transform_point(Point2::new(p.0, p.1)); grab = Some((before.transform_point(&wpt), before.components().1)); }
                            dragged_to = Some(p);
                        } else { grab = None; }
                        if let Some((p, _)) = cur { zoom_at = Some(p); }
                        flag = Some(c.interact(ImageSize::new(w, h), cur.map(|(p, d)| CursorState { screen_pos: Point2::new(p.0, p.1), drag: d }), sc));
                        if sc != 0.0 { dragged_to = None; if c.view().components().1 != before.components().1 { if grab.is_some() { grab = Some((Point2::new(f32::NAN, f32::NAN), 0.0)); } } }
                        else { zoom_at = None; }
                    }
                    2 | 3 => { let p = gen_pos(&mut r, w, h); write!(line, " B {} {}", p.0, p.1).unwrap();
                        if !had_drag { let wpt = ImageSize::new(w, h).transform_point(Point2::new(p.0, p.1)); grab = Some((before.transform_point(&wpt), before.components().1)); }
                        c.begin_drag(Point2::new(p.0, p.1)); flag = None; *hist.entry("begin_drag2".into()).or_default() += 1; }
                    4 | 5 | 6 => { let p = gen_pos(&mut r, w, h); write!(line, " D {} {}", p.0, p.1).unwrap();
                        flag = Some(c.drag(Point2::new(p.0, p.1))); if had_drag { dragged_to = Some(p); }
                        *hist.entry(if had_drag { "drag2-active" } else { "drag2-idle" }.into()).or_default() += 1; }
                    7 => { write!(line, " E").unwrap(); c.end_drag(); grab = None; flag = None; *hist.entry("end_drag2".into()).or_default() += 1; }
                    8 => { let a = gen_scroll(&mut r); let p = if r.chance(0.75) { Some(gen_pos(&mut r, w, h)) } else { None };
                        write!(line, " Z {} {}", a.to_bits(), match p { None => "N".to_string(), Some(p) => format!("P {} {}", p.0, p.1) }).unwrap();
                        flag = Some(c.zoom(a, p.map(|p| Point2::new(p.0, p.1)))); zoom_at = p;
                        if c.view().components().1 != before.components().1 && grab.is_some() { grab = Some((Point2::new(f32::NAN, f32::NAN), 0.0)); }
                        *hist.entry(if p.is_some() { "zoom2-at-cursor" } else { "zoom2-centre" }.into()).or_default() += 1; }
                    _ => { w = gen_size(&mut r); h = gen_size(&mut r); write!(line, " R {w} {h}").unwrap(); c.resize(ImageSize::new(w, h)); flag = None;
                        *hist.entry("resize2".into()).or_default() += 1; }
                }
                let after = c.view();
                let (ctr, sc) = after.components();
                if !(sc.is_finite() && ctr.x.is_finite() && ctr.y.is_finite()) { blown = true; }
                if blown { write!(il, "! ; ").unwrap(); }
                else { write!(il, "{} {} {} {} ; ", match flag { None => "-", Some(true) => "1", Some(false) => "0" }, cb(ctr.x), cb(ctr.y), cb(sc)).unwrap(); }
                // ---- the property on the implementation
                let moved = after != before;
                let has_nan = { let (a, b) = (after.components(), before.components()); a.0.x.is_nan() || a.0.y.is_nan() || a.1.is_nan() || b.0.x.is_nan() || b.0.y.is_nan() || b.1.is_nan() };
                if !has_nan { match flag { Some(f) if f != moved => bad.push(format!("kind=changed-flag-2d returned {f} but view {}", if moved { "changed" } else { "did not change" })),
                             None if moved => bad.push("kind=silent-change-2d a call without a flag changed the view".into()), _ => {} } }
                let mag = |v: &View2| { let (c, s) = v.components(); (c.x.abs() + c.y.abs() + s.abs()) as f64 };
                if let Some(p) = zoom_at {
                    let wpt = ImageSize::new(w, h).transform_point(Point2::new(p.0, p.1));
                    // after a drag step in the same interact call the reference view is the dragged one: only judge pure zooms
                    if dragged_to.is_none() && !(k <= 1 && had_drag) {
                        let (a, b) = (before.transform_point(&wpt), after.transform_point(&wpt));
                        let m = mag(&before) + mag(&after) + (wpt.x.abs() + wpt.y.abs()) as f64 * (before.components().1.abs() + after.components().1.abs()) as f64;
                        if m.is_finite() && m < 1e12 && (!close(a.x as f64, b.x as f64, m) || !close(a.y as f64, b.y as f64, m)) {
                            bad.push(format!("kind=zoom-moves-cursor-point-2d ({}, {}) -> ({}, {})", a.x, a.y, b.x, b.y)); }
                    }
                }
                if let (Some(p), Some((g, gs))) = (dragged_to, grab) {
                    if !g.x.is_nan() && gs == after.components().1 {
                        let wpt = ImageSize::new(w, h).transform_point(Point2::new(p.0, p.1));
                        let now = after.transform_point(&wpt);
                        let m = mag(&after) + (g.x.abs() + g.y.abs()) as f64 + (wpt.x.abs() + wpt.y.abs()) as f64 * after.components().1.abs() as f64;
                        if m.is_finite() && m < 1e12 && (!close(now.x as f64, g.x as f64, m) || !close(now.y as f64, g.y as f64, m)) {
                            bad.push(format!("kind=pan-loses-grab-2d grabbed ({}, {}) now ({}, {})", g.x, g.y, now.x, now.y)); }
                    }
                }
            }
        } else {
            let (mut w, mut h, mut d) = (gen_size(&mut r), gen_size(&mut r), gen_size(&mut r));
            line = format!("c18 3 {w} {h} {d} {n}");
            let allow_rot = r.chance(0.5);
            let mut c = Canvas3::new(VoxelSize::new(w, h, d));
            let mut tainted = false;
            let mut blown = false;
            let mut mode: Option<DragMode> = None;
            for _ in 0..n {
                let before = c.view();
                let k = r.below(9);
                let flag: Option<bool>;
                let mut pure_zoom_at: Option<(i32, i32)> = None;
                let gm = |r: &mut Rng| if allow_rot && r.chance(0.5) { DragMode::Rotate } else { DragMode::Pan };
                let mut rotated = false;
                match k {
                    0 | 1 => {
                        if r.chance(0.3) { w = gen_size(&mut r); h = gen_size(&mut r); d = gen_size(&mut r); }
                        let cur = if r.chance(0.15) { None } else { let p = gen_pos(&mut r, w, h); Some((p, if r.chance(0.6) { Some(gm(&mut r)) } else { None })) };
                        let sc = if r.chance(0.5) { 0.0 } else { gen_scroll(&mut r) };
                        let mcode = |m: Option<DragMode>| match m { None => 0, Some(DragMode::Pan) => 1, Some(DragMode::Rotate) => 2 };
                        write!(line, " I {w} {h} {d} {} {}", match cur { None => "N".to_string(), Some((p, m)) => format!("C {} {} {}", p.0, p.1, mcode(m)) }, sc.to_bits()).unwrap();
                        match cur { Some((_, Some(m))) => { if mode.is_none() { mode = Some(m); } rotated = matches!(mode, Some(DragMode::Rotate)); }, _ => mode = None }
                        let dragging = matches!(cur, Some((_, Some(_))));
                        if let (Some((p, _)), false) = (cur, dragging) { if sc != 0.0 { pure_zoom_at = Some(p); } }
                        flag = Some(c.interact(VoxelSize::new(w, h, d), cur.map(|(p, m)| CursorState { screen_pos: Point2::new(p.0, p.1), drag: m }), sc));
                        *hist.entry("interact3".into()).or_default() += 1;
                    }
                    2 | 3 => { let p = gen_pos(&mut r, w, h); let m = gm(&mut r); write!(line, " B {} {} {}", p.0, p.1, if matches!(m, DragMode::Rotate) { 2 } else { 1 }).unwrap();
                        if mode.is_none() { mode = Some(m); }
                        c.begin_drag(Point2::new(p.0, p.1), m); flag = None;
                        *hist.entry(if matches!(m, DragMode::Rotate) { "begin_rotate3" } else { "begin_pan3" }.into()).or_default() += 1; }
                    4 | 5 | 6 => { let p = gen_pos(&mut r, w, h); write!(line, " D {} {}", p.0, p.1).unwrap();
                        flag = Some(c.drag(Point2::new(p.0, p.1))); rotated = matches!(mode, Some(DragMode::Rotate));
                        *hist.entry(match mode { None => "drag3-idle", Some(DragMode::Pan) => "drag3-pan", Some(DragMode::Rotate) => "drag3-rotate" }.into()).or_default() += 1; }
                    7 => { write!(line, " E").unwrap(); c.end_drag(); mode = None; flag = None; *hist.entry("end_drag3".into()).or_default() += 1; }
                    _ => { let a = gen_scroll(&mut r); let p = if r.chance(0.75) { Some(gen_pos(&mut r, w, h)) } else { None };
                        write!(line, " Z {} {}", a.to_bits(), match p { None => "N".to_string(), Some(p) => format!("P {} {}", p.0, p.1) }).unwrap();
                        flag = Some(c.zoom(a, p.map(|p| Point2::new(p.0, p.1)))); pure_zoom_at = p;
                        *hist.entry(if p.is_some() { "zoom3-at-cursor" } else { "zoom3-centre" }.into()).or_default() += 1; }
                }
                let after = c.view();
                let (ctr, sc, yaw, pitch) = after.components();
                // (once yaw or pitch has been non-zero the centre is not compared, and the model's own centre rounds differently: only the
                //  scale decides whether the view has left the finite range from then on)
                let rotated_by_now = tainted || cb(yaw) != 0 || cb(pitch) != 0;
                if !sc.is_finite() || (!rotated_by_now && !(ctr.x.is_finite() && ctr.y.is_finite() && ctr.z.is_finite())) { blown = true; }
                if blown { write!(il, "! ; ").unwrap(); }
                else if tainted || ((k <= 1 || k >= 8) && (cb(yaw) != 0 || cb(pitch) != 0)) { write!(il, "? ~ ~ ~ {} {} {} ; ", cb(sc), cb(yaw), cb(pitch)).unwrap(); }
                else { write!(il, "{} {} {} {} {} {} {} ; ", match flag { None => "-", Some(true) => "1", Some(false) => "0" }, cb(ctr.x), cb(ctr.y), cb(ctr.z), cb(sc), cb(yaw), cb(pitch)).unwrap(); }
                if cb(yaw) != 0 || cb(pitch) != 0 { if !tainted { *hist.entry("sequences-with-rotation".into()).or_default() += 1; } tainted = true; }
                // ---- the property on the implementation
                let moved = after != before;
                let has_nan = { let (a, b) = (after.components(), before.components()); [a.0.x, a.0.y, a.0.z, a.1, a.2, a.3, b.0.x, b.0.y, b.0.z, b.1, b.2, b.3].iter().any(|v| v.is_nan()) };
                if !has_nan { match flag { Some(f) if f != moved => bad.push(format!("kind=changed-flag-3d returned {f} but view {}", if moved { "changed" } else { "did not change" })),
                             None if moved => bad.push("kind=silent-change-3d a call without a flag changed the view".into()), _ => {} } }
                if !(0.0..=std::f32::consts::PI).contains(&pitch) && !pitch.is_nan() { bad.push(format!("kind=pitch-out-of-range {pitch}")); }
                if !(yaw.abs() < std::f32::consts::TAU) && !yaw.is_nan() { bad.push(format!("kind=yaw-out-of-range {yaw}")); }
                if rotated && !has_nan && (4..=6).contains(&k) && (after.components().0 != before.components().0 || sc != before.components().1) {
                    bad.push("kind=rotate-moves-centre-or-scale".into());
                }
                if let Some(p) = pure_zoom_at {
                    let wpt = VoxelSize::new(w, h, d).transform_point(Point3::new(p.0, p.1, 0));
                    let (a, b) = (before.transform_point(&wpt), after.transform_point(&wpt));
                    let mag = |v: &View3| { let (c, s, _, _) = v.components(); (c.x.abs() + c.y.abs() + c.z.abs() + s.abs()) as f64 };
                    let m = mag(&before) + mag(&after) + (wpt.x.abs() + wpt.y.abs() + wpt.z.abs()) as f64 * (before.components().1.abs() + after.components().1.abs()) as f64;
                    if m.is_finite() && m < 1e12 && (!close(a.x as f64, b.x as f64, m) || !close(a.y as f64, b.y as f64, m) || !close(a.z as f64, b.z as f64, m)) {
                        bad.push(format!("kind=zoom-moves-cursor-point-3d ({}, {}, {}) -> ({}, {}, {})", a.x, a.y, a.z, b.x, b.y, b.z)); }
                }
                // world_to_model is translation * rotation * scale (f64 recomputation on a probe point)
                {
                    let q = Point3::new(0.25f32, -0.5, 0.75);
                    let got = after.transform_point(&q);
                    let (s, y, p) = (sc as f64, yaw as f64, pitch as f64);
                    let v = [s * 0.25, s * -0.5, s * 0.75];
                    let v1 = [v[0], p.cos() * v[1] - p.sin() * v[2], p.sin() * v[1] + p.cos() * v[2]];
                    let v2 = [y.cos() * v1[0] - y.sin() * v1[1], y.sin() * v1[0] + y.cos() * v1[1], v1[2]];
                    let want = [v2[0] + ctr.x as f64, v2[1] + ctr.y as f64, v2[2] + ctr.z as f64];
                    let m = (ctr.x.abs() + ctr.y.abs() + ctr.z.abs()) as f64 + s.abs();
                    if m.is_finite() && m < 1e12 && (!close(got.x as f64, want[0], m) || !close(got.y as f64, want[1], m) || !close(got.z as f64, want[2], m)) {
                        bad.push(format!("kind=not-translation-rotation-scale got ({}, {}, {}) want ({}, {}, {})", got.x, got.y, got.z, want[0], want[1], want[2])); }
                }
            }
        }
        distinct.insert(line.clone());
        cases.push_str(&line); cases.push('\n');
        impls.push_str(il.trim_end()); impls.push('\n');
        for m in &bad { fails += 1; writeln!(oracle, "FAIL case={ci} {m}").unwrap(); }
        if samples_out.len() < 3 { samples_out.push(line.clone()); }
    }
    std::fs::write(format!("{outdir}/cases.txt"), cases)?;
    std::fs::write(format!("{outdir}/impl.txt"), impls)?;
    std::fs::write(format!("{outdir}/oracle.txt"), oracle)?;
    let mut js = String::from("{");
    write!(js, "\"cases\": {count}, \"distinct_nontrivial\": {}, ", distinct.len()).unwrap();
    write!(js, "\"events\": {{{}}}, ", hist.iter().map(|(k, v)| format!("\"{k}\": {v}")).collect::<Vec<_>>().join(", ")).unwrap();
    write!(js, "\"samples\": [{}], ", samples_out.iter().map(|s| format!("{s:?}")).collect::<Vec<_>>().join(", ")).unwrap();
    write!(js, "\"oracle_fails\": {fails}}}").unwrap();
    std::fs::write(format!("{outdir}/stats.json"), js)?;
    Ok(if fails > 0 { 1 } else { 0 })
}
