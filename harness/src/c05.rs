//! C05: gradient evaluation returns the partial derivatives of the expression.
//! Every non-constant node is exported.  The interpreter's grad-slice results are
//! compared bit-for-bit with the Coq model; the oracle checks (per node, from the
//! operand duals the evaluator itself reported) the chain rule in f64, the value lane
//! against the point evaluator, and the symbolic derivative, for interpreter and JIT,
//! with arbitrary (non-unit) input seeds.
use crate::c01::fmt_bits;
use crate::c03::{all_nodes, op_name};
use crate::c04::*;
use crate::dag::*;
use crate::rng::*;
use crate::wire::*;
use fidget_core::context::{BinaryOpcode, Node, Op, UnaryOpcode};
use fidget_core::eval::{BulkEvaluator, Function, MathFunction};
use fidget_core::types::Grad;
use fidget_core::var::Var;
use fidget_core::vm::{GenericVmFunction, VmTrace};
use fidget_jit::JitFunction;
use std::collections::{BTreeMap, HashMap};
use std::fmt::Write as _;
use std::panic::{catch_unwind, AssertUnwindSafe};

pub fn grad_eval<F: Function<Trace = VmTrace>>(f: &F, vs: &[Var], pts: &[Vec<f32>], seeds: &[Vec<[f32; 3]>]) -> Result<Vec<Vec<Grad>>, String> {
    // rows = points, columns = outputs
    catch_unwind(AssertUnwindSafe(|| {
        let order = var_order(f);
        if order.is_empty() { return vec![]; }
        let cols: Vec<Vec<Grad>> = order.iter().map(|v| {
            let k = var_id(*v, vs) as usize;
            pts.iter().zip(seeds).map(|(p, s)| Grad::new(p[k], s[k][0], s[k][1], s[k][2])).collect()
        }).collect();
        let tape = f.grad_slice_tape(Default::default());
        let mut e = F::new_grad_slice_eval();
        let out = e.eval(&tape, &cols).unwrap();
        let no = f.output_count();
        (0..pts.len()).map(|k| (0..no).map(|o| out[o][k]).collect()).collect()
    })).map_err(|_| "panic".to_string())
}

fn gbits(g: &Grad) -> String { format!("{} {} {} {}", canon_bits(g.v), canon_bits(g.dx), canon_bits(g.dy), canon_bits(g.dz)) }

#[derive(Clone, Copy)]
struct D { v: f64, d: [f64; 3] }
fn dual(g: &Grad) -> D { D { v: g.v as f64, d: [g.dx as f64, g.dy as f64, g.dz as f64] } }

/// f64 chain rule for one op from operand duals; None when the point is on / near a
/// non-differentiable locus or outside the magnitude window of the search.
fn expect_un(u: UnaryOpcode, a: D) -> Option<(D, f64)> {
    use UnaryOpcode::*;
    let big = 1e15;
    if !a.v.is_finite() || a.v.abs() > big || a.d.iter().any(|x| !x.is_finite() || x.abs() > big) { return None; }
    let near_int = (a.v - a.v.round()).abs() < 1e-3 * (1.0 + a.v.abs());
    let (v, k): (f64, f64) = match u {
        Neg => (-a.v, -1.0),
        Abs => { if a.v.abs() < 1e-4 { return None; } (a.v.abs(), a.v.signum()) }
        Recip => { if a.v.abs() < 1e-6 { return None; } (1.0 / a.v, -1.0 / (a.v * a.v)) }
        Sqrt => { if a.v < 1e-6 { return None; } (a.v.sqrt(), 0.5 / a.v.sqrt()) }
        Square => (a.v * a.v, 2.0 * a.v),
        Floor => { if near_int { return None; } (a.v.floor(), 0.0) }
        Ceil => { if near_int { return None; } (a.v.ceil(), 0.0) }
        Round => { if ((a.v - 0.5) - (a.v - 0.5).round()).abs() < 1e-3 * (1.0 + a.v.abs()) { return None; } (a.v.round(), 0.0) }
        Sin => { if a.v.abs() > 1e4 { return None; } (a.v.sin(), a.v.cos()) }
        Cos => { if a.v.abs() > 1e4 { return None; } (a.v.cos(), -a.v.sin()) }
        Tan => { if a.v.abs() > 1e3 || a.v.cos().abs() < 1e-2 { return None; } (a.v.tan(), 1.0 / (a.v.cos() * a.v.cos())) }
        Asin => { if a.v.abs() > 0.99 { return None; } (a.v.asin(), 1.0 / (1.0 - a.v * a.v).sqrt()) }
        Acos => { if a.v.abs() > 0.99 { return None; } (a.v.acos(), -1.0 / (1.0 - a.v * a.v).sqrt()) }
        Atan => (a.v.atan(), 1.0 / (1.0 + a.v * a.v)),
        Exp => { if a.v > 60.0 { return None; } (a.v.exp(), a.v.exp()) }
        Ln => { if a.v < 1e-6 { return None; } (a.v.ln(), 1.0 / a.v) }
        Not => { if a.v.abs() < 1e-6 { return None; } (0.0, 0.0) }
        Rand => return None,
    };
    let d = [a.d[0] * k, a.d[1] * k, a.d[2] * k];
    let scale = a.d.iter().map(|x| (x * k).abs()).fold(0.0, f64::max);
    Some((D { v, d }, scale))
}

fn expect_bin(b: BinaryOpcode, x: D, y: D) -> Option<(D, f64)> {
    use BinaryOpcode::*;
    let big = 1e15;
    for t in [x, y] { if !t.v.is_finite() || t.v.abs() > big || t.d.iter().any(|q| !q.is_finite() || q.abs() > big) { return None; } }
    let lin = |kx: f64, ky: f64, v: f64| {
        let d = [kx * x.d[0] + ky * y.d[0], kx * x.d[1] + ky * y.d[1], kx * x.d[2] + ky * y.d[2]];
        let scale = (0..3).map(|i| (kx * x.d[i]).abs() + (ky * y.d[i]).abs()).fold(0.0, f64::max);
        Some((D { v, d }, scale))
    };
    let sep = |a: f64, b: f64| (a - b).abs() > 1e-4 * (1.0 + a.abs() + b.abs());
    match b {
        Add => lin(1.0, 1.0, x.v + y.v),
        Sub => lin(1.0, -1.0, x.v - y.v),
        Mul => lin(y.v, x.v, x.v * y.v),
        Div => { if y.v.abs() < 1e-6 { return None; } lin(1.0 / y.v, -x.v / (y.v * y.v), x.v / y.v) }
        Atan => { let d = x.v * x.v + y.v * y.v; if d < 1e-6 || (x.v.abs() < 1e-4 && y.v < 0.0) { return None; }
                  // atan2(y = lhs, x = rhs): d/dlhs = rhs/d, d/drhs = -lhs/d
                  lin(y.v / d, -x.v / d, x.v.atan2(y.v)) }
        Min => { if !sep(x.v, y.v) { return None; } if x.v < y.v { lin(1.0, 0.0, x.v) } else { lin(0.0, 1.0, y.v) } }
        Max => { if !sep(x.v, y.v) { return None; } if x.v > y.v { lin(1.0, 0.0, x.v) } else { lin(0.0, 1.0, y.v) } }
        Compare => { if !sep(x.v, y.v) { return None; } lin(0.0, 0.0, if x.v < y.v { -1.0 } else { 1.0 }) }
        Mod => { if y.v.abs() < 1e-4 { return None; }
                 let q = (x.v / y.v).floor(); let q = if y.v < 0.0 { (x.v / y.v).ceil() } else { q };
                 let r = x.v.rem_euclid(y.v);
                 if r.abs() < 1e-3 * (1.0 + y.v.abs()) || (r - y.v.abs()).abs() < 1e-3 * (1.0 + y.v.abs()) { return None; }
                 let e = x.v.div_euclid(y.v); let _ = q;
                 lin(1.0, -e, r) }
        And => { if x.v.abs() < 1e-6 { return None; } lin(0.0, 1.0, y.v) }
        Or => { if x.v.abs() < 1e-6 { return None; } lin(1.0, 0.0, x.v) }
        Mix => None,
    }
}

/// Local chain-rule oracle over all exported nodes of one evaluation row.
fn check_row(dag: &Dag, roots: &[Node], row: &[Grad], pvals: &[f32], backend: &str, checked: &mut usize, skipped: &mut usize) -> Vec<String> {
    let mut bad = vec![];
    let idx: HashMap<usize, usize> = roots.iter().enumerate().map(|(k, n)| (n.verif_index(), k)).collect();
    // a tie of min/max anywhere (in particular +0 against -0) is a non-differentiable locus: the
    // property excludes the point, and the two evaluators may pick different zeros there
    for n in roots.iter() {
        if let Some(Op::Binary(BinaryOpcode::Min | BinaryOpcode::Max, l, r)) = dag.ctx.get_op(*n) {
            let val = |c: &Node| match dag.ctx.get_op(*c) { Some(Op::Const(f)) => Some(f.0), _ => idx.get(&c.verif_index()).map(|j| row[*j].v) };
            if let (Some(a), Some(b)) = (val(l), val(r)) { if a == b { *skipped += roots.len(); return bad; } }
        }
        // zeros of abs likewise (Grad::abs keeps -0.0, f32::abs gives +0.0)
        if let Some(Op::Unary(UnaryOpcode::Abs, a)) = dag.ctx.get_op(*n) {
            let v = match dag.ctx.get_op(*a) { Some(Op::Const(f)) => Some(f.0), _ => idx.get(&a.verif_index()).map(|j| row[*j].v) };
            if v == Some(0.0) { *skipped += roots.len(); return bad; }
        }
    }
    for (k, n) in roots.iter().enumerate() {
        // the value lane is the point evaluator's value
        let (gv, pv) = (row[k].v, pvals[k]);
        if !(gv == pv || (gv.is_nan() && pv.is_nan())) {
            bad.push(format!("kind=value-lane-differs backend={backend} op={} node={} grad_value={gv} point_value={pv}", op_name(dag, *n), n.verif_index()));
            continue;
        }
        let operand = |c: &Node| -> Option<D> {
            match dag.ctx.get_op(*c) { Some(Op::Const(f)) => Some(D { v: f.0 as f64, d: [0.0; 3] }), _ => idx.get(&c.verif_index()).map(|j| dual(&row[*j])) }
        };
        let exp = match dag.ctx.get_op(*n) {
            Some(Op::Unary(u, a)) => operand(a).and_then(|a| expect_un(*u, a)),
            Some(Op::Binary(b, l, r)) => match (operand(l), operand(r)) { (Some(x), Some(y)) => expect_bin(*b, x, y), _ => None },
            _ => None,
        };
        let Some((e, scale)) = exp else { *skipped += 1; continue; };
        *checked += 1;
        let got = dual(&row[k]);
        let vtol = 1e-4 * (1.0 + e.v.abs());
        if (got.v - e.v).abs() > vtol && e.v.abs() < 1e30 {
            bad.push(format!("kind=value-differs-f64 backend={backend} op={} node={} got={} expected={}", op_name(dag, *n), n.verif_index(), got.v, e.v));
            continue;
        }
        for i in 0..3 {
            let tol = 2e-4 * (scale + e.d[i].abs()) + 1e-30;
            if !(got.d[i] - e.d[i]).abs().le(&tol) && e.d[i].abs() < 1e30 && scale < 1e30 {
                bad.push(format!("kind=derivative-differs backend={backend} op={} node={} lane={i} got={} expected={} operands={:?}", op_name(dag, *n), n.verif_index(), got.d[i], e.d[i],
                    dag.ctx.get_op(*n).unwrap().iter_children().map(|c| operand(&c).map(|d| (d.v, d.d))).collect::<Vec<_>>()));
                break;
            }
        }
    }
    bad
}

pub fn run(seed: u64, count: usize, outdir: &str) -> std::io::Result<i32> {
    let mut rng = Rng::new(seed ^ 0xC05);
    let (mut cases, mut impls, mut oracle) = (String::new(), String::new(), String::new());
    let mut fails = 0usize;
    let mut distinct = std::collections::HashSet::new();
    let mut samples_out: Vec<String> = vec![];
    let mut ops_seen: BTreeMap<String, usize> = BTreeMap::new();
    let (mut checked, mut skipped, mut sym_checked) = (0usize, 0usize, 0usize);
    for ci in 0..count {
        let mut r = rng.fork();
        let cfg = DagCfg { max_ops: *r.pick(&[3, 8, 16, 30]), max_outputs: 1, max_free_vars: *r.pick(&[0, 0, 2]),
            p_recent: *r.pick(&[0.3, 0.7]), p_const_operand: *r.pick(&[0.15, 0.35]), p_special_const: 0.02,
            choice_heavy: false, no_hash: true, const_roots: false, choice_chain: if r.chance(0.3) { r.range(2, 8) } else { 0 } };
        let mut dag = gen_dag(&mut r, &cfg);
        // one case in eight: 20..70 further variables, all read (input loads beyond small displacements in the gradient evaluator)
        if r.chance(0.125) {
            let extra = r.range(20, 70);
            let mut acc = *dag.roots.last().unwrap();
            for _ in 0..extra { let v = Var::new(); dag.vs.push(v); let n = dag.ctx.var(v); let c = gen_tame(&mut r); let m = dag.ctx.mul(n, c).unwrap(); acc = dag.ctx.add(acc, m).unwrap(); }
            dag.roots = vec![acc];
        }
        let roots = all_nodes(&dag, std::env::var("FV_ALLNODES").ok().and_then(|v| v.parse().ok()).unwrap_or(40));
        let dag = Dag { ctx: dag.ctx, roots: roots.clone(), vs: dag.vs };
        for n in &roots { *ops_seen.entry(op_name(&dag, *n)).or_default() += 1; }
        let nvars = 3 + dag.vs.len();
        let npts = 4;
        let pts: Vec<Vec<f32>> = (0..npts).map(|k| (0..nvars).map(|_| if k == 3 { gen_f32(&mut r, 0.3) } else { gen_tame(&mut r) + 0.013 }).collect()).collect();
        // seeds: unit axes on the first point, arbitrary elsewhere
        let seeds: Vec<Vec<[f32; 3]>> = (0..npts).map(|k| (0..nvars).map(|j| if k == 0 {
            [(j == 0) as u8 as f32, (j == 1) as u8 as f32, (j == 2) as u8 as f32] } else { [gen_tame(&mut r), gen_tame(&mut r), gen_tame(&mut r)] }).collect()).collect();
        let vm = GenericVmFunction::<255>::new(&dag.ctx, &dag.roots).unwrap();
        let jit = JitFunction::new(&dag.ctx, &dag.roots).unwrap();
        // ---- implementation line (interpreter, bit-exact against the model)
        let vrows = grad_eval(&vm, &dag.vs, &pts, &seeds);
        let mut text = String::from("g");
        match &vrows { Ok(rows) => for row in rows { for g in row { write!(text, " {}", gbits(g)).unwrap(); } }, Err(_) => text.push_str(" panic") }
        // gradient through the shape wrapper with a (possibly projective) transform: last root, first point, unit seeds
        let tmat = crate::c03::gen_matrix(&mut r);
        let mut tbad: Vec<String> = vec![];
        let with_t = dag.vs.is_empty();
        if with_t {
            use fidget_core::shape::Shape;
            use fidget_core::vm::VmFunction;
            let last = *roots.last().unwrap();
            let tr = catch_unwind(AssertUnwindSafe(|| {
                let shape = Shape::<VmFunction>::new(&dag.ctx, last).unwrap();
                let tape = shape.grad_slice_tape(Default::default());
                let mut e = Shape::<VmFunction>::new_grad_slice_eval();
                let p = &pts[0];
                let (xs, ys, zs) = ([Grad::new(p[0], 1.0, 0.0, 0.0)], [Grad::new(p[1], 0.0, 1.0, 0.0)], [Grad::new(p[2], 0.0, 0.0, 1.0)]);
                e.eval_with_transform(&tape, &xs, &ys, &zs, &tmat).unwrap()[0]
            }));
            match tr { Ok(g) => {
                write!(text, " | t {}", gbits(&g)).unwrap();
                // the transform step on its own (Transformable for Grad), against the projective map in f64:
                // value lanes T_i(p), derivative lanes dT_i/dp_j = (m_ij - T_i m_3j) / w.  (Comparing the whole
                // composite with a chain rule is ill-conditioned for functions whose f32 derivative arithmetic cancels.)
                {
                    use fidget_core::shape::Transformable;
                    let p = &pts[0];
                    let m = |i: usize, j: usize| tmat[(i, j)] as f64;
                    let pp = [p[0] as f64, p[1] as f64, p[2] as f64];
                    let terms = [m(3, 0) * pp[0], m(3, 1) * pp[1], m(3, 2) * pp[2], m(3, 3)];
                    let w: f64 = terms.iter().sum();
                    let wmag: f64 = terms.iter().map(|v| v.abs()).sum();
                    if w.abs() > 0.05 * wmag && wmag < 1e6 {
                      // unit seeds, and seeds that are not the unit axes (the inputs may themselves depend on three other parameters)
                      for sd in [[[1.0f32, 0.0, 0.0], [0.0, 1.0, 0.0], [0.0, 0.0, 1.0]], [seeds[1][0], seeds[1][1], seeds[1][2]]] {
                        let (gx, gy, gz) = <Grad as Transformable>::transform(Grad::new(p[0], sd[0][0], sd[0][1], sd[0][2]), Grad::new(p[1], sd[1][0], sd[1][1], sd[1][2]), Grad::new(p[2], sd[2][0], sd[2][1], sd[2][2]), &tmat);
                        for (i, gi) in [gx, gy, gz].iter().enumerate() {
                            let rt = [m(i, 0) * pp[0], m(i, 1) * pp[1], m(i, 2) * pp[2], m(i, 3)];
                            let ti: f64 = rt.iter().sum::<f64>() / w;
                            let mag: f64 = rt.iter().map(|v| v.abs()).sum::<f64>() / w.abs();
                            let d = [gi.dx as f64, gi.dy as f64, gi.dz as f64];
                            let mut bad_lane = None;
                            if (gi.v as f64 - ti).abs() > 1e-4 * (mag + 1e-6) { bad_lane = Some(format!("value {} expected {ti}", gi.v)); }
                            for k in 0..3 {
                                // lane k: sum_j dT_i/dp_j * seed_j[k]
                                let want: f64 = (0..3).map(|j| (m(i, j) - ti * m(3, j)) / w * sd[j][k] as f64).sum();
                                let dm: f64 = (0..3).map(|j| (m(i, j).abs() + mag * m(3, j).abs()) / w.abs() * (sd[j][k] as f64).abs()).sum();
                                if (d[k] - want).abs() > 1e-3 * (dm + 1e-6) { bad_lane = Some(format!("lane {k} of T_{i} = {} expected {want} (seeds {sd:?})", d[k])); }
                            }
                            if let Some(b) = bad_lane { tbad.push(format!("kind=transform-gradient backend=vm Transformable for Grad: {b}; matrix {:?} point {:?}", tmat.as_slice(), p)); break; }
                        }
                      }
                    }
                }
            }, Err(_) => text.push_str(" | t panic") }
        } else { text.push_str(" | t x"); }
        impls.push_str(&text); impls.push('\n');
        let mut line = format!("c05 {} {}", fmt_arena(&dag.ctx, &dag.vs), dag.roots.len());
        for rt in &dag.roots { write!(line, " {}", rt.verif_index()).unwrap(); }
        write!(line, " {nvars} {npts}").unwrap();
        for (p, s) in pts.iter().zip(&seeds) { for j in 0..nvars { write!(line, " {} {} {} {}", canon_bits(p[j]), canon_bits(s[j][0]), canon_bits(s[j][1]), canon_bits(s[j][2])).unwrap(); } }
        write!(line, " {}", with_t as u8).unwrap();
        if with_t { for i in 0..4 { for j in 0..4 { write!(line, " {}", canon_bits(tmat[(i, j)])).unwrap(); } } }
        cases.push_str(&line); cases.push('\n');
        // ---- oracle
        let mut bad = vec![];
        bad.extend(tbad);
        let jrows = grad_eval(&jit, &dag.vs, &pts, &seeds);
        if std::env::var("FV_DEBUG").is_ok() && std::env::var("FV_ONLY").ok().and_then(|v| v.parse::<usize>().ok()) == Some(ci) {
            for k in 0..3 { let a = point_eval(&vm, &dag.vs, &pts[k]).unwrap().0; let b = point_eval(&jit, &dag.vs, &pts[k]).unwrap().0;
                for (o, (x, y)) in a.iter().zip(&b).enumerate() { if canon_bits(*x) != canon_bits(*y) { eprintln!("point {k} output {o} node {}: vm point {x} jit point {y}", roots[o].verif_index()); } }
                if let (Ok(vr), Ok(jr)) = (&vrows, &jrows) { for o in 0..a.len() { if canon_bits(vr[k][o].v) != canon_bits(a[o]) || canon_bits(jr[k][o].v) != canon_bits(b[o]) { eprintln!("point {k} output {o} node {}: vm point {} vm grad {} jit point {} jit grad {}", roots[o].verif_index(), a[o], vr[k][o].v, b[o], jr[k][o].v); } } } }
        }
        // ---- the value lane of the JIT's gradient evaluation is the interpreter's, at every point (rounding-edge values included)
        if let (Ok(vr), Ok(jr)) = (&vrows, &jrows) {
            'outer: for (k, (a, b)) in vr.iter().zip(jr).enumerate() {
                { let mut orc = crate::refeval::Oracle::default(); let env = |v: Var| pts[k][var_id(v, &dag.vs) as usize];
                  let _ = crate::refeval::eval_arena(&dag.ctx, &env, &mut orc);
                  if orc.zero_tie || orc.atan00 || orc.atan_y_zero || orc.abs_of_neg_zero { continue; } }
                for (o, (x, y)) in a.iter().zip(b).enumerate() {
                // (finite values only: an infinity out of a division by a zero carries the sign of that zero, which min / max may leave open - C02)
                if canon_bits(x.v) != canon_bits(y.v) && !(x.v == 0.0 && y.v == 0.0) && x.v.is_finite() && y.v.is_finite() {
                    bad.push(format!("kind=jit-gradient-value-differs backend=jit point {k} output {o} ({}): value lane {} interpreter {}", op_name(&dag, roots[o.min(roots.len() - 1)]), y.v, x.v)); break 'outer; } } }
        }
        // ---- register pressure: the same tape allocated into 3 and 4 registers (loads / stores of spilled gradients)
        // computes the same operations in the same order, so the rows are the interpreter's bit for bit
        if let Ok(rows) = &vrows {
            let rows_txt: Vec<String> = rows.iter().map(|row| row.iter().map(gbits).collect::<Vec<_>>().join(" ")).collect();
            macro_rules! small { ($n:literal) => {{
                match catch_unwind(AssertUnwindSafe(|| GenericVmFunction::<$n>::new(&dag.ctx, &dag.roots).unwrap())) {
                    Ok(f) => match grad_eval(&f, &dag.vs, &pts, &seeds) {
                        Ok(r2) => { let t2: Vec<String> = r2.iter().map(|row| row.iter().map(gbits).collect::<Vec<_>>().join(" ")).collect();
                            if t2 != rows_txt { bad.push(format!("kind=gradient-differs-under-register-pressure backend=vm{} {} registers vs 255", $n, $n)); } }
                        Err(_) => bad.push(format!("kind=panic backend=vm{}", $n)) },
                    Err(_) => bad.push(format!("kind=panic backend=vm{} building the function", $n)) }
            }} }
            small!(3); small!(4);
        }
        // ---- a simplified function has the gradient of the original inside the box its trace came from (CopyReg and the
        // other forms only simplification produces are reached this way)
        {
            let bx: Vec<(f32, f32)> = (0..nvars).map(|j| (pts[0][j] - 0.25, pts[0][j] + 0.25)).collect();
            // (a point at which the sign of a zero is not fixed - min / max of opposite zeros, abs(-0), atan2(0, 0) - is left out: the
            //  interval evaluator and the point evaluators may see different zeros there, see the C12 / C14 findings)
            let sign_of_zero_open = { let mut orc = crate::refeval::Oracle::default();
                let env = |v: Var| pts[0][var_id(v, &dag.vs) as usize];
                let _ = crate::refeval::eval_arena(&dag.ctx, &env, &mut orc); orc.zero_tie || orc.atan00 || orc.atan_y_zero || orc.abs_of_neg_zero };
            macro_rules! simp { ($f:expr, $rows:expr, $name:expr) => {{
                if let (Ok((_, Some(codes))), Ok(rows)) = (interval_eval(&$f, &dag.vs, &bx), &$rows) {
                    let tr = make_trace(&codes); let mut ws = Default::default();
                    match catch_unwind(AssertUnwindSafe(|| $f.simplify(&tr, Default::default(), &mut ws))) {
                        Ok(Ok(f1)) => match grad_eval(&f1, &dag.vs, &pts[..1], &seeds[..1]) {
                            Ok(r1) => if !rows.is_empty() && !r1.is_empty() {
                                // (an output whose ORIGINAL value is NaN at the point is left out: it has no derivative, and whether simplification
                                //  may turn a NaN into a number is C04's question, see its known finding nan-hidden-by-interval)
                                let (a, b): (Vec<String>, Vec<String>) = rows[0].iter().zip(&r1[0]).map(|(g0, g1)| if g0.v.is_nan() { ("nan".to_string(), "nan".to_string()) } else { (gbits(g0), gbits(g1)) }).unzip();
                                if a != b { let k = a.iter().zip(&b).position(|(x, y)| x != y).unwrap_or(0);
                                    bad.push(format!("kind=simplified-gradient-differs backend={} output {k} ({}): original {} simplified {}", $name, op_name(&dag, roots[k.min(roots.len() - 1)]), a.get(k).cloned().unwrap_or_default(), b.get(k).cloned().unwrap_or_default())); } },
                            Err(_) => bad.push(format!("kind=panic backend={} gradient of the simplified function", $name)) },
                        Ok(Err(_)) => bad.push(format!("kind=simplify-rejects-own-trace backend={}", $name)),
                        Err(_) => bad.push(format!("kind=panic backend={} simplify", $name)) }
                }
            }} }
            if !sign_of_zero_open { simp!(vm, vrows, "vm"); simp!(jit, jrows, "jit"); }
        }
        for (name, rows) in [("vm", &vrows), ("jit", &jrows)] {
            let Ok(rows) = rows else { bad.push(format!("kind=panic backend={name}")); continue; };
            for (k, row) in rows.iter().enumerate().take(3) {
                let pv = match name { "vm" => point_eval(&vm, &dag.vs, &pts[k]).map(|x| x.0), _ => point_eval(&jit, &dag.vs, &pts[k]).map(|x| x.0) };
                let Ok(pv) = pv else { continue };
                // a point at which the sign of a zero is open somewhere in the expression (exported or not): abs(-0) is +0 for the point
                // evaluators and -0 for Grad::abs (the C14 finding), min / max of opposite zeros, atan2(0, .): not a point of differentiability
                { let mut orc = crate::refeval::Oracle::default(); let env = |v: Var| pts[k][var_id(v, &dag.vs) as usize];
                  let _ = crate::refeval::eval_arena(&dag.ctx, &env, &mut orc);
                  if orc.zero_tie || orc.atan00 || orc.atan_y_zero || orc.abs_of_neg_zero { skipped += roots.len(); continue; } }
                bad.extend(check_row(&dag, &roots, row, &pv, name, &mut checked, &mut skipped));
            }
        }
        // symbolic derivative of the last node vs forward mode with unit seeds (point 0)
        if let (Ok(rows), true) = (&vrows, dag.vs.is_empty()) {
            if !rows.is_empty() {
                let last = *roots.last().unwrap();
                let g = rows[0][roots.len() - 1];
                let mut ctx2 = fidget_core::context::Context::new();
                // rebuild in a fresh context through export/import so that `deriv` can append nodes
                let tree = dag.ctx.export(last).unwrap();
                let n2 = ctx2.import(&tree);
                let clean = {
                    // only when every node on the way is differentiable at this point (reuse the local oracle's notion)
                    let mut c = 0usize; let mut s = 0usize;
                    let pv = point_eval(&vm, &dag.vs, &pts[0]).map(|x| x.0).unwrap_or_default();
                    let b = check_row(&dag, &roots, &rows[0], &pv, "vm", &mut c, &mut s);
                    b.is_empty() && s == roots.iter().filter(|n| matches!(dag.ctx.get_op(**n), Some(Op::Input(_)))).count()
                };
                if clean {
                    for (i, var) in [Var::X, Var::Y, Var::Z].iter().enumerate() {
                        let dn = ctx2.deriv(n2, *var).unwrap();
                        let v = ctx2.eval_xyz(dn, pts[0][0], pts[0][1], pts[0][2]).unwrap();
                        let gd = g.d(i);
                        sym_checked += 1;
                        let tol = 2e-3 * (1.0 + v.abs().max(gd.abs()));
                        if v.is_finite() && gd.is_finite() && (v - gd).abs() > tol && v.abs() < 1e6 {
                            bad.push(format!("kind=symbolic-derivative-differs var={var:?} symbolic={v} forward={gd} point={:?} arena={}", &pts[0][..3], fmt_arena(&dag.ctx, &dag.vs)));
                        }
                    }
                }
            }
        }
        bad.sort(); bad.dedup();
        for b in bad.iter().take(6) { fails += 1; writeln!(oracle, "FAIL case={ci} {b}").unwrap(); }
        if roots.len() > 2 { distinct.insert(fmt_arena(&dag.ctx, &dag.vs)); }
        if samples_out.len() < 2 && roots.len() >= 3 && roots.len() <= 5 { samples_out.push(format!("arena={} point={:?} seeds={:?} {text}", fmt_arena(&dag.ctx, &dag.vs), pts[1], seeds[1]).chars().take(600).collect()); }
        let _ = fmt_bits;
    }
    std::fs::write(format!("{outdir}/cases.txt"), cases)?;
    std::fs::write(format!("{outdir}/impl.txt"), impls)?;
    std::fs::write(format!("{outdir}/oracle.txt"), oracle)?;
    let mut js = String::from("{");
    write!(js, "\"cases\": {count}, \"distinct_nontrivial\": {}, \"local_chain_rule_checks\": {checked}, \"skipped_near_nondifferentiable\": {skipped}, \"symbolic_derivative_checks\": {sym_checked}, ", distinct.len()).unwrap();
    write!(js, "\"ops_exported\": {{{}}}, ", ops_seen.iter().map(|(k, v)| format!("\"{k}\": {v}")).collect::<Vec<_>>().join(", ")).unwrap();
    write!(js, "\"samples\": [{}], ", samples_out.iter().map(|s| format!("{s:?}")).collect::<Vec<_>>().join(", ")).unwrap();
    write!(js, "\"oracle_fails\": {fails}}}").unwrap();
    std::fs::write(format!("{outdir}/stats.json"), js)?;
    Ok(if fails > 0 { 1 } else { 0 })
}

/// Compares, opcode by opcode, the value lane of the JIT gradient evaluator with the JIT point evaluator on random inputs.
pub fn demo() {
    use fidget_core::context::Context;
    let mut r = Rng::new(12345);
    for u in crate::wire::UOPS.iter() {
        let mut ctx = Context::new(); let x = ctx.x(); let n = crate::dag::apply_un(&mut ctx, *u, x);
        let f = JitFunction::new(&ctx, &[n]).unwrap();
        let v = GenericVmFunction::<255>::new(&ctx, &[n]).unwrap();
        let (mut bad, mut badvm, mut first) = (0usize, 0usize, None);
        let pts: Vec<Vec<f32>> = (0..20000).map(|_| vec![gen_f32(&mut r, 0.02), 0.0, 0.0]).collect();
        let seeds: Vec<Vec<[f32; 3]>> = pts.iter().map(|_| vec![[1.0, 0.0, 0.0], [0.0, 1.0, 0.0], [0.0, 0.0, 1.0]]).collect();
        let dag = Dag { ctx, roots: vec![n], vs: vec![] };
        let rows = grad_eval(&f, &dag.vs, &pts, &seeds).unwrap();
        let vrows = grad_eval(&v, &dag.vs, &pts, &seeds).unwrap();
        for (k, p) in pts.iter().enumerate() {
            let pv = point_eval(&f, &dag.vs, p).unwrap().0[0];
            if canon_bits(rows[k][0].v) != canon_bits(pv) && !(pv == 0.0 && rows[k][0].v == 0.0) { bad += 1; if first.is_none() { first = Some((p[0], rows[k][0].v, pv)); } }
            let pvv = point_eval(&v, &dag.vs, p).unwrap().0[0];
            if canon_bits(vrows[k][0].v) != canon_bits(pvv) && !(pvv == 0.0 && vrows[k][0].v == 0.0) { badvm += 1; }
        }
        println!("{u:?}: jit gradient value lane differs from jit point value at {bad} of 20000 inputs (interpreter: {badvm}); first {first:?}");
    }
}
