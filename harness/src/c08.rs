//! C08: meshes are closed, consistently oriented and enclose the shape's volume.
//! Random 3D CSG shapes whose surface lies inside (-1,1)^3, octree depths 1..6, world-to-model
//! transforms, interpreter and JIT, with and without thread pools.  The mesh is written on the
//! wire for the verified checker (Coq, extracted) and judged by the oracle: closed 2-manifold,
//! finite vertices, outward winding, enclosed volume against a sampled volume.
use crate::rng::*;
use crate::shapegen::*;
use fidget_core::eval::{Function, MathFunction};
use fidget_core::render::ThreadPool;
use fidget_core::shape::Shape;
use fidget_core::vm::VmFunction;
use fidget_jit::JitFunction;
use fidget_mesh::{Mesh, Octree, Settings};
use nalgebra::{Matrix4, Vector3};
use std::collections::{BTreeMap, BTreeSet, HashMap};
use std::fmt::Write as _;
use std::panic::{catch_unwind, AssertUnwindSafe};

pub type LeafInfo = (usize, [f32; 3], [f32; 3], u8, usize, Vec<[f32; 3]>);
pub fn build_mesh<F: Function + MathFunction + fidget_core::render::RenderHints + Clone>(g: &GenShape, depth: u8, mat: Matrix4<f32>, threads: usize) -> Option<Mesh> {
    build_mesh_l::<F>(g, depth, mat, threads).map(|(m, _)| m)
}
/// The mesh and (through the verif hook) the leaf cells of the octree it was walked from
pub fn build_mesh_l<F: Function + MathFunction + fidget_core::render::RenderHints + Clone>(g: &GenShape, depth: u8, mat: Matrix4<f32>, threads: usize) -> Option<(Mesh, (Vec<LeafInfo>, Vec<usize>))> {
    let shape = Shape::<F>::new(&g.ctx, g.root).unwrap();
    let pool;
    let th = match threads { 0 => None, 1 => Some(&ThreadPool::Global),
        n => { pool = ThreadPool::Custom(rayon::ThreadPoolBuilder::new().num_threads(n - 1).build().unwrap()); Some(&pool) } };
    let settings = Settings { depth, world_to_model: mat, threads: th, cancel: Default::default() };
    let bound = shape.try_into().ok()?;
    let o = Octree::build(&bound, &settings)?;
    let m = o.walk_dual();
    // (the hook's walk is the same code path; its mesh must be the one walk_dual returns)
    let (m2, origin) = o.verif_walk_dual();
    assert!(m2.triangles == m.triangles && m2.vertices.len() == m.vertices.len(), "verif_walk_dual and walk_dual disagree");
    let leaves = (o.verif_leaves(), origin);
    if std::env::var("FV_LEAVES").is_ok() { debug_leaves(&m, &leaves); }
    Some((m, leaves))
}

/// Is the offending edge a-b the one the recorded limitation of the connectivity tables produces?  Both ends are the single
/// vertices of two face-adjacent leaves whose shared face has alternating corner signs (inside corners on a diagonal):
/// each cell joins the two inside corners through its far side (DcEdge.ambiguous_face_nonmanifold), so the two quads
/// around the face's sign-changing edges repeat the edge a-b instead of pairing it.
pub fn at_ambiguous_face(lv: &(Vec<LeafInfo>, Vec<usize>), a: usize, b: usize) -> bool {
    let (leaves, origin) = lv;
    let owner = |v: usize| leaves.iter().find(|l| l.4 <= origin[v] && origin[v] < l.4 + l.5.len());
    let (Some(la), Some(lb)) = (owner(a), owner(b)) else { return false };
    // (the recorded configuration: the two leaves share the WHOLE face, so they have the same depth)
    if la.5.len() != 1 || lb.5.len() != 1 || la.0 != lb.0 { return false; }
    for ax in 0..3 {
        for (lo, hi) in [(la, lb), (lb, la)] {
            // `hi` sits on top of `lo` along `ax`, and their extents overlap on the other two axes
            if lo.2[ax] != hi.1[ax] { continue; }
            let (u, v) = ((ax + 1) % 3, (ax + 2) % 3);
            let overlap = |k: usize| lo.1[k] < hi.2[k] && hi.1[k] < lo.2[k];
            if !(overlap(u) && overlap(v)) { continue; }
            // the face of the finer (deeper) cell; corner i has bit k set when it is on the upper side of axis k
            let (cell, upper_side) = if lo.0 >= hi.0 { (lo, true) } else { (hi, false) };
            let bit = |du: usize, dv: usize| { let i = (if upper_side { 1 << ax } else { 0 }) | (du << u) | (dv << v); (cell.3 >> i) & 1 == 1 };
            let (c00, c10, c01, c11) = (bit(0, 0), bit(1, 0), bit(0, 1), bit(1, 1));
            if c00 == c11 && c10 == c01 && c00 != c10 { return true; }
        }
    }
    false
}

fn debug_leaves(m: &Mesh, lv: &(Vec<LeafInfo>, Vec<usize>)) {
    let (leaves, origin) = lv;
    let mut edges: HashMap<(usize, usize), Vec<usize>> = HashMap::new();
    for (ti, t) in m.triangles.iter().enumerate() { for e in [(t.x, t.y), (t.y, t.z), (t.z, t.x)] { edges.entry(e).or_default().push(ti); } }
    let owner = |v: usize| leaves.iter().find(|l| l.4 <= origin[v] && origin[v] < l.4 + l.5.len());
    let mut seen = BTreeSet::new();
    for ((a, b), ts) in &edges {
        let rev = edges.get(&(*b, *a)).map(|v| v.len()).unwrap_or(0);
        if ts.len() > 1 || rev != 1 {
            eprintln!("edge {a}->{b}: {} times, reverse {rev} times; triangles {:?}", ts.len(), ts.iter().map(|t| m.triangles[*t]).map(|t| [t.x, t.y, t.z]).collect::<Vec<_>>());
            for t in ts { let t = m.triangles[*t]; for v in [t.x, t.y, t.z] { seen.insert(v); } }
        }
    }
    for v in seen { let p = m.vertices[v]; match owner(v) {
        Some(l) => eprintln!("  vertex {v} at ({:.4}, {:.4}, {:.4}) leaf depth {} [{:?} .. {:?}] mask {:#010b} nverts {}", p.x, p.y, p.z, l.0, l.1, l.2, l.3, l.5.len()),
        None => eprintln!("  vertex {v}: no owner") } }
}

pub struct MeshReport { pub problems: Vec<String>, pub vol: f64, pub area: f64, pub bad_edges: Vec<(usize, usize)> }

/// closed 2-manifold: every directed edge exactly once, its reverse exactly once; no degenerate triangle; finite vertices
pub fn check_mesh(m: &Mesh) -> MeshReport {
    let mut p = vec![];
    let nv = m.vertices.len();
    let bad_v = m.vertices.iter().filter(|v| !(v.x.is_finite() && v.y.is_finite() && v.z.is_finite())).count();
    if bad_v > 0 { p.push(format!("kind=non-finite-vertex {bad_v} vertices")); }
    let mut edges: HashMap<(usize, usize), u32> = HashMap::new();
    let (mut degenerate, mut oob) = (0, 0);
    for t in &m.triangles {
        let (a, b, c) = (t.x, t.y, t.z);
        if a >= nv || b >= nv || c >= nv { oob += 1; continue; }
        if a == b || b == c || a == c { degenerate += 1; }
        for e in [(a, b), (b, c), (c, a)] { *edges.entry(e).or_default() += 1; }
    }
    if oob > 0 { p.push(format!("kind=vertex-index-out-of-range {oob} triangles")); }
    if degenerate > 0 { p.push(format!("kind=degenerate-triangle {degenerate} triangles repeat a vertex")); }
    let dup = edges.values().filter(|c| **c > 1).count();
    let unmatched = edges.keys().filter(|(a, b)| edges.get(&(*b, *a)).copied().unwrap_or(0) != 1).count();
    if dup > 0 { p.push(format!("kind=directed-edge-repeated {dup} directed edges occur more than once")); }
    if unmatched > 0 { p.push(format!("kind=open-or-misoriented-edge {unmatched} directed edges have no single reverse")); }
    let mut bad_edges = vec![];
    for ((a, b), c) in &edges { if *c > 1 || edges.get(&(*b, *a)).copied().unwrap_or(0) != 1 {
        bad_edges.push((*a, *b)); } }
    let (mut vol, mut area) = (0.0f64, 0.0f64);
    if oob == 0 { for t in &m.triangles {
        let f = |i: usize| Vector3::new(m.vertices[i].x as f64, m.vertices[i].y as f64, m.vertices[i].z as f64);
        let (a, b, c) = (f(t.x), f(t.y), f(t.z));
        vol += a.dot(&b.cross(&c)) / 6.0;
        area += (b - a).cross(&(c - a)).norm() / 2.0;
    } }
    MeshReport { problems: p, vol, area, bad_edges }
}

fn eval_f64(g: &GenShape, p: [f64; 3]) -> f64 {
    let mut vars = HashMap::new();
    vars.insert(fidget_core::var::Var::X, p[0] as f32); vars.insert(fidget_core::var::Var::Y, p[1] as f32); vars.insert(fidget_core::var::Var::Z, p[2] as f32);
    g.ctx.eval(g.root, &vars).unwrap_or(f32::NAN) as f64
}

fn r1c(r: &mut Rng) -> f32 { (r.unit() as f32 - 0.5) * 2.0 }

pub fn run(seed: u64, count: usize, outdir: &str) -> std::io::Result<i32> {
    let mut rng = Rng::new(seed ^ 0xC08);
    let (mut cases, mut impls, mut oracle) = (String::new(), String::new(), String::new());
    let mut fails = 0usize;
    let mut hist: BTreeMap<String, usize> = BTreeMap::new();
    let mut distinct = BTreeSet::new();
    let (mut ntri, mut nempty) = (0usize, 0usize);
    let only: Option<usize> = std::env::var("FV_ONLY").ok().and_then(|v| v.parse().ok());
    for ci in 0..count {
        let mut r = rng.fork();
        if let Some(o) = only { if o != ci { cases.push_str("c08 0 0\n"); impls.push_str("manifold 1 | volsign 0\n"); continue; } }
        let mut g = gen_csg(&mut r, true, true);
        let mut depth = *r.pick(&[1u8, 2, 3, 3, 4, 4, 5, 6]);
        let corpus = ci < 3;
        if corpus {
            // small blobs on grid corners such that two face-adjacent cells both join the diagonal
            // inside corners of their shared (ambiguous) face: cell masks 185 over 155 (found by the model, DcEdge.v)
            use fidget_shapes::{types::Vec3, Sphere, Union};
            let h = [0.5f32, 0.25, 0.5][ci];
            depth = [2u8, 3, 3][ci];
            let rad = h * [0.4f32, 0.4, 0.3][ci];
            let pts = [(0., 0., 0.), (0., 0., 1.), (1., 0., 1.), (1., 1., 1.), (1., 1., 0.), (1., 1., -1.), (1., 0., -1.), (0., 0., -1.)];
            let input: Vec<fidget_core::context::Tree> = pts.iter().map(|p: &(f32, f32, f32)| Sphere { center: Vec3::new(p.0 * h, p.1 * h, p.2 * h), radius: rad }.into()).collect();
            let t: fidget_core::context::Tree = Union { input }.into();
            let mut ctx = fidget_core::context::Context::new();
            let root = ctx.import(&t);
            g = GenShape { ctx, root, kind: "ambiguous-face" };
        }
        // cases 3, 4: the round-2 witness for cell collapse over a two-sheet child: a 1.0 x 0.6 x 0.8 box (maximum of its six
        // half-spaces) rotated by 0.3 about z and 0.5 about x, at depths 3 and 6
        let witness = ci == 3 || ci == 4;
        if witness {
            use fidget_core::context::Tree;
            let bx = |lo: [f32; 3], hi: [f32; 3]| -> Tree { let (x, y, z) = Tree::axes();
                let a = (lo[0] - x.clone()).max(x - hi[0]); let b = (lo[1] - y.clone()).max(y - hi[1]); let c = (lo[2] - z.clone()).max(z - hi[2]); a.max(b).max(c) };
            let rot_z = |t: Tree, ang: f32| -> Tree { let (x, y, z) = Tree::axes(); let (s, c) = ang.sin_cos(); t.remap_xyz(x.clone() * c + y.clone() * s, y * c - x * s, z) };
            let rot_x = |t: Tree, ang: f32| -> Tree { let (x, y, z) = Tree::axes(); let (s, c) = ang.sin_cos(); t.remap_xyz(x, y.clone() * c + z.clone() * s, z * c - y * s) };
            let t = rot_x(rot_z(bx([-0.5, -0.3, -0.4], [0.5, 0.3, 0.4]), 0.3), 0.5);
            let mut ctx = fidget_core::context::Context::new();
            let root = ctx.import(&t);
            g = GenShape { ctx, root, kind: "rotated-box-witness" };
            depth = if ci == 3 { 3 } else { 6 };
        }
        // case 5: two small balls on opposite corners of ONE leaf cell (two sheets, two dual vertices in that cell) in a model that lives
        // at (10, 10, 10) at half scale: every vertex of a multi-vertex leaf must go through world_to_model
        let two_sheets = ci == 5;
        if two_sheets {
            use fidget_shapes::{types::Vec3, Sphere, Union};
            let m = |w: f32| 10.0 + 0.5 * w;
            // (the round-3 witness: centres slightly off two corners that share a face diagonal of the cell)
            let input: Vec<fidget_core::context::Tree> = [(0.03f32, -0.02f32, 0.04f32), (0.52, 0.03, 0.47)].iter().map(|p| Sphere { center: Vec3::new(m(p.0), m(p.1), m(p.2)), radius: 0.1 }.into()).collect();
            let t: fidget_core::context::Tree = Union { input }.into();
            let mut ctx = fidget_core::context::Context::new();
            let root = ctx.import(&t);
            g = GenShape { ctx, root, kind: "two-sheets-in-a-cell" };
            depth = 2;
        }
        let corpus = corpus || witness || two_sheets;
        let s = 1.0 + r.unit() as f32 * 0.5;
        // one case in five: an oblique polyhedral shape through a pure rotation
        let oblique = !corpus && r.chance(0.2);
        if oblique { g = gen_oblique(&mut r); depth = *r.pick(&[3u8, 3, 4, 5, 6, 6]); }
        // one case in four: the same solid described by a field scaled by a power of ten (the mesh must not depend on it)
        let mut unscaled: Option<(fidget_core::context::Node, f32)> = None;
        if !corpus && r.chance(0.25) { let k = *r.pick(&[1e-4f32, 1e-2, 10.0, 1e3, 1e5, 1e6]); unscaled = Some((g.root, k)); let root = g.ctx.mul(g.root, k).unwrap(); g.root = root; }
        let mat = if two_sheets { Matrix4::new_translation(&Vector3::new(10.0, 10.0, 10.0)) * Matrix4::new_scaling(0.5) } else if corpus { Matrix4::identity() } else if oblique { Matrix4::from_euler_angles(r1c(&mut r), r1c(&mut r), r1c(&mut r)) } else { match r.below(4) { 0 => Matrix4::identity(), 1 => Matrix4::new_scaling(s),
            // a perspective camera (as the CLI builds): the bottom row has a z term
            // (the model-space window shrinks to s / (1 + |p|) where w is largest: keep it wider than the shapes, which reach 0.9)
            3 => { let p = *r.pick(&[0.3f32, 0.5, -0.25]); let mut m = Matrix4::new_scaling(1.02 * (1.0 + p.abs())); m[(3, 2)] = p; m }
            _ => Matrix4::new_scaling(1.8) * Matrix4::from_euler_angles(r.unit() as f32 * 3.0, r.unit() as f32 * 3.0, r.unit() as f32 * 3.0) } };
        // one case in four: the model lives away from the origin (world_to_model carries a translation, the shape is moved along):
        // a vertex that misses the transform, or gets it twice, then sits far from the surface
        let mut mat = mat;
        if !corpus && r.chance(0.25) {
            let c = [r1c(&mut r) * 8.0, r1c(&mut r) * 8.0, r1c(&mut r) * 8.0];
            let moved = |ctx: &mut fidget_core::context::Context, root: fidget_core::context::Node| -> fidget_core::context::Node {
                use fidget_core::context::Tree;
                let t = ctx.export(root).unwrap(); let (x, y, z) = Tree::axes();
                let t = t.remap_xyz(x - c[0], y - c[1], z - c[2]); ctx.import(&t) };
            g.root = moved(&mut g.ctx, g.root);
            if let Some((r0, k)) = unscaled { let r1 = moved(&mut g.ctx, r0); unscaled = Some((r1, k)); }
            // model = T(c) * (old world_to_model) * world: the last column of an affine matrix gains c (perspective ones: row 3 scales it)
            let t = Matrix4::new_translation(&Vector3::new(c[0], c[1], c[2]));
            mat = t * mat;
        }
        let threads = *r.pick(&[0usize, 0, 1, 2, 4, 9]);
        let line0 = format!("kind={} nodes={} depth={depth} threads={threads} mat={:?}", g.kind, g.ctx.len(), mat.as_slice());
        distinct.insert(line0.clone());
        *hist.entry(format!("depth={depth}")).or_default() += 1;
        *hist.entry(match threads { 0 => "no-pool", 1 => "global-pool", _ => "custom-pool" }.into()).or_default() += 1;
        let mut bad: Vec<String> = vec![];
        // sampled volume of the negative region (model coordinates: world region (-1,1)^3 mapped by world_to_model)
        let n = if depth >= 5 { 128usize } else { 40 };
        let m64 = mat.cast::<f64>();
        let det4 = m64.determinant().abs();
        let projective = m64[(3, 0)] != 0.0 || m64[(3, 1)] != 0.0 || m64[(3, 2)] != 0.0 || m64[(3, 3)] != 1.0;
        // the volume scale at the centre of the region (for a projective matrix the upper-left block is not it once a translation has been composed in)
        let det = if projective { det4 / m64[(3, 3)].powi(4).abs() } else { m64.fixed_view::<3, 3>(0, 0).determinant().abs() };
        let mut inside = 0usize;
        let mut wsum = 0.0f64;
        // the sign at every grid midpoint and the local area scale there, for an estimate of the TRUE surface area
        let mut neg = vec![false; n * n * n];
        let mut ascale = vec![0f32; n * n * n];
        {
            // the interpreter's many-point evaluator on the midpoints of an n^3 grid (model position = world_to_model * world)
            let sshape = Shape::<VmFunction>::new(&g.ctx, g.root).unwrap();
            let tape = sshape.float_slice_tape(Default::default());
            let mut ev = Shape::<VmFunction>::new_float_slice_eval();
            let coord = |i: usize| -1.0 + (2 * i + 1) as f64 / n as f64;
            for i in 0..n {
                let mut xs = Vec::with_capacity(n * n); let mut ys = Vec::with_capacity(n * n); let mut zs = Vec::with_capacity(n * n);
                for j in 0..n { for k in 0..n { xs.push(coord(i) as f32); ys.push(coord(j) as f32); zs.push(coord(k) as f32); } }
                let out = ev.eval_with_transform(&tape, &xs, &ys, &zs, &mat).unwrap();
                for (idx, v) in out.iter().enumerate() {
                    // the Jacobian determinant of p -> (A p + t) / (c.p + d) is det(M) / w^4
                    let (wx, wy, wz) = (xs[idx] as f64, ys[idx] as f64, zs[idx] as f64);
                    let wv = m64[(3, 0)] * wx + m64[(3, 1)] * wy + m64[(3, 2)] * wz + m64[(3, 3)];
                    let jac = if projective { det4 / wv.powi(4).abs() } else { det };
                    ascale[i * n * n + idx] = jac.powf(2.0 / 3.0) as f32;
                    if *v < 0.0 { inside += 1; neg[i * n * n + idx] = true; wsum += jac; } }
            }
        }
        // sign changes between neighbouring samples: their number times h^2 is the sum of the three axis projections of the
        // surface, an upper bound of its area up to the sampling accuracy (model units through the local scale)
        let area_bound = { let h2 = (2.0 / n as f64).powi(2); let mut a = 0.0f64;
            for i in 0..n { for j in 0..n { for k in 0..n { let id = (i * n + j) * n + k;
                for (ok, id2) in [(i + 1 < n, id + n * n), (j + 1 < n, id + n), (k + 1 < n, id + 1)] { if ok && neg[id] != neg[id2] { a += h2 * 0.5 * (ascale[id] + ascale[id2]) as f64; } } } } }
            a };
        // the property speaks of shapes whose surface lies strictly inside the meshing region: a negative sample in the outermost
        // layer of the grid means the solid reaches the boundary, where the mesh is cut open by design
        let touches_boundary = (0..n).any(|a| (0..n).any(|b| [0, n - 1].iter().any(|&e| neg[(e * n + a) * n + b] || neg[(a * n + e) * n + b] || neg[(a * n + b) * n + e])));
        if touches_boundary { *hist.entry("skipped-solid-reaches-the-region-boundary".into()).or_default() += 1; cases.push_str("c08 0 0\n"); impls.push_str("manifold 1 | volsign 0\n"); continue; }
        let vol_sampled = if projective { wsum * (2.0 / n as f64).powi(3) } else { inside as f64 * (2.0 / n as f64).powi(3) * det };
        let cell = 2.0 / (1u32 << depth) as f64 * det.cbrt();
        let mut il = String::new();
        let mut wire = String::new();
        let mut vm_summary: Option<(f64, f64, bool, f64)> = None;
        for (name, res) in [("vm", catch_unwind(AssertUnwindSafe(|| build_mesh_l::<VmFunction>(&g, depth, mat, threads)))),
                            ("jit", catch_unwind(AssertUnwindSafe(|| build_mesh_l::<JitFunction>(&g, depth, mat, threads))))] {
            let (m, leaves) = match res { Ok(Some(m)) => m, Ok(None) => { bad.push(format!("kind=no-mesh backend={name}")); continue; }
                                Err(_) => { bad.push(format!("kind=panic backend={name} meshing panicked")); continue; } };
            let rep = check_mesh(&m);
            ntri += m.triangles.len();
            if m.triangles.is_empty() { nempty += 1; }
            // a leaf face whose four corners alternate in sign (inside corners on a diagonal) near an offending edge:
            // the recorded limitation of the connectivity tables (DcEdge.ambiguous_face_nonmanifold)
            let ambiguous = !rep.bad_edges.is_empty() && rep.bad_edges.iter().all(|(a, b)| at_ambiguous_face(&leaves, *a, *b));
            for p in &rep.problems { let (k, rest) = p.split_once(' ').unwrap();
                let k = if ambiguous && (k == "kind=directed-edge-repeated" || k == "kind=open-or-misoriented-edge") { "kind=nonmanifold-at-ambiguous-face" } else { k };
                bad.push(format!("{k} backend={name} {rest}")); }
            let vol_start = bad.len();
            if rep.problems.is_empty() {
                // enclosed volume vs sampled volume: within the sampling resolution of the octree
                // features smaller than a cell may be missed or merged: cell^3 per such feature; surface placement: area * cell
                // coarse octrees lose whole features thinner than a cell (not bounded by the mesh's own area): loose there,
                // tight where the shape is resolved (depth >= 5: cells of 1/16 or less)
                // the tolerance follows the TRUE surface (estimated from the samples), not the mesh's own area: a mesh thrown far
                // out of the region has a huge area and would excuse itself
                // (the TRUE area as estimated from the samples, whatever the mesh's own area is: neither a mesh thrown far out of the region
                //  nor an empty mesh sets its own tolerance)
                let area = 1.25 * area_bound + 6.0 * cell * cell;
                let tol = if depth >= 5 { 0.15 * area * cell + 2.0 * cell.powi(3) + 0.004 * det + 0.5 * (2.0 / n as f64) * det.cbrt() * area }
                          else { 0.6 * area * cell + 2.0 * cell.powi(3) + 0.02 * det + 1.5 * (2.0 / n as f64) * area.max(1.0) };
                // (leaf vertices are not clamped to their cells, so a feature of about one cell can come out inverted:
                //  that is below the sampling resolution; an inward-wound mesh shows as a negative volume beyond it)
                if rep.vol < -tol { bad.push(format!("kind=negative-volume backend={name} signed volume {:.5} (tolerance {:.4}): the mesh is wound inward", rep.vol, tol)); }
                if (rep.vol - vol_sampled).abs() > tol { bad.push(format!("kind=volume-mismatch backend={name} mesh {:.4} sampled {:.4} tolerance {:.4} (area {:.3})", rep.vol, vol_sampled, tol, rep.area)); }
                // outward winding: stepping along the triangle normal must increase the field
                let (mut out_ok, mut out_bad) = (0usize, 0usize);
                for t in &m.triangles {
                    let f = |i: usize| Vector3::new(m.vertices[i].x as f64, m.vertices[i].y as f64, m.vertices[i].z as f64);
                    let (a, b, c) = (f(t.x), f(t.y), f(t.z));
                    let nrm = (b - a).cross(&(c - a));
                    if nrm.norm() < 1e-12 { continue; }
                    let nrm = nrm.normalize(); let ctr = (a + b + c) / 3.0; let h = 0.2 * cell;
                    let (fp, fm) = (eval_f64(&g, [ctr.x + h * nrm.x, ctr.y + h * nrm.y, ctr.z + h * nrm.z]), eval_f64(&g, [ctr.x - h * nrm.x, ctr.y - h * nrm.y, ctr.z - h * nrm.z]));
                    if fp > fm { out_ok += 1; } else if fp < fm { out_bad += 1; }
                }
                // coarse triangles on cell-sized features can deviate by more than 90 degrees from the true normal: only a majority counts
                if out_bad * 2 > out_ok + out_bad && m.triangles.len() >= 200 { bad.push(format!("kind=inward-winding backend={name} {out_bad} of {} triangles face inward", out_ok + out_bad)); }
            }
            // every vertex lies in the meshing region (world coordinates (-1,1)^3, the surface is strictly inside), up to the cell it belongs to
            let excursion = { let inv = m64.try_inverse(); m.vertices.iter().map(|v| match inv { Some(inv) => { let w = inv.transform_point(&nalgebra::Point3::new(v.x as f64, v.y as f64, v.z as f64));
                (w.x.abs().max(w.y.abs()).max(w.z.abs()) - 1.0).max(0.0) / (2.0 / (1u32 << depth) as f64) } None => 0.0 }).fold(0.0f64, f64::max) };
            // how far a cell vertex lies outside its own leaf cell, in units of that cell's size (world coordinates)
            let escape = { let inv = m64.try_inverse(); let (lv, origin) = &leaves; let mut worst = (0.0f64, 0usize);
                for (vi, v) in m.vertices.iter().enumerate() { let Some(inv) = inv else { break };
                    let Some(l) = lv.iter().find(|l| l.4 <= origin[vi] && origin[vi] < l.4 + l.5.len()) else { continue };
                    let w = inv.transform_point(&nalgebra::Point3::new(v.x as f64, v.y as f64, v.z as f64));
                    let size = (l.2[0] - l.1[0]) as f64;
                    let d = (0..3).map(|k| (l.1[k] as f64 - w[k]).max(w[k] - l.2[k] as f64).max(0.0)).fold(0.0, f64::max) / size;
                    if d > worst.0 { worst = (d, l.0); } }
                worst };
            // every cell vertex lies within one cell size of its own leaf (QefBound.leaf_vertex_within_one_cell_size; collapsed cells
            // keep a vertex only inside the cell).  1.001: the positions come back through the inverse of the f32 transform
            if escape.0 > 1.001 && rep.problems.iter().all(|p| !p.starts_with("kind=non-finite")) {
                bad.push(format!("kind=vertex-outside-expanded-cell backend={name} a vertex lies {:.2} cell sizes outside its own leaf (leaf depth {})", escape.0, escape.1)); }
            // ... and EVERY vertex (edge crossings included, which lie on cell edges) within one cell size of the meshing region
            if excursion > 1.001 && rep.problems.iter().all(|p| !p.starts_with("kind=non-finite")) {
                bad.push(format!("kind=vertex-outside-region backend={name} a vertex lies {excursion:.1} cell sizes outside the meshing region")); }
            // the recorded finding qef-vertex-escapes-cell: QuadraticErrorSolver::solve does not keep its solution inside the cell; for
            // features of about a cell the vertex lands cells away and the local volume / orientation is wrong
            if escape.0 > 1.0 { for b in bad[vol_start..].iter_mut() { for k in ["kind=negative-volume", "kind=volume-mismatch", "kind=inward-winding"] {
                if b.starts_with(k) { *b = format!("kind=qef-vertex-escapes-cell backend={name} a vertex lies {:.1} cell sizes outside its own leaf (leaf depth {}); {}", escape.0, escape.1, &b[5..]); } } } }
            if std::env::var("FV_DEBUG").is_ok() { eprintln!("escape {:.3} at-leaf-depth {} case {ci} {name} depth {depth} tris {} vol {:.4} sampled {:.4} area {:.3} det {:.3} excursion {:.3} relarea {:.3}", escape.0, escape.1, m.triangles.len(), rep.vol, vol_sampled, rep.area, det, excursion, rep.area / det.powf(2.0 / 3.0)); }
            if name == "vm" { vm_summary = Some((rep.vol, rep.area, rep.problems.is_empty(), escape.0)); }
            if name == "vm" { write!(il, "manifold {} | volsign {}", rep.problems.iter().all(|p| p.starts_with("kind=non-finite")) as u8, if rep.vol > 1e-6 { 1 } else if rep.vol < -1e-6 { -1 } else { 0 }).unwrap(); }
            if name == "vm" {
                // the mesh for the verified checker: vertex bit patterns and triangles
                write!(wire, "c08 {} {}", m.vertices.len(), m.triangles.len()).unwrap();
                for v in &m.vertices { write!(wire, " {} {} {}", v.x.to_bits(), v.y.to_bits(), v.z.to_bits()).unwrap(); }
                for t in &m.triangles { write!(wire, " {} {} {}", t.x, t.y, t.z).unwrap(); }
            }
        }
        // the same solid through the field times a power of ten: both meshes must match the same volume, so they must match each other
        if let (Some((root0, k)), Some((vol_s, area_s, ok_s, esc_s))) = (unscaled, vm_summary) {
            let scaled_root = g.root; g.root = root0;
            if let Ok(Some((m0, lv0))) = catch_unwind(AssertUnwindSafe(|| build_mesh_l::<VmFunction>(&g, depth, mat, threads))) {
                let rep0 = check_mesh(&m0); let _ = lv0;
                let dv = (rep0.vol - vol_s).abs(); let da = (rep0.area - area_s).abs();
                if std::env::var("FV_DEBUG").is_ok() { eprintln!("scale {k} case {ci}: volume {vol_s} vs unscaled {} (diff {dv:.3e}), area diff {da:.3e}, manifold {} vs {}", rep0.vol, ok_s, rep0.problems.is_empty()); }
                let lim = 1e-3 * (rep0.vol.abs().max(cell.powi(3))) + 1e-6;
                if dv > lim || ok_s != rep0.problems.is_empty() { bad.push(format!("kind=field-scale-changes-mesh backend=vm field times {k}: volume {vol_s:.5} area {area_s:.4} manifold {ok_s} (largest escape {esc_s:.1} cells); unscaled volume {:.5} area {:.4} manifold {}", rep0.vol, rep0.area, rep0.problems.is_empty())); }
            }
            g.root = scaled_root;
        }
        if wire.is_empty() { wire = "c08 0 0".into(); }
        if il.is_empty() { il = "manifold 1 | volsign 0".into(); }
        cases.push_str(&wire); cases.push('\n');
        impls.push_str(il.trim_end()); impls.push('\n');
        for m in &bad { fails += 1; writeln!(oracle, "FAIL case={ci} {m} :: {line0}").unwrap(); }
    }
    std::fs::write(format!("{outdir}/cases.txt"), cases)?;
    std::fs::write(format!("{outdir}/impl.txt"), impls)?;
    std::fs::write(format!("{outdir}/oracle.txt"), oracle)?;
    let mut js = String::from("{");
    write!(js, "\"cases\": {count}, \"distinct_nontrivial\": {}, \"triangles\": {ntri}, \"empty_meshes\": {nempty}, ", distinct.len()).unwrap();
    write!(js, "\"mix\": {{{}}}, ", hist.iter().map(|(k, v)| format!("\"{k}\": {v}")).collect::<Vec<_>>().join(", ")).unwrap();
    write!(js, "\"oracle_fails\": {fails}}}").unwrap();
    std::fs::write(format!("{outdir}/stats.json"), js)?;
    Ok(if fails > 0 { 1 } else { 0 })
}

/// Looks for a SIMPLE witness of the recorded finding qef-vertex-escapes-cell: one small ball, identity transform.
pub fn demo() {
    use fidget_shapes::{types::Vec3, Sphere};
    let mut r = Rng::new(7);
    let mut shown = 0;
    for _ in 0..4000 {
        let c = [((r.unit() - 0.5) * 1.2) as f32, ((r.unit() - 0.5) * 1.2) as f32, ((r.unit() - 0.5) * 1.2) as f32];
        let rad = (0.08 + r.unit() * 0.3) as f32;
        let depth = *r.pick(&[1u8, 2, 3]);
        let t: fidget_core::context::Tree = Sphere { center: Vec3::new(c[0], c[1], c[2]), radius: rad }.into();
        let mut ctx = fidget_core::context::Context::new(); let root = ctx.import(&t);
        let g = GenShape { ctx, root, kind: "ball" };
        let Some((m, (lv, origin))) = build_mesh_l::<VmFunction>(&g, depth, Matrix4::identity(), 0) else { continue };
        let rep = check_mesh(&m);
        let truth = 4.0 / 3.0 * std::f64::consts::PI * (rad as f64).powi(3);
        let mut worst = 0.0f64;
        for (vi, v) in m.vertices.iter().enumerate() { let Some(l) = lv.iter().find(|l| l.4 <= origin[vi] && origin[vi] < l.4 + l.5.len()) else { continue };
            let size = (l.2[0] - l.1[0]) as f64; let w = [v.x as f64, v.y as f64, v.z as f64];
            worst = worst.max((0..3).map(|k| (l.1[k] as f64 - w[k]).max(w[k] - l.2[k] as f64).max(0.0)).fold(0.0, f64::max) / size); }
        let cell = 2.0 / (1u32 << depth) as f64;
        if rep.problems.is_empty() && worst > 2.0 && (rep.vol - truth).abs() > 3.0 * cell.powi(3) + truth {
            println!("ball centre ({}, {}, {}) radius {} depth {depth}: {} triangles, mesh volume {:.4}, true volume {:.4}, a vertex {:.1} cell sizes outside its leaf", c[0], c[1], c[2], rad, m.triangles.len(), rep.vol, truth, worst);
            shown += 1; if shown >= 5 { break; } }
    }
    if shown == 0 { println!("no single-ball witness among 4000"); }
}
