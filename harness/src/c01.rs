//! C01: compiled tapes compute the expression.  Generates cases, runs the
//! implementation (SsaTape::new, RegTape::new::<N>, VM point + float-slice
//! evaluation, Context::eval) and the property oracle.
use crate::dag::*;
use crate::refeval::*;
use crate::rng::*;
use crate::wire::*;
use fidget_core::compiler::{RegTape, SsaTape};
use fidget_core::context::{Context, Node};
use fidget_core::eval::{BulkEvaluator, Function, MathFunction, TracingEvaluator};
use fidget_core::var::Var;
use fidget_core::vm::{GenericVmFunction, VmFloatSliceEval, VmPointEval};
use std::collections::{BTreeMap, HashMap};
use std::fmt::Write as _;
use std::panic::{catch_unwind, AssertUnwindSafe};

pub const BUDGETS: &[usize] = &[1, 2, 3, 4, 5, 6, 8, 12, 16, 32, 64, 255];

#[macro_export]
macro_rules! with_budget {
    ($n:expr, $f:ident ( $($args:expr),* )) => {
        match $n {
            1 => $f::<1>($($args),*), 2 => $f::<2>($($args),*), 3 => $f::<3>($($args),*),
            4 => $f::<4>($($args),*), 5 => $f::<5>($($args),*), 6 => $f::<6>($($args),*),
            8 => $f::<8>($($args),*), 12 => $f::<12>($($args),*), 16 => $f::<16>($($args),*),
            32 => $f::<32>($($args),*), 64 => $f::<64>($($args),*), 255 => $f::<255>($($args),*),
            n => panic!("unsupported budget {n}"),
        }
    };
}

fn reg_section<const N: usize>(ssa: &SsaTape) -> String {
    match catch_unwind(AssertUnwindSafe(|| RegTape::new::<N>(ssa))) {
        Ok(rt) => format!("reg {} {}", rt.slot_count(), fmt_tape(rt.iter().map(|o| enc_reg(*o)))),
        Err(_) => "reg err".to_string(),
    }
}

pub fn fmt_bits(v: &[f32]) -> String {
    v.iter().map(|f| canon_bits(*f).to_string()).collect::<Vec<_>>().join(" ")
}

/// VM point and slice evaluation of the compiled function at each point.
/// Returns (pt section body, sl section body) or None if construction panicked.
fn vm_sections<const N: usize>(
    ctx: &Context, roots: &[Node], points: &[Vec<f32>], skip: &[bool], vs: &[Var],
) -> Option<(String, String)> {
    let r = catch_unwind(AssertUnwindSafe(|| {
        let f = GenericVmFunction::<N>::new(ctx, roots).unwrap();
        let vars = f.vars();
        let nv = vars.len();
        let mut order: Vec<Option<Var>> = vec![None; nv];
        for (v, i) in vars.iter() { order[i] = Some(v); }
        let tape = f.point_tape(Default::default());
        let mut pe = VmPointEval::<N>::default();
        let mut pt = String::new();
        for (p, sk) in points.iter().zip(skip) {
            if *sk { pt.push_str(" x"); continue; }
            let inputs: Vec<f32> = order.iter().map(|v| p[var_id(v.unwrap(), vs) as usize]).collect();
            let (out, _tr) = pe.eval(&tape, &inputs).unwrap();
            write!(pt, " {}", fmt_bits(out)).unwrap();
        }
        // one slice evaluation over all points
        let stape = f.float_slice_tape(Default::default());
        let mut se = VmFloatSliceEval::<N>::default();
        let cols: Vec<Vec<f32>> = order.iter()
            .map(|v| points.iter().map(|p| p[var_id(v.unwrap(), vs) as usize]).collect()).collect();
        let out = se.eval(&stape, &cols).unwrap();
        let mut sl = String::new();
        let no = f.output_count();
        for (k, sk) in skip.iter().enumerate() {
            if *sk { sl.push_str(" x"); continue; }
            if nv == 0 { sl.push_str(" novars"); continue; }
            let row: Vec<f32> = (0..no).map(|o| out[o][k]).collect();
            write!(sl, " {}", fmt_bits(&row)).unwrap();
        }
        (pt, sl)
    }));
    r.ok()
}

pub struct Stats {
    pub cases: usize,
    pub ssa_ops: BTreeMap<String, usize>,
    pub reg_loads: usize,
    pub reg_stores: usize,
    pub budgets: BTreeMap<usize, usize>,
    pub tape_len_hist: BTreeMap<usize, usize>,
    pub skipped_points: usize,
    pub points: usize,
    pub panics_small_budget: usize,
    pub distinct: std::collections::HashSet<String>,
    pub samples: Vec<String>,
}

pub fn op_key(w: &[u64]) -> String {
    match w[0] {
        0 => "Output".into(), 1 => "Input".into(), 2 => "CopyImm".into(),
        3 => format!("Un{}", w[1]), 4 => format!("RR{}", w[1]), 5 => format!("RI{}", w[1]), 6 => format!("IR{}", w[1]),
        7 => "Load".into(), 8 => "Store".into(), _ => "?".into(),
    }
}

pub fn run(seed: u64, count: usize, outdir: &str, tier_budgets: &[usize]) -> std::io::Result<i32> {
    let mut rng = Rng::new(seed);
    let mut cases = String::new();
    let mut impls = String::new();
    let mut oracle = String::new();
    let mut st = Stats { cases: 0, ssa_ops: BTreeMap::new(), reg_loads: 0, reg_stores: 0, budgets: BTreeMap::new(),
        tape_len_hist: BTreeMap::new(), skipped_points: 0, points: 0, panics_small_budget: 0,
        distinct: Default::default(), samples: vec![] };
    let mut fails = 0;
    let mut corpus = crate::dag::corpus();
    corpus.reverse();
    for ci in 0..count {
        let mut r = rng.fork();
        let from_corpus = corpus.pop();
        let cfg = DagCfg {
            max_ops: *r.pick(&[4, 10, 25, 60, 120]),
            max_outputs: *r.pick(&[1, 1, 2, 4, 8]),
            max_free_vars: *r.pick(&[0, 0, 2, 6]),
            p_recent: *r.pick(&[0.1, 0.5, 0.9]),
            p_const_operand: *r.pick(&[0.1, 0.25, 0.5]),
            p_special_const: *r.pick(&[0.05, 0.3]),
            ..Default::default()
        };
        let generated = gen_dag(&mut r, &cfg);
        let n = *r.pick(tier_budgets);
        let p_special = *r.pick(&[0.0, 0.2, 0.6]);
        let (dag, points): (Dag, Vec<Vec<f32>>) = match from_corpus {
            Some((d, pts)) => (d, pts),
            None => { let nv = 3 + generated.vs.len(); let pts = (0..4).map(|_| gen_point(&mut r, nv, p_special)).collect(); (generated, pts) }
        };
        let n = if ci < 8 { [3usize, 255][ci % 2].max(*tier_budgets.iter().filter(|b| **b >= 3).min().unwrap_or(&3)) } else { n };
        let nvars = 3 + dag.vs.len();
        let npts = points.len();

        // reference evaluation (harness's own), oracle table, taint
        let mut orc = Oracle::default();
        let mut skip = vec![];
        let mut refs = vec![];
        for p in &points {
            orc.tainted = false;
            let env = |v: Var| p[var_id(v, &dag.vs) as usize];
            let vals = eval_arena(&dag.ctx, &env, &mut orc);
            skip.push(orc.tainted);
            refs.push(dag.roots.iter().map(|n| vals[n.verif_index()]).collect::<Vec<f32>>());
        }
        st.points += npts;
        st.skipped_points += skip.iter().filter(|s| **s).count();

        // ---- case line
        let mut line = format!("c01 {n} {} {}", fmt_arena(&dag.ctx, &dag.vs), dag.roots.len());
        for rt in &dag.roots { write!(line, " {}", rt.verif_index()).unwrap(); }
        write!(line, " {nvars} {npts}").unwrap();
        for (p, sk) in points.iter().zip(&skip) {
            write!(line, " {} {}", *sk as u8, fmt_bits(p)).unwrap();
        }
        write!(line, " 0").unwrap(); // libm: the runner calls the same glibc functions (extract/libm_stubs.c)
        cases.push_str(&line); cases.push('\n');

        // ---- implementation
        let (ssa, vars) = SsaTape::new(&dag.ctx, &dag.roots).unwrap();
        let mut vorder = vec![0u64; vars.len()];
        for (v, i) in vars.iter() { vorder[i] = var_id(v, &dag.vs); }
        let ssa_enc: Vec<Vec<u64>> = ssa.iter().map(|o| enc_ssa(*o)).collect();
        for o in &ssa_enc { *st.ssa_ops.entry(op_key(o)).or_default() += 1; }
        *st.tape_len_hist.entry(ssa_enc.len() / 10 * 10).or_default() += 1;
        *st.budgets.entry(n).or_default() += 1;
        let mut il = format!("ssa {} cc {} oc {} | vars {}", fmt_tape(ssa_enc.clone()), ssa.choice_count, ssa.output_count, vorder.len());
        for v in &vorder { write!(il, " {v}").unwrap(); }
        let regs = with_budget!(n, reg_section(&ssa));
        st.reg_loads += regs.matches(" 7 ").count();
        write!(il, " | {regs}").unwrap();
        let vm = with_budget!(n, vm_sections(&dag.ctx, &dag.roots, &points, &skip, &dag.vs));
        let (pt, sl) = match &vm { Some((a, b)) => (a.clone(), b.clone()), None => (" err".into(), " err".into()) };
        if vm.is_none() && n < 3 { st.panics_small_budget += 1; }
        write!(il, " | pt{pt} | sl{sl} | ref").unwrap();
        let mut ctxref = String::new();
        for (p, sk) in points.iter().zip(&skip) {
            if *sk { ctxref.push_str(" x"); continue; }
            let mut m = HashMap::new();
            m.insert(Var::X, p[0]); m.insert(Var::Y, p[1]); m.insert(Var::Z, p[2]);
            for (k, v) in dag.vs.iter().enumerate() { m.insert(*v, p[3 + k]); }
            let row: Vec<f32> = dag.roots.iter().map(|n| dag.ctx.eval(*n, &m).unwrap()).collect();
            write!(ctxref, " {}", fmt_bits(&row)).unwrap();
        }
        il.push_str(&ctxref);
        impls.push_str(&il); impls.push('\n');

        // ---- property oracle: compiled == direct, every budget >= 3; smaller budgets: panic or equal
        let novars = vars.len() == 0;
        if vm.is_some() {
            if pt != ctxref {
                fails += 1;
                writeln!(oracle, "FAIL case={ci} kind=point budget={n} vm=[{pt}] direct=[{ctxref}]").unwrap();
            }
            if !novars && sl != ctxref {
                fails += 1;
                writeln!(oracle, "FAIL case={ci} kind=slice budget={n} vm=[{sl}] direct=[{ctxref}]").unwrap();
            }
        } else if n >= 3 {
            fails += 1;
            writeln!(oracle, "FAIL case={ci} kind=panic budget={n}").unwrap();
        }
        // harness evaluator vs Context::eval (sanity of the oracle table)
        let mut mine = String::new();
        for (rf, sk) in refs.iter().zip(&skip) { if *sk { mine.push_str(" x"); } else { write!(mine, " {}", fmt_bits(rf)).unwrap(); } }
        if mine != ctxref {
            fails += 1;
            writeln!(oracle, "FAIL case={ci} kind=harness-ref mine=[{mine}] direct=[{ctxref}]").unwrap();
        }
        st.cases += 1;
        let key = format!("{}", fmt_tape(ssa_enc));
        if ssa.len() > 3 { st.distinct.insert(key); }
        if st.samples.len() < 3 && ssa.len() > 5 && ssa.len() < 16 { st.samples.push(format!("N={n} {}", il.split(" | ").take(3).collect::<Vec<_>>().join(" | "))); }
    }
    std::fs::write(format!("{outdir}/cases.txt"), cases)?;
    std::fs::write(format!("{outdir}/impl.txt"), impls)?;
    std::fs::write(format!("{outdir}/oracle.txt"), oracle)?;
    let mut js = String::from("{");
    write!(js, "\"cases\": {}, \"points\": {}, \"skipped_points\": {}, \"distinct_nontrivial\": {}, \"loads\": {}, \"panics_small_budget\": {}, ",
        st.cases, st.points, st.skipped_points, st.distinct.len(), st.reg_loads, st.panics_small_budget).unwrap();
    write!(js, "\"ssa_ops\": {{{}}}, ", st.ssa_ops.iter().map(|(k, v)| format!("\"{k}\": {v}")).collect::<Vec<_>>().join(", ")).unwrap();
    write!(js, "\"budgets\": {{{}}}, ", st.budgets.iter().map(|(k, v)| format!("\"{k}\": {v}")).collect::<Vec<_>>().join(", ")).unwrap();
    write!(js, "\"tape_len_hist\": {{{}}}, ", st.tape_len_hist.iter().map(|(k, v)| format!("\"{k}\": {v}")).collect::<Vec<_>>().join(", ")).unwrap();
    write!(js, "\"samples\": [{}], ", st.samples.iter().map(|s| format!("{s:?}")).collect::<Vec<_>>().join(", ")).unwrap();
    write!(js, "\"oracle_fails\": {fails}}}").unwrap();
    std::fs::write(format!("{outdir}/stats.json"), js)?;
    Ok(if fails > 0 { 1 } else { 0 })
}
