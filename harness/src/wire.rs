//! Wire encoding shared with the extracted Coq runner (extract/driver.ml).
//! Everything is a sequence of unsigned integers; f32 is its bit pattern.
use fidget_core::compiler::{RegOp, SsaOp};
use fidget_core::context::{BinaryOpcode, Context, Node, Op, UnaryOpcode};
use fidget_core::var::Var;

pub fn uop_id(u: UnaryOpcode) -> u64 {
    use UnaryOpcode::*;
    match u {
        Neg => 0, Abs => 1, Recip => 2, Sqrt => 3, Square => 4, Floor => 5, Ceil => 6, Round => 7,
        Sin => 8, Cos => 9, Tan => 10, Asin => 11, Acos => 12, Atan => 13, Exp => 14, Ln => 15,
        Not => 16, Rand => 17,
    }
}
pub fn bop_id(b: BinaryOpcode) -> u64 {
    use BinaryOpcode::*;
    match b {
        Add => 0, Sub => 1, Mul => 2, Div => 3, Atan => 4, Min => 5, Max => 6, Compare => 7,
        Mod => 8, And => 9, Or => 10, Mix => 11,
    }
}
pub const UOPS: [UnaryOpcode; 18] = {
    use UnaryOpcode::*;
    [Neg, Abs, Recip, Sqrt, Square, Floor, Ceil, Round, Sin, Cos, Tan, Asin, Acos, Atan, Exp, Ln, Not, Rand]
};
pub const BOPS: [BinaryOpcode; 12] = {
    use BinaryOpcode::*;
    [Add, Sub, Mul, Div, Atan, Min, Max, Compare, Mod, And, Or, Mix]
};

fn fb(f: f32) -> u64 { crate::rng::canon_bits(f) as u64 }

macro_rules! enc_ops {
    ($T:ident, $op:expr, $($extra:tt)*) => {{
        let un = |u: u64, o: u64, a: u64| vec![3, u, o, a];
        let rr = |b: u64, o: u64, l: u64, r: u64| vec![4, b, o, l, r];
        let ri = |b: u64, o: u64, a: u64, i: f32| vec![5, b, o, a, fb(i)];
        let ir = |b: u64, o: u64, a: u64, i: f32| vec![6, b, o, a, fb(i)];
        match $op {
            $T::Output(a, i) => vec![0, a as u64, i as u64],
            $T::Input(o, i) => vec![1, o as u64, i as u64],
            $T::CopyImm(o, imm) => vec![2, o as u64, fb(imm)],
            $T::NegReg(o, a) => un(0, o as u64, a as u64),
            $T::AbsReg(o, a) => un(1, o as u64, a as u64),
            $T::RecipReg(o, a) => un(2, o as u64, a as u64),
            $T::SqrtReg(o, a) => un(3, o as u64, a as u64),
            $T::SquareReg(o, a) => un(4, o as u64, a as u64),
            $T::FloorReg(o, a) => un(5, o as u64, a as u64),
            $T::CeilReg(o, a) => un(6, o as u64, a as u64),
            $T::RoundReg(o, a) => un(7, o as u64, a as u64),
            $T::SinReg(o, a) => un(8, o as u64, a as u64),
            $T::CosReg(o, a) => un(9, o as u64, a as u64),
            $T::TanReg(o, a) => un(10, o as u64, a as u64),
            $T::AsinReg(o, a) => un(11, o as u64, a as u64),
            $T::AcosReg(o, a) => un(12, o as u64, a as u64),
            $T::AtanReg(o, a) => un(13, o as u64, a as u64),
            $T::ExpReg(o, a) => un(14, o as u64, a as u64),
            $T::LnReg(o, a) => un(15, o as u64, a as u64),
            $T::NotReg(o, a) => un(16, o as u64, a as u64),
            $T::RandReg(o, a) => un(17, o as u64, a as u64),
            $T::CopyReg(o, a) => un(18, o as u64, a as u64),
            $T::AddRegImm(o, a, i) => ri(0, o as u64, a as u64, i),
            $T::SubRegImm(o, a, i) => ri(1, o as u64, a as u64, i),
            $T::MulRegImm(o, a, i) => ri(2, o as u64, a as u64, i),
            $T::DivRegImm(o, a, i) => ri(3, o as u64, a as u64, i),
            $T::AtanRegImm(o, a, i) => ri(4, o as u64, a as u64, i),
            $T::MinRegImm(o, a, i) => ri(5, o as u64, a as u64, i),
            $T::MaxRegImm(o, a, i) => ri(6, o as u64, a as u64, i),
            $T::CompareRegImm(o, a, i) => ri(7, o as u64, a as u64, i),
            $T::ModRegImm(o, a, i) => ri(8, o as u64, a as u64, i),
            $T::AndRegImm(o, a, i) => ri(9, o as u64, a as u64, i),
            $T::OrRegImm(o, a, i) => ri(10, o as u64, a as u64, i),
            $T::MixRegImm(o, a, i) => ri(11, o as u64, a as u64, i),
            $T::SubImmReg(o, a, i) => ir(1, o as u64, a as u64, i),
            $T::DivImmReg(o, a, i) => ir(3, o as u64, a as u64, i),
            $T::AtanImmReg(o, a, i) => ir(4, o as u64, a as u64, i),
            $T::CompareImmReg(o, a, i) => ir(7, o as u64, a as u64, i),
            $T::ModImmReg(o, a, i) => ir(8, o as u64, a as u64, i),
            $T::MixImmReg(o, a, i) => ir(11, o as u64, a as u64, i),
            $T::AddRegReg(o, l, r) => rr(0, o as u64, l as u64, r as u64),
            $T::SubRegReg(o, l, r) => rr(1, o as u64, l as u64, r as u64),
            $T::MulRegReg(o, l, r) => rr(2, o as u64, l as u64, r as u64),
            $T::DivRegReg(o, l, r) => rr(3, o as u64, l as u64, r as u64),
            $T::AtanRegReg(o, l, r) => rr(4, o as u64, l as u64, r as u64),
            $T::MinRegReg(o, l, r) => rr(5, o as u64, l as u64, r as u64),
            $T::MaxRegReg(o, l, r) => rr(6, o as u64, l as u64, r as u64),
            $T::CompareRegReg(o, l, r) => rr(7, o as u64, l as u64, r as u64),
            $T::ModRegReg(o, l, r) => rr(8, o as u64, l as u64, r as u64),
            $T::AndRegReg(o, l, r) => rr(9, o as u64, l as u64, r as u64),
            $T::OrRegReg(o, l, r) => rr(10, o as u64, l as u64, r as u64),
            $T::MixRegReg(o, l, r) => rr(11, o as u64, l as u64, r as u64),
            $($extra)*
        }
    }};
}

pub fn enc_ssa(op: SsaOp) -> Vec<u64> { enc_ops!(SsaOp, op,) }
pub fn enc_reg(op: RegOp) -> Vec<u64> {
    enc_ops!(RegOp, op,
        RegOp::Load(r, m) => vec![7, r as u64, m as u64],
        RegOp::Store(r, m) => vec![8, r as u64, m as u64],
    )
}

/// Decodes a wire op into an SsaOp (None for Load/Store or a (bop, form) pair with no variant)
pub fn dec_ssa(w: &[u64]) -> Option<SsaOp> {
    let f = |x: u64| f32::from_bits(x as u32);
    Some(match w[0] {
        0 => SsaOp::Output(w[1] as u32, w[2] as u32),
        1 => SsaOp::Input(w[1] as u32, w[2] as u32),
        2 => SsaOp::CopyImm(w[1] as u32, f(w[2])),
        3 => {
            let (o, a) = (w[2] as u32, w[3] as u32);
            match w[1] {
                0 => SsaOp::NegReg(o, a), 1 => SsaOp::AbsReg(o, a), 2 => SsaOp::RecipReg(o, a),
                3 => SsaOp::SqrtReg(o, a), 4 => SsaOp::SquareReg(o, a), 5 => SsaOp::FloorReg(o, a),
                6 => SsaOp::CeilReg(o, a), 7 => SsaOp::RoundReg(o, a), 8 => SsaOp::SinReg(o, a),
                9 => SsaOp::CosReg(o, a), 10 => SsaOp::TanReg(o, a), 11 => SsaOp::AsinReg(o, a),
                12 => SsaOp::AcosReg(o, a), 13 => SsaOp::AtanReg(o, a), 14 => SsaOp::ExpReg(o, a),
                15 => SsaOp::LnReg(o, a), 16 => SsaOp::NotReg(o, a), 17 => SsaOp::RandReg(o, a),
                18 => SsaOp::CopyReg(o, a), _ => return None,
            }
        }
        4 => {
            let (o, l, r) = (w[2] as u32, w[3] as u32, w[4] as u32);
            match w[1] {
                0 => SsaOp::AddRegReg(o, l, r), 1 => SsaOp::SubRegReg(o, l, r), 2 => SsaOp::MulRegReg(o, l, r),
                3 => SsaOp::DivRegReg(o, l, r), 4 => SsaOp::AtanRegReg(o, l, r), 5 => SsaOp::MinRegReg(o, l, r),
                6 => SsaOp::MaxRegReg(o, l, r), 7 => SsaOp::CompareRegReg(o, l, r), 8 => SsaOp::ModRegReg(o, l, r),
                9 => SsaOp::AndRegReg(o, l, r), 10 => SsaOp::OrRegReg(o, l, r), 11 => SsaOp::MixRegReg(o, l, r),
                _ => return None,
            }
        }
        5 => {
            let (o, a, i) = (w[2] as u32, w[3] as u32, f(w[4]));
            match w[1] {
                0 => SsaOp::AddRegImm(o, a, i), 1 => SsaOp::SubRegImm(o, a, i), 2 => SsaOp::MulRegImm(o, a, i),
                3 => SsaOp::DivRegImm(o, a, i), 4 => SsaOp::AtanRegImm(o, a, i), 5 => SsaOp::MinRegImm(o, a, i),
                6 => SsaOp::MaxRegImm(o, a, i), 7 => SsaOp::CompareRegImm(o, a, i), 8 => SsaOp::ModRegImm(o, a, i),
                9 => SsaOp::AndRegImm(o, a, i), 10 => SsaOp::OrRegImm(o, a, i), 11 => SsaOp::MixRegImm(o, a, i),
                _ => return None,
            }
        }
        6 => {
            let (o, a, i) = (w[2] as u32, w[3] as u32, f(w[4]));
            match w[1] {
                1 => SsaOp::SubImmReg(o, a, i), 3 => SsaOp::DivImmReg(o, a, i), 4 => SsaOp::AtanImmReg(o, a, i),
                7 => SsaOp::CompareImmReg(o, a, i), 8 => SsaOp::ModImmReg(o, a, i), 11 => SsaOp::MixImmReg(o, a, i),
                _ => return None,
            }
        }
        _ => return None,
    })
}

pub fn op_arity(tag: u64) -> usize {
    match tag { 0 | 1 | 2 | 7 | 8 => 3, 3 => 4, 4 | 5 | 6 => 5, _ => panic!("bad tag {tag}") }
}

pub fn fmt_tape<I: IntoIterator<Item = Vec<u64>>>(ops: I) -> String {
    let v: Vec<Vec<u64>> = ops.into_iter().collect();
    let mut s = format!("{}", v.len());
    for o in v { for x in o { s.push(' '); s.push_str(&x.to_string()); } }
    s
}

/// Variable numbering on the wire: X=0 Y=1 Z=2, the k-th `Var::V` of `vs` is 3+k.
pub fn var_id(v: Var, vs: &[Var]) -> u64 {
    match v {
        Var::X => 0, Var::Y => 1, Var::Z => 2,
        _ => 3 + vs.iter().position(|x| *x == v).expect("unknown var") as u64,
    }
}

/// The whole arena of a context, by node index.
pub fn fmt_arena(ctx: &Context, vs: &[Var]) -> String {
    let n = ctx.len();
    let mut s = format!("{n}");
    for i in 0..n {
        let op = ctx.get_op(Node::verif_new(i)).unwrap();
        match op {
            Op::Input(v) => s.push_str(&format!(" 0 {}", var_id(*v, vs))),
            Op::Const(c) => s.push_str(&format!(" 1 {}", fb(c.0))),
            Op::Unary(u, a) => s.push_str(&format!(" 2 {} {}", uop_id(*u), a.verif_index())),
            Op::Binary(b, l, r) => s.push_str(&format!(" 3 {} {} {}", bop_id(*b), l.verif_index(), r.verif_index())),
        }
    }
    s
}
