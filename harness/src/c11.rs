//! C11: evaluation is total — finite inputs never crash an evaluator; argument
//! errors are error values.  Overflow-prone compositions, inputs up to f32::MAX,
//! every evaluator kind of both backends, and a malformed-argument stream.
//! Cases run in child processes (chunks) so that an abort or a fault in JIT code is
//! observed, not suffered.
use crate::c01::fmt_bits;
use crate::c04::*;
use crate::dag::*;
use crate::rng::*;
use crate::wire::*;
use fidget_core::context::{BinaryOpcode, Context, Node, UnaryOpcode};
use fidget_core::eval::{BulkEvaluator, Function, MathFunction, TracingEvaluator};
use fidget_core::shape::{EzShape, Shape, ShapeVars};
use fidget_core::types::{Grad, Interval};
use fidget_core::var::Var;
use fidget_core::vm::{GenericVmFunction, VmTrace};
use fidget_jit::JitFunction;
use std::collections::BTreeMap;
use std::fmt::Write as _;
use std::panic::{catch_unwind, AssertUnwindSafe};

/// DAGs whose intermediates overflow, divide by zero-touching intervals, leave domains
pub fn gen_overflow_dag(r: &mut Rng) -> Dag {
    let mut ctx = Context::new();
    let x = ctx.x(); let y = ctx.y(); let z = ctx.z();
    let mut pool = vec![x, y, z];
    let n = r.range(2, 14);
    for _ in 0..n {
        let a = pool[r.below(pool.len())];
        let b = pool[r.below(pool.len())];
        let big = *r.pick(&[1e30f32, 3e38, 1e20, -1e30, 1e-30, 0.0, 2.0]);
        // (constants that are themselves infinite: a bound that overflowed to the OTHER infinity gives inf - inf in one bound only)
        let inf = *r.pick(&[f32::INFINITY, f32::NEG_INFINITY]);
        let node = match r.below(19) {
            16 => ctx.add(a, inf), 17 => ctx.sub(inf, a), 18 => ctx.mul(a, inf),
            0 => ctx.square(a), 1 => ctx.mul(a, b), 2 => ctx.mul(a, big), 3 => ctx.exp(a),
            4 => ctx.div(a, b), 5 => ctx.recip(a), 6 => ctx.sub(a, b), 7 => ctx.add(a, b),
            8 => ctx.ln(a), 9 => ctx.sqrt(a), 10 => ctx.tan(a), 11 => ctx.modulo(a, b),
            12 => ctx.min(a, b), 13 => ctx.atan2(a, b), 14 => ctx.neg(a), _ => ctx.and(a, b),
        }.unwrap();
        pool.push(node);
    }
    let roots = vec![*pool.last().unwrap()];
    let _ = (UnaryOpcode::Neg, BinaryOpcode::Add);
    Dag { ctx, roots, vs: vec![] }
}

pub fn gen_huge(r: &mut Rng) -> f32 {
    let m = *r.pick(&[1.0f32, 1e10, 1e19, 1e30, 3.0e38, f32::MAX, 1e-30, 1e-40, 0.0]);
    let s = if r.chance(0.5) { 1.0 } else { -1.0 };
    let v = s * m * (0.5 + r.unit() as f32 * 0.5);
    if v.is_finite() { v } else { s * f32::MAX }
}

fn half_nan(i: &Interval) -> bool { i.lower().is_nan() != i.upper().is_nan() }

/// Runs every evaluator kind of backend F on one case; returns (failures, interval text)
fn exercise<F: Function<Trace = VmTrace> + MathFunction>(dag: &Dag, p: &[f32], bx: &[(f32, f32)], backend: &str) -> (Vec<String>, String) {
    let mut bad = vec![];
    let mut itext = String::new();
    let f = match catch_unwind(AssertUnwindSafe(|| F::new(&dag.ctx, &dag.roots).unwrap())) {
        Ok(f) => f, Err(_) => { bad.push(format!("kind=panic evaluator=build backend={backend}")); return (bad, "build".into()); }
    };
    if point_eval(&f, &dag.vs, p).is_err() { bad.push(format!("kind=panic evaluator=point backend={backend}")); }
    match interval_eval(&f, &dag.vs, bx) {
        Err(_) => { bad.push(format!("kind=panic evaluator=interval backend={backend}")); itext = "panic".into(); }
        Ok((o, tr)) => {
            // a trace that comes back has every clause decided (no Unknown), and the function can be simplified with it
            if let Some(codes) = &tr {
                if codes.iter().any(|c| *c == 0) { bad.push(format!("kind=unknown-choice-in-trace evaluator=interval backend={backend} trace={codes:?}")); }
                let t = make_trace(codes); let mut ws = Default::default();
                match catch_unwind(AssertUnwindSafe(|| f.simplify(&t, Default::default(), &mut ws).map(|f1| point_eval(&f1, &dag.vs, p).is_ok()))) {
                    Ok(Ok(true)) => {}
                    Ok(Ok(false)) => bad.push(format!("kind=panic evaluator=point-of-simplified backend={backend}")),
                    Ok(Err(_)) => bad.push(format!("kind=simplify-rejects-own-trace evaluator=interval backend={backend}")),
                    Err(_) => bad.push(format!("kind=panic evaluator=simplify-with-own-trace backend={backend} trace={codes:?}")),
                }
            }
            for i in &o {
                if half_nan(i) { bad.push(format!("kind=half-nan-interval evaluator=interval backend={backend} interval=[{}, {}]", i.lower(), i.upper())); }
                else if !i.lower().is_nan() && i.lower() > i.upper() { bad.push(format!("kind=inverted-interval evaluator=interval backend={backend} interval=[{}, {}]", i.lower(), i.upper())); }
                write!(itext, "{} ", fmt_interval(i)).unwrap();
            }
        }
    }
    let pts: Vec<Vec<f32>> = (0..5).map(|k| p.iter().map(|v| if k == 0 { *v } else { *v * (k as f32) }).map(|v| if v.is_finite() { v } else { f32::MAX }).collect()).collect();
    if slice_eval(&f, &dag.vs, &pts).is_err() { bad.push(format!("kind=panic evaluator=float-slice backend={backend}")); }
    // an empty batch on FRESH bulk evaluators: one (empty) result per output, at the function level and through the shape wrapper
    let empty = catch_unwind(AssertUnwindSafe(|| {
        let mut bad = vec![];
        let nv = var_order(&f).len();
        let no = f.output_count();
        let st = f.float_slice_tape(Default::default());
        let mut se = F::new_float_slice_eval();
        match se.eval(&st, &vec![Vec::<f32>::new(); nv]) { Ok(o) => if o.len() != no || (0..o.len()).any(|k| !o[k].is_empty()) { bad.push(format!("float-slice: {} result arrays for {no} outputs", o.len())); }, Err(e) => bad.push(format!("float-slice: {e}")) }
        let gt = f.grad_slice_tape(Default::default());
        let mut ge = F::new_grad_slice_eval();
        match ge.eval(&gt, &vec![Vec::<Grad>::new(); nv]) { Ok(o) => if o.len() != no || (0..o.len()).any(|k| !o[k].is_empty()) { bad.push(format!("grad-slice: {} result arrays for {no} outputs", o.len())); }, Err(e) => bad.push(format!("grad-slice: {e}")) }
        let shape = Shape::<F>::new(&dag.ctx, dag.roots[0]).unwrap();
        if shape.inner().vars().iter().all(|(v, _)| matches!(v, Var::X | Var::Y | Var::Z)) {
            let t = shape.ez_float_slice_tape(); let mut e = Shape::<F>::new_float_slice_eval();
            match e.eval(&t, &[], &[], &[]) { Ok(o) => if !o.is_empty() { bad.push("shape float-slice: non-empty result for an empty batch".into()); }, Err(e) => bad.push(format!("shape float-slice: {e}")) }
            let t = shape.ez_grad_slice_tape(); let mut e = Shape::<F>::new_grad_slice_eval();
            match e.eval(&t, &[], &[], &[]) { Ok(o) => if !o.is_empty() { bad.push("shape grad-slice: non-empty result for an empty batch".into()); }, Err(e) => bad.push(format!("shape grad-slice: {e}")) }
        }
        bad
    }));
    match empty { Ok(b) => for m in b { bad.push(format!("kind=empty-batch evaluator=bulk backend={backend} {m}")); }, Err(_) => bad.push(format!("kind=panic evaluator=bulk-empty-batch backend={backend}")) }
    let g = catch_unwind(AssertUnwindSafe(|| {
        let order = var_order(&f);
        if order.is_empty() { return; }
        let cols: Vec<Vec<Grad>> = order.iter().enumerate().map(|(j, v)| pts.iter().map(|p| Grad::new(p[var_id(*v, &dag.vs) as usize], (j == 0) as u8 as f32, (j == 1) as u8 as f32, (j == 2) as u8 as f32)).collect()).collect();
        let tape = f.grad_slice_tape(Default::default());
        let mut ge = F::new_grad_slice_eval();
        ge.eval(&tape, &cols).unwrap();
    }));
    if g.is_err() { bad.push(format!("kind=panic evaluator=grad-slice backend={backend}")); }
    // shape-level evaluation through a transform (Transformable for Interval / f32 / Grad)
    let sh = catch_unwind(AssertUnwindSafe(|| {
        let shape = Shape::<F>::new(&dag.ctx, dag.roots[0]).unwrap();
        let m = nalgebra::Matrix4::<f32>::new(2.0, 0.5, 0.0, 1.0, 0.0, 3.0, 1.0, -2.0, 1.0, 0.0, 1.0, 0.5, 0.0, 0.0, 0.0, 1.0);
        let tape = shape.ez_interval_tape();
        let mut ie = Shape::<F>::new_interval_eval();
        let iv = |k: usize| Interval::new(bx[k].0, bx[k].1);
        let (i, _) = ie.eval_with_transform(&tape, iv(0), iv(1), iv(2), &m).unwrap();
        let ptape = shape.ez_point_tape();
        let mut pe = Shape::<F>::new_point_eval();
        let _ = pe.eval_with_transform(&ptape, p[0], p[1], p[2], &m).unwrap();
        i
    }));
    match sh {
        Err(_) => bad.push(format!("kind=panic evaluator=shape-transform backend={backend}")),
        Ok(i) => if half_nan(&i) { bad.push(format!("kind=half-nan-interval evaluator=shape-transform backend={backend} interval=[{}, {}]", i.lower(), i.upper())); }
    }
    (bad, itext)
}

/// Malformed argument lists must produce error values, never panics.
fn malformed<F: Function<Trace = VmTrace> + MathFunction>(r: &mut Rng, backend: &str) -> Vec<String> {
    let mut bad = vec![];
    let res = catch_unwind(AssertUnwindSafe(|| {
        let mut bad = vec![];
        let mut ctx = Context::new();
        let x = ctx.x(); let y = ctx.y();
        let v = Var::new();
        let vn = ctx.var(v);
        let s = ctx.add(x, y).unwrap();
        let root = ctx.mul(s, vn).unwrap();
        let f = F::new(&ctx, &[root]).unwrap();
        // too few variables
        let t = f.point_tape(Default::default());
        let mut pe = F::new_point_eval();
        if pe.eval(&t, &[1.0]).is_ok() { bad.push("too few variables accepted by point eval".to_string()); }
        let it = f.interval_tape(Default::default());
        let mut ie = F::new_interval_eval();
        if ie.eval(&it, &[Interval::new(0.0, 1.0)]).is_ok() { bad.push("too few variables accepted by interval eval".to_string()); }
        // mismatched slice lengths / too few slices
        let st = f.float_slice_tape(Default::default());
        let mut se = F::new_float_slice_eval();
        let n = r.range(1, 9);
        if se.eval(&st, &[vec![0.0; n], vec![0.0; n + 1], vec![0.0; n]]).is_ok() { bad.push("mismatched slice lengths accepted".to_string()); }
        if se.eval(&st, &[vec![0.0; n]]).is_ok() { bad.push("too few slices accepted".to_string()); }
        // surplus slices (more than the tape has variables): a length mismatch among them is an error value,
        // equal lengths are accepted; short batches (below the SIMD width), zero length, and long ones
        for n in [0usize, 1, 3, 7, 8, 40] {
            let mut sl = vec![vec![0.5f32; n]; 3];
            sl.push(vec![0.5; n + 2]);
            if se.eval(&st, &sl).is_ok() { bad.push(format!("a surplus slice of a different length accepted (n={n})")); }
            let mut sl = vec![vec![0.5f32; n]; 5];
            if se.eval(&st, &sl).is_err() { bad.push(format!("surplus slices of equal length rejected (n={n})")); }
            sl[4] = vec![];
            if n > 0 && se.eval(&st, &sl).is_ok() { bad.push(format!("an empty surplus slice accepted (n={n})")); }
            let gt = f.grad_slice_tape(Default::default());
            let mut ge = F::new_grad_slice_eval();
            let mut gl = vec![vec![fidget_core::types::Grad::from(0.5); n]; 3];
            gl.push(vec![fidget_core::types::Grad::from(0.5); n + 1]);
            if ge.eval(&gt, &gl).is_ok() { bad.push(format!("a surplus gradient slice of a different length accepted (n={n})")); }
        }
        // the shape wrapper: X, Y, Z slices of different lengths are an error value, whichever of the three is the odd one
        {
            let sh = Shape::<F>::new(&ctx, s).unwrap();
            let (t, gt) = (sh.ez_float_slice_tape(), sh.ez_grad_slice_tape());
            let mut e = Shape::<F>::new_float_slice_eval(); let mut ge = Shape::<F>::new_grad_slice_eval();
            for odd in 0..3 { for delta in [-1i32, 1] {
                let len = |k: usize| if k == odd { (4 + delta) as usize } else { 4 };
                let (xs, ys, zs) = (vec![0.5f32; len(0)], vec![0.5f32; len(1)], vec![0.5f32; len(2)]);
                if e.eval(&t, &xs, &ys, &zs).is_ok() { bad.push(format!("shape float-slice evaluation accepts slices of lengths {} {} {}", xs.len(), ys.len(), zs.len())); }
                let g = |n: usize| vec![Grad::from(0.5); n];
                if ge.eval(&gt, &g(len(0)), &g(len(1)), &g(len(2))).is_ok() { bad.push(format!("shape grad-slice evaluation accepts slices of lengths {} {} {}", len(0), len(1), len(2))); }
            } }
        }
        // extra variables are fine
        if pe.eval(&t, &[1.0, 2.0, 3.0, 4.0, 5.0]).is_err() { bad.push("extra variables rejected".to_string()); }
        // missing bound variable at the shape level
        let shape = Shape::<F>::new(&ctx, root).unwrap();
        let tape = shape.ez_point_tape();
        let mut spe = Shape::<F>::new_point_eval();
        let empty = ShapeVars::<f32>::new();
        if spe.eval_with_vars(&tape, 1.0, 2.0, 3.0, &empty).is_ok() { bad.push("missing bound variable accepted".to_string()); }
        let mut vars = ShapeVars::<f32>::new();
        vars.insert(v.index().unwrap(), 2.0);
        match spe.eval_with_vars(&tape, 1.0, 2.0, 3.0, &vars) { Ok((val, _)) => if val != 6.0 { bad.push(format!("bound variable evaluation gave {val}")); }, Err(_) => bad.push("bound variable rejected".to_string()) }
        bad
    }));
    match res {
        Ok(b) => for m in b { bad.push(format!("kind=bad-argument-handling backend={backend} {m}")); },
        Err(_) => bad.push(format!("kind=panic evaluator=malformed-arguments backend={backend}")),
    }
    bad
}

/// Case generation is deterministic in (seed, index), so a child can regenerate it.
fn gen_case(seed: u64, ci: usize) -> (Dag, Vec<f32>, Vec<(f32, f32)>, bool) {
    if ci < 2 {
        // corpus: inf - inf in one bound only (D3: interpreter panicked before 6329fbd; the JIT
        // returns a half-NaN interval), and the same under exp (aborted the process before 69c5979)
        let mut ctx = Context::new();
        let x = ctx.x(); let y = ctx.y();
        let xx = ctx.square(x).unwrap(); let yy = ctx.square(y).unwrap();
        let d = ctx.sub(xx, yy).unwrap();
        let root = if ci == 0 { d } else { ctx.exp(d).unwrap() };
        return (Dag { ctx, roots: vec![root], vs: vec![] }, vec![1e30, 1e30, 0.0],
                vec![(1e30, 1e30), (0.0, 1e30), (0.0, 0.0)], true);
    }
    let mut rr = Rng::new(seed ^ 0xC11 ^ ((ci as u64) << 20));
    let r = &mut rr;
    let overflow = r.chance(0.6);
    let dag = if overflow { gen_overflow_dag(r) } else {
        let cfg = DagCfg { max_ops: *r.pick(&[5, 20, 50]), max_outputs: 1, max_free_vars: 0, p_special_const: 0.3, const_roots: false, ..Default::default() };
        gen_dag(r, &cfg)
    };
    let p: Vec<f32> = (0..3).map(|_| if r.chance(0.5) { gen_huge(r) } else { gen_tame(r) }).collect();
    let bx: Vec<(f32, f32)> = (0..3).map(|_| {
        let a = if r.chance(0.5) { gen_huge(r) } else { gen_tame(r) };
        let b = match r.below(4) { 0 => a, 1 => if r.chance(0.5) { gen_huge(r) } else { gen_tame(r) }, 2 => 0.0, _ => a + 1.0 };
        let (l, u) = (a.min(b), a.max(b));
        if l.is_finite() && u.is_finite() { (l, u) } else { (a, a) }
    }).collect();
    (dag, p, bx, overflow)
}

/// child: runs cases [lo, hi) and prints one line per case: "<ci>\t<interval text>\t<failures ; separated>"
pub fn run_chunk(seed: u64, lo: usize, hi: usize) {
    use std::io::Write;
    let out = std::io::stdout();
    for ci in lo..hi {
        let (dag, p, bx, _) = gen_case(seed, ci);
        { let mut o = out.lock(); writeln!(o, "BEGIN {ci}").unwrap(); o.flush().unwrap(); }
        let (mut bad, itext) = exercise::<GenericVmFunction<255>>(&dag, &p, &bx, "vm");
        let (b2, _) = exercise::<JitFunction>(&dag, &p, &bx, "jit");
        bad.extend(b2);
        if ci % 10 == 0 {
            let mut r = Rng::new(seed ^ ci as u64);
            bad.extend(malformed::<GenericVmFunction<255>>(&mut r, "vm"));
            bad.extend(malformed::<JitFunction>(&mut r, "jit"));
        }
        let mut o = out.lock();
        writeln!(o, "DONE {ci}\t{itext}\t{}", bad.join(" ;; ")).unwrap();
        o.flush().unwrap();
    }
}

pub fn run(seed: u64, count: usize, outdir: &str) -> std::io::Result<i32> {
    let exe = std::env::current_exe()?;
    let chunk = 100usize;
    let (mut cases, mut impls, mut oracle) = (String::new(), String::new(), String::new());
    let mut fails = 0usize;
    let mut kinds: BTreeMap<String, usize> = BTreeMap::new();
    let mut results: BTreeMap<usize, (String, String)> = BTreeMap::new();
    let mut crashed: Vec<usize> = vec![];
    let mut lo = 0;
    while lo < count {
        let hi = (lo + chunk).min(count);
        let mut start = lo;
        // re-spawn after a crash, skipping the crashing case
        while start < hi {
            let outp = std::process::Command::new(&exe).args(["c11-chunk", &seed.to_string(), &start.to_string(), &hi.to_string()]).output()?;
            let text = String::from_utf8_lossy(&outp.stdout).to_string();
            let mut last_begin: Option<usize> = None;
            let mut last_done: Option<usize> = None;
            for ln in text.lines() {
                if let Some(rest) = ln.strip_prefix("BEGIN ") { last_begin = rest.trim().parse().ok(); }
                if let Some(rest) = ln.strip_prefix("DONE ") {
                    let mut it = rest.splitn(3, '\t');
                    let ci: usize = it.next().unwrap().trim().parse().unwrap();
                    let itext = it.next().unwrap_or("").to_string();
                    let bad = it.next().unwrap_or("").to_string();
                    results.insert(ci, (itext, bad));
                    last_done = Some(ci);
                }
            }
            if outp.status.success() { break; }
            // abnormal exit: the case that began but did not finish crashed the process
            let c = match (last_begin, last_done) { (Some(b), Some(d)) if b > d => b, (Some(b), None) => b, _ => start };
            crashed.push(c);
            results.insert(c, ("crash".into(), format!("kind=process-abort evaluator=unknown backend=unknown status={:?}", outp.status)));
            start = c + 1;
        }
        lo = hi;
    }
    let mut distinct = std::collections::HashSet::new();
    let mut samples_out: Vec<String> = vec![];
    let mut overflow_cases = 0;
    for ci in 0..count {
        let (dag, p, bx, overflow) = gen_case(seed, ci);
        if overflow { overflow_cases += 1; }
        let (itext, bad) = results.get(&ci).cloned().unwrap_or(("missing".into(), "kind=missing-result".into()));
        let mut line = format!("c11 {} {}", fmt_arena(&dag.ctx, &dag.vs), dag.roots.len());
        for rt in &dag.roots { write!(line, " {}", rt.verif_index()).unwrap(); }
        write!(line, " 3").unwrap();
        for (l, u) in &bx { write!(line, " {} {}", canon_bits(*l), canon_bits(*u)).unwrap(); }
        cases.push_str(&line); cases.push('\n');
        impls.push_str(&format!("iv {}\n", itext.trim()));
        for b in bad.split(" ;; ").filter(|s| !s.is_empty()) {
            fails += 1;
            let kind = b.split_whitespace().next().unwrap_or("kind=?").to_string();
            *kinds.entry(kind).or_default() += 1;
            writeln!(oracle, "FAIL case={ci} {b} point=[{}] box={bx:?}", fmt_bits(&p)).unwrap();
        }
        distinct.insert(fmt_arena(&dag.ctx, &dag.vs));
        if samples_out.len() < 3 && overflow { samples_out.push(format!("point={p:?} box={bx:?} iv {itext}")); }
    }
    std::fs::write(format!("{outdir}/cases.txt"), cases)?;
    std::fs::write(format!("{outdir}/impl.txt"), impls)?;
    std::fs::write(format!("{outdir}/oracle.txt"), oracle)?;
    let mut js = String::from("{");
    write!(js, "\"cases\": {count}, \"distinct_nontrivial\": {}, \"overflow_prone_cases\": {overflow_cases}, \"malformed_argument_rounds\": {}, \"process_aborts\": {}, ", distinct.len(), (count + 9) / 10 * 2, crashed.len()).unwrap();
    write!(js, "\"failure_kinds\": {{{}}}, ", kinds.iter().map(|(k, v)| format!("\"{k}\": {v}")).collect::<Vec<_>>().join(", ")).unwrap();
    write!(js, "\"samples\": [{}], ", samples_out.iter().map(|s| format!("{s:?}")).collect::<Vec<_>>().join(", ")).unwrap();
    write!(js, "\"oracle_fails\": {fails}}}").unwrap();
    std::fs::write(format!("{outdir}/stats.json"), js)?;
    let _ = Node::verif_new;
    Ok(if fails > 0 { 1 } else { 0 })
}
