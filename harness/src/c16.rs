//! C16: standard shapes and transforms have their documented geometry.
//! Every shape of fidget-shapes is built with random parameters (and small random input
//! shapes), imported into a Context, and (a) compared node-for-node with the Coq model's
//! builder for that shape imported into the Context model, (b) compared at sample points
//! with closed-form geometry in f64: primitives are negative exactly inside, each
//! transform T satisfies T(s)(p) = s(T^-1 p), CSG combinators follow set algebra, named
//! axes and planes are what their names say.
use crate::c12::{tree_table};
use crate::rng::*;
use crate::wire::*;
use fidget_core::context::{Context, Tree};
use fidget_shapes::types::{Axis, Plane, Vec2, Vec3};
use fidget_shapes::*;
use nalgebra::{Rotation3, Vector3};
use std::collections::BTreeMap;
use std::fmt::Write as _;

fn fb(f: f32) -> u32 { canon_bits(f) }

fn nz(r: &mut Rng) -> f32 { let v = gen_tame(r); if v.abs() < 0.2 { v + 0.7 } else { v } }
fn pos(r: &mut Rng) -> f32 { (gen_tame(r)).abs() + 0.3 }

/// small input shapes (primitives, so that closed-form geometry is available)
#[derive(Clone)]
enum Base { Sphere([f32; 3], f32), Box([f32; 3], [f32; 3]), Circle([f32; 2], f32) }
impl Base {
    fn random(r: &mut Rng) -> Base {
        match r.below(3) {
            0 => Base::Sphere([gen_tame(r), gen_tame(r), gen_tame(r)], pos(r)),
            1 => { let l = [gen_tame(r), gen_tame(r), gen_tame(r)]; Base::Box(l, [l[0] + pos(r), l[1] + pos(r), l[2] + pos(r)]) }
            _ => Base::Circle([gen_tame(r), gen_tame(r)], pos(r)),
        }
    }
    fn tree(&self) -> Tree {
        match self {
            Base::Sphere(c, r) => Sphere { center: Vec3::new(c[0], c[1], c[2]), radius: *r }.into(),
            Base::Box(l, u) => fidget_shapes::Box { lower: Vec3::new(l[0], l[1], l[2]), upper: Vec3::new(u[0], u[1], u[2]) }.into(),
            Base::Circle(c, r) => Circle { center: Vec2::new(c[0], c[1]), radius: *r }.into(),
        }
    }
    /// signed "distance-like" value in f64 (same formulas, exact geometry)
    fn val(&self, p: [f64; 3]) -> f64 {
        match self {
            Base::Sphere(c, r) => ((p[0] - c[0] as f64).powi(2) + (p[1] - c[1] as f64).powi(2) + (p[2] - c[2] as f64).powi(2)).sqrt() - *r as f64,
            Base::Box(l, u) => (0..3).map(|i| (l[i] as f64 - p[i]).max(p[i] - u[i] as f64)).fold(f64::NEG_INFINITY, f64::max),
            Base::Circle(c, r) => ((p[0] - c[0] as f64).powi(2) + (p[1] - c[1] as f64).powi(2)).sqrt() - *r as f64,
        }
    }
}


thread_local! { static AXIS_BAD: std::cell::RefCell<Vec<String>> = std::cell::RefCell::new(vec![]); }
/// Axis::try_from(v) must be v / |v| (same direction AND sense)
fn axis_of(raw: Vec3) -> Axis {
    let ax = Axis::try_from(raw).unwrap();
    let n = ((raw.x as f64).powi(2) + (raw.y as f64).powi(2) + (raw.z as f64).powi(2)).sqrt();
    let a = *ax.vec();
    let d = ((a.x as f64 - raw.x as f64 / n).abs()).max((a.y as f64 - raw.y as f64 / n).abs()).max((a.z as f64 - raw.z as f64 / n).abs());
    if !(d <= 1e-5) { AXIS_BAD.with(|b| b.borrow_mut().push(format!("kind=axis-normalisation Axis::try_from({:?}) = {:?}, expected {:?}", [raw.x, raw.y, raw.z], [a.x, a.y, a.z], [raw.x as f64 / n, raw.y as f64 / n, raw.z as f64 / n]))); }
    ax
}
/// a raw axis vector: usually oblique, sometimes aligned with a coordinate axis (either sign, any length)
fn raw_axis(r: &mut Rng) -> Vec3 {
    if r.chance(0.3) {
        let k = r.below(3); let mut a = [0.0f32; 3];
        a[k] = *r.pick(&[1.0f32, -1.0, 2.0, -2.0, 0.5, -3.5]);
        Vec3::new(a[0], a[1], a[2])
    } else { Vec3::new(nz(r), gen_tame(r), gen_tame(r)) }
}

struct Built { id: usize, params: Vec<f32>, inputs: Vec<Tree>, tree: Tree, expect: std::boxed::Box<dyn Fn([f64; 3]) -> Option<f64>>, exact_sign_only: bool, name: &'static str }

fn rot_data(axis: &Vec3, angle_deg: f32) -> [f32; 9] {
    // exactly what fidget-shapes computes: Rotation3::new(d * axis), d = -angle.to_radians()
    let d = -angle_deg.to_radians();
    let a = Vector3::new(d * axis.x, d * axis.y, d * axis.z);
    let r = Rotation3::<f32>::new(a);
    let m = r.matrix();
    [m[(0, 0)], m[(0, 1)], m[(0, 2)], m[(1, 0)], m[(1, 1)], m[(1, 2)], m[(2, 0)], m[(2, 1)], m[(2, 2)]]
}

fn rot_f64(axis: [f64; 3], ang: f64, p: [f64; 3]) -> [f64; 3] {
    // Rodrigues
    let (s, c) = ang.sin_cos();
    let k = axis;
    let kxp = [k[1] * p[2] - k[2] * p[1], k[2] * p[0] - k[0] * p[2], k[0] * p[1] - k[1] * p[0]];
    let kp = k[0] * p[0] + k[1] * p[1] + k[2] * p[2];
    [p[0] * c + kxp[0] * s + k[0] * kp * (1.0 - c), p[1] * c + kxp[1] * s + k[1] * kp * (1.0 - c), p[2] * c + kxp[2] * s + k[2] * kp * (1.0 - c)]
}

fn build(r: &mut Rng, id: usize) -> Built {
    let b0 = Base::random(r); let b1 = Base::random(r);
    let (t0, t1) = (b0.tree(), b1.tree());
    let v3 = |a: [f32; 3]| Vec3::new(a[0], a[1], a[2]);
    macro_rules! bx { ($e:expr) => { std::boxed::Box::new($e) as std::boxed::Box<dyn Fn([f64; 3]) -> Option<f64>> } }
    match id {
        0 => { let (c, rad) = ([gen_tame(r), gen_tame(r)], pos(r)); let b = Base::Circle(c, rad);
               Built { id, params: vec![c[0], c[1], rad], inputs: vec![], tree: b.tree(), expect: bx!(move |p: [f64; 3]| Some(b.val(p))), exact_sign_only: false, name: "Circle" } }
        1 => { let l = [gen_tame(r), gen_tame(r)]; let u = [l[0] + pos(r), l[1] + pos(r)];
               let t: Tree = Rectangle { lower: Vec2::new(l[0], l[1]), upper: Vec2::new(u[0], u[1]) }.into();
               Built { id, params: vec![l[0], l[1], u[0], u[1]], inputs: vec![], tree: t,
                       expect: bx!(move |p: [f64; 3]| Some((0..2).map(|i| (l[i] as f64 - p[i]).max(p[i] - u[i] as f64)).fold(f64::NEG_INFINITY, f64::max))), exact_sign_only: false, name: "Rectangle" } }
        2 => { let (c, rad) = ([gen_tame(r), gen_tame(r), gen_tame(r)], pos(r)); let b = Base::Sphere(c, rad);
               Built { id, params: vec![c[0], c[1], c[2], rad], inputs: vec![], tree: b.tree(), expect: bx!(move |p: [f64; 3]| Some(b.val(p))), exact_sign_only: false, name: "Sphere" } }
        3 => { let l = [gen_tame(r), gen_tame(r), gen_tame(r)]; let u = [l[0] + pos(r), l[1] + pos(r), l[2] + pos(r)]; let b = Base::Box(l, u);
               Built { id, params: vec![l[0], l[1], l[2], u[0], u[1], u[2]], inputs: vec![], tree: b.tree(), expect: bx!(move |p: [f64; 3]| Some(b.val(p))), exact_sign_only: false, name: "Box" } }
        4 => { let raw = raw_axis(r); let ax = axis_of(raw); let off = gen_tame(r);
               let a = *ax.vec(); let t: Tree = Plane { axis: ax, offset: off }.into();
               Built { id, params: vec![a.x, a.y, a.z, off], inputs: vec![], tree: t,
                       expect: bx!(move |p: [f64; 3]| Some(a.x as f64 * p[0] + a.y as f64 * p[1] + a.z as f64 * p[2] - off as f64)), exact_sign_only: false, name: "Plane" } }
        5 | 6 => { let n = if r.chance(0.4) { r.range(6, 15) } else { r.range(0, 5) }; let bs: Vec<Base> = (0..n).map(|_| Base::random(r)).collect(); let ts: Vec<Tree> = bs.iter().map(|b| b.tree()).collect();
               let t: Tree = if id == 5 { Union { input: ts.clone() }.into() } else { Intersection { input: ts.clone() }.into() };
               let isu = id == 5;
               Built { id, params: vec![], inputs: ts, tree: t, expect: bx!(move |p: [f64; 3]| Some(bs.iter().map(|b| b.val(p)).fold(if isu { f64::INFINITY } else { f64::NEG_INFINITY }, |a, v| if isu { a.min(v) } else { a.max(v) }))),
                       exact_sign_only: false, name: if isu { "Union" } else { "Intersection" } } }
        7 => Built { id, params: vec![], inputs: vec![t0.clone()], tree: Inverse { shape: t0 }.into(), expect: bx!(move |p: [f64; 3]| Some(-b0.val(p))), exact_sign_only: false, name: "Inverse" },
        8 => Built { id, params: vec![], inputs: vec![t0.clone(), t1.clone()], tree: Difference { shape: t0, cutout: t1 }.into(),
                     expect: bx!(move |p: [f64; 3]| Some(b0.val(p).max(-b1.val(p)))), exact_sign_only: false, name: "Difference" },
        9 => { let rad = if r.chance(0.3) { 0.0 } else { pos(r) * 0.3 };
               Built { id, params: vec![rad], inputs: vec![t0.clone(), t1.clone()], tree: Blend { a: t0, b: t1, radius: rad }.into(),
                       // a blend is inside at least where the union is, and equals the union when the radius is 0 or the shapes are far apart
                       expect: bx!(move |p: [f64; 3]| { let (a, b) = (b0.val(p), b1.val(p)); if rad == 0.0 || (a - b).abs() >= rad as f64 { Some(a.min(b)) } else { None } }), exact_sign_only: false, name: "Blend" } }
        10 => { let o = [gen_tame(r), gen_tame(r), gen_tame(r)];
                Built { id, params: o.to_vec(), inputs: vec![t0.clone()], tree: Move { shape: t0, offset: v3(o) }.into(),
                        expect: bx!(move |p: [f64; 3]| Some(b0.val([p[0] - o[0] as f64, p[1] - o[1] as f64, p[2] - o[2] as f64]))), exact_sign_only: false, name: "Move" } }
        11 => { let k = [nz(r), nz(r), nz(r)];
                Built { id, params: k.to_vec(), inputs: vec![t0.clone()], tree: Scale { shape: t0, scale: v3(k) }.into(),
                        expect: bx!(move |p: [f64; 3]| Some(b0.val([p[0] / k[0] as f64, p[1] / k[1] as f64, p[2] / k[2] as f64]))), exact_sign_only: true, name: "Scale" } }
        12 => { let k = nz(r);
                Built { id, params: vec![k], inputs: vec![t0.clone()], tree: ScaleUniform { shape: t0, scale: k }.into(),
                        expect: bx!(move |p: [f64; 3]| Some(b0.val([p[0] / k as f64, p[1] / k as f64, p[2] / k as f64]))), exact_sign_only: true, name: "ScaleUniform" } }
        13..=17 => {
            let off = gen_tame(r);
            let (ax, name): (Axis, &'static str) = match id {
                13 => (axis_of(raw_axis(r)), "Reflect"),
                14 => (Axis::X, "ReflectX"), 15 => (Axis::Y, "ReflectY"), 16 => (Axis::Z, "ReflectZ"),
                _ => (Axis::try_from(Vec3::new(-1.0, 1.0, 0.0)).unwrap(), "ReflectXY"),
            };
            let a = *ax.vec();
            let tree: Tree = match id {
                13 => Reflect { shape: t0.clone(), plane: Plane { axis: ax, offset: off } }.into(),
                14 => ReflectX { shape: t0.clone(), offset: off }.into(), 15 => ReflectY { shape: t0.clone(), offset: off }.into(),
                16 => ReflectZ { shape: t0.clone(), offset: off }.into(), _ => ReflectXY { shape: t0.clone(), offset: off }.into(),
            };
            // the axes the NAMES promise (not the ones the code uses)
            let named: [f64; 3] = match id { 14 => [1.0, 0.0, 0.0], 15 => [0.0, 1.0, 0.0], 16 => [0.0, 0.0, 1.0],
                17 => { let s = 0.5f64.sqrt(); [-s, s, 0.0] }, _ => [a.x as f64, a.y as f64, a.z as f64] };
            Built { id, params: if id == 13 { vec![a.x, a.y, a.z, off] } else { vec![off] }, inputs: vec![t0], tree,
                    expect: bx!(move |p: [f64; 3]| { let d = named[0] * p[0] + named[1] * p[1] + named[2] * p[2] - off as f64;
                        Some(b0.val([p[0] - 2.0 * d * named[0], p[1] - 2.0 * d * named[1], p[2] - 2.0 * d * named[2]])) }), exact_sign_only: false, name }
        }
        18..=21 => {
            let ang = *r.pick(&[90.0f32, 45.0, -30.0, 180.0, 10.0, 270.0]) + if r.chance(0.3) { gen_tame(r) } else { 0.0 };
            let c = [gen_tame(r), gen_tame(r), gen_tame(r)];
            let (ax, name): (Axis, &'static str) = match id { 18 => (axis_of(raw_axis(r)), "Rotate"),
                19 => (Axis::X, "RotateX"), 20 => (Axis::Y, "RotateY"), _ => (Axis::Z, "RotateZ") };
            let a = *ax.vec();
            let tree: Tree = match id {
                18 => Rotate { shape: t0.clone(), axis: ax, angle: ang, center: v3(c) }.into(),
                19 => RotateX { shape: t0.clone(), angle: ang, center: v3(c) }.into(),
                20 => RotateY { shape: t0.clone(), angle: ang, center: v3(c) }.into(),
                _ => RotateZ { shape: t0.clone(), angle: ang, center: v3(c) }.into(),
            };
            let rd = rot_data(&a, ang);
            let named: [f64; 3] = match id { 19 => [1.0, 0.0, 0.0], 20 => [0.0, 1.0, 0.0], 21 => [0.0, 0.0, 1.0], _ => [a.x as f64, a.y as f64, a.z as f64] };
            let mut params = rd.to_vec(); params.extend(c);
            Built { id, params, inputs: vec![t0], tree,
                    // rotating the SHAPE by +angle about the axis through the centre: sample s at the point rotated by -angle
                    expect: bx!(move |p: [f64; 3]| { let q = [p[0] - c[0] as f64, p[1] - c[1] as f64, p[2] - c[2] as f64];
                        let q = rot_f64(named, -(ang as f64).to_radians(), q);
                        Some(b0.val([q[0] + c[0] as f64, q[1] + c[1] as f64, q[2] + c[2] as f64])) }), exact_sign_only: false, name }
        }
        22 => { let (cc, rad) = ([pos(r) + 1.0, gen_tame(r)], pos(r) * 0.5); let prof = Base::Circle(cc, rad); let off = gen_tame(r) * 0.3;
                Built { id, params: vec![off], inputs: vec![prof.tree()], tree: RevolveY { shape: prof.tree(), offset: off }.into(),
                        // revolve the XY profile about the line parallel to Y through x = -offset
                        expect: bx!(move |p: [f64; 3]| { let d = ((p[0] + off as f64).powi(2) + p[2].powi(2)).sqrt(); Some(prof.val([d - off as f64, p[1], 0.0])) }), exact_sign_only: false, name: "RevolveY" } }
        23 => { let lo = gen_tame(r); let hi = lo + pos(r); let prof = Base::Circle([gen_tame(r), gen_tame(r)], pos(r));
                Built { id, params: vec![lo, hi], inputs: vec![prof.tree()], tree: ExtrudeZ { shape: prof.tree(), lower: lo, upper: hi }.into(),
                        expect: bx!(move |p: [f64; 3]| Some(prof.val([p[0], p[1], 0.0]).max((lo as f64 - p[2]).max(p[2] - hi as f64)))), exact_sign_only: false, name: "ExtrudeZ" } }
        24 => { let lo = gen_tame(r); let hi = lo + pos(r); let pa = Base::Circle([gen_tame(r), gen_tame(r)], pos(r)); let pb = Base::Circle([gen_tame(r), gen_tame(r)], pos(r));
                Built { id, params: vec![lo, hi], inputs: vec![pa.tree(), pb.tree()], tree: LoftZ { a: pa.tree(), b: pb.tree(), lower: lo, upper: hi }.into(),
                        expect: bx!(move |p: [f64; 3]| { let (l, h) = (lo as f64, hi as f64); let t = ((p[2] - l) * pb.val(p) + (h - p[2]) * pa.val(p)) / (h - l); Some(t.max((l - p[2]).max(p[2] - h))) }), exact_sign_only: false, name: "LoftZ" } }
        25 => { let radius = pos(r) + 1.0; let off = gen_tame(r) * 0.2;
                Built { id, params: vec![radius, off], inputs: vec![t0.clone()], tree: RepeatX { shape: t0, radius, offset: off }.into(),
                        expect: bx!(move |p: [f64; 3]| { let rr = (radius - off) as f64; let per = 2.0 * radius as f64; let q = (p[0] + rr).rem_euclid(per) - rr; Some(b0.val([q, p[1], p[2]])) }), exact_sign_only: false, name: "RepeatX" } }
        _ => { // named planes: XY has normal Z, YZ has normal X, ZX has normal Y
               let k = id - 26;
               let (pl, n, name): (Plane, [f64; 3], &'static str) = match k { 0 => (Plane::XY, [0.0, 0.0, 1.0], "Plane::XY"), 1 => (Plane::YZ, [1.0, 0.0, 0.0], "Plane::YZ"), _ => (Plane::ZX, [0.0, 1.0, 0.0], "Plane::ZX") };
               Built { id: 26, params: vec![k as f32], inputs: vec![], tree: pl.into(), expect: bx!(move |p: [f64; 3]| Some(n[0] * p[0] + n[1] * p[1] + n[2] * p[2])), exact_sign_only: false, name } }
    }
}

pub fn run(seed: u64, count: usize, outdir: &str) -> std::io::Result<i32> {
    let mut rng = Rng::new(seed ^ 0xC16);
    let (mut cases, mut impls, mut oracle) = (String::new(), String::new(), String::new());
    let mut fails = 0usize;
    let mut hist: BTreeMap<String, usize> = BTreeMap::new();
    let mut distinct = std::collections::HashSet::new();
    let mut samples_out: Vec<String> = vec![];
    // self-check of the modelled nalgebra Affine3 product order (trusted-base check, reported)
    for ci in 0..count {
        let mut r = rng.fork();
        let id = if ci < 29 { ci } else { r.below(29) };
        let b = build(&mut r, id);
        *hist.entry(b.name.to_string()).or_default() += 1;
        // ---- case + implementation lines
        let mut line = format!("c16 {} {}", b.id, b.params.len());
        for p in &b.params { write!(line, " {}", fb(*p)).unwrap(); }
        write!(line, " {}", b.inputs.len()).unwrap();
        for t in &b.inputs { let (tab, root) = tree_table(t, &[]); write!(line, " {tab} {root}").unwrap(); }
        cases.push_str(&line); cases.push('\n');
        let mut ctx = Context::new();
        let node = ctx.import(&b.tree);
        let il = format!("node {} | arena {}", node.verif_index(), fmt_arena(&ctx, &[]));
        impls.push_str(&il); impls.push('\n');
        distinct.insert(line.clone());
        if samples_out.len() < 3 && il.len() < 400 { samples_out.push(format!("{} :: {line} => {il}", b.name)); }
        for m in AXIS_BAD.with(|b| std::mem::take(&mut *b.borrow_mut())) { fails += 1; writeln!(oracle, "FAIL case={ci} {m}").unwrap(); }
        // ---- geometry oracle
        let mut nbad = 0;
        for _ in 0..24 {
            let p = [gen_tame(&mut r) * 1.3 + 0.0173, gen_tame(&mut r) * 1.3 - 0.0091, gen_tame(&mut r) * 1.3 + 0.0057];
            let got = ctx.eval_xyz(node, p[0], p[1], p[2]).unwrap() as f64;
            let Some(want) = (b.expect)([p[0] as f64, p[1] as f64, p[2] as f64]) else { continue };
            if !want.is_finite() || !got.is_finite() { if want.is_finite() != got.is_finite() && nbad < 2 { nbad += 1; fails += 1;
                writeln!(oracle, "FAIL case={ci} kind=geometry shape={} point={p:?} got={got} expected={want}", b.name).unwrap(); } continue; }
            let bad = if b.exact_sign_only { (want.abs() > 1e-3) && ((got < 0.0) != (want < 0.0)) }
                      else { (got - want).abs() > 2e-3 * (1.0 + want.abs()) };
            if bad && nbad < 2 { nbad += 1; fails += 1;
                writeln!(oracle, "FAIL case={ci} kind=geometry shape={} point={p:?} got={got} expected={want}", b.name).unwrap(); }
        }
    }
    std::fs::write(format!("{outdir}/cases.txt"), cases)?;
    std::fs::write(format!("{outdir}/impl.txt"), impls)?;
    std::fs::write(format!("{outdir}/oracle.txt"), oracle)?;
    let mut js = String::from("{");
    write!(js, "\"cases\": {count}, \"distinct_nontrivial\": {}, \"points_per_case\": 24, ", distinct.len()).unwrap();
    write!(js, "\"shapes\": {{{}}}, ", hist.iter().map(|(k, v)| format!("\"{k}\": {v}")).collect::<Vec<_>>().join(", ")).unwrap();
    write!(js, "\"samples\": [{}], ", samples_out.iter().map(|s| format!("{s:?}")).collect::<Vec<_>>().join(", ")).unwrap();
    write!(js, "\"oracle_fails\": {fails}}}").unwrap();
    std::fs::write(format!("{outdir}/stats.json"), js)?;
    Ok(if fails > 0 { 1 } else { 0 })
}
