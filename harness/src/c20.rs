//! C20: traces and bulk results are well-formed records of the evaluation.
//! All four tracing evaluators (interpreter/JIT x point/interval) on the same
//! function; output shapes for many slice lengths; metadata agreement.
use crate::c01::fmt_bits;
use crate::c04::*;
use crate::dag::*;
use crate::rng::*;
use crate::wire::*;
use fidget_core::eval::{BulkEvaluator, Function, MathFunction, Tape, TracingEvaluator};
use fidget_core::types::{Grad, Interval};
use fidget_core::var::Var;
use fidget_core::vm::{GenericVmFunction, VmTrace};
use fidget_jit::JitFunction;
use std::collections::BTreeMap;
use std::fmt::Write as _;
use std::panic::{catch_unwind, AssertUnwindSafe};

fn vars_of<T: Tape>(t: &T) -> Vec<(String, usize)> {
    let mut v: Vec<(String, usize)> = t.vars().iter().map(|(v, i)| (format!("{v:?}"), i)).collect();
    v.sort();
    v
}

/// Output shapes and metadata of one backend; returns a list of problems.
fn shape_and_meta<F: Function<Trace = VmTrace>>(f: &F, vs: &[Var], r: &mut Rng, nvars: usize, name: &str) -> Vec<String> {
    let mut bad = vec![];
    let no = f.output_count();
    let fv: Vec<(String, usize)> = { let mut v: Vec<_> = f.vars().iter().map(|(v, i)| (format!("{v:?}"), i)).collect(); v.sort(); v };
    let res = catch_unwind(AssertUnwindSafe(|| {
        let mut bad = vec![];
        let pt = f.point_tape(Default::default());
        let it = f.interval_tape(Default::default());
        let st = f.float_slice_tape(Default::default());
        let gt = f.grad_slice_tape(Default::default());
        if pt.output_count() != no || it.output_count() != no || st.output_count() != no || gt.output_count() != no {
            bad.push(format!("{name}: tape output_count differs from function's {no}"));
        }
        if vars_of(&pt) != fv || vars_of(&it) != fv || vars_of(&st) != fv || vars_of(&gt) != fv {
            bad.push(format!("{name}: tape variable map differs from function's"));
        }
        let order = var_order(f);
        let mut se = F::new_float_slice_eval();
        let mut ge = F::new_grad_slice_eval();
        for n in [0usize, 1, 3, 7, 8, 9, 15, 16, 17, 33] {
            let cols: Vec<Vec<f32>> = order.iter().map(|_| (0..n).map(|_| gen_tame(r)).collect()).collect();
            if order.is_empty() { continue; }
            let out = se.eval(&st, &cols).unwrap();
            if out.len() != no { bad.push(format!("{name}: float slice returned {} outputs, expected {no}", out.len())); }
            for o in 0..out.len().min(no) { if out[o].len() != n { bad.push(format!("{name}: float slice output {o} has {} samples, expected {n}", out[o].len())); } }
            let gcols: Vec<Vec<Grad>> = cols.iter().map(|c| c.iter().map(|v| Grad::new(*v, 1.0, 0.0, 0.0)).collect()).collect();
            let gout = ge.eval(&gt, &gcols).unwrap();
            if gout.len() != no { bad.push(format!("{name}: grad slice returned {} outputs, expected {no}", gout.len())); }
            for o in 0..gout.len().min(no) { if gout[o].len() != n { bad.push(format!("{name}: grad slice output {o} has {} samples, expected {n}", gout[o].len())); } }
        }
        let p: Vec<f32> = (0..nvars).map(|_| gen_tame(r)).collect();
        let inputs: Vec<f32> = order.iter().map(|v| p[var_id(*v, vs) as usize]).collect();
        let mut pe = F::new_point_eval();
        let (o, _) = pe.eval(&pt, &inputs).unwrap();
        if o.len() != no { bad.push(format!("{name}: point eval returned {} outputs, expected {no}", o.len())); }
        bad
    }));
    match res { Ok(b) => bad.extend(b), Err(_) => bad.push(format!("{name}: panic during shape checks")) }
    bad
}

fn check_trace(t: &Option<Vec<u8>>, cc: usize, name: &str, bad: &mut Vec<String>) {
    if let Some(v) = t {
        if v.len() != cc { bad.push(format!("{name}: trace has {} entries for {cc} choice clauses", v.len())); }
        if v.iter().any(|c| *c == 0 || *c > 3) { bad.push(format!("{name}: trace has an Unknown entry {v:?}")); }
    }
}

pub fn run(seed: u64, count: usize, outdir: &str) -> std::io::Result<i32> {
    let mut rng = Rng::new(seed ^ 0xC20);
    let (mut cases, mut impls, mut oracle) = (String::new(), String::new(), String::new());
    let mut fails = 0usize;
    let mut distinct = std::collections::HashSet::new();
    let mut samples_out: Vec<String> = vec![];
    let mut cc_hist: BTreeMap<usize, usize> = BTreeMap::new();
    // evaluators that live for the whole run: what an earlier evaluation left in their trace buffer must not show
    let mut ll_vm_i = <GenericVmFunction<255> as Function>::new_interval_eval();
    let mut ll_vm_p = <GenericVmFunction<255> as Function>::new_point_eval();
    let mut ll_jit_i = <JitFunction as Function>::new_interval_eval();
    let mut ll_jit_p = <JitFunction as Function>::new_point_eval();
    for ci in 0..count {
        let mut r = rng.fork();
        let cfg = DagCfg {
            max_ops: *r.pick(&[5, 20, 60, 150, 400]),
            max_outputs: *r.pick(&[1, 2, 4]),
            max_free_vars: *r.pick(&[0, 2]),
            p_recent: *r.pick(&[0.2, 0.6]),
            p_const_operand: *r.pick(&[0.15, 0.35]),
            p_special_const: 0.1,
            choice_heavy: r.chance(0.8), no_hash: true, const_roots: true,
            choice_chain: if r.chance(0.3) { *r.pick(&[5, 30, 100, 220]) } else { 0 },
        };
        let dag = gen_dag(&mut r, &cfg);
        let nvars = 3 + dag.vs.len();
        let p: Vec<f32> = (0..nvars).map(|_| if cfg.choice_heavy { gen_tame(&mut r) } else { gen_f32(&mut r, 0.2) }).collect();
        let bx = gen_box(&mut r, nvars, cfg.choice_heavy);
        let mut bad: Vec<String> = vec![];
        let vm = GenericVmFunction::<255>::new(&dag.ctx, &dag.roots).unwrap();
        let jit = JitFunction::new(&dag.ctx, &dag.roots).unwrap();
        let cc = vm.choice_count();
        *cc_hist.entry(if cc == 0 { 0 } else if cc <= 5 { 5 } else if cc <= 20 { 20 } else if cc <= 60 { 60 } else { 200 }).or_default() += 1;
        let tp = point_eval(&vm, &dag.vs, &p).map(|x| x.1).unwrap_or(None);
        let ti = interval_eval(&vm, &dag.vs, &bx).map(|x| x.1);
        let jp = point_eval(&jit, &dag.vs, &p).map(|x| x.1).unwrap_or(None);
        let ji = interval_eval(&jit, &dag.vs, &bx).map(|x| x.1);
        // ---- the same tapes on the long-lived evaluators: another box / point first, then this one
        {
            let bx2 = gen_box(&mut r, nvars, cfg.choice_heavy);
            let p2: Vec<f32> = (0..nvars).map(|_| gen_tame(&mut r)).collect();
            macro_rules! reuse { ($f:expr, $ie:expr, $pe:expr, $fresh_i:expr, $fresh_p:expr, $name:expr) => {{
                let res = catch_unwind(AssertUnwindSafe(|| {
                    let order = var_order(&$f);
                    let iv = |b: &Vec<(f32, f32)>| -> Vec<Interval> { order.iter().map(|v| { let (l, u) = b[var_id(*v, &dag.vs) as usize]; Interval::new(l, u) }).collect() };
                    let pv = |q: &Vec<f32>| -> Vec<f32> { order.iter().map(|v| q[var_id(*v, &dag.vs) as usize]).collect() };
                    let it = $f.interval_tape(Default::default());
                    let _ = $ie.eval(&it, &iv(&bx2));
                    let ti2 = $ie.eval(&it, &iv(&bx)).map(|(_, t)| t.map(|t| t.codes())).ok();
                    let pt = $f.point_tape(Default::default());
                    let _ = $pe.eval(&pt, &pv(&p2));
                    let tp2 = $pe.eval(&pt, &pv(&p)).map(|(_, t)| t.map(|t| t.codes())).ok();
                    (ti2, tp2)
                }));
                match res {
                    Ok((ti2, tp2)) => {
                        if let (Some(a), Ok(b)) = (&ti2, &$fresh_i) { if a != b { bad.push(format!("{}-interval trace from a reused evaluator {a:?} differs from a fresh evaluator's {b:?}", $name)); } }
                        if let Some(a) = &tp2 { if a != &$fresh_p { bad.push(format!("{}-point trace from a reused evaluator {a:?} differs from a fresh evaluator's {:?}", $name, $fresh_p)); } }
                    }
                    Err(_) => bad.push(format!("{} reused evaluator panicked (trace)", $name)),
                }
            }} }
            reuse!(vm, ll_vm_i, ll_vm_p, ti, tp, "vm");
            reuse!(jit, ll_jit_i, ll_jit_p, ji, jp, "jit");
        }
        check_trace(&tp, cc, "vm-point", &mut bad);
        check_trace(&jp, cc, "jit-point", &mut bad);
        if let Ok(t) = &ti { check_trace(t, cc, "vm-interval", &mut bad); }
        if let Ok(t) = &ji { check_trace(t, cc, "jit-interval", &mut bad); }
        // a point at which the sign of a zero is open (min / max of opposite zeros, abs(-0), atan2 with a zero first argument): the JIT and
        // the interpreter may then compute different VALUES downstream (C02 allows it) and so decide later clauses differently
        let sign_of_zero_open = { let mut orc = crate::refeval::Oracle::default(); let env = |v: Var| p[var_id(v, &dag.vs) as usize];
            let _ = crate::refeval::eval_arena(&dag.ctx, &env, &mut orc); orc.zero_tie || orc.atan00 || orc.atan_y_zero || orc.abs_of_neg_zero };
        if tp != jp && !sign_of_zero_open { bad.push(format!("jit-point trace {jp:?} differs from interpreter's {tp:?}")); }
        // (the model judges the JIT's point trace against its own: hand it the interpreter's at such a point)
        let jp_for_model = if sign_of_zero_open { tp.clone() } else { jp.clone() };
        bad.extend(shape_and_meta(&vm, &dag.vs, &mut r, nvars, "vm"));
        bad.extend(shape_and_meta(&jit, &dag.vs, &mut r, nvars, "jit"));
        if vm.output_count() != dag.roots.len() || jit.output_count() != dag.roots.len() { bad.push("function output_count differs from the number of roots".into()); }
        // ---- lines
        let mut text = format!("cc {cc} | tp {}", fmt_trace(&tp));
        match &ti { Ok(t) => write!(text, " | ti {}", fmt_trace(t)).unwrap(), Err(_) => text.push_str(" | ti panic") }
        impls.push_str(&text); impls.push('\n');
        let mut line = format!("c20 {} {}", fmt_arena(&dag.ctx, &dag.vs), dag.roots.len());
        for rt in &dag.roots { write!(line, " {}", rt.verif_index()).unwrap(); }
        write!(line, " {nvars} {}", fmt_bits(&p)).unwrap();
        for (l, u) in &bx { write!(line, " {} {}", canon_bits(*l), canon_bits(*u)).unwrap(); }
        for g in [&jp_for_model, &ji.clone().unwrap_or(None)] {
            match g { None => write!(line, " 0 0").unwrap(),
                      Some(v) => { write!(line, " 1 {}", v.len()).unwrap(); for c in v { write!(line, " {c}").unwrap(); } } }
        }
        write!(line, " {}", if ji.is_err() { 1 } else { 0 }).unwrap();
        cases.push_str(&line); cases.push('\n');
        for b in &bad {
            fails += 1;
            let kind = if b.contains("differs from interpreter") { "jit-trace-differs" } else if b.contains("trace") { "trace-malformed" } else if b.contains("samples") || b.contains("outputs") { "shape" } else { "metadata" };
            writeln!(oracle, "FAIL case={ci} kind={kind} {b}").unwrap();
        }
        if cc > 1 { distinct.insert(format!("{}", fmt_arena(&dag.ctx, &dag.vs))); }
        if samples_out.len() < 3 && cc >= 2 && cc <= 8 { samples_out.push(format!("cc={cc} point={:?} {text}", p)); }
    }
    std::fs::write(format!("{outdir}/cases.txt"), cases)?;
    std::fs::write(format!("{outdir}/impl.txt"), impls)?;
    std::fs::write(format!("{outdir}/oracle.txt"), oracle)?;
    let mut js = String::from("{");
    write!(js, "\"cases\": {count}, \"distinct_nontrivial\": {}, ", distinct.len()).unwrap();
    write!(js, "\"choice_clause_hist\": {{{}}}, ", cc_hist.iter().map(|(k, v)| format!("\"<={k}\": {v}")).collect::<Vec<_>>().join(", ")).unwrap();
    write!(js, "\"samples\": [{}], ", samples_out.iter().map(|s| format!("{s:?}")).collect::<Vec<_>>().join(", ")).unwrap();
    write!(js, "\"oracle_fails\": {fails}}}").unwrap();
    std::fs::write(format!("{outdir}/stats.json"), js)?;
    Ok(if fails > 0 { 1 } else { 0 })
}
