//! C10: reuse of evaluators, tape storage, function storage and workspaces never
//! changes results.  Random histories; every step is compared with a twin that
//! uses fresh objects only.
use crate::c01::fmt_bits;
use crate::c04::*;
use crate::dag::*;
use crate::rng::*;
use crate::wire::*;
use fidget_core::eval::{BulkEvaluator, Function, MathFunction, Tape, TracingEvaluator};
use fidget_core::types::{Grad, Interval};
use fidget_core::var::Var;
use fidget_core::vm::{GenericVmFunction, VmTrace};
use fidget_jit::JitFunction;
use std::collections::BTreeMap;
use std::fmt::Write as _;
use std::panic::{catch_unwind, AssertUnwindSafe};

struct Slot<F: Function> { f: F, dag: usize }

fn grad_bits(g: &Grad) -> String {
    format!("{} {} {} {}", canon_bits(g.v), canon_bits(g.dx), canon_bits(g.dy), canon_bits(g.dz))
}

fn inputs_for<F: Function>(f: &F, vs: &[Var], p: &[f32]) -> Vec<f32> {
    var_order(f).iter().map(|v| p[var_id(*v, vs) as usize]).collect()
}

/// Everything observable about a function, evaluated with fresh objects only.
fn fresh_signature<F: Function<Trace = VmTrace>>(f: &F, vs: &[Var], pts: &[Vec<f32>], bx: &[(f32, f32)]) -> String {
    let mut s = format!("size {} oc {} vars {:?}", f.size(), f.output_count(), {
        let mut v: Vec<(String, usize)> = f.vars().iter().map(|(v, i)| (format!("{v:?}"), i)).collect(); v.sort(); v });
    for p in pts {
        match point_eval(f, vs, p) { Ok((o, t)) => write!(s, " | p {} {}", fmt_bits(&o), fmt_trace(&t)).unwrap(), Err(_) => s.push_str(" | p panic") }
    }
    match interval_eval(f, vs, bx) {
        Ok((o, t)) => { s.push_str(" | i"); for i in &o { write!(s, " {}", fmt_interval(i)).unwrap(); } write!(s, " {}", fmt_trace(&t)).unwrap(); }
        Err(_) => s.push_str(" | i panic"),
    }
    match slice_eval(f, vs, pts) { Ok(rows) => { s.push_str(" | s"); for r in rows { write!(s, " {}", fmt_bits(&r)).unwrap(); } } Err(_) => s.push_str(" | s panic") }
    s
}

pub struct HistStats { pub steps: usize, pub kinds: BTreeMap<String, usize>, pub fails: Vec<String>, pub sample: Vec<String> }

/// One history over `dags` with backend F.
fn history<F: Function<Trace = VmTrace> + MathFunction>(r: &mut Rng, dags: &[Dag], nsteps: usize, st: &mut HistStats, tag: &str) {
    let nv = |d: &Dag| 3 + d.vs.len();
    let mut slots: Vec<Slot<F>> = (0..dags.len().min(4)).map(|i| Slot { f: F::new(&dags[i].ctx, &dags[i].roots).unwrap(), dag: i }).collect();
    // long-lived, reused objects
    let mut pe = F::new_point_eval();
    let mut ie = F::new_interval_eval();
    let mut se = F::new_float_slice_eval();
    let mut ge = F::new_grad_slice_eval();
    let mut ws = F::Workspace::default();
    let mut fn_storage: Vec<F::Storage> = vec![];
    let mut tape_storage: Vec<F::TapeStorage> = vec![];
    let mut last_trace: Vec<Option<VmTrace>> = vec![None; slots.len()];
    let mut log: Vec<String> = vec![];
    // every history opens with "trace, then simplify" on each function in turn (so that the shared workspace has been through
    // every function once), then goes on at random
    let opening = 2 * slots.len();
    for step in 0..nsteps + opening {
        let k = if step < opening { step / 2 } else { r.below(slots.len()) };
        let d = &dags[slots[k].dag];
        let vs = &d.vs;
        let p: Vec<f32> = (0..nv(d)).map(|_| gen_tame(r)).collect();
        let choice = if step < opening { if step % 2 == 0 { r.below(2) } else { 4 } } else { r.below(8) };
        let res: Result<Option<String>, ()> = catch_unwind(AssertUnwindSafe(|| {
            match choice {
                0 => { // point eval, reused evaluator, recycled tape storage
                    let f = &slots[k].f;
                    let stg = tape_storage.pop().unwrap_or_default();
                    let tape = f.point_tape(stg);
                    let inputs = inputs_for(f, vs, &p);
                    let (o, t) = pe.eval(&tape, &inputs).unwrap();
                    let got = format!("{} {}", fmt_bits(o), fmt_trace(&t.map(|t| t.codes())));
                    last_trace[k] = t.cloned();
                    let want = match point_eval(f, vs, &p) { Ok((o, t)) => format!("{} {}", fmt_bits(&o), fmt_trace(&t)), Err(_) => "panic".into() };
                    if let Some(s) = tape.recycle() { tape_storage.push(s); }
                    log.push(format!("point f{k}"));
                    if got != want { Some(format!("step {step} point eval f{k}: reused [{got}] fresh [{want}]")) } else { None }
                }
                1 => { // interval eval
                    let f = &slots[k].f;
                    let bx = gen_box(r, nv(d), true);
                    let stg = tape_storage.pop().unwrap_or_default();
                    let tape = f.interval_tape(stg);
                    let inputs: Vec<Interval> = var_order(f).iter().map(|v| { let (l, u) = bx[var_id(*v, vs) as usize]; Interval::new(l, u) }).collect();
                    let (o, t) = ie.eval(&tape, &inputs).unwrap();
                    let got = format!("{} {}", o.iter().map(fmt_interval).collect::<Vec<_>>().join(" "), fmt_trace(&t.map(|t| t.codes())));
                    last_trace[k] = t.cloned();
                    let want = match interval_eval(f, vs, &bx) { Ok((o, t)) => format!("{} {}", o.iter().map(fmt_interval).collect::<Vec<_>>().join(" "), fmt_trace(&t)), Err(_) => "panic".into() };
                    if let Some(s) = tape.recycle() { tape_storage.push(s); }
                    log.push(format!("interval f{k}"));
                    if got != want { Some(format!("step {step} interval eval f{k}: reused [{got}] fresh [{want}]")) } else { None }
                }
                2 => { // float slice eval with a new length
                    let f = &slots[k].f;
                    let n = *r.pick(&[0usize, 1, 5, 8, 13, 40]);
                    let pts: Vec<Vec<f32>> = (0..n).map(|_| (0..nv(d)).map(|_| gen_tame(r)).collect()).collect();
                    let order = var_order(f);
                    if order.is_empty() { return None; }
                    let cols: Vec<Vec<f32>> = order.iter().map(|v| pts.iter().map(|p| p[var_id(*v, vs) as usize]).collect()).collect();
                    let stg = tape_storage.pop().unwrap_or_default();
                    let tape = f.float_slice_tape(stg);
                    let out = se.eval(&tape, &cols).unwrap();
                    let no = f.output_count();
                    if out.len() != no { return Some(format!("step {step} float slice f{k}: the reused evaluator returns {} output arrays for a tape with {no} outputs", out.len())); }
                    if (0..no).any(|o| out[o].len() != n) { return Some(format!("step {step} float slice f{k}: an output array does not have the requested {n} samples")); }
                    let got: Vec<String> = (0..n).map(|i| fmt_bits(&(0..no).map(|o| out[o][i]).collect::<Vec<f32>>())).collect();
                    let want: Vec<String> = slice_eval(f, vs, &pts).unwrap().iter().map(|r| fmt_bits(r)).collect();
                    if let Some(s) = tape.recycle() { tape_storage.push(s); }
                    log.push(format!("slice{n} f{k}"));
                    if got != want { Some(format!("step {step} float slice (n={n}) f{k}: reused {got:?} fresh {want:?}")) } else { None }
                }
                3 => { // grad slice eval
                    let f = &slots[k].f;
                    let n = *r.pick(&[1usize, 3, 8, 9]);
                    let order = var_order(f);
                    if order.is_empty() { return None; }
                    let cols: Vec<Vec<Grad>> = order.iter().enumerate().map(|(j, _)| (0..n).map(|_| { let v = gen_tame(r);
                        Grad::new(v, (j == 0) as u8 as f32, (j == 1) as u8 as f32, (j == 2) as u8 as f32) }).collect()).collect();
                    let stg = tape_storage.pop().unwrap_or_default();
                    let tape = f.grad_slice_tape(stg);
                    let out = ge.eval(&tape, &cols).unwrap();
                    let no = f.output_count();
                    if out.len() != no { return Some(format!("step {step} grad slice f{k}: the reused evaluator returns {} output arrays for a tape with {no} outputs", out.len())); }
                    if (0..no).any(|o| out[o].len() != n) { return Some(format!("step {step} grad slice f{k}: an output array does not have the requested {n} samples")); }
                    let got: Vec<String> = (0..no).flat_map(|o| out[o].iter().map(grad_bits).collect::<Vec<_>>()).collect();
                    let tape2 = f.grad_slice_tape(Default::default());
                    let mut ge2 = F::new_grad_slice_eval();
                    let out2 = ge2.eval(&tape2, &cols).unwrap();
                    let want: Vec<String> = (0..no).flat_map(|o| out2[o].iter().map(grad_bits).collect::<Vec<_>>()).collect();
                    if let Some(s) = tape.recycle() { tape_storage.push(s); }
                    log.push(format!("grad{n} f{k}"));
                    if got != want { Some(format!("step {step} grad slice f{k}: reused {got:?} fresh {want:?}")) } else { None }
                }
                4 | 5 => { // simplify with reused workspace and recycled function storage
                    let Some(tr) = last_trace[k].clone() else { return None; };
                    let f = &slots[k].f;
                    if tr.as_slice().len() != 0 && !f.can_simplify() { return None; }
                    let stg = fn_storage.pop().unwrap_or_default();
                    let child = match f.simplify(&tr, stg, &mut ws) { Ok(c) => c, Err(_) => return None /* trace from an earlier incarnation */ };
                    let twin = f.simplify(&tr, Default::default(), &mut Default::default()).unwrap();
                    let pts: Vec<Vec<f32>> = (0..3).map(|_| (0..nv(d)).map(|_| gen_tame(r)).collect()).collect();
                    let bx = gen_box(r, nv(d), true);
                    let a = fresh_signature(&child, vs, &pts, &bx);
                    let b = fresh_signature(&twin, vs, &pts, &bx);
                    log.push(format!("simplify f{k}"));
                    let old = std::mem::replace(&mut slots[k].f, child);
                    last_trace[k] = None;
                    if let Some(s) = old.recycle() { fn_storage.push(s); }
                    if a != b { Some(format!("step {step} simplify f{k}: reused [{a}] fresh [{b}]")) } else { None }
                }
                6 => { // recycle the function and rebuild the slot from another DAG
                    let nd = r.below(dags.len());
                    let newf = F::new(&dags[nd].ctx, &dags[nd].roots).unwrap();
                    let old = std::mem::replace(&mut slots[k].f, newf);
                    slots[k].dag = nd;
                    last_trace[k] = None;
                    if let Some(s) = old.recycle() { fn_storage.push(s); }
                    log.push(format!("recycle f{k}<-d{nd}"));
                    None
                }
                _ => { // compare the live function against a rebuilt one (only if it was never simplified: skip otherwise)
                    log.push("noop".into());
                    None
                }
            }
        })).map_err(|_| ());
        st.steps += 1;
        *st.kinds.entry(format!("{tag}-{}", ["point", "interval", "slice", "grad", "simplify", "simplify", "recycle", "noop"][choice])).or_default() += 1;
        match res {
            Ok(None) => {}
            Ok(Some(msg)) => st.fails.push(format!("kind=reuse-changed-result backend={tag} {msg} history={log:?}")),
            Err(()) => st.fails.push(format!("kind=panic backend={tag} step {step} history={log:?}")),
        }
    }
    if st.sample.len() < 3 { st.sample.push(format!("{tag}: {}", log.join(", "))); }
}

/// Shape-level evaluators (the wrappers that own the per-variable scratch) reused across shapes
/// with different variable sets and different batch sizes, against fresh ones.
fn shape_history<F: Function + MathFunction>(r: &mut Rng, nsteps: usize, st: &mut HistStats, tag: &str) {
    use fidget_core::context::Context;
    use fidget_core::shape::{Shape, ShapeVars};
    // shapes over different subsets of the axes (and a constant), single output
    let build = |k: usize| -> Shape<F> {
        let mut ctx = Context::new();
        let (x, y, z) = (ctx.x(), ctx.y(), ctx.z());
        let root = match k {
            0 => { let a = ctx.mul(x, 2.0).unwrap(); ctx.add(a, 1.0).unwrap() }
            1 => { let a = ctx.mul(x, y).unwrap(); let b = ctx.add(a, z).unwrap(); ctx.min(b, x).unwrap() }
            2 => ctx.constant(3.5),
            3 => { let a = ctx.sub(z, 0.25).unwrap(); ctx.abs(a).unwrap() }
            4 => { let a = ctx.max(y, z).unwrap(); ctx.square(a).unwrap() }
            _ => { let a = ctx.add(y, x).unwrap(); ctx.sqrt(a).unwrap() }
        };
        Shape::<F>::new(&ctx, root).unwrap()
    };
    let shapes: Vec<Shape<F>> = (0..6).map(build).collect();
    let mut pe = Shape::<F>::new_point_eval();
    let mut ie = Shape::<F>::new_interval_eval();
    let mut se = Shape::<F>::new_float_slice_eval();
    let mut ge = Shape::<F>::new_grad_slice_eval();
    let none = ShapeVars::<f32>::new();
    let mut log = vec![];
    for step in 0..nsteps {
        let k = r.below(shapes.len());
        let n = *r.pick(&[0usize, 1, 2, 3, 7, 8, 9, 16, 33]);
        let xs: Vec<f32> = (0..n).map(|_| gen_tame(r)).collect(); let ys: Vec<f32> = (0..n).map(|_| gen_tame(r)).collect(); let zs: Vec<f32> = (0..n).map(|_| gen_tame(r)).collect();
        log.push(format!("shape{k} n={n}"));
        *st.kinds.entry("shape-wrapper-step".into()).or_default() += 1; st.steps += 1;
        let sh = &shapes[k];
        let res = catch_unwind(AssertUnwindSafe(|| {
            let mut msg = None;
            // float slice
            let ft = sh.float_slice_tape(Default::default());
            let reused = se.eval_with_vars(&ft, &xs, &ys, &zs, &none).map(|o| o.iter().map(|v| canon_bits(*v)).collect::<Vec<_>>()).map_err(|e| e.to_string());
            let fresh = Shape::<F>::new_float_slice_eval().eval_with_vars(&ft, &xs, &ys, &zs, &none).map(|o| o.iter().map(|v| canon_bits(*v)).collect::<Vec<_>>()).map_err(|e| e.to_string());
            if reused != fresh { msg = Some(format!("float-slice wrapper: reused {reused:?} fresh {fresh:?}")); }
            // grad slice
            let gt = sh.grad_slice_tape(Default::default());
            let gx: Vec<Grad> = xs.iter().map(|v| Grad::new(*v, 1.0, 0.0, 0.0)).collect(); let gy: Vec<Grad> = ys.iter().map(|v| Grad::new(*v, 0.0, 1.0, 0.0)).collect(); let gz: Vec<Grad> = zs.iter().map(|v| Grad::new(*v, 0.0, 0.0, 1.0)).collect();
            let reused = ge.eval_with_vars(&gt, &gx, &gy, &gz, &none).map(|o| o.iter().map(grad_bits).collect::<Vec<_>>()).map_err(|e| e.to_string());
            let fresh = Shape::<F>::new_grad_slice_eval().eval_with_vars(&gt, &gx, &gy, &gz, &none).map(|o| o.iter().map(grad_bits).collect::<Vec<_>>()).map_err(|e| e.to_string());
            if reused != fresh { msg = Some(format!("grad-slice wrapper: reused {reused:?} fresh {fresh:?}")); }
            if n > 0 {
                let pt = sh.point_tape(Default::default());
                let a = pe.eval(&pt, xs[0], ys[0], zs[0]).map(|o| canon_bits(o.0)).map_err(|e| e.to_string());
                let b = Shape::<F>::new_point_eval().eval(&pt, xs[0], ys[0], zs[0]).map(|o| canon_bits(o.0)).map_err(|e| e.to_string());
                if a != b { msg = Some(format!("point wrapper: reused {a:?} fresh {b:?}")); }
                let it = sh.interval_tape(Default::default());
                let (ix, iy, iz) = (Interval::new(xs[0], xs[0] + 0.5), Interval::new(ys[0], ys[0] + 0.5), Interval::new(zs[0], zs[0] + 0.5));
                let a = ie.eval(&it, ix, iy, iz).map(|o| fmt_interval(&o.0)).map_err(|e| e.to_string());
                let b = Shape::<F>::new_interval_eval().eval(&it, ix, iy, iz).map(|o| fmt_interval(&o.0)).map_err(|e| e.to_string());
                if a != b { msg = Some(format!("interval wrapper: reused {a:?} fresh {b:?}")); }
            }
            msg
        }));
        match res {
            Ok(None) => {}
            Ok(Some(msg)) => { st.fails.push(format!("kind=reuse-changed-result backend={tag} {msg} history={log:?}")); return; }
            Err(_) => { st.fails.push(format!("kind=panic backend={tag} shape-wrapper step {step} history={log:?}")); return; }
        }
    }
}

pub fn run(seed: u64, count: usize, outdir: &str) -> std::io::Result<i32> {
    let mut rng = Rng::new(seed ^ 0xC10);
    let mut st = HistStats { steps: 0, kinds: BTreeMap::new(), fails: vec![], sample: vec![] };
    let mut distinct = 0usize;
    let mut oracle = String::new();
    for ci in 0..count {
        let mut r = rng.fork();
        let ndags = r.range(3, 6);
        let dags: Vec<Dag> = (0..ndags).map(|_| {
            let cfg = DagCfg { max_ops: *r.pick(&[4, 15, 50, 120]), max_outputs: *r.pick(&[1, 2, 5]), max_free_vars: *r.pick(&[0, 3]),
                p_recent: 0.4, p_const_operand: 0.25, p_special_const: 0.05, choice_heavy: r.chance(0.7), no_hash: true,
                const_roots: true, choice_chain: if r.chance(0.3) { 20 } else { 0 } };
            let mut d = gen_dag(&mut r, &cfg);
            // half of the functions end in an operation with the SAME early node on both sides (by then spilled under a small
            // register budget): a - a, a / a, atan2(a, a), compare(a, a), mod(a, a) are not folded away
            if r.chance(0.5) {
                use fidget_core::context::{BinaryOpcode, Node};
                let a = Node::verif_new(r.below(d.ctx.len().min(4)));
                let b = *r.pick(&[BinaryOpcode::Sub, BinaryOpcode::Div, BinaryOpcode::Atan, BinaryOpcode::Compare, BinaryOpcode::Mod]);
                let n = apply_bin(&mut d.ctx, b, a, a);
                let k = r.below(d.roots.len());
                let root = d.roots[k];
                // ... and the node is read once more at the very end: the allocator (which walks the tape backwards) has bound it,
                // then evicted it while working through the rest, by the time it meets the equal-operand operation
                let t1 = if r.chance(0.5) { d.ctx.add(root, n).unwrap() } else { d.ctx.add(n, root).unwrap() };
                d.roots[k] = if r.chance(0.5) { d.ctx.add(t1, a).unwrap() } else { d.ctx.mul(a, t1).unwrap() };
            }
            d
        }).collect();
        let nsteps = r.range(5, 40);
        let before = st.fails.len();
        match r.below(4) {
            // (budget 3: every two-operand op with a spilled operand goes through the spill rows of the allocator)
            3 => history::<GenericVmFunction<3>>(&mut r, &dags, nsteps, &mut st, "vm3"),
            0 => history::<GenericVmFunction<4>>(&mut r, &dags, nsteps, &mut st, "vm4"),
            1 => history::<GenericVmFunction<255>>(&mut r, &dags, nsteps, &mut st, "vm255"),
            _ => history::<JitFunction>(&mut r, &dags, nsteps, &mut st, "jit"),
        }
        match r.below(2) {
            0 => shape_history::<fidget_core::vm::VmFunction>(&mut r, nsteps.min(16), &mut st, "vm"),
            _ => shape_history::<JitFunction>(&mut r, nsteps.min(16), &mut st, "jit"),
        }
        distinct += 1;
        for f in &st.fails[before..] { writeln!(oracle, "FAIL case={ci} {f}").unwrap(); }
    }
    std::fs::write(format!("{outdir}/cases.txt"), "")?;
    std::fs::write(format!("{outdir}/impl.txt"), "")?;
    std::fs::write(format!("{outdir}/oracle.txt"), oracle)?;
    let mut js = String::from("{");
    write!(js, "\"cases\": {count}, \"distinct_nontrivial\": {distinct}, \"steps\": {}, ", st.steps).unwrap();
    write!(js, "\"step_kinds\": {{{}}}, ", st.kinds.iter().map(|(k, v)| format!("\"{k}\": {v}")).collect::<Vec<_>>().join(", ")).unwrap();
    write!(js, "\"samples\": [{}], ", st.sample.iter().map(|s| format!("{s:?}")).collect::<Vec<_>>().join(", ")).unwrap();
    write!(js, "\"oracle_fails\": {}}}", st.fails.len()).unwrap();
    std::fs::write(format!("{outdir}/stats.json"), js)?;
    Ok(if st.fails.is_empty() { 0 } else { 1 })
}
