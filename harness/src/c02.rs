//! C02: the native (JIT) evaluators agree with the interpreter on every tape.
//! Every non-constant node is exported; inputs include NaN, +-0, +-inf, denormals;
//! float-slice lengths 0..=4*SIMD+3; caller slices are placed against PROT_NONE guard
//! pages so that any read outside them faults.  Runs in child processes.
use crate::c01::fmt_bits;
use crate::c03::{all_nodes, op_name};
use crate::c04::*;
use crate::dag::*;
use crate::rng::*;
use crate::wire::*;
use fidget_core::context::{Node, Op};
use fidget_core::eval::{BulkEvaluator, Function, MathFunction};
use fidget_core::vm::GenericVmFunction;
use fidget_jit::JitFunction;
use std::collections::BTreeMap;
use std::fmt::Write as _;
use std::panic::{catch_unwind, AssertUnwindSafe};

/// A read-only f32 slice whose end (or start) touches an inaccessible page.
pub struct Guarded { base: *mut u8, len_bytes: usize, ptr: *const f32, n: usize }
impl Guarded {
    pub fn new(data: &[f32], at_end: bool) -> Guarded {
        unsafe {
            let page = 4096usize;
            let bytes = data.len() * 4;
            let body = (bytes + page - 1) / page * page + page; // at least one page of body
            let total = body + 2 * page;
            let base = libc::mmap(std::ptr::null_mut(), total, libc::PROT_READ | libc::PROT_WRITE,
                                  libc::MAP_PRIVATE | libc::MAP_ANONYMOUS, -1, 0) as *mut u8;
            assert!(base as isize != -1);
            libc::mprotect(base as *mut _, page, libc::PROT_NONE);
            libc::mprotect(base.add(page + body) as *mut _, page, libc::PROT_NONE);
            let start = if at_end { base.add(page + body - bytes) } else { base.add(page) };
            std::ptr::copy_nonoverlapping(data.as_ptr() as *const u8, start, bytes);
            Guarded { base, len_bytes: total, ptr: start as *const f32, n: data.len() }
        }
    }
}
impl std::ops::Deref for Guarded {
    type Target = [f32];
    fn deref(&self) -> &[f32] { unsafe { std::slice::from_raw_parts(self.ptr, self.n) } }
}
impl Drop for Guarded { fn drop(&mut self) { unsafe { libc::munmap(self.base as *mut _, self.len_bytes); } } }

pub const SPECIAL_INPUTS: &[f32] = &[0.0, -0.0, 1.0, -1.0, f32::INFINITY, f32::NEG_INFINITY, f32::NAN, 1e-40, -1e-40,
    f32::MAX, f32::MIN, f32::MIN_POSITIVE, 0.5, 2.0, 3.1415927, 1.5707964, 100.0, -7.25, 1e10, 16777216.0];

fn gen_case(seed: u64, ci: usize) -> (Dag, Vec<Vec<f32>>) {
    let mut rr = Rng::new(seed ^ 0xC02 ^ ((ci as u64) << 20));
    let r = &mut rr;
    let cfg = DagCfg { max_ops: *r.pick(&[4, 12, 30, 60]), max_outputs: 1, max_free_vars: *r.pick(&[0, 0, 2, 5]),
        p_recent: *r.pick(&[0.1, 0.4, 0.8]), p_const_operand: *r.pick(&[0.1, 0.3]), p_special_const: *r.pick(&[0.05, 0.3]),
        choice_heavy: false, no_hash: false, const_roots: false, choice_chain: 0 };
    let mut dag = gen_dag(r, &cfg);
    // one case in six: 30..100 further variables, all of them read (the variable array is addressed with displacements
    // that no longer fit one signed byte from the 33rd input on)
    if r.chance(0.17) {
        let extra = r.range(30, 100);
        let mut acc = *dag.roots.last().unwrap();
        for _ in 0..extra { let v = fidget_core::var::Var::new(); dag.vs.push(v); let n = dag.ctx.var(v); let c = gen_tame(r); let m = dag.ctx.mul(n, c).unwrap(); acc = dag.ctx.add(acc, m).unwrap(); }
        dag.roots = vec![acc];
    }
    let roots = all_nodes(&dag, 40);
    let nvars = 3 + dag.vs.len();
    let npts = 40;
    let style = r.below(3);
    let pts: Vec<Vec<f32>> = (0..npts).map(|_| (0..nvars).map(|_| match style {
        0 => gen_tame(r), 1 => if r.chance(0.4) { *r.pick(SPECIAL_INPUTS) } else { gen_tame(r) }, _ => gen_f32(r, 0.3) }).collect()).collect();
    (Dag { ctx: dag.ctx, roots, vs: dag.vs }, pts)
}

fn zero_sign_only(a: f32, b: f32) -> bool { a == 0.0 && b == 0.0 && a.to_bits() != b.to_bits() }

/// Compares JIT outputs with interpreter outputs for one point under the property's rule.
/// Returns (first real mismatch, tainted-by-allowed-zero-sign)
fn compare_point(dag: &Dag, vm: &[f32], jit: &[f32], arena_vals: &[f32]) -> (Option<String>, bool) {
    let idx: std::collections::HashMap<usize, usize> = dag.roots.iter().enumerate().map(|(k, n)| (n.verif_index(), k)).collect();
    let taint = crate::refeval::zero_tie_taint(&dag.ctx, arena_vals);
    let mut any_taint = false;
    for (k, n) in dag.roots.iter().enumerate() {
        if canon_bits(vm[k]) == canon_bits(jit[k]) { continue; }
        // a min/max of two equal zeros may differ in the sign of zero; whatever is computed from it inherits that
        if taint[n.verif_index()] { any_taint = true; continue; }
        let name = op_name(dag, *n);
        let kids: Vec<Node> = dag.ctx.get_op(*n).unwrap().iter_children().collect();
        let opv: Vec<String> = kids.iter().map(|c| match dag.ctx.get_op(*c) { Some(Op::Const(f)) => format!("const {:#x}", f.0.to_bits()),
            _ => match idx.get(&c.verif_index()) { Some(j) => format!("vm {:#x} jit {:#x}", canon_bits(vm[*j]), canon_bits(jit[*j])), None => "unexported".into() } }).collect();
        return (Some(format!("op={name} node={} vm={:#x} jit={:#x} operands={opv:?}", n.verif_index(), canon_bits(vm[k]), canon_bits(jit[k]))), false);
    }
    (None, any_taint)
}

pub fn run_chunk(seed: u64, lo: usize, hi: usize) {
    use std::io::Write;
    let out = std::io::stdout();
    for ci in lo..hi {
        let (dag, pts) = gen_case(seed, ci);
        { let mut o = out.lock(); writeln!(o, "BEGIN {ci}").unwrap(); o.flush().unwrap(); }
        let mut bad: Vec<String> = vec![];
        let mut tainted = 0usize;
        let res = catch_unwind(AssertUnwindSafe(|| {
            let mut bad: Vec<String> = vec![];
            let mut tainted = 0usize;
            let vm = GenericVmFunction::<255>::new(&dag.ctx, &dag.roots).unwrap();
            let jit = JitFunction::new(&dag.ctx, &dag.roots).unwrap();
            // ---- single point
            let mut skip_pt = vec![false; pts.len()];
            let mut arena_vals: Vec<Vec<f32>> = vec![];
            for (pi, p) in pts.iter().enumerate() {
                // a NaN reaching a bit-hashing opcode (rand/mix): NaNs need only match as NaN, but their
                // payload bits feed the hash, so results downstream are not comparable
                let mut orc = crate::refeval::Oracle::default();
                let env = |v: fidget_core::var::Var| p[var_id(v, &dag.vs) as usize];
                arena_vals.push(crate::refeval::eval_arena(&dag.ctx, &env, &mut orc));
                if orc.tainted || orc.zero_hashed { tainted += 1; skip_pt[pi] = true; continue; }
                let (a, _) = point_eval(&vm, &dag.vs, p).unwrap();
                let (b, _) = point_eval(&jit, &dag.vs, p).unwrap();
                if b.len() != a.len() { bad.push(format!("kind=shape jit point returned {} outputs, interpreter {}", b.len(), a.len())); continue; }
                let (m, t) = compare_point(&dag, &a, &b, &arena_vals[pi]);
                if t { tainted += 1; }
                if let Some(m) = m { bad.push(format!("kind=point-value-differs {m} point=[{}]", fmt_bits(p))); }
            }
            // ---- float slices of every length 0..=35 (SIMD width 8), against guard pages
            let order = var_order(&jit);
            let no = dag.roots.len();
            if !order.is_empty() {
                let vtape = vm.float_slice_tape(Default::default());
                let jtape = jit.float_slice_tape(Default::default());
                let mut ve = <GenericVmFunction<255> as Function>::new_float_slice_eval();
                let mut je = <JitFunction as Function>::new_float_slice_eval();
                for n in 0..=35usize {
                    let cols: Vec<Vec<f32>> = order.iter().map(|v| (0..n).map(|k| pts[k % pts.len()][var_id(*v, &dag.vs) as usize]).collect()).collect();
                    let guarded: Vec<Guarded> = cols.iter().enumerate().map(|(j, c)| Guarded::new(c, (n + j) % 2 == 0)).collect();
                    let vo = ve.eval(&vtape, &cols).unwrap();
                    let jo = je.eval(&jtape, &guarded).unwrap();
                    if jo.len() != no { bad.push(format!("kind=shape jit slice returned {} outputs, expected {no} (n={n})", jo.len())); continue; }
                    let mut bad_len = false;
                    for o in 0..no { if jo[o].len() != n { bad.push(format!("kind=shape jit slice output {o} has {} samples, expected {n}", jo[o].len())); bad_len = true; } }
                    if bad_len { continue; }
                    for k in 0..n {
                        if skip_pt[k % pts.len()] { continue; }
                        let a: Vec<f32> = (0..no).map(|o| vo[o][k]).collect();
                        let b: Vec<f32> = (0..no).map(|o| jo[o][k]).collect();
                        let (m, t) = compare_point(&dag, &a, &b, &arena_vals[k % pts.len()]);
                        if t { tainted += 1; }
                        if let Some(m) = m { bad.push(format!("kind=slice-value-differs n={n} lane={k} {m}")); break; }
                    }
                }
            }
            (bad, tainted)
        }));
        match res { Ok((b, t)) => { bad = b; tainted = t; } Err(_) => bad.push("kind=panic".into()) }
        bad.truncate(4);
        let mut o = out.lock();
        writeln!(o, "DONE {ci}\t{tainted}\t{}", bad.join(" ;; ")).unwrap();
        o.flush().unwrap();
    }
}

pub fn run(seed: u64, count: usize, outdir: &str) -> std::io::Result<i32> {
    let exe = std::env::current_exe()?;
    let chunk = 50usize;
    let mut oracle = String::new();
    let mut fails = 0usize;
    let mut kinds: BTreeMap<String, usize> = BTreeMap::new();
    let mut results: BTreeMap<usize, (usize, String)> = BTreeMap::new();
    let mut crashed = 0usize;
    let mut children = vec![];
    let mut lo = 0;
    while lo < count { let hi = (lo + chunk).min(count); children.push((lo, hi)); lo = hi; }
    // run chunks in parallel (16 at a time)
    let mut pending = children.clone();
    while !pending.is_empty() {
        let batch: Vec<(usize, usize)> = pending.drain(..pending.len().min(16)).collect();
        let procs: Vec<_> = batch.iter().map(|(lo, hi)| (*lo, *hi, std::process::Command::new(&exe)
            .args(["c02-chunk", &seed.to_string(), &lo.to_string(), &hi.to_string()])
            .stdout(std::process::Stdio::piped()).stderr(std::process::Stdio::null()).spawn().unwrap())).collect();
        for (lo, hi, p) in procs {
            let mut start = lo;
            let mut outp = p.wait_with_output()?;
            loop {
                let text = String::from_utf8_lossy(&outp.stdout).to_string();
                let (mut last_begin, mut last_done) = (None, None);
                for ln in text.lines() {
                    if let Some(rest) = ln.strip_prefix("BEGIN ") { last_begin = rest.trim().parse::<usize>().ok(); }
                    if let Some(rest) = ln.strip_prefix("DONE ") {
                        let mut it = rest.splitn(3, '\t');
                        let ci: usize = it.next().unwrap().trim().parse().unwrap();
                        let t: usize = it.next().unwrap_or("0").parse().unwrap_or(0);
                        results.insert(ci, (t, it.next().unwrap_or("").to_string()));
                        last_done = Some(ci);
                    }
                }
                if outp.status.success() { break; }
                let c = match (last_begin, last_done) { (Some(b), Some(d)) if b > d => b, (Some(b), None) => b, _ => start };
                crashed += 1;
                results.insert(c, (0, format!("kind=process-abort status={:?} (fault in JIT code or read outside the caller's slices)", outp.status)));
                start = c + 1;
                if start >= hi { break; }
                outp = std::process::Command::new(&exe).args(["c02-chunk", &seed.to_string(), &start.to_string(), &hi.to_string()]).output()?;
            }
        }
    }
    let mut distinct = std::collections::HashSet::new();
    let mut ops_seen: BTreeMap<String, usize> = BTreeMap::new();
    let mut samples_out: Vec<String> = vec![];
    let mut tainted_total = 0;
    for ci in 0..count {
        let (dag, pts) = gen_case(seed, ci);
        for n in &dag.roots { *ops_seen.entry(op_name(&dag, *n)).or_default() += 1; }
        let (t, bad) = results.get(&ci).cloned().unwrap_or((0, "kind=missing-result".into()));
        tainted_total += t;
        for b in bad.split(" ;; ").filter(|s| !s.is_empty()) {
            fails += 1;
            *kinds.entry(b.split_whitespace().next().unwrap_or("?").to_string()).or_default() += 1;
            writeln!(oracle, "FAIL case={ci} {b}").unwrap();
        }
        distinct.insert(fmt_arena(&dag.ctx, &dag.vs));
        if samples_out.len() < 2 && dag.roots.len() > 3 && dag.roots.len() < 8 { samples_out.push(format!("arena={} first_point={:?}", fmt_arena(&dag.ctx, &dag.vs), pts[0])); }
    }
    std::fs::write(format!("{outdir}/cases.txt"), "")?;
    std::fs::write(format!("{outdir}/impl.txt"), "")?;
    std::fs::write(format!("{outdir}/oracle.txt"), oracle)?;
    let mut js = String::from("{");
    write!(js, "\"cases\": {count}, \"distinct_nontrivial\": {}, \"points_per_case\": 40, \"slice_lengths\": \"0..=35\", \"process_aborts\": {crashed}, \"points_skipped_for_allowed_zero_sign\": {tainted_total}, ", distinct.len()).unwrap();
    write!(js, "\"ops_exported\": {{{}}}, ", ops_seen.iter().map(|(k, v)| format!("\"{k}\": {v}")).collect::<Vec<_>>().join(", ")).unwrap();
    write!(js, "\"failure_kinds\": {{{}}}, ", kinds.iter().map(|(k, v)| format!("\"{k}\": {v}")).collect::<Vec<_>>().join(", ")).unwrap();
    write!(js, "\"samples\": [{}], ", samples_out.iter().map(|s| format!("{s:?}")).collect::<Vec<_>>().join(", ")).unwrap();
    write!(js, "\"oracle_fails\": {fails}}}").unwrap();
    std::fs::write(format!("{outdir}/stats.json"), js)?;
    Ok(if fails > 0 { 1 } else { 0 })
}
