//! C17: scripts build the same expressions as the Rust API.
//! Scripts are generated from the grammar of tree expressions and shape-constructor call forms
//! (map / positional in any order / chained / defaulted fields / vec2 promotion / arrays as
//! unions / numbers on either side / comparisons), printed as rhai source and as the wire
//! encoding of the Coq model's AST; `fidget_rhai::engine().eval::<Tree>` must give the tree (or
//! the error class) the model gives.  Shape signatures come from the same reflection data the
//! bindings use.
use crate::rng::*;
use facet::Facet;
use fidget_core::context::{Tree, TreeOp};
use fidget_core::var::Var;
use fidget_shapes::types::{Axis, Type, Vec3};
use fidget_shapes::{visit_shapes, ShapeVisitor};
use std::collections::{BTreeMap, BTreeSet};
use std::fmt::Write as _;

#[derive(Clone, Debug)]
pub enum S { Int(i64), Float(f64), Str(String), Var(&'static str), Neg(Box<S>), Bin(&'static str, Box<S>, Box<S>), Cmp(&'static str, Box<S>, Box<S>),
             Call(String, Vec<S>), Method(String, Box<S>, Vec<S>), Arr(Vec<S>), Map(Vec<(String, S)>) }

fn hex(s: &str) -> String { if s.is_empty() { "-".into() } else { s.bytes().map(|b| format!("{b:02x}")).collect() } }
fn wire(e: &S, o: &mut String) {
    match e {
        S::Int(z) => write!(o, "I {z}").unwrap(),
        S::Float(f) => write!(o, "F {}", f.to_bits()).unwrap(),
        S::Str(s) => write!(o, "S {} {}", s.len(), hex(s)).unwrap(),
        S::Var(n) => write!(o, "V {n}").unwrap(),
        S::Neg(a) => { o.push_str("N "); wire(a, o); }
        S::Bin(op, a, b) => { write!(o, "B {op} ").unwrap(); wire(a, o); o.push(' '); wire(b, o); }
        S::Cmp(op, a, b) => { write!(o, "C {op} ").unwrap(); wire(a, o); o.push(' '); wire(b, o); }
        S::Call(f, args) => { write!(o, "K {f} {}", args.len()).unwrap(); for a in args { o.push(' '); wire(a, o); } }
        S::Method(f, r, args) => { write!(o, "M {f} {} ", args.len()).unwrap(); wire(r, o); for a in args { o.push(' '); wire(a, o); } }
        S::Arr(xs) => { write!(o, "A {}", xs.len()).unwrap(); for a in xs { o.push(' '); wire(a, o); } }
        S::Map(kv) => { write!(o, "O {}", kv.len()).unwrap(); for (k, v) in kv { write!(o, " {} {} ", k.len(), hex(k)).unwrap(); wire(v, o); } }
    }
}
fn flt(f: f64) -> String { let s = format!("{f}"); if s.contains('.') || s.contains('e') || s.contains("inf") || s.contains("NaN") { s } else { format!("{s}.0") } }
fn src(e: &S) -> String {
    let bin = |op: &str| match op { "add" => "+", "sub" => "-", "mul" => "*", "div" => "/", "mod" => "%", "eq" => "==", "ne" => "!=", "lt" => "<", "gt" => ">", "le" => "<=", _ => ">=" }.to_string();
    match e {
        S::Int(z) => if *z < 0 { format!("({z})") } else { format!("{z}") },
        S::Float(f) => if *f < 0.0 { format!("({})", flt(*f)) } else { flt(*f) },
        S::Str(s) => format!("\"{s}\""),
        S::Var(n) => n.to_string(),
        S::Neg(a) => format!("(-({}))", src(a)),
        S::Bin(op, a, b) | S::Cmp(op, a, b) => format!("({} {} {})", src(a), bin(op), src(b)),
        S::Call(f, args) => format!("{f}({})", args.iter().map(src).collect::<Vec<_>>().join(", ")),
        S::Method(f, r, args) => { let rs = match &**r { S::Var(n) => n.to_string(), x => format!("({})", src(x)) }; format!("{rs}.{f}({})", args.iter().map(src).collect::<Vec<_>>().join(", ")) }
        S::Arr(xs) => format!("[{}]", xs.iter().map(src).collect::<Vec<_>>().join(", ")),
        S::Map(kv) => format!("#{{{}}}", kv.iter().map(|(k, v)| format!("{k}: {}", src(v))).collect::<Vec<_>>().join(", ")),
    }
}

fn tree_text(t: &TreeOp, o: &mut String) {
    use crate::wire::{bop_id, uop_id};
    match t {
        TreeOp::Input(Var::X) => o.push('X'), TreeOp::Input(Var::Y) => o.push('Y'), TreeOp::Input(Var::Z) => o.push('Z'),
        TreeOp::Input(_) => o.push_str("V?"),
        TreeOp::Const(c) => write!(o, "C{}", canon_bits(*c as f32)).unwrap(),
        TreeOp::Unary(u, a) => { write!(o, "U{}(", uop_id(*u)).unwrap(); tree_text(a, o); o.push(')'); }
        TreeOp::Binary(b, l, r) => { write!(o, "B{}(", bop_id(*b)).unwrap(); tree_text(l, o); o.push(','); tree_text(r, o); o.push(')'); }
        TreeOp::RemapAxes { target, x, y, z } => { o.push_str("R("); tree_text(target, o); o.push(','); tree_text(x, o); o.push(','); tree_text(y, o); o.push(','); tree_text(z, o); o.push(')'); }
        TreeOp::RemapAffine { target, mat } => { o.push_str("A("); tree_text(target, o); let m = mat.matrix(); for i in 0..3 { for j in 0..4 { write!(o, ";{}", if m[(i, j)].is_nan() { 0x7fc00000 } else { m[(i, j)].to_bits() }).unwrap(); } } o.push(')'); }
    }
}

fn classify(e: &rhai::EvalAltResult) -> &'static str {
    use rhai::EvalAltResult::*;
    match e {
        ErrorInFunctionCall(_, _, inner, _) => classify(inner),
        ErrorMismatchDataType(..) => "type-mismatch",
        ErrorRuntime(d, _) => { let m = d.to_string();
            if m.contains("must be provided") { "missing-field" } else if m.contains("is not present in") { "unknown-field" }
            else if m.contains("missing argument of type") { "missing-arg" } else if m.contains("does not have an argument of type") { "extra-arg" }
            else if m.contains("cannot compare Tree") { "compare-tree" } else { "runtime-other" } }
        ErrorFunctionNotFound(..) => "no-such-function",
        ErrorVariableNotFound(..) => "var-not-found",
        ErrorPropertyNotFound(..) | ErrorDotExpr(..) | ErrorIndexingType(..) => "prop-not-found",
        ErrorArithmetic(..) => "arith",
        ErrorMismatchOutputType(..) => "output-type",
        ErrorParsing(..) => "parse",
        _ => "other",
    }
}

// ---------------------------------------------------------------- shape signatures by reflection
#[derive(Clone)]
struct Field { name: &'static str, ty: Type, has_default: bool }
#[derive(Clone)]
struct Sig { name: String, fields: Vec<Field> }
fn signatures() -> Vec<Sig> {
    struct V(Vec<Sig>);
    impl ShapeVisitor for V {
        fn visit<T: Facet<'static> + Clone + Send + Sync + Into<Tree> + 'static>(&mut self) {
            use heck::ToSnakeCase;
            let facet::Type::User(facet::UserType::Struct(s)) = T::SHAPE.ty else { panic!("struct") };
            let fields = s.fields.iter().map(|f| Field { name: f.name, ty: Type::try_from(f.shape().id).unwrap(), has_default: f.default.is_some() }).collect();
            self.0.push(Sig { name: T::SHAPE.to_string().to_snake_case(), fields });
        }
    }
    let mut v = V(vec![]);
    visit_shapes(&mut v);
    v.0
}

struct Gen<'a> { r: &'a mut Rng, sigs: &'a [Sig], rots: Vec<(Vec3, f32)>, depth: usize }
impl Gen<'_> {
    fn num(&mut self) -> S {
        // rarely: an integer just above the midpoint of two adjacent f32 values, wider than f64's mantissa
        // (converting through f64 first would lose the low bit and round to even instead of up)
        if self.r.chance(0.03) {
            let m = (1i64 << 23) | (self.r.next() as i64 & 0x7f_fffe);      // even 24-bit mantissa
            let sh = self.r.range(31, 38) as u32;
            let v = (m << sh) + (1i64 << (sh - 1)) + 1;
            return S::Int(if self.r.chance(0.3) { -v } else { v });
        }
        match self.r.below(4) { 0 => S::Int(self.r.range(0, 6) as i64 - 2), 1 => S::Float(*self.r.pick(&[0.5f64, 1.5, 0.25, 2.0, -0.75, 0.1, 3.0, 1e-3])), 2 => S::Int(self.r.range(1, 4) as i64), _ => S::Float((self.r.range(0, 40) as f64 - 20.0) / 8.0) }
    }
    fn numval(n: &S) -> f32 { match n { S::Int(z) => *z as f32, S::Float(f) => *f as f32, _ => f32::NAN } }
    fn tree(&mut self) -> S {
        self.depth += 1;
        let deep = self.depth > 4;
        let k = if deep { self.r.below(2) } else { self.r.below(12) };
        let out = match k {
            0 | 1 => S::Var(*self.r.pick(&["x", "y", "z"])),
            2 | 3 => { let op = *self.r.pick(&["add", "sub", "mul", "div", "mod"]);
                       match self.r.below(3) { 0 => S::Bin(op, Box::new(self.tree()), Box::new(self.tree())), 1 => S::Bin(op, Box::new(self.tree()), Box::new(self.num())), _ => S::Bin(op, Box::new(self.num()), Box::new(self.tree())) } }
            4 => { let f = *self.r.pick(&["min", "max", "compare", "mix", "and", "or", "atan2"]);
                   let (a, b) = match self.r.below(3) { 0 => (self.tree(), self.tree()), 1 => (self.tree(), self.num()), _ => (self.num(), self.tree()) };
                   if self.r.chance(0.5) { S::Call(f.into(), vec![a, b]) } else { S::Method(f.into(), Box::new(a), vec![b]) } }
            5 => { let f = *self.r.pick(&["abs", "sqrt", "square", "sin", "cos", "tan", "asin", "acos", "atan", "exp", "ln", "not", "ceil", "floor", "round"]);
                   let a = self.tree(); if self.r.chance(0.5) { S::Call(f.into(), vec![a]) } else { S::Method(f.into(), Box::new(a), vec![]) } }
            6 => S::Neg(Box::new(self.tree())),
            7 => { let t = self.tree(); let (a, b, c) = (self.tree(), self.tree(), self.tree());
                   match self.r.below(3) { 0 => S::Call("remap".into(), vec![t, a, b, c]), 1 => S::Method("remap".into(), Box::new(t), vec![a, b]), _ => S::Method("remap".into(), Box::new(t), vec![a, b, c]) } }
            8 => { let n = self.r.range(1, 3); S::Bin("add", Box::new(self.tree()), Box::new(S::Arr((0..n).map(|_| self.tree()).collect()))) }
            _ => self.shape_call(),
        };
        self.depth -= 1;
        out
    }
    fn value(&mut self, ty: Type) -> S {
        match ty {
            Type::Float => self.num(),
            Type::Vec2 => { let (a, b) = (self.num(), self.num()); if self.r.chance(0.6) { S::Arr(vec![a, b]) } else { S::Call("vec2".into(), vec![a, b]) } }
            Type::Vec3 => { let (a, b, c) = (self.num(), self.num(), self.num());
                // (a vec2 OBJECT is promoted like a two-element array)
                match self.r.below(5) { 0 => S::Arr(vec![a, b]), 1 => S::Call("vec3".into(), vec![a, b, c]), 4 => S::Call("vec2".into(), vec![a, b]), _ => S::Arr(vec![a, b, c]) } }
            Type::Vec4 => { let v: Vec<S> = (0..4).map(|_| self.num()).collect(); S::Arr(v) }
            Type::Tree => self.tree(),
            // (an element that is itself an array is ONE tree: the union of its elements)
            Type::VecTree => { let n = self.r.range(0, 3); S::Arr((0..n).map(|_| if self.r.chance(0.15) { let k = self.r.range(1, 3); S::Arr((0..k).map(|_| self.tree()).collect()) } else { self.tree() }).collect()) }
            Type::Axis => match self.r.below(4) { 0 => S::Str(self.r.pick(&["x", "y", "z", "Z"]).to_string()), 1 => S::Var(*self.r.pick(&["x", "y", "z"])),
                _ => { let k = self.r.below(3); let mut a = [0i64; 3]; a[k] = *self.r.pick(&[1i64, 2, -1]); S::Arr(a.iter().map(|v| S::Int(*v)).collect()) } },
            Type::Plane => match self.r.below(3) { 0 => S::Str(self.r.pick(&["xy", "yz", "zx"]).to_string()), 1 => S::Str(self.r.pick(&["x", "y", "z"]).to_string()),
                _ => S::Call("plane".into(), vec![S::Str(self.r.pick(&["x", "y", "z"]).to_string()), S::Int(self.r.range(0, 3) as i64)]) },
        }
    }
    /// the axis an Axis-typed argument denotes (for the rotation table)
    fn axis_of(v: &S) -> Option<Vec3> {
        match v {
            S::Str(s) => match s.as_str() { "x" | "X" => Some(*Axis::X.vec()), "y" | "Y" => Some(*Axis::Y.vec()), "z" | "Z" => Some(*Axis::Z.vec()), _ => None },
            S::Var("x") => Some(*Axis::X.vec()), S::Var("y") => Some(*Axis::Y.vec()), S::Var("z") => Some(*Axis::Z.vec()),
            S::Arr(xs) if xs.len() == 3 => Axis::try_from(Vec3::new(Self::numval(&xs[0]), Self::numval(&xs[1]), Self::numval(&xs[2]))).ok().map(|a| *a.vec()),
            _ => None,
        }
    }
    fn shape_call(&mut self) -> S {
        let sig = self.sigs[self.r.below(self.sigs.len())].clone();
        // values for a random subset of the fields (always the non-default ones, mostly)
        let mut vals: Vec<(Field, S)> = vec![];
        for f in &sig.fields {
            let give = if f.has_default { self.r.chance(0.6) } else { !self.r.chance(0.04) };
            if give { let v = self.value(f.ty); vals.push((f.clone(), v)); }
        }
        // rotation table entries: any rotate-like shape, every axis it may use, the angle given or the default 0
        if sig.name.starts_with("rotate") {
            let ang = vals.iter().find(|(f, _)| f.name == "angle").map(|(_, v)| Self::numval(v)).unwrap_or(0.0);
            let axes: Vec<Vec3> = match sig.name.as_str() { "rotate_x" => vec![*Axis::X.vec()], "rotate_y" => vec![*Axis::Y.vec()], "rotate_z" => vec![*Axis::Z.vec()],
                _ => { let mut a = vec![*Axis::X.vec(), *Axis::Y.vec(), *Axis::Z.vec()]; for (f, v) in &vals { if f.ty == Type::Axis { if let Some(x) = Self::axis_of(v) { a.push(x); } } } a } };
            for a in axes { for g in [ang, 0.0, -ang] { self.rots.push((a, g)); } }
        }
        let form = self.r.below(10);
        let tree_fields = sig.fields.iter().filter(|f| f.ty == Type::Tree).count();
        match form {
            0..=2 => { // map form, keys in random order, rarely an unknown key
                let mut kv: Vec<(String, S)> = vals.iter().map(|(f, v)| (f.name.to_string(), v.clone())).collect();
                self.r.shuffle(&mut kv);
                if self.r.chance(0.04) { kv.push(("bogus".into(), S::Int(1))); }
                S::Call(sig.name.clone(), vec![S::Map(kv)])
            }
            3 | 4 if tree_fields == 1 && sig.fields[0].ty == Type::Tree && vals.first().map(|(f, _)| f.ty == Type::Tree).unwrap_or(false) => { // chained transform form: shape.name(#{...})
                let recv = vals[0].1.clone();
                let mut kv: Vec<(String, S)> = vals[1..].iter().map(|(f, v)| (f.name.to_string(), v.clone())).collect();
                self.r.shuffle(&mut kv);
                S::Method(sig.name.clone(), Box::new(recv), vec![S::Map(kv)])
            }
            _ => { // positional: field order, or shuffled, as a call or chained on the first argument
                let mut args: Vec<S> = vals.iter().map(|(_, v)| v.clone()).collect();
                if self.r.chance(0.5) { self.r.shuffle(&mut args); }
                if !args.is_empty() && self.r.chance(0.4) { let recv = args.remove(0); S::Method(sig.name.clone(), Box::new(recv), args) } else { S::Call(sig.name.clone(), args) }
            }
        }
    }
}

fn rot_data(axis: &Vec3, angle_deg: f32) -> [f32; 9] {
    let d = -angle_deg.to_radians();
    let a = nalgebra::Vector3::new(d * axis.x, d * axis.y, d * axis.z);
    let r = nalgebra::Rotation3::<f32>::new(a);
    let m = r.matrix();
    [m[(0, 0)], m[(0, 1)], m[(0, 2)], m[(1, 0)], m[(1, 1)], m[(1, 2)], m[(2, 0)], m[(2, 1)], m[(2, 2)]]
}

pub fn run(seed: u64, count: usize, outdir: &str) -> std::io::Result<i32> {
    let mut rng = Rng::new(seed ^ 0xC17);
    let (mut cases, mut impls) = (String::new(), String::new());
    let sigs = signatures();
    let engine = fidget_rhai::engine();
    let mut hist: BTreeMap<String, usize> = BTreeMap::new();
    let mut distinct = BTreeSet::new();
    let mut samples: Vec<String> = vec![];
    // corpus: the documented forms and the surprises the model predicts (checked like any other case)
    let corpus: Vec<S> = vec![
        S::Call("circle".into(), vec![S::Arr(vec![S::Int(1), S::Int(2)]), S::Int(3)]),
        S::Method("move".into(), Box::new(S::Var("z")), vec![S::Arr(vec![S::Int(1), S::Int(1)])]),
        S::Method("reflect".into(), Box::new(S::Var("x")), vec![S::Str("yz".into())]),
        S::Call("union".into(), vec![S::Var("x")]),
        S::Call("union".into(), vec![S::Var("x"), S::Arr(vec![S::Var("y"), S::Var("z")])]),
        S::Call("circle".into(), vec![S::Int(1), S::Int(2)]),
        S::Call("plane".into(), vec![S::Str("x".into()), S::Float(0.5)]),
        S::Bin("add", Box::new(S::Str("s".into())), Box::new(S::Var("x"))),
        S::Call("sqrt".into(), vec![S::Int(2)]), S::Call("sqrt".into(), vec![S::Float(2.0)]),
        S::Call("inverse".into(), vec![S::Int(1)]),
        S::Method("move".into(), Box::new(S::Var("x")), vec![S::Map(vec![])]),
        S::Cmp("lt", Box::new(S::Var("x")), Box::new(S::Int(1))), S::Cmp("eq", Box::new(S::Int(1)), Box::new(S::Var("y"))),
        S::Call("rectangle".into(), vec![S::Arr(vec![S::Int(0), S::Int(0)]), S::Arr(vec![S::Int(1), S::Int(1), S::Int(1)])]),
        S::Call("extrude_z".into(), vec![S::Var("x"), S::Int(0), S::Int(1)]),
    ];
    // ---- the documented call forms must agree (metamorphic oracle on the engine alone)
    let mut oracle = String::new();
    let mut fails = 0usize;
    {
        let ev = |t: &str| -> String { match engine.eval::<Tree>(t) { Ok(t) => { let mut o = String::new(); tree_text(&t, &mut o); o } Err(e) => format!("err {}", classify(&e)) } };
        let mut r = rng.fork();
        let mut nforms = 0usize;
        for sig in &sigs {
            for round in 0..3 {
                let mut g = Gen { r: &mut r, sigs: &sigs, rots: vec![], depth: 3 };
                // values for every non-default field, and for the defaulted ones in round 0 only
                let vals: Vec<(Field, S)> = sig.fields.iter().filter(|f| !f.has_default || round == 0).map(|f| (f.clone(), g.value(f.ty))).collect();
                let map_all = S::Call(sig.name.clone(), vec![S::Map(vals.iter().map(|(f, v)| (f.name.to_string(), v.clone())).collect())]);
                let want = ev(&src(&map_all));
                if want.starts_with("err") { continue; }
                // "Function chaining": the first Tree member as receiver, the rest (defaults omitted) in a map
                let tree_fields = sig.fields.iter().filter(|f| f.ty == Type::Tree).count();
                if tree_fields == 1 && sig.fields[0].ty == Type::Tree && !sig.fields.iter().any(|f| f.ty == Type::VecTree) {
                    let kv: Vec<(String, S)> = vals[1..].iter().map(|(f, v)| (f.name.to_string(), v.clone())).collect();
                    for form in [S::Method(sig.name.clone(), Box::new(vals[0].1.clone()), vec![S::Map(kv.clone())]), S::Call(sig.name.clone(), vec![vals[0].1.clone(), S::Map(kv.clone())])] {
                        let got = ev(&src(&form)); nforms += 1;
                        if got != want { fails += 1; writeln!(oracle, "FAIL case=0 kind=forms-disagree-chained shape={} `{}` gives {} but `{}` gives {}", sig.name, src(&form), &got[..got.len().min(60)], src(&map_all), &want[..want.len().min(60)]).unwrap(); break; }
                    }
                }
                // "Tree reduction functions": an array of trees or individual tree arguments (up to an 8-tuple)
                if sig.fields.len() == 1 && sig.fields[0].ty == Type::VecTree {
                    for n in 1..=8usize {
                        let trees: Vec<S> = (0..n).map(|_| g.tree()).collect();
                        let a = ev(&src(&S::Call(sig.name.clone(), vec![S::Map(vec![(sig.fields[0].name.to_string(), S::Arr(trees.clone()))])])));
                        let b = ev(&src(&S::Call(sig.name.clone(), trees.clone()))); nforms += 1;
                        let c = ev(&src(&S::Call(sig.name.clone(), vec![S::Arr(trees.clone())]))); 
                        if a != c && !a.starts_with("err") { fails += 1; writeln!(oracle, "FAIL case=0 kind=forms-disagree-reducer shape={} with an array of {n} trees gives {} but the array in a map gives {}", sig.name, &c[..c.len().min(60)], &a[..a.len().min(60)]).unwrap(); }
                        if a != b && !a.starts_with("err") { fails += 1; writeln!(oracle, "FAIL case=0 kind=forms-disagree-reducer shape={} with {n} individual tree arguments gives {} but the array in a map gives {}", sig.name, &b[..b.len().min(60)], &a[..a.len().min(60)]).unwrap(); }
                    }
                }
                // "Uniquely typed functions": positional, any order, defaults skipped
                let mut count = BTreeMap::new(); for f in &sig.fields { *count.entry(format!("{:?}", f.ty)).or_insert(0) += 1; }
                if count.values().all(|c| *c <= 1) && !(sig.fields.len() == 1 && sig.fields[0].ty == Type::VecTree) && sig.name != "plane" {
                    // literals whose classification is unambiguous (an array of numbers for a vector, a tree expression that is not a bare axis for a Tree)
                    let ok_vals = vals.iter().all(|(f, v)| match f.ty { Type::Tree => !matches!(v, S::Var(_) | S::Int(_) | S::Float(_) | S::Arr(_)), Type::Axis | Type::Plane => matches!(v, S::Str(_)), Type::VecTree => false, _ => true });
                    if ok_vals {
                        let mut args: Vec<S> = vals.iter().map(|(_, v)| v.clone()).collect();
                        g.r.shuffle(&mut args);
                        let form = S::Call(sig.name.clone(), args);
                        let got = ev(&src(&form)); nforms += 1;
                        if got != want { fails += 1; writeln!(oracle, "FAIL case=0 kind=forms-disagree-positional shape={} `{}` gives {} but the map form gives {}", sig.name, src(&form), &got[..got.len().min(60)], &want[..want.len().min(60)]).unwrap(); }
                    }
                }
            }
        }
        *hist.entry("call-form-pairs-compared".into()).or_default() += nforms;
        // ---- a script variable shadows everything of the same name: `let N = v; body` builds what `body` with (v) written in
        // place of N builds, for ordinary names and for the names of the built-in constants alike, also as a function parameter
        let names = ["r", "w0", "PI", "E", "TAU", "PHI", "SQRT_2", "LN_2", "FRAC_PI_2", "GOLDEN_RATIO", "FRAC_1_SQRT_2"];
        let mut nlets = 0usize;
        for round in 0..60 {
            let name = names[round % names.len()];
            let mut g = Gen { r: &mut r, sigs: &sigs, rots: vec![], depth: 3 };
            let v = g.num(); let (a, b) = (g.tree(), g.tree());
            let vs = src(&v);
            let with_let = match round % 3 {
                0 => format!("let {name} = {vs}; ({}) * {name} + ({}) - {name}", src(&a), src(&b)),
                1 => format!("fn grow(shape, {name}) {{ shape - {name} }} grow({}, {vs}) + ({})", src(&a), src(&b)),
                _ => format!("let {name} = {vs}; max(({}), {name}).move([{name}, 1])", src(&a)),
            };
            let direct = match round % 3 {
                0 => format!("({}) * ({vs}) + ({}) - ({vs})", src(&a), src(&b)),
                1 => format!("(({}) - ({vs})) + ({})", src(&a), src(&b)),
                _ => format!("max(({}), ({vs})).move([({vs}), 1])", src(&a)),
            };
            let (x, y) = (ev(&with_let), ev(&direct)); nlets += 1;
            if x != y { fails += 1; writeln!(oracle, "FAIL case=0 kind=script-variable-not-shadowing name={name} `{}` gives {} but `{}` gives {}", &with_let[..with_let.len().min(120)], &x[..x.len().min(60)], &direct[..direct.len().min(120)], &y[..y.len().min(60)]).unwrap(); }
        }
        *hist.entry("let-substitution-pairs-compared".into()).or_default() += nlets;
    }
    for ci in 0..count {
        let mut r = rng.fork();
        let mut g = Gen { r: &mut r, sigs: &sigs, rots: vec![], depth: 0 };
        let e = if ci < corpus.len() { corpus[ci].clone() } else if g.r.chance(0.06) { let (a, b) = (g.tree(), g.num()); S::Cmp(*g.r.pick(&["eq", "ne", "lt", "gt", "le", "ge"]), Box::new(a), Box::new(b)) } else { g.tree() };
        let text = src(&e);
        let mut w = String::from("c17 "); wire(&e, &mut w);
        let mut rots = g.rots.clone(); rots.sort_by_key(|(a, g)| (a.x.to_bits(), a.y.to_bits(), a.z.to_bits(), g.to_bits())); rots.dedup_by_key(|(a, g)| (a.x.to_bits(), a.y.to_bits(), a.z.to_bits(), g.to_bits()));
        write!(w, " |R {}", rots.len()).unwrap();
        for (a, ang) in &rots { write!(w, " {} {} {} {}", a.x.to_bits(), a.y.to_bits(), a.z.to_bits(), ang.to_bits()).unwrap(); for m in rot_data(a, *ang) { write!(w, " {}", m.to_bits()).unwrap(); } }
        distinct.insert(text.clone());
        let res = std::panic::catch_unwind(std::panic::AssertUnwindSafe(|| engine.eval::<Tree>(&text)));
        let il = match res {
            Ok(Ok(t)) => { let mut o = String::from("res "); tree_text(&t, &mut o); *hist.entry("tree".into()).or_default() += 1; o }
            Ok(Err(e)) => { let c = classify(&e); *hist.entry(format!("error:{c}")).or_default() += 1; format!("res err | cls {c}") }
            Err(_) => { *hist.entry("panic".into()).or_default() += 1; "res panic".to_string() }
        };
        if samples.len() < 4 && ci >= corpus.len() && text.len() < 160 { samples.push(format!("{text}  =>  {}", &il[..il.len().min(120)])); }
        cases.push_str(&w); cases.push('\n');
        impls.push_str(&il); impls.push('\n');
        // keep the source next to the case for replays
        if std::env::var("FV_DEBUG").is_ok() { eprintln!("{ci}: {text} -> {il}"); }
    }
    std::fs::write(format!("{outdir}/cases.txt"), cases)?;
    std::fs::write(format!("{outdir}/impl.txt"), impls)?;
    std::fs::write(format!("{outdir}/oracle.txt"), oracle)?;
    let mut js = String::from("{");
    write!(js, "\"cases\": {count}, \"distinct_nontrivial\": {}, \"shape_signatures\": {}, ", distinct.len(), sigs.len()).unwrap();
    write!(js, "\"outcomes\": {{{}}}, ", hist.iter().map(|(k, v)| format!("\"{k}\": {v}")).collect::<Vec<_>>().join(", ")).unwrap();
    write!(js, "\"samples\": [{}], ", samples.iter().map(|s| format!("{s:?}")).collect::<Vec<_>>().join(", ")).unwrap();
    write!(js, "\"oracle_fails\": {fails}}}").unwrap();
    std::fs::write(format!("{outdir}/stats.json"), js)?;
    Ok(if fails > 0 { 1 } else { 0 })
}
