//! C06: 2D rendering equals per-pixel evaluation of the shape.
//! Random shapes (2D CSG with transforms, random expressions, a bundled model), image sizes
//! 1..96 (non-square, not multiples of the tile size), random valid tile-size lists, view
//! transforms, slice heights, both modes, interpreter and JIT, no pool / global pool / custom
//! pools.  The oracle evaluates the expression operation by operation at every pixel's sample
//! position and compares every pixel.
use crate::refeval::*;
use crate::rng::*;
use crate::shapegen::*;
use fidget_core::eval::{Function, MathFunction};
use fidget_core::render::{ImageSize, ThreadPool, TileSizes};
use fidget_core::shape::Shape;
use fidget_core::var::Var;
use fidget_core::vm::VmFunction;
use fidget_jit::JitFunction;
use fidget_raster::pixel::{render, DistancePixel, EvalConfig, RenderConfig};
use nalgebra::{Matrix3, Matrix4, Point3};
use std::collections::{BTreeMap, BTreeSet};
use std::fmt::Write as _;
use std::panic::{catch_unwind, AssertUnwindSafe};

pub fn gen_tiles(r: &mut Rng) -> Vec<usize> {
    // a descending chain where each size is a proper multiple of the next
    let last = *r.pick(&[1usize, 2, 3, 4, 5, 8]);
    let mut v = vec![last];
    let n = r.range(0, 3);
    for _ in 0..n { let f = *r.pick(&[2usize, 2, 3, 4, 8]); let nx = v[0] * f; if nx > 256 { break; } v.insert(0, nx); }
    v
}

pub fn gen_mat3(r: &mut Rng) -> Matrix3<f32> {
    // sometimes a uniform scale kept in the homogeneous weight: bottom row (0, 0, w), w != 1
    if r.chance(0.15) { let mut m = Matrix3::identity(); if r.chance(0.5) { m = Matrix3::new_rotation(r.unit() as f32 * 6.0); } m[(2, 2)] = *r.pick(&[2.0f32, 0.5, 1.6, 3.0]); return m; }
    match r.below(4) {
        0 => Matrix3::identity(),
        1 => Matrix3::new_scaling(*r.pick(&[0.5f32, 2.0, 1.5, 0.75])),
        2 => Matrix3::new_translation(&nalgebra::Vector2::new(gen_tame(r) * 0.2, gen_tame(r) * 0.2)) * Matrix3::new_scaling(1.0 + r.unit() as f32),
        _ => Matrix3::new_rotation(r.unit() as f32 * 6.0) * Matrix3::new_scaling(0.5 + r.unit() as f32),
    }
}

pub struct Cfg2 { pub w: u32, pub h: u32, pub tiles: Vec<usize>, pub mat: Matrix3<f32>, pub z: f32, pub pp: bool, pub threads: usize /* 0 none, 1 global, n>=2: custom n-1 */ }

pub fn render2<F: Function + MathFunction + fidget_core::render::RenderHints>(g: &GenShape, c: &Cfg2) -> Option<Vec<fidget_raster::pixel::RawDistancePixel>> {
    let shape = Shape::<F>::new(&g.ctx, g.root).unwrap();
    let rc = RenderConfig { image_size: ImageSize::new(c.w, c.h), world_to_model: c.mat, pixel_perfect: c.pp, z: c.z };
    let pool;
    let threads = match c.threads { 0 => None, 1 => Some(&ThreadPool::Global),
        n => { pool = ThreadPool::Custom(rayon::ThreadPoolBuilder::new().num_threads(n - 1).build().unwrap()); Some(&pool) } };
    let ec = EvalConfig { tile_sizes: Some(TileSizes::new(&c.tiles).unwrap()), threads, cancel: Default::default() };
    let img = render(shape.try_into().ok()?, &rc, &ec)?;
    let mut out = vec![];
    for y in 0..c.h as usize { for x in 0..c.w as usize { out.push(img[(y, x)]); } }
    Some(out)
}

/// the worker's 4x4 matrix: cfg.mat() with an identity Z row / column inserted
pub fn mat4_of(c: &Cfg2) -> Matrix4<f32> {
    let m = c.mat * ImageSize::new(c.w, c.h).screen_to_world();
    let t = m.insert_row(2, 0.0);
    let mut t = t.insert_column(2, 0.0);
    t[(2, 2)] = 1.0;
    t
}

pub fn run(seed: u64, count: usize, outdir: &str) -> std::io::Result<i32> {
    let mut rng = Rng::new(seed ^ 0xC06);
    let (mut cases, mut impls, mut oracle) = (String::new(), String::new(), String::new());
    let mut fails = 0usize;
    let mut hist: BTreeMap<String, usize> = BTreeMap::new();
    let mut distinct = BTreeSet::new();
    let (mut npix, mut nfill, mut nnear) = (0usize, 0usize, 0usize);
    let mut nmodel = 0usize;
    for ci in 0..count {
        let mut r = rng.fork();
        let g = if ci == 0 { bundled("hi.vm") } else if r.chance(0.6) { gen_csg(&mut r, false, false) } else { gen_expr(&mut r) };
        let big = g.ctx.len() > 200;
        let c = Cfg2 { w: if big { r.range(20, 40) as u32 } else { r.range(1, 96) as u32 }, h: if big { r.range(20, 40) as u32 } else { r.range(1, 96) as u32 },
                       tiles: gen_tiles(&mut r), mat: gen_mat3(&mut r), z: if r.chance(0.6) { 0.0 } else { gen_tame(&mut r) * 0.3 }, pp: r.chance(0.35), threads: *r.pick(&[0usize, 0, 1, 2, 3, 5, 9]) };
        let line = format!("c06 kind={} nodes={} {}x{} tiles={:?} pp={} z={} threads={} mat={:?}", g.kind, g.ctx.len(), c.w, c.h, c.tiles, c.pp, c.z, c.threads, c.mat.as_slice());
        distinct.insert(line.clone());
        *hist.entry(g.kind.into()).or_default() += 1;
        *hist.entry(format!("tile-levels={}", c.tiles.len())).or_default() += 1;
        *hist.entry(if c.pp { "pixel-perfect" } else { "fill-mode" }.into()).or_default() += 1;
        *hist.entry(match c.threads { 0 => "no-pool", 1 => "global-pool", _ => "custom-pool" }.into()).or_default() += 1;
        if c.w as usize % c.tiles[0] != 0 || c.h as usize % c.tiles[0] != 0 { *hist.entry("size-not-multiple-of-root-tile".into()).or_default() += 1; }
        let mut bad: Vec<String> = vec![];
        if ci == 0 {
            // corpus: every tile-size list the constructor accepts must render (a zero size used to be accepted)
            for t in [vec![0usize], vec![8, 0], vec![1], vec![5]] {
                if let Ok(ts) = TileSizes::new(&t) {
                    let shape = Shape::<VmFunction>::new(&g.ctx, g.root).unwrap();
                    let rc = RenderConfig { image_size: ImageSize::new(9, 7), world_to_model: Matrix3::identity(), pixel_perfect: false, z: 0.0 };
                    let ec = EvalConfig { tile_sizes: Some(ts), threads: None, cancel: Default::default() };
                    if catch_unwind(AssertUnwindSafe(|| render(shape.try_into().unwrap(), &rc, &ec).is_some())).is_err() {
                        bad.push(format!("kind=accepted-tile-list-panics backend=vm TileSizes::new({t:?}) is Ok but rendering with it panics"));
                    }
                }
            }
        }
        if ci == 1 {
            // corpus: a value that is NaN is a VALUE pixel (never a fill, never inside), whatever its payload bits are
            for k in 0..256u32 { for low in [0u32, 1] {
                let bits = 0x7FC0_0000u32 | (k << 9) | low | ((k & 7) << 1);
                let mut ctx = fidget_core::context::Context::new();
                let x = ctx.x(); let cst = ctx.constant(f32::from_bits(bits)); let root = ctx.add(x, cst).unwrap();
                let gg = GenShape { ctx, root, kind: "nan-payload" };
                for pp in [false, true] {
                    let cc = Cfg2 { w: 5, h: 3, tiles: vec![4, 2], mat: Matrix3::identity(), z: 0.0, pp, threads: 0 };
                    for (name, res) in [("vm", catch_unwind(AssertUnwindSafe(|| render2::<VmFunction>(&gg, &cc)))), ("jit", catch_unwind(AssertUnwindSafe(|| render2::<JitFunction>(&gg, &cc))))] {
                        match res { Ok(Some(img)) => { if let Some(px) = img.iter().find(|px| px.inside() || !matches!(px.unpack(), DistancePixel::Value(v) if v.is_nan())) {
                                        bad.push(format!("kind=nan-value-read-as-fill backend={name} x + NaN(bits {bits:#x}) rendered {:?} (pixel-perfect {pp})", px.unpack())); } }
                                    _ => bad.push(format!("kind=panic backend={name} rendering x + NaN(bits {bits:#x})")) }
                    }
                }
            } }
            bad.sort(); bad.dedup(); bad.truncate(4);
        }
        let vm = catch_unwind(AssertUnwindSafe(|| render2::<VmFunction>(&g, &c)));
        let jit = catch_unwind(AssertUnwindSafe(|| render2::<JitFunction>(&g, &c)));
        // the interpreter with 3 registers (every third case): spills everywhere, and simplified tapes that can be longer than their parent
        let vm3 = if ci % 3 == 1 { Some(catch_unwind(AssertUnwindSafe(|| render2::<fidget_core::vm::GenericVmFunction<3>>(&g, &c)))) } else { None };
        let m4 = mat4_of(&c);
        let mut il = String::new();
        let mut backends = vec![("vm", &vm), ("jit", &jit)];
        if let Some(v) = &vm3 { backends.push(("vm3", v)); }
        for (name, res) in backends {
            let img = match res { Ok(Some(i)) => i, Ok(None) => { bad.push(format!("kind=no-image backend={name} render returned None without cancellation")); continue; }
                                  Err(_) => { bad.push(format!("kind=panic backend={name} render panicked")); continue; } };
            let mut first: Option<String> = None;
            let mut nbad = 0;
            for y in 0..c.h as usize { for x in 0..c.w as usize {
                let p = m4.transform_point(&Point3::new(x as f32, y as f32, c.z));
                let mut orc = Oracle::default();
                let vals = eval_arena(&g.ctx, &|v: Var| match v { Var::X => p.x, Var::Y => p.y, Var::Z => p.z, _ => f32::NAN }, &mut orc);
                if vals.iter().any(|v| v.is_nan()) { continue; }
                // a min / max of zeros of opposite sign, or atan2(0, 0), on the way: the evaluators may differ in the sign of a zero
                // (C02) and in what atan2 / division make of it; such a pixel has no single reference value
                if orc.zero_tie || orc.atan00 || orc.atan_y_zero || orc.abs_of_neg_zero { continue; }
                let want = vals[g.root.verif_index()];
                npix += 1;
                let px = img[y * c.w as usize + x];
                let mut problem = None;
                match px.unpack() {
                    DistancePixel::Value(v) => { if !(v.to_bits() == want.to_bits() || (v == 0.0 && want == 0.0)) { problem = Some(format!("value {v} expected {want}")); } }
                    DistancePixel::Fill { inside, depth } => {
                        nfill += 1;
                        if c.pp { problem = Some(format!("fill pixel (depth {depth}) in pixel-perfect mode")); }
                        else if inside != (want < 0.0) {
                            // interval bounds are not rounded outward: a value within rounding distance of zero may be filled either way
                            let scale = vals.iter().fold(1.0f32, |a, b| a.max(b.abs()));
                            if want == 0.0 || want.abs() > 1e-4 * scale { problem = Some(format!("filled {} at depth {depth} but the value is {want}", if inside { "inside" } else { "outside" })); } else { nnear += 1; }
                        }
                        if depth as usize >= c.tiles.len() { problem = Some(format!("fill depth {depth} with {} tile levels", c.tiles.len())); }
                    }
                }
                if px.inside() != (want < 0.0) && problem.is_none() && !matches!(px.unpack(), DistancePixel::Fill { .. }) { problem = Some(format!("inside()={} but value {want}", px.inside())); }
                if let Some(p) = problem { nbad += 1; if first.is_none() { first = Some(format!("pixel ({x}, {y}): {p}")); } }
            } }
            if nbad > 0 { bad.push(format!("kind=wrong-pixel backend={name} {nbad} pixels differ from per-pixel evaluation; first {}", first.unwrap())); }
            if name == "vm" {
                // the whole image, for the model
                il.push_str("img");
                for px in img.iter() { match px.unpack() {
                    DistancePixel::Value(v) => { let b = if v.is_nan() { 0x7fc00000 } else if v == 0.0 { 0 } else { v.to_bits() }; write!(il, " {b}").unwrap(); }
                    DistancePixel::Fill { inside, depth } => write!(il, " F{}.{}", inside as u8, depth).unwrap(),
                } }
            }
        }
        if il.is_empty() { il.push_str("no-image"); }
        // the case for the model (it renders small images only: the extracted interval arithmetic is slow)
        // the model's tile buffers are lists (quadratic fills): replay only runs whose (trimmed) root tile is small
        let root_tile = { let m = c.w.max(c.h) as usize; let i = c.tiles.iter().position(|t| *t < m).unwrap_or(c.tiles.len()).saturating_sub(1); c.tiles[i] };
        let small = (c.w as usize) * (c.h as usize) * g.ctx.len() <= 40_000 && (c.w as usize) * (c.h as usize) <= 1600 && root_tile <= 64;
        if small {
            let mut wl = format!("c06 {} {}", crate::wire::fmt_arena(&g.ctx, &[]), g.root.verif_index());
            for i in 0..4 { for j in 0..4 { write!(wl, " {}", canon_bits(m4[(i, j)])).unwrap(); } }
            write!(wl, " {} {} {}", canon_bits(c.z), c.pp as u8, c.tiles.len()).unwrap();
            for t in &c.tiles { write!(wl, " {t}").unwrap(); }
            write!(wl, " {} {}", c.w, c.h).unwrap();
            cases.push_str(&wl); cases.push('\n');
            impls.push_str(&il); impls.push('\n');
            nmodel += 1;
        }
        for m in &bad { fails += 1; writeln!(oracle, "FAIL case={ci} {m} :: {line}").unwrap(); }
    }
    std::fs::write(format!("{outdir}/cases.txt"), cases)?;
    std::fs::write(format!("{outdir}/impl.txt"), impls)?;
    std::fs::write(format!("{outdir}/oracle.txt"), oracle)?;
    let mut js = String::from("{");
    write!(js, "\"cases\": {count}, \"distinct_nontrivial\": {}, \"pixels_checked\": {npix}, \"fill_pixels\": {nfill}, \"fill_within_rounding_of_zero\": {nnear}, \"images_replayed_by_the_model\": {nmodel}, ", distinct.len()).unwrap();
    write!(js, "\"mix\": {{{}}}, ", hist.iter().map(|(k, v)| format!("\"{k}\": {v}")).collect::<Vec<_>>().join(", ")).unwrap();
    write!(js, "\"oracle_fails\": {fails}}}").unwrap();
    std::fs::write(format!("{outdir}/stats.json"), js)?;
    Ok(if fails > 0 { 1 } else { 0 })
}
