//! C09: parallel execution and cancellation are unobservable in results.
//! Each workload (2D render, 3D render, mesh) runs without a pool, on the global pool and on
//! custom pools of 1..16 threads, with the schedule-point hook injecting yields and short
//! sleeps so that interleavings differ between runs; results must be identical (images bit for
//! bit, meshes as sets of oriented triangles over vertex positions).  One tape is evaluated
//! from many threads at once.  Cancellation is injected at an exact poll number through the
//! hook: a run cancelled at or before its last poll returns None, a run never cancelled returns
//! the reference result.  Task and poll counts are compared with the Coq model (Sched.v).
use crate::c06::{gen_mat3, gen_tiles, Cfg2};
use crate::c07::{gen_mat4, Cfg3};
use crate::c08::build_mesh;
use crate::rng::*;
use crate::shapegen::*;
use fidget_core::eval::{Function, MathFunction};
use fidget_core::render::{verif_sched, CancelToken, ImageSize, ThreadPool, TileSizes, VoxelSize};
use fidget_core::shape::Shape;
use fidget_core::vm::VmFunction;
use fidget_jit::JitFunction;
use fidget_mesh::{Mesh, Octree, Settings};
use std::collections::{BTreeMap, BTreeSet};
use std::fmt::Write as _;
use std::sync::atomic::{AtomicUsize, Ordering};
use std::sync::Arc;
use std::panic::{catch_unwind, AssertUnwindSafe};

#[derive(Default)]
struct Counters { tile: AtomicUsize, task: AtomicUsize, poll: AtomicUsize }

/// installs a hook that counts points, perturbs the schedule, and cancels `token` at poll number `cancel_at` (1-based)
fn install(c: Arc<Counters>, jitter: u64, token: Option<CancelToken>, cancel_at: usize) {
    verif_sched::set_hook(Some(Box::new(move |site: &'static str| {
        let n = match site { "raster-tile" => c.tile.fetch_add(1, Ordering::SeqCst), "octree-task" => c.task.fetch_add(1, Ordering::SeqCst),
                             _ => { let p = c.poll.fetch_add(1, Ordering::SeqCst) + 1; if let Some(t) = &token { if p == cancel_at { t.cancel(); } } p } };
        if jitter != 0 {
            let mut z = (n as u64).wrapping_mul(0x9E3779B97F4A7C15) ^ jitter; z ^= z >> 29; z = z.wrapping_mul(0xBF58476D1CE4E5B9); z ^= z >> 32;
            match z % 7 { 0 => std::thread::yield_now(), 1 => std::thread::sleep(std::time::Duration::from_micros(z % 150)), _ => {} }
        }
    })));
}
fn uninstall() { verif_sched::set_hook(None); }

fn pool(n: usize) -> ThreadPool { ThreadPool::Custom(rayon::ThreadPoolBuilder::new().num_threads(n).build().unwrap()) }

fn r2<F: Function + MathFunction + fidget_core::render::RenderHints>(g: &GenShape, c: &Cfg2, threads: Option<&ThreadPool>, cancel: CancelToken) -> Option<Vec<u32>> {
    let shape = Shape::<F>::new(&g.ctx, g.root).unwrap();
    let rc = fidget_raster::pixel::RenderConfig { image_size: ImageSize::new(c.w, c.h), world_to_model: c.mat, pixel_perfect: c.pp, z: c.z };
    let ec = fidget_raster::pixel::EvalConfig { tile_sizes: Some(TileSizes::new(&c.tiles).unwrap()), threads, cancel };
    let img = fidget_raster::pixel::render(shape.try_into().ok()?, &rc, &ec)?;
    let mut out = vec![];
    for y in 0..c.h as usize { for x in 0..c.w as usize { let b: [u8; 4] = zerocopy_bytes(&img[(y, x)]); out.push(u32::from_le_bytes(b)); } }
    Some(out)
}
fn zerocopy_bytes(p: &fidget_raster::pixel::RawDistancePixel) -> [u8; 4] {
    // RawDistancePixel is a transparent f32; read its bits through the distance / fill view
    match p.unpack() { fidget_raster::pixel::DistancePixel::Value(v) => v.to_bits().to_le_bytes(),
                       fidget_raster::pixel::DistancePixel::Fill { depth, inside } => (0xFFC0_0000u32 | ((depth as u32) << 1) | inside as u32).to_le_bytes() }
}
fn r3<F: Function + MathFunction + fidget_core::render::RenderHints>(g: &GenShape, c: &Cfg3, threads: Option<&ThreadPool>, cancel: CancelToken) -> Option<Vec<u32>> {
    let shape = Shape::<F>::new(&g.ctx, g.root).unwrap();
    let rc = fidget_raster::voxel::RenderConfig { image_size: VoxelSize::new(c.w, c.h, c.d), world_to_model: c.mat };
    let ec = fidget_raster::voxel::EvalConfig { tile_sizes: Some(TileSizes::new(&c.tiles).unwrap()), threads, cancel };
    let img = fidget_raster::voxel::render(shape.try_into().ok()?, &rc, &ec)?;
    let mut out = vec![];
    for y in 0..c.h as usize { for x in 0..c.w as usize { let p = img[(y, x)]; out.push(p.depth); for n in p.normal { out.push(crate::rng::canon_bits(n)); } } }
    Some(out)
}
fn mesh_canon(m: &Mesh) -> Vec<[[u32; 3]; 3]> {
    let mut v: Vec<[[u32; 3]; 3]> = m.triangles.iter().map(|t| {
        let f = |i: usize| [m.vertices[i].x.to_bits(), m.vertices[i].y.to_bits(), m.vertices[i].z.to_bits()];
        let mut tri = [f(t.x), f(t.y), f(t.z)];
        let k = (0..3).min_by_key(|k| tri[*k]).unwrap();
        tri.rotate_left(k);
        tri
    }).collect();
    v.sort();
    v
}
fn rm<F: Function + MathFunction + fidget_core::render::RenderHints + Clone>(g: &GenShape, depth: u8, mat: nalgebra::Matrix4<f32>, threads: Option<&ThreadPool>, cancel: CancelToken) -> Option<Vec<[[u32; 3]; 3]>> {
    let shape = Shape::<F>::new(&g.ctx, g.root).unwrap();
    let settings = Settings { depth, world_to_model: mat, threads, cancel };
    let bound = shape.try_into().ok()?;
    Octree::build(&bound, &settings).map(|o| mesh_canon(&o.walk_dual()))
}

pub fn run(seed: u64, count: usize, outdir: &str) -> std::io::Result<i32> {
    let mut rng = Rng::new(seed ^ 0xC09);
    let (mut cases, mut impls, mut oracle) = (String::new(), String::new(), String::new());
    let mut fails = 0usize;
    let mut hist: BTreeMap<String, usize> = BTreeMap::new();
    let mut distinct = BTreeSet::new();
    let pools_all = [1usize, 2, 3, 4, 5, 8, 12, 16];
    for ci in 0..count {
        let mut r = rng.fork();
        let mut bad: Vec<String> = vec![];
        let kind = ci % 4;
        // case 0: the round-2 witness for a stale cached simplification in the render handle: under 3 registers the simplified tape of
        // max((x y)^2 + ((x + x) + (x - y)), x) is LONGER than its parent; 256 x 256, default tiles, pixel-perfect
        let witness0 = ci == 0;
        let jit = !witness0 && r.chance(0.5);
        // a quarter of the interpreter cases render with 3 registers: simplified tapes can then be LONGER than their parent
        let vm3 = witness0 || (!jit && r.chance(0.25));
        let backend = if jit { "jit" } else if vm3 { "vm3" } else { "vm" };
        let mut line = String::new();
        let mut il = String::new();
        macro_rules! compare_pools { ($name:expr, $runner:expr, $tasksite:ident) => {{
            let run = |t: Option<&ThreadPool>, k: CancelToken| { match catch_unwind(AssertUnwindSafe(|| $runner(t, k))) { Ok(v) => v.map(Ok), Err(_) => Some(Err(())) } };
            // reference: no pool, no hook
            uninstall();
            let reference = run(None, CancelToken::new());
            if matches!(reference, Some(Err(()))) { bad.push(format!("kind=panic backend={backend} {} without a pool panicked", $name)); }
            if reference.is_none() { bad.push(format!("kind=no-result backend={backend} {} without a pool returned None though never cancelled", $name)); }
            // count tasks / polls without perturbation, sequentially
            let c0 = Arc::new(Counters::default());
            install(c0.clone(), 0, None, 0);
            let again = run(None, CancelToken::new());
            if again != reference { bad.push(format!("kind=not-repeatable backend={backend} {} differs between two runs without a pool", $name)); }
            let polls_seq = c0.poll.load(Ordering::SeqCst);
            let tasks_seq = c0.$tasksite.load(Ordering::SeqCst);
            // pools with perturbed schedules
            let mut pools: Vec<usize> = pools_all.to_vec(); r.shuffle(&mut pools); pools.truncate(3);
            let mut tasks_par = vec![];
            for (pi, n) in pools.iter().enumerate() {
                let p = pool(*n);
                for rep in 0..2 {
                    let c = Arc::new(Counters::default());
                    install(c.clone(), r.next() | 1, None, 0);
                    let got = run(Some(&p), CancelToken::new());
                    if matches!(got, Some(Err(()))) && !matches!(reference, Some(Err(()))) { bad.push(format!("kind=panic backend={backend} {} with {} threads panicked; without a pool it does not", $name, n)); }
                    else if got != reference { bad.push(format!("kind=pool-changes-result backend={backend} {} with {} threads (run {rep}) differs from the run without a pool", $name, n)); }
                    if pi == 0 && rep == 0 { tasks_par.push((*n, c.$tasksite.load(Ordering::SeqCst), c.poll.load(Ordering::SeqCst))); }
                    *hist.entry(format!("{}-pool-runs", $name)).or_default() += 1;
                }
            }
            uninstall();
            let g = run(Some(&ThreadPool::Global), CancelToken::new());
            if g != reference { bad.push(format!("kind=pool-changes-result backend={backend} {} on the global pool differs", $name)); }
            // cancellation at exact poll numbers
            let (pn, pool_for_cancel) = (*r.pick(&[0usize, 2, 4]), ());
            let _ = pool_for_cancel;
            let p = if pn == 0 { None } else { Some(pool(pn)) };
            // polls of this configuration when nothing is cancelled
            let c = Arc::new(Counters::default()); install(c.clone(), 0, None, 0);
            let _ = run(p.as_ref(), CancelToken::new());
            let total = c.poll.load(Ordering::SeqCst);
            let mut ks: Vec<usize> = vec![1, total, (total + 1) / 2, 1 + r.below(total.max(1))]; ks.sort(); ks.dedup();
            let mut cancel_out = String::new();
            for k in ks { if k == 0 || k > total { continue; }
                let tok = CancelToken::new();
                let c = Arc::new(Counters::default()); install(c.clone(), r.next() | 1, Some(tok.clone()), k);
                let got = run(p.as_ref(), tok);
                if got.is_some() { bad.push(format!("kind=cancel-ignored backend={backend} {} cancelled at poll {k} of {total} ({} threads) still returned a result{}", $name, pn, if got == reference { "" } else { " (and it differs from the reference)" })); }
                write!(cancel_out, " {k}:{}", if got.is_some() { "some" } else { "none" }).unwrap();
                *hist.entry(format!("{}-cancel-runs", $name)).or_default() += 1;
            }
            // cancelled before the start
            { uninstall(); let tok = CancelToken::new(); tok.cancel(); if run(p.as_ref(), tok).is_some() { bad.push(format!("kind=cancel-ignored backend={backend} {} cancelled before the start returned a result", $name)); } }
            // never cancelled with the hook's jitter on: the reference
            { let c = Arc::new(Counters::default()); install(c.clone(), r.next() | 1, None, 0); let got = run(p.as_ref(), CancelToken::new()); if got != reference { bad.push(format!("kind=pool-changes-result backend={backend} {} never cancelled differs from the reference", $name)); } }
            uninstall();
            (tasks_seq, polls_seq, tasks_par, total, cancel_out)
        }}; }
        // ---- Image::apply_effect (behind to_rgba_bitmap, denoise_normals, apply_shading ...): every pixel of every row is
        // written exactly as without a pool, for any image height and pool size
        if ci % 8 == 0 {
            let (w, h) = (r.range(1, 70) as u32, r.range(1, 140) as u32);
            let f = |x: usize, y: usize| -> u32 { (x as u32).wrapping_mul(2654435761).wrapping_add((y as u32).wrapping_mul(40503)) | 1 };
            let mut want = fidget_raster::Image::<u32>::new(ImageSize::new(w, h));
            want.apply_effect(f, None);
            let mut ok_ref = true;
            for y in 0..h as usize { for x in 0..w as usize { if want[(y, x)] != f(x, y) { ok_ref = false; } } }
            if !ok_ref { bad.push(format!("kind=apply-effect-wrong-pixel backend={backend} {w}x{h} without a pool")); }
            for n in [1usize, 2, 3, 5, 8, 16] {
                let p = pool(n);
                let mut got = fidget_raster::Image::<u32>::new(ImageSize::new(w, h));
                got.apply_effect(f, Some(&p));
                let mut diff = None;
                for y in 0..h as usize { for x in 0..w as usize { if got[(y, x)] != want[(y, x)] && diff.is_none() { diff = Some((x, y)); } } }
                if let Some((x, y)) = diff { bad.push(format!("kind=pool-changes-result backend={backend} apply_effect on {w}x{h} with {n} threads: pixel ({x}, {y}) differs from the run without a pool")); break; }
            }
            *hist.entry("apply-effect-runs".into()).or_default() += 1;
        }
        match kind {
            0 => {
                let mut g = if r.chance(0.6) { gen_csg(&mut r, false, false) } else { gen_expr(&mut r) };
                let mut c = Cfg2 { w: r.range(1, 120) as u32, h: r.range(1, 120) as u32, tiles: gen_tiles(&mut r), mat: gen_mat3(&mut r), z: 0.0, pp: r.chance(0.3), threads: 0 };
                if witness0 {
                    use fidget_core::context::Tree;
                    let (x, y, _z) = Tree::axes();
                    let u = (x.clone() * y.clone()).square() + ((x.clone() + x.clone()) + (x.clone() - y));
                    let t = u.max(x);
                    let mut ctx = fidget_core::context::Context::new(); let root = ctx.import(&t);
                    g = GenShape { ctx, root, kind: "longer-simplification-witness" };
                    c = Cfg2 { w: 256, h: 256, tiles: vec![128, 32, 8], mat: nalgebra::Matrix3::identity(), z: 0.0, pp: true, threads: 0 };
                }
                let (ts, ps, tp, total, co) = if jit { compare_pools!("render2d", |t, k| r2::<JitFunction>(&g, &c, t, k), tile) } else if vm3 { compare_pools!("render2d", |t, k| r2::<fidget_core::vm::GenericVmFunction<3>>(&g, &c, t, k), tile) } else { compare_pools!("render2d", |t, k| r2::<VmFunction>(&g, &c, t, k), tile) };
                line = format!("c09 raster {} {} {} {}", c.w, c.h, c.tiles.len(), c.tiles.iter().map(|t| t.to_string()).collect::<Vec<_>>().join(" "));
                il = format!("tasks {ts}");
                if ps != ts { bad.push(format!("kind=poll-count backend={backend} render2d: {ps} cancel polls for {ts} tile tasks")); }
                for (n, t, _) in tp { if t != ts { bad.push(format!("kind=task-count backend={backend} render2d: {t} tile tasks with {n} threads, {ts} without a pool")); } }
                let _ = (total, co);
            }
            1 => {
                let g = gen_csg(&mut r, true, false);
                let c = Cfg3 { w: r.range(1, 40) as u32, h: r.range(1, 40) as u32, d: r.range(1, 40) as u32, tiles: { let mut t = gen_tiles(&mut r); while t[0] > 64 || t.last().unwrap().pow(3) > 4096 { t = gen_tiles(&mut r); } t }, mat: gen_mat4(&mut r), threads: 0 };
                let (ts, ps, tp, _total, _co) = if jit { compare_pools!("render3d", |t, k| r3::<JitFunction>(&g, &c, t, k), tile) } else if vm3 { compare_pools!("render3d", |t, k| r3::<fidget_core::vm::GenericVmFunction<3>>(&g, &c, t, k), tile) } else { compare_pools!("render3d", |t, k| r3::<VmFunction>(&g, &c, t, k), tile) };
                line = format!("c09 raster {} {} {} {}", c.w, c.h, c.tiles.len(), c.tiles.iter().map(|t| t.to_string()).collect::<Vec<_>>().join(" "));
                il = format!("tasks {ts}");
                if ps != ts { bad.push(format!("kind=poll-count backend={backend} render3d: {ps} cancel polls for {ts} tile tasks")); }
                for (n, t, _) in tp { if t != ts { bad.push(format!("kind=task-count backend={backend} render3d: {t} tile tasks with {n} threads, {ts} without a pool")); } }
            }
            2 => {
                // (flat shapes - slabs, boxes - make whole task cells collapse; a world-to-model transform makes vertex coordinates
                //  depend on WHERE in the pipeline it is applied)
                let g = if r.chance(0.3) { gen_oblique(&mut r) } else { gen_csg(&mut r, true, true) };
                let depth = *r.pick(&[0u8, 1, 2, 3, 4, 5]);
                let mat = match r.below(3) { 0 => nalgebra::Matrix4::identity(), 1 => nalgebra::Matrix4::new_scaling(1.0 + r.unit() as f32 * 0.5),
                    _ => nalgebra::Matrix4::new_translation(&nalgebra::Vector3::new(0.05, -0.03, 0.04)) * nalgebra::Matrix4::new_nonuniform_scaling(&nalgebra::Vector3::new(1.2, 0.9, 1.1)) };
                let (_ts, _ps, tp, _total, _co) = if jit { compare_pools!("mesh", |t, k| rm::<JitFunction>(&g, depth, mat, t, k), task) } else { compare_pools!("mesh", |t, k| rm::<VmFunction>(&g, depth, mat, t, k), task) };
                let (n, t, _) = tp[0];
                line = format!("c09 octree {depth} {n}");
                il = format!("tasks {t}");
            }
            _ => {
                // one tape evaluated from many threads at once
                let g = gen_expr(&mut r);
                fn conc<F: Function + MathFunction>(g: &GenShape, r: &mut Rng, bad: &mut Vec<String>, backend: &str) {
                    let shape = Shape::<F>::new(&g.ctx, g.root).unwrap();
                    let tape = shape.point_tape(Default::default());
                    let stape = shape.float_slice_tape(Default::default());
                    let pts: Vec<[f32; 3]> = (0..256).map(|_| [gen_tame(r), gen_tame(r), gen_tame(r)]).collect();
                    let mut e = Shape::<F>::new_point_eval();
                    let alone: Vec<u32> = pts.iter().map(|p| canon_bits(e.eval(&tape, p[0], p[1], p[2]).unwrap().0)).collect();
                    // (each evaluator kind against ITSELF evaluated alone: across kinds the sign of a zero out of min / max, and what
                    //  atan2 or a division make of it, may differ — C02)
                    let alone_slice: Vec<u32> = { let mut se = Shape::<F>::new_float_slice_eval();
                        let xs: Vec<f32> = pts.iter().map(|p| p[0]).collect(); let ys: Vec<f32> = pts.iter().map(|p| p[1]).collect(); let zs: Vec<f32> = pts.iter().map(|p| p[2]).collect();
                        se.eval(&stape, &xs, &ys, &zs).unwrap().iter().map(|v| canon_bits(*v)).collect() };
                    let results: Vec<(Vec<u32>, Vec<u32>)> = std::thread::scope(|s| {
                        let hs: Vec<_> = (0..12).map(|ti| { let (tape, stape, pts) = (&tape, &stape, &pts); s.spawn(move || {
                            let mut e = Shape::<F>::new_point_eval();
                            let mut se = Shape::<F>::new_float_slice_eval();
                            let mut out = vec![];
                            for k in 0..pts.len() { let p = pts[(k + ti * 7) % pts.len()]; out.push(canon_bits(e.eval(tape, p[0], p[1], p[2]).unwrap().0)); if k % 16 == ti { std::thread::yield_now(); } }
                            let xs: Vec<f32> = pts.iter().map(|p| p[0]).collect(); let ys: Vec<f32> = pts.iter().map(|p| p[1]).collect(); let zs: Vec<f32> = pts.iter().map(|p| p[2]).collect();
                            let sl: Vec<u32> = se.eval(stape, &xs, &ys, &zs).unwrap().iter().map(|v| canon_bits(*v)).collect();
                            let mut unrot = vec![0u32; pts.len()];
                            for k in 0..pts.len() { unrot[(k + ti * 7) % pts.len()] = out[k]; }
                            (unrot, sl)
                        }) }).collect();
                        hs.into_iter().map(|h| h.join().unwrap()).collect()
                    });
                    for (ti, (pt, sl)) in results.iter().enumerate() {
                        if *pt != alone { bad.push(format!("kind=concurrent-evaluation-differs backend={backend} thread {ti}: point results differ from the same tape evaluated alone")); }
                        if *sl != alone_slice { bad.push(format!("kind=concurrent-evaluation-differs backend={backend} thread {ti}: slice results differ from the same tape evaluated alone")); }
                    }
                }
                conc::<VmFunction>(&g, &mut r, &mut bad, "vm");
                conc::<JitFunction>(&g, &mut r, &mut bad, "jit");
                *hist.entry("concurrent-tape-runs".into()).or_default() += 1;
                line = "c09 none".into(); il = "-".into();
            }
        }
        distinct.insert(format!("{ci} {line}"));
        cases.push_str(&line); cases.push('\n');
        impls.push_str(&il); impls.push('\n');
        for m in &bad { fails += 1; writeln!(oracle, "FAIL case={ci} {m} :: {line}").unwrap(); }
    }
    uninstall();
    std::fs::write(format!("{outdir}/cases.txt"), cases)?;
    std::fs::write(format!("{outdir}/impl.txt"), impls)?;
    std::fs::write(format!("{outdir}/oracle.txt"), oracle)?;
    let mut js = String::from("{");
    write!(js, "\"cases\": {count}, \"distinct_nontrivial\": {}, ", distinct.len()).unwrap();
    write!(js, "\"mix\": {{{}}}, ", hist.iter().map(|(k, v)| format!("\"{k}\": {v}")).collect::<Vec<_>>().join(", ")).unwrap();
    write!(js, "\"oracle_fails\": {fails}}}").unwrap();
    std::fs::write(format!("{outdir}/stats.json"), js)?;
    Ok(if fails > 0 { 1 } else { 0 })
}
