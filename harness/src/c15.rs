//! C15: serialized bytecode, read per its documented format, computes the tape.
use crate::c01::fmt_bits;
use crate::c04::{reg_section, var_order};
use crate::dag::*;
use crate::rng::*;
use crate::wire::*;
use fidget_bytecode::{iter_ops, Bytecode};
use fidget_core::eval::{Function, TracingEvaluator};
use fidget_core::types::FloatExt;
use fidget_core::var::Var;
use fidget_core::vm::{GenericVmFunction, VmData};
use std::collections::{BTreeMap, HashMap};
use std::fmt::Write as _;
use std::panic::{catch_unwind, AssertUnwindSafe};

/// Interpreter written from the format documentation only: opcode names come
/// from the public iterator, 0xFF means immediate, Mem's flag tells load from store.
pub fn doc_interpreter(words: &[u32], inputs: &[f32], noutputs: usize, mem_count: usize) -> Result<Vec<f32>, String> {
    let names: HashMap<u8, &str> = iter_ops().map(|(n, i)| (i, n)).collect();
    if words.len() < 4 || words[0] != u32::MAX || words[1] != 0 { return Err("bad start marker".into()); }
    if words[words.len() - 2] != u32::MAX || words[words.len() - 1] != u32::MAX { return Err("bad end marker".into()); }
    let mut reg = [f32::NAN; 256];
    let mut mem = vec![f32::NAN; mem_count];
    let mut out = vec![f32::NAN; noutputs];
    let mut pc = 2;
    loop {
        if pc + 1 >= words.len() { return Err("ran off the end".into()); }
        let [opc, b1, b2, b3] = words[pc].to_le_bytes();
        let imm = words[pc + 1];
        pc += 2;
        if opc == 0xFF { if imm == u32::MAX { break; } else { return Err("unexpected marker".into()); } }
        let name = *names.get(&opc).ok_or(format!("unknown opcode {opc}"))?;
        let fimm = f32::from_bits(imm);
        let a = |b: u8, reg: &[f32; 256]| if b == 0xFF { fimm } else { reg[b as usize] };
        match name {
            "Output" => { *out.get_mut(imm as usize).ok_or("output index")? = reg[b1 as usize]; }
            "Input" => { reg[b1 as usize] = *inputs.get(imm as usize).ok_or("input index")?; }
            "Mem" => {
                if b2 == 0xFF { reg[b1 as usize] = *mem.get(imm as usize).ok_or("mem index")?; }
                else if b1 == 0xFF { *mem.get_mut(imm as usize).ok_or("mem index")? = reg[b2 as usize]; }
                else { return Err("Mem without flag".into()); }
            }
            "Copy" => reg[b1 as usize] = a(b2, &reg),
            "Neg" => reg[b1 as usize] = -a(b2, &reg), "Abs" => reg[b1 as usize] = a(b2, &reg).abs(),
            "Recip" => reg[b1 as usize] = 1.0 / a(b2, &reg), "Sqrt" => reg[b1 as usize] = a(b2, &reg).sqrt(),
            "Square" => { let v = a(b2, &reg); reg[b1 as usize] = v * v; }
            "Floor" => reg[b1 as usize] = a(b2, &reg).floor(), "Ceil" => reg[b1 as usize] = a(b2, &reg).ceil(),
            "Round" => reg[b1 as usize] = a(b2, &reg).round(),
            "Not" => reg[b1 as usize] = if a(b2, &reg) == 0.0 { 1.0 } else { 0.0 },
            "Rand" => reg[b1 as usize] = a(b2, &reg).rand(),
            "Sin" => reg[b1 as usize] = a(b2, &reg).sin(), "Cos" => reg[b1 as usize] = a(b2, &reg).cos(),
            "Tan" => reg[b1 as usize] = a(b2, &reg).tan(), "Asin" => reg[b1 as usize] = a(b2, &reg).asin(),
            "Acos" => reg[b1 as usize] = a(b2, &reg).acos(), "Atan" => reg[b1 as usize] = a(b2, &reg).atan(),
            "Exp" => reg[b1 as usize] = a(b2, &reg).exp(), "Ln" => reg[b1 as usize] = a(b2, &reg).ln(),
            _ => {
                let (x, y) = (a(b2, &reg), a(b3, &reg));
                reg[b1 as usize] = match name {
                    "Add" => x + y, "Sub" => x - y, "Mul" => x * y, "Div" => x / y, "Atan2" => x.atan2(y),
                    "Compare" => x.compare(y), "Mix" => x.mix(y), "Mod" => x.rem_euclid(y),
                    "Min" => x.min_choice(y).0, "Max" => x.max_choice(y).0,
                    "And" => x.and_choice(y).0, "Or" => x.or_choice(y).0,
                    other => return Err(format!("unhandled opcode {other}")),
                };
            }
        }
    }
    Ok(out)
}

fn run_n<const N: usize>(dag: &Dag, points: &[Vec<f32>], skip: &[bool]) -> (String, Vec<String>) {
    let mut bad = vec![];
    let d = match catch_unwind(AssertUnwindSafe(|| VmData::<N>::new(&dag.ctx, &dag.roots).unwrap())) { Ok(d) => d, Err(_) => return ("build err".into(), bad) };
    let bc = match Bytecode::new(&d) { Ok(b) => b, Err(_) => return ("bc reserved".into(), bad) };
    let mut text = format!("reg {} | bc {} {} {}", reg_section(&d), bc.reg_count(), bc.mem_count(), bc.data().len());
    {
        // NaN immediates are printed canonically (NaN payload/sign bits are not modelled)
        let names: HashMap<u8, &str> = iter_ops().map(|(n, i)| (i, n)).collect();
        let ws = bc.data();
        for (k, w) in ws.iter().enumerate() {
            let mut w = *w;
            if k >= 2 && k % 2 == 1 && k + 2 < ws.len() {
                let [opc, _b1, b2, b3] = ws[k - 1].to_le_bytes();
                let name = names.get(&opc).cloned().unwrap_or("?");
                let is_f32_imm = !matches!(name, "Mem" | "Input" | "Output") && (b2 == 0xFF || b3 == 0xFF) && w != 0xFF000000;
                if is_f32_imm && f32::from_bits(w).is_nan() { w = 0x7fc00000; }
            }
            write!(text, " {w}").unwrap();
        }
    }
    let f = GenericVmFunction::<N>::from(d);
    let order = var_order(&f);
    let tape = f.point_tape(Default::default());
    let mut pe = <GenericVmFunction<N> as Function>::new_point_eval();
    text.push_str(" | pt");
    for (p, sk) in points.iter().zip(skip) {
        if *sk { text.push_str(" x"); continue; }
        let inputs: Vec<f32> = order.iter().map(|v| p[var_id(*v, &dag.vs) as usize]).collect();
        let (out, _) = pe.eval(&tape, &inputs).unwrap();
        let vm = fmt_bits(out);
        write!(text, " {vm}").unwrap();
        match doc_interpreter(bc.data(), &inputs, f.output_count(), bc.mem_count() as usize) {
            Ok(o) => { if fmt_bits(&o) != vm { bad.push(format!("kind=doc-interpreter-differs vm=[{vm}] doc=[{}]", fmt_bits(&o))); } }
            Err(e) => bad.push(format!("kind=doc-interpreter-error {e}")),
        }
    }
    // bounds: every register byte < reg_count and != 255, every memory index < mem_count
    let ws = bc.data();
    let names: HashMap<u8, &str> = iter_ops().map(|(n, i)| (i, n)).collect();
    let mut k = 2;
    while k + 3 < ws.len() {
        let [opc, b1, b2, b3] = ws[k].to_le_bytes();
        let mut regs = vec![];
        let name = names.get(&opc).cloned().unwrap_or("?");
        match name {
            "Mem" => { if b1 != 0xFF { regs.push(b1); } if b2 != 0xFF { regs.push(b2); }
                       if ws[k + 1] >= bc.mem_count() { bad.push(format!("kind=mem-index-out-of-bounds {} >= {}", ws[k + 1], bc.mem_count())); } }
            "Input" | "Output" => regs.push(b1),
            _ => { regs.push(b1); if b2 != 0xFF { regs.push(b2); } if b3 != 0xFF { regs.push(b3); } }
        }
        for r in regs { if r >= bc.reg_count() { bad.push(format!("kind=register-out-of-bounds {r} >= {}", bc.reg_count())); } }
        k += 2;
    }
    // ---- history: storage that was serialized as part of ANOTHER function is recycled into a simplification of this one; the
    // bytecode of the result must be the one a simplification into fresh storage gives (nothing cached may survive the recycling)
    if N >= 3 {
        let hist = catch_unwind(AssertUnwindSafe(|| -> Result<(), String> {
            let mut ctx = fidget_core::context::Context::new();
            let x = ctx.x(); let small = ctx.add(x, 1.0).unwrap();
            let da = VmData::<N>::new(&ctx, &[small]).unwrap();
            let _ = Bytecode::new(&da).map_err(|_| "small function: reserved register")?;
            let trace = { let mut t = fidget_core::vm::VmTrace::default(); t.resize(f.choice_count(), fidget_core::vm::Choice::Both); t };
            let mut ws = Default::default();
            let with_recycled = f.simplify(&trace, da, &mut ws).map_err(|e| format!("simplify into recycled storage: {e}"))?;
            let mut ws2 = Default::default();
            let with_fresh = f.simplify(&trace, VmData::<N>::default(), &mut ws2).map_err(|e| format!("simplify into fresh storage: {e}"))?;
            match (Bytecode::new(with_recycled.data()), Bytecode::new(with_fresh.data())) {
                (Ok(a), Ok(b)) => if a.data() != b.data() { return Err("bytecode after recycling serialized storage differs from bytecode with fresh storage".into()) },
                (Err(_), Err(_)) => {}
                _ => return Err("reserved-register error with one storage only".into()),
            }
            Ok(())
        }));
        match hist { Ok(Ok(())) => {}, Ok(Err(e)) => bad.push(format!("kind=recycled-storage-changes-bytecode {e}")), Err(_) => bad.push("kind=panic serializing a function simplified into storage recycled from a serialized function".into()) }
    }
    (text, bad)
}

pub fn run(seed: u64, count: usize, outdir: &str) -> std::io::Result<i32> {
    let mut rng = Rng::new(seed ^ 0xC15);
    let (mut cases, mut impls, mut oracle) = (String::new(), String::new(), String::new());
    let mut fails = 0usize;
    let mut distinct = std::collections::HashSet::new();
    let mut samples_out: Vec<String> = vec![];
    let mut hist: BTreeMap<usize, usize> = BTreeMap::new();
    for ci in 0..count {
        let mut r = rng.fork();
        let cfg = DagCfg { max_ops: *r.pick(&[4, 12, 40, 100]), max_outputs: *r.pick(&[1, 2, 4]), max_free_vars: *r.pick(&[0, 2, 5]),
            p_recent: *r.pick(&[0.1, 0.5]), p_const_operand: *r.pick(&[0.15, 0.4]), p_special_const: 0.2, ..Default::default() };
        let dag = gen_dag(&mut r, &cfg);
        let n = *r.pick(&[3usize, 3, 4, 8, 255]);
        let nvars = 3 + dag.vs.len();
        let points: Vec<Vec<f32>> = (0..3).map(|_| gen_point(&mut r, nvars, 0.15)).collect();
        let mut skip = vec![];
        for p in &points {
            let mut orc = crate::refeval::Oracle::default();
            let env = |v: Var| p[var_id(v, &dag.vs) as usize];
            crate::refeval::eval_arena(&dag.ctx, &env, &mut orc);
            skip.push(orc.tainted);
        }
        let mut line = format!("c15 {n} {} {}", fmt_arena(&dag.ctx, &dag.vs), dag.roots.len());
        for rt in &dag.roots { write!(line, " {}", rt.verif_index()).unwrap(); }
        write!(line, " {nvars} {}", points.len()).unwrap();
        for (p, sk) in points.iter().zip(&skip) { write!(line, " {} {}", *sk as u8, fmt_bits(p)).unwrap(); }
        cases.push_str(&line); cases.push('\n');
        let (text, bad) = match n { 3 => run_n::<3>(&dag, &points, &skip), 4 => run_n::<4>(&dag, &points, &skip),
                                    8 => run_n::<8>(&dag, &points, &skip), _ => run_n::<255>(&dag, &points, &skip) };
        *hist.entry(n).or_default() += 1;
        for b in &bad { fails += 1; writeln!(oracle, "FAIL case={ci} {b} budget={n}").unwrap(); }
        if text.len() > 80 { distinct.insert(text.split(" | ").nth(1).unwrap_or("").to_string()); }
        if samples_out.len() < 2 && text.len() < 500 && text.len() > 100 { samples_out.push(format!("N={n} {text}")); }
        impls.push_str(&text); impls.push('\n');
    }
    std::fs::write(format!("{outdir}/cases.txt"), cases)?;
    std::fs::write(format!("{outdir}/impl.txt"), impls)?;
    std::fs::write(format!("{outdir}/oracle.txt"), oracle)?;
    let mut js = String::from("{");
    write!(js, "\"cases\": {count}, \"distinct_nontrivial\": {}, \"budgets\": {{{}}}, ", distinct.len(),
        hist.iter().map(|(k, v)| format!("\"{k}\": {v}")).collect::<Vec<_>>().join(", ")).unwrap();
    write!(js, "\"samples\": [{}], ", samples_out.iter().map(|s| format!("{s:?}")).collect::<Vec<_>>().join(", ")).unwrap();
    write!(js, "\"oracle_fails\": {fails}}}").unwrap();
    std::fs::write(format!("{outdir}/stats.json"), js)?;
    Ok(if fails > 0 { 1 } else { 0 })
}
