//! C04 (and C20's trace part): traces, simplification, chains.
//! For each case: parent function at budget N (VM) or the JIT; a trace from the
//! point or interval tracing evaluator; simplification into budget M; a second
//! simplification of the child with its own trace; outputs of all three at sample
//! points of the traced domain.
use crate::c01::{fmt_bits, op_key};
use crate::dag::*;
use crate::rng::*;
use crate::wire::*;
use fidget_core::context::Node;
use fidget_core::eval::{BulkEvaluator, Function, MathFunction, TracingEvaluator};
use fidget_core::types::Interval;
use fidget_core::var::Var;
use fidget_core::vm::{Choice, GenericVmFunction, VmData, VmTrace, VmWorkspace};
use fidget_jit::JitFunction;
use std::collections::BTreeMap;
use std::fmt::Write as _;
use std::panic::{catch_unwind, AssertUnwindSafe};

pub fn choice_code(c: Choice) -> u8 {
    match c { Choice::Unknown => 0, Choice::Left => 1, Choice::Right => 2, Choice::Both => 3 }
}

pub fn var_order<F: Function>(f: &F) -> Vec<Var> {
    let vars = f.vars();
    let mut order: Vec<Option<Var>> = vec![None; vars.len()];
    for (v, i) in vars.iter() { order[i] = Some(v); }
    order.into_iter().map(|v| v.unwrap()).collect()
}

/// Interval bounds on the wire: NaN canonical, and the sign of a zero bound dropped
/// (f32::min / f32::max return either zero for equal zeros, depending on codegen).
pub fn fmt_interval(i: &Interval) -> String {
    let z = |f: f32| if f == 0.0 { 0 } else { canon_bits(f) };
    format!("{} {}", z(i.lower()), z(i.upper()))
}

/// Evaluates at a point; returns (outputs, trace as codes or None)
pub fn point_eval<F: Function<Trace = VmTrace>>(f: &F, vs: &[Var], p: &[f32]) -> Result<(Vec<f32>, Option<Vec<u8>>), String> {
    catch_unwind(AssertUnwindSafe(|| {
        let order = var_order(f);
        let inputs: Vec<f32> = order.iter().map(|v| p[var_id(*v, vs) as usize]).collect();
        let tape = f.point_tape(Default::default());
        let mut e = F::new_point_eval();
        let (out, tr) = e.eval(&tape, &inputs).unwrap();
        (out.to_vec(), tr.map(|t| t.codes()))
    })).map_err(|_| "panic".to_string())
}

pub fn interval_eval<F: Function<Trace = VmTrace>>(f: &F, vs: &[Var], b: &[(f32, f32)]) -> Result<(Vec<Interval>, Option<Vec<u8>>), String> {
    catch_unwind(AssertUnwindSafe(|| {
        let order = var_order(f);
        let inputs: Vec<Interval> = order.iter().map(|v| { let (l, u) = b[var_id(*v, vs) as usize]; Interval::new(l, u) }).collect();
        let tape = f.interval_tape(Default::default());
        let mut e = F::new_interval_eval();
        let (out, tr) = e.eval(&tape, &inputs).unwrap();
        (out.to_vec(), tr.map(|t| t.codes()))
    })).map_err(|_| "panic".to_string())
}

/// Float-slice evaluation at several points; rows = points
pub fn slice_eval<F: Function>(f: &F, vs: &[Var], pts: &[Vec<f32>]) -> Result<Vec<Vec<f32>>, String> {
    catch_unwind(AssertUnwindSafe(|| {
        let order = var_order(f);
        let cols: Vec<Vec<f32>> = order.iter().map(|v| pts.iter().map(|p| p[var_id(*v, vs) as usize]).collect()).collect();
        let tape = f.float_slice_tape(Default::default());
        let mut e = F::new_float_slice_eval();
        let out = e.eval(&tape, &cols).unwrap();
        let no = f.output_count();
        if order.is_empty() { return vec![]; }
        (0..pts.len()).map(|k| (0..no).map(|o| out[o][k]).collect()).collect()
    })).map_err(|_| "panic".to_string())
}

pub trait TraceCodes { fn codes(&self) -> Vec<u8>; }
impl TraceCodes for VmTrace { fn codes(&self) -> Vec<u8> { self.as_slice().iter().map(|c| choice_code(*c)).collect() } }

pub fn make_trace(codes: &[u8]) -> VmTrace {
    let mut t = VmTrace::default();
    t.resize(codes.len(), Choice::Both);
    for (s, c) in t.as_mut_slice().iter_mut().zip(codes) {
        *s = match c { 0 => Choice::Unknown, 1 => Choice::Left, 2 => Choice::Right, _ => Choice::Both };
    }
    t
}

pub fn fmt_trace(t: &Option<Vec<u8>>) -> String {
    match t {
        None => "none".into(),
        Some(v) => format!("{} {}", v.len(), v.iter().map(|c| c.to_string()).collect::<Vec<_>>().join(" ")).trim_end().to_string(),
    }
}

pub fn ssa_section<const N: usize>(d: &VmData<N>) -> String {
    let s = d.verif_ssa();
    format!("{} cc {} oc {}", fmt_tape(s.iter().map(|o| enc_ssa(*o))), s.choice_count, s.output_count)
}
pub fn reg_section<const N: usize>(d: &VmData<N>) -> String {
    format!("{} {}", d.slot_count(), fmt_tape(d.asm().iter().map(|o| enc_reg(*o))))
}

/// What one level of the chain printed / returned
pub struct Level {
    pub text: String,
    pub outs: Vec<Vec<f32>>,      // point outputs per sample point
    pub slice_outs: Vec<Vec<f32>>,
    pub ok: bool,
    pub vars: Vec<Var>,
    pub noutputs: usize,
}

#[derive(Clone)]
pub enum Input { Point(Vec<f32>), Box_(Vec<(f32, f32)>) }

fn eval_level<F: Function<Trace = VmTrace>>(f: &F, vs: &[Var], inp: &Input, samples: &[Vec<f32>], tag: usize, text: &mut String, jit: bool)
    -> (Option<Vec<u8>>, Vec<Vec<f32>>, Vec<Vec<f32>>, bool)
{
    let mut ok = true;
    // tracing evaluation on the input
    let tr = match inp {
        Input::Point(p) => match point_eval(f, vs, p) {
            Ok((_o, tr)) => tr,
            Err(_) => { ok = false; None }
        },
        Input::Box_(b) => match interval_eval(f, vs, b) {
            Ok((o, tr)) => {
                // the JIT's intervals may legitimately differ from the interpreter's: not compared with the model
                if !jit {
                    write!(text, " | i{tag}").unwrap();
                    for i in &o { write!(text, " {}", fmt_interval(i)).unwrap(); }
                }
                tr
            }
            Err(_) => { write!(text, " | i{tag} panic").unwrap(); ok = false; None }
        },
    };
    // outputs at the sample points
    let mut outs = vec![];
    write!(text, " | o{tag}").unwrap();
    for s in samples {
        match point_eval(f, vs, s) {
            // (-0.0 printed as 0: the sign of a zero produced by min / max differs between evaluators, see C02; exact bits are C01's business)
            Ok((o, _)) => { write!(text, " {}", fmt_bits(&o.iter().map(|v| if *v == 0.0 { 0.0 } else { *v }).collect::<Vec<f32>>())).unwrap(); outs.push(o); }
            Err(_) => { text.push_str(" panic"); ok = false; outs.push(vec![]); }
        }
    }
    let so = slice_eval(f, vs, samples).unwrap_or_default();
    (tr, outs, so, ok)
}


/// The judgement the model makes of a trace returned by the JIT (cmds.ml, jit_trace_ok), made here against the
/// interpreter on the same tape: a point trace must be the interpreter's; an interval entry must be the
/// interpreter's or the more conservative Both.  Returns the kind of the disagreement.
fn judge_jit_trace(dag: &Dag, vmf: &GenericVmFunction<12>, vs: &[Var], inp: &Input, samples: &[Vec<f32>], jit_tr: &Option<Vec<u8>>) -> Option<&'static str> {
    let useful = |t: &Option<Vec<u8>>| t.as_ref().map(|v| v.iter().any(|c| *c == 1 || *c == 2)).unwrap_or(false);
    match inp {
        Input::Point(p) => { let Ok((_, vt)) = point_eval(vmf, vs, p) else { return None };
            let same = match (jit_tr, &vt) { (Some(a), Some(b)) => a == b, _ => false };
            if same || (!useful(jit_tr) && !useful(&vt)) { None } else { Some("jit-point-trace-differs") } }
        Input::Box_(b) => { let Ok((o, vt)) = interval_eval(vmf, vs, b) else { return None };
            let Some(g) = jit_tr else { return None };
            let mine = vt.unwrap_or_else(|| vec![3; g.len()]);
            if g.len() == mine.len() && g.iter().zip(&mine).all(|(gc, mc)| gc == mc || *gc == 3) { None }
            // the interpreter makes every choice Both once an operand is NaN; the JIT's comparisons look at one bound only
            else {
                // is an interval with exactly one NaN bound met by the JIT on this box?  (every node of the expression exported)
                let nodes: Vec<fidget_core::context::Node> = (0..dag.ctx.len()).map(fidget_core::context::Node::verif_new)
                    .filter(|nd| !matches!(dag.ctx.get_op(*nd), Some(fidget_core::context::Op::Const(_)))).collect();
                let jo = JitFunction::new(&dag.ctx, &nodes).ok().and_then(|jf| interval_eval(&jf, vs, b).ok()).map(|(jo, _)| jo).unwrap_or_default();
                let half = jo.iter().any(|i| i.lower().is_nan() != i.upper().is_nan());
                // a node whose value at a sample point of the box is NaN although its JIT interval is not the NaN interval
                // (0 * inf inside an interval product): KNOWN_FINDINGS C04 nan-hidden-by-interval
                let hidden = GenericVmFunction::<255>::new(&dag.ctx, &nodes).ok().map(|vf| samples.iter().any(|sp| match point_eval(&vf, vs, sp) {
                    Ok((pv, _)) => pv.iter().zip(&jo).any(|(v, i)| v.is_nan() && !i.lower().is_nan() && !i.upper().is_nan()), Err(_) => false })).unwrap_or(false);
                let _ = o;
                if half { Some("half-nan-interval") } else if hidden { Some("nan-hidden-by-interval") } else { Some("jit-interval-trace-narrower") } } }
    }
}

fn all_both(n: usize) -> Vec<u8> { vec![3; n] }

/// VM backend, parent budget N, child budget M
fn run_vm<const N: usize, const M: usize>(dag: &Dag, inp: &Input, samples: &[Vec<f32>]) -> (String, Vec<Level>) {
    let mut text = String::new();
    let mut levels = vec![];
    let f0 = match catch_unwind(AssertUnwindSafe(|| GenericVmFunction::<N>::new(&dag.ctx, &dag.roots).unwrap())) {
        Ok(f) => f,
        Err(_) => return ("build err".into(), levels),
    };
    write!(text, "p {} | pr {}", ssa_section(f0.data()), reg_section(f0.data())).unwrap();
    let (tr0, o0, s0, ok0) = eval_level(&f0, &dag.vs, inp, samples, 0, &mut text, false);
    levels.push(Level { text: String::new(), outs: o0, slice_outs: s0, ok: ok0, vars: var_order(&f0), noutputs: f0.output_count() });
    write!(text, " | tr {}", fmt_trace(&tr0)).unwrap();
    if !ok0 { return (text, levels); }
    let codes0 = tr0.clone().unwrap_or_else(|| all_both(f0.choice_count()));
    let t0 = make_trace(&codes0);
    let mut ws = VmWorkspace::<M>::default();
    let f1 = match catch_unwind(AssertUnwindSafe(|| f0.simplify_with::<M>(&t0, VmData::<M>::default(), &mut ws))) {
        Ok(Ok(f)) => f,
        Ok(Err(_)) => { text.push_str(" | s1 badtrace"); return (text, levels); }
        Err(_) => { text.push_str(" | s1 err"); levels.push(Level { text: "simplify-panic".into(), outs: vec![], slice_outs: vec![], ok: false, vars: vec![], noutputs: 0 }); return (text, levels); }
    };
    write!(text, " | s1 {} | r1 {}", ssa_section(f1.data()), reg_section(f1.data())).unwrap();
    let (tr1, o1, s1, ok1) = eval_level(&f1, &dag.vs, inp, samples, 1, &mut text, false);
    levels.push(Level { text: String::new(), outs: o1, slice_outs: s1, ok: ok1, vars: var_order(&f1), noutputs: f1.output_count() });
    write!(text, " | tr2 {}", fmt_trace(&tr1)).unwrap();
    if !ok1 { return (text, levels); }
    // second level: child simplified into the parent's budget, reusing the workspace of a different budget is impossible
    // (type), so a fresh one; storage recycled from nothing
    let codes1 = tr1.clone().unwrap_or_else(|| all_both(f1.choice_count()));
    let t1 = make_trace(&codes1);
    let mut ws2 = VmWorkspace::<N>::default();
    let f2 = match catch_unwind(AssertUnwindSafe(|| f1.simplify_with::<N>(&t1, VmData::<N>::default(), &mut ws2))) {
        Ok(Ok(f)) => f,
        Ok(Err(_)) => { text.push_str(" | s2 badtrace"); return (text, levels); }
        Err(_) => { text.push_str(" | s2 err"); levels.push(Level { text: "simplify-panic".into(), outs: vec![], slice_outs: vec![], ok: false, vars: vec![], noutputs: 0 }); return (text, levels); }
    };
    write!(text, " | s2 {} | r2 {}", ssa_section(f2.data()), reg_section(f2.data())).unwrap();
    let (_tr2, o2, s2, ok2) = eval_level(&f2, &dag.vs, inp, samples, 2, &mut text, false);
    levels.push(Level { text: String::new(), outs: o2, slice_outs: s2, ok: ok2, vars: var_order(&f2), noutputs: f2.output_count() });
    (text, levels)
}

/// JIT backend (register budget fixed by the backend); the printed line has the
/// same shape, with N = M = 12 for the model.
fn run_jit(dag: &Dag, inp: &Input, samples: &[Vec<f32>], given: &mut Vec<Option<Vec<u8>>>, notes: &mut Vec<String>) -> (String, Vec<Level>) {
    let (t, l) = run_jit_inner(dag, inp, samples, given, notes);
    (if notes.is_empty() { t } else { t + " | jt bad" }, l)
}
fn run_jit_inner(dag: &Dag, inp: &Input, samples: &[Vec<f32>], given: &mut Vec<Option<Vec<u8>>>, notes: &mut Vec<String>) -> (String, Vec<Level>) {
    let mut text = String::new();
    let mut levels = vec![];
    let f0 = match catch_unwind(AssertUnwindSafe(|| JitFunction::new(&dag.ctx, &dag.roots).unwrap())) {
        Ok(f) => f,
        Err(_) => return ("build err".into(), levels),
    };
    let d0: &GenericVmFunction<12> = (&f0).into();
    write!(text, "p {} | pr {}", ssa_section(d0.data()), reg_section(d0.data())).unwrap();
    let (tr0, o0, s0, ok0) = eval_level(&f0, &dag.vs, inp, samples, 0, &mut text, true);
    given.push(tr0.clone());
    if ok0 { if let Some(k) = judge_jit_trace(dag, d0, &dag.vs, inp, samples, &tr0) { notes.push(format!("kind={k} level=0")); } }
    levels.push(Level { text: String::new(), outs: o0, slice_outs: s0, ok: ok0, vars: var_order(&f0), noutputs: f0.output_count() });
    write!(text, " | tr {}", fmt_trace(&tr0)).unwrap();
    if !ok0 { return (text, levels); }
    let codes0 = tr0.clone().unwrap_or_else(|| all_both(d0.choice_count()));
    let t0 = make_trace(&codes0);
    let mut ws = VmWorkspace::<12>::default();
    let f1 = match catch_unwind(AssertUnwindSafe(|| f0.simplify(&t0, VmData::<12>::default(), &mut ws))) {
        Ok(Ok(f)) => f,
        Ok(Err(_)) => { text.push_str(" | s1 badtrace"); return (text, levels); }
        Err(_) => { text.push_str(" | s1 err"); levels.push(Level { text: "simplify-panic".into(), outs: vec![], slice_outs: vec![], ok: false, vars: vec![], noutputs: 0 }); return (text, levels); }
    };
    let d1: &GenericVmFunction<12> = (&f1).into();
    write!(text, " | s1 {} | r1 {}", ssa_section(d1.data()), reg_section(d1.data())).unwrap();
    let (tr1, o1, s1, ok1) = eval_level(&f1, &dag.vs, inp, samples, 1, &mut text, true);
    given.push(tr1.clone());
    if ok1 { if let Some(k) = judge_jit_trace(dag, d1, &dag.vs, inp, samples, &tr1) { notes.push(format!("kind={k} level=1")); } }
    levels.push(Level { text: String::new(), outs: o1, slice_outs: s1, ok: ok1, vars: var_order(&f1), noutputs: f1.output_count() });
    write!(text, " | tr2 {}", fmt_trace(&tr1)).unwrap();
    if !ok1 { return (text, levels); }
    let codes1 = tr1.clone().unwrap_or_else(|| all_both(d1.choice_count()));
    let t1 = make_trace(&codes1);
    let f2 = match catch_unwind(AssertUnwindSafe(|| f1.simplify(&t1, VmData::<12>::default(), &mut ws))) {
        Ok(Ok(f)) => f,
        Ok(Err(_)) => { text.push_str(" | s2 badtrace"); return (text, levels); }
        Err(_) => { text.push_str(" | s2 err"); levels.push(Level { text: "simplify-panic".into(), outs: vec![], slice_outs: vec![], ok: false, vars: vec![], noutputs: 0 }); return (text, levels); }
    };
    let d2: &GenericVmFunction<12> = (&f2).into();
    write!(text, " | s2 {} | r2 {}", ssa_section(d2.data()), reg_section(d2.data())).unwrap();
    let (_tr2, o2, s2, ok2) = eval_level(&f2, &dag.vs, inp, samples, 2, &mut text, true);
    levels.push(Level { text: String::new(), outs: o2, slice_outs: s2, ok: ok2, vars: var_order(&f2), noutputs: f2.output_count() });
    (text, levels)
}

macro_rules! vm_nm {
    ($n:expr, $m:expr, $($args:expr),*) => {
        match ($n, $m) {
            (2, 3) => run_vm::<2, 3>($($args),*), (3, 2) => run_vm::<3, 2>($($args),*),
            (3, 3) => run_vm::<3, 3>($($args),*), (3, 4) => run_vm::<3, 4>($($args),*), (3, 255) => run_vm::<3, 255>($($args),*),
            (4, 3) => run_vm::<4, 3>($($args),*), (4, 4) => run_vm::<4, 4>($($args),*), (4, 8) => run_vm::<4, 8>($($args),*),
            (6, 3) => run_vm::<6, 3>($($args),*), (6, 255) => run_vm::<6, 255>($($args),*),
            (8, 4) => run_vm::<8, 4>($($args),*), (12, 12) => run_vm::<12, 12>($($args),*),
            (255, 3) => run_vm::<255, 3>($($args),*), (255, 8) => run_vm::<255, 8>($($args),*), (255, 255) => run_vm::<255, 255>($($args),*),
            (n, m) => panic!("unsupported budget pair {n} {m}"),
        }
    };
}
pub const PAIRS: &[(usize, usize)] = &[(2, 3), (3, 2), (3, 3), (3, 4), (3, 255), (4, 3), (4, 4), (4, 8), (6, 3), (6, 255), (8, 4), (12, 12), (255, 3), (255, 8), (255, 255)];

pub fn gen_box(r: &mut Rng, nvars: usize, tame: bool) -> Vec<(f32, f32)> {
    (0..nvars).map(|_| {
        let a = if tame { gen_tame(r) } else { gen_f32(r, 0.15) };
        let a = if a.is_nan() { 0.0 } else { a };
        match r.below(5) {
            0 => (a, a),
            1 => { let w = (r.unit() * 0.01) as f32; (a, a + w) }
            2 => { let b = if tame { gen_tame(r) } else { gen_f32(r, 0.15) }; let b = if b.is_nan() { 1.0 } else { b }; (a.min(b), a.max(b)) }
            3 => { let w = (r.unit() * 4.0) as f32; (a - w, a + w) }
            _ => { let w = (r.unit() * 1.0) as f32; (a, a + w) }
        }
    }).map(|(l, u)| if l <= u { (l, u) } else { (u, l) }).collect()
}

pub fn sample_box(r: &mut Rng, b: &[(f32, f32)], n: usize) -> Vec<Vec<f32>> {
    let mut out = vec![];
    out.push(b.iter().map(|x| x.0).collect());
    out.push(b.iter().map(|x| x.1).collect());
    for _ in 0..n.saturating_sub(2) {
        out.push(b.iter().map(|(l, u)| {
            match r.below(4) {
                0 => *l, 1 => *u,
                _ => { let t = r.unit() as f32; let v = l + (u - l) * t; if v.is_finite() && v >= *l && v <= *u { v } else { *l } }
            }
        }).collect());
    }
    out
}

pub fn run(seed: u64, count: usize, outdir: &str, jit: bool) -> std::io::Result<i32> {
    let mut rng = Rng::new(seed ^ 0xC04);
    let (mut cases, mut impls, mut oracle) = (String::new(), String::new(), String::new());
    let mut fails = 0usize;
    let mut distinct = std::collections::HashSet::new();
    let mut samples_out: Vec<String> = vec![];
    let mut hist: BTreeMap<String, usize> = BTreeMap::new();
    let only: Option<usize> = std::env::var("FV_ONLY").ok().and_then(|v| v.parse().ok());
    let reps: usize = std::env::var("FV_REPS").ok().and_then(|v| v.parse().ok()).unwrap_or(1);
    for ci in 0..count {
        let mut r = rng.fork();
        if let Some(o) = only { if o != ci { cases.push('\n'); impls.push('\n'); continue; } }
        let choice_heavy = r.chance(0.7);
        let cfg = DagCfg {
            max_ops: *r.pick(&[6, 15, 40, 80]),
            max_outputs: *r.pick(&[1, 1, 2, 4]),
            max_free_vars: *r.pick(&[0, 0, 2]),
            p_recent: *r.pick(&[0.2, 0.6]),
            p_const_operand: *r.pick(&[0.15, 0.35]),
            p_special_const: 0.1,
            choice_heavy, no_hash: true, const_roots: true,
            choice_chain: if r.chance(0.3) { *r.pick(&[5, 30, 100, 220]) } else { 0 },
        };
        let dag = gen_dag(&mut r, &cfg);
        let nvars = 3 + dag.vs.len();
        let use_jit = jit && r.chance(0.5);
        let (n, m) = if use_jit { (12, 12) } else { *r.pick(PAIRS) };
        let interval_mode = r.chance(0.5);
        let (inp, samples) = if interval_mode {
            let b = gen_box(&mut r, nvars, choice_heavy);
            let s = sample_box(&mut r, &b, 5);
            (Input::Box_(b), s)
        } else {
            let p: Vec<f32> = (0..nvars).map(|_| if choice_heavy { gen_tame(&mut r) } else { gen_f32(&mut r, 0.2) }).collect();
            (Input::Point(p.clone()), vec![p])
        };
        // a JIT point trace is judged against the interpreter's / the model's; at a point where the sign of a zero is open (C02) the two
        // may legitimately compute different values downstream and decide later clauses differently: such a case runs on the interpreter
        let use_jit = use_jit && match &inp { Input::Point(p) => { let mut orc = crate::refeval::Oracle::default(); let env = |v: Var| p[var_id(v, &dag.vs) as usize];
            let _ = crate::refeval::eval_arena(&dag.ctx, &env, &mut orc); !(orc.zero_tie || orc.atan00 || orc.atan_y_zero || orc.abs_of_neg_zero) }, _ => true };
        let (n, m) = if use_jit { (n, m) } else if (n, m) == (12, 12) { (12, 12) } else { (n, m) };
        // ---- implementation
        let mut given: Vec<Option<Vec<u8>>> = vec![];
        let mut notes: Vec<String> = vec![];
        for _ in 1..reps { let mut g2 = vec![]; let mut n2 = vec![]; let (t2, l2) = run_jit(&dag, &inp, &samples, &mut g2, &mut n2);
            let (t1, l1) = run_jit(&dag, &inp, &samples, &mut vec![], &mut vec![]);
            if t1 != t2 { eprintln!("NONDETERMINISTIC text"); }
            for (a, b) in l1.iter().zip(&l2) { if format!("{:?}", a.slice_outs) != format!("{:?}", b.slice_outs) { eprintln!("NONDETERMINISTIC slice {:?} vs {:?} (point {:?})", a.slice_outs, b.slice_outs, a.outs); } } }
        let (text, levels) = if use_jit { run_jit(&dag, &inp, &samples, &mut given, &mut notes) } else { vm_nm!(n, m, &dag, &inp, &samples) };
        impls.push_str(&text); impls.push('\n');
        // ---- case line (for the JIT the traces it returned are part of the case: the model
        // simplifies with them and judges them against its own, see cmds.ml)
        let mut line = format!("c04 {} {n} {m} {} {}", use_jit as u8, fmt_arena(&dag.ctx, &dag.vs), dag.roots.len());
        for rt in &dag.roots { write!(line, " {}", rt.verif_index()).unwrap(); }
        write!(line, " {nvars}").unwrap();
        match &inp {
            Input::Point(p) => write!(line, " 0 {}", fmt_bits(p)).unwrap(),
            Input::Box_(b) => { write!(line, " 1").unwrap(); for (l, u) in b { write!(line, " {} {}", canon_bits(*l), canon_bits(*u)).unwrap(); } }
        }
        write!(line, " {}", samples.len()).unwrap();
        for s in &samples { write!(line, " {}", fmt_bits(s)).unwrap(); }
        if use_jit {
            while given.len() < 2 { given.push(None); }
            for g in &given {
                match g { None => write!(line, " 0 0").unwrap(),
                          Some(v) => { write!(line, " 1 {}", v.len()).unwrap(); for c in v { write!(line, " {c}").unwrap(); } } }
            }
        }
        cases.push_str(&line); cases.push('\n');
        *hist.entry(format!("{}-{}", if use_jit { "jit" } else { "vm" }, if interval_mode { "interval" } else { "point" })).or_default() += 1;
        // ---- property oracle
        let kindtag = format!("backend={} mode={} n={n} m={m} outputs={}", if use_jit { "jit" } else { "vm" }, if interval_mode { "interval" } else { "point" }, dag.roots.len());
        // a register budget below 3 may fail loudly (C01); it must never miscompile
        for nt in &notes { fails += 1; writeln!(oracle, "FAIL case={ci} {nt} {kindtag}").unwrap(); }
        let small_ok = (text.contains("s1 err") && m < 3) || (text.contains("s2 err") && n < 3);
        if small_ok {
        } else if text.contains("s1 err") || text.contains("s2 err") {
            fails += 1;
            writeln!(oracle, "FAIL case={ci} kind=simplify-panic {kindtag}").unwrap();
        } else if text.contains("badtrace") {
            fails += 1;
            writeln!(oracle, "FAIL case={ci} kind=simplify-badtrace {kindtag}").unwrap();
        } else if levels.len() >= 2 {
            let base = &levels[0];
            // the recorded finding nan-hidden-by-interval (KNOWN_FINDINGS, C04): a sample at which some node of the expression is NaN
            // while the interval the evaluator computed for that node over the box is not the NaN interval; every difference
            // between the original and a simplified function must then be at such a sample, the original giving NaN there
            let hidden_at: Vec<bool> = match &inp { Input::Box_(bx) => {
                let nodes: Vec<fidget_core::context::Node> = (0..dag.ctx.len()).map(fidget_core::context::Node::verif_new)
                    .filter(|nd| !matches!(dag.ctx.get_op(*nd), Some(fidget_core::context::Op::Const(_)))).collect();
                let ivs = if use_jit { JitFunction::new(&dag.ctx, &nodes).ok().and_then(|f| interval_eval(&f, &dag.vs, bx).ok()).map(|x| x.0) }
                          else { GenericVmFunction::<255>::new(&dag.ctx, &nodes).ok().and_then(|f| interval_eval(&f, &dag.vs, bx).ok()).map(|x| x.0) };
                let vf = GenericVmFunction::<255>::new(&dag.ctx, &nodes).ok();
                samples.iter().map(|sp| match (&ivs, &vf) { (Some(iv), Some(vf)) => point_eval(vf, &dag.vs, sp).map(|(pv, _)| pv.iter().zip(iv).any(|(v, i)| v.is_nan() && !i.lower().is_nan() && !i.upper().is_nan())).unwrap_or(false), _ => false }).collect() }
                _ => vec![false; samples.len()] };
            // samples at which a min / max of zeros of opposite sign feeds an output: the original returns the zero its rule picks, the
            // simplified function the operand the trace chose; atan2 or a division downstream turn that into different values
            let zero_open_at: Vec<bool> = samples.iter().map(|sp| { let mut orc = crate::refeval::Oracle::default();
                let env = |v: Var| sp[var_id(v, &dag.vs) as usize];
                let vals = crate::refeval::eval_arena(&dag.ctx, &env, &mut orc);
                let t = crate::refeval::zero_tie_taint(&dag.ctx, &vals);
                dag.roots.iter().any(|r| t[r.verif_index()]) || orc.atan00 || orc.atan_y_zero || orc.abs_of_neg_zero }).collect();
            let excused = |orig: &[Vec<f32>], simp: &[Vec<f32>]| -> bool {
                orig.len() == simp.len() && orig.iter().zip(simp).enumerate().all(|(k, (a, b))| fmt_bits(a) == fmt_bits(b) || (hidden_at.get(k).copied().unwrap_or(false) && a.iter().zip(b).all(|(x, y)| canon_bits(*x) == canon_bits(*y) || x.is_nan()))) };
            for (li, l) in levels.iter().enumerate().skip(1) {
                if !l.ok || !base.ok { continue; }
                // (bit for bit, except that two zeros count as equal: a min / max of zeros of opposite sign returns either, and the
                //  simplified function returns the operand the trace chose — the freedom C02 states for min / max of equal zeros)
                let zb = |v: &Vec<f32>| fmt_bits(&v.iter().map(|x| if *x == 0.0 { 0.0 } else { *x }).collect::<Vec<f32>>());
                let same = base.outs.iter().zip(&l.outs).enumerate().all(|(k, (a, b))| zb(a) == zb(b) || zero_open_at.get(k).copied().unwrap_or(false));
                if !same {
                    fails += 1;
                    let kind = if excused(&base.outs, &l.outs) { "nan-hidden-by-interval" } else { "value-changed" };
                    writeln!(oracle, "FAIL case={ci} kind={kind} level={li} {kindtag}").unwrap();
                }
                if !l.slice_outs.is_empty() && !base.slice_outs.is_empty() {
                    let z = |v: &Vec<f32>| fmt_bits(&v.iter().map(|x| if *x == 0.0 { 0.0 } else { *x }).collect::<Vec<f32>>());
                    // same evaluator kind on the original and on the simplified function (across kinds the sign of a zero out of min / max,
                    // and whatever atan2 / division make of it, may differ: C02)
                    let same = base.slice_outs.iter().zip(&l.slice_outs).enumerate().all(|(k, (a, b))| z(a) == z(b) || zero_open_at.get(k).copied().unwrap_or(false));
                    if !same {
                        fails += 1;
                        let kind = if excused(&base.slice_outs, &l.slice_outs) { "nan-hidden-by-interval" } else { "slice-value-changed" };
                        writeln!(oracle, "FAIL case={ci} kind={kind} (many-point outputs) level={li} {kindtag} original {:?} simplified {:?}", base.slice_outs.iter().map(|a| z(a)).collect::<Vec<_>>(), l.slice_outs.iter().map(|a| z(a)).collect::<Vec<_>>()).unwrap();
                    }
                }
                // the child keeps the parent's variable numbering (it may only drop variables) and output count
                if l.noutputs != base.noutputs {
                    fails += 1;
                    writeln!(oracle, "FAIL case={ci} kind=output-count level={li} {kindtag}").unwrap();
                }
                if l.vars != base.vars {
                    fails += 1;
                    writeln!(oracle, "FAIL case={ci} kind=vars-renumbered level={li} {kindtag}").unwrap();
                }
            }
        }
        let key = text.split(" | ").next().unwrap_or("").to_string();
        if key.len() > 30 { distinct.insert(key); }
        if samples_out.len() < 3 && text.len() < 700 && text.contains(" | s1 ") { samples_out.push(format!("{kindtag} :: {text}")); }
    }
    std::fs::write(format!("{outdir}/cases.txt"), cases)?;
    std::fs::write(format!("{outdir}/impl.txt"), impls)?;
    std::fs::write(format!("{outdir}/oracle.txt"), oracle)?;
    let mut js = String::from("{");
    write!(js, "\"cases\": {count}, \"distinct_nontrivial\": {}, ", distinct.len()).unwrap();
    write!(js, "\"kinds\": {{{}}}, ", hist.iter().map(|(k, v)| format!("\"{k}\": {v}")).collect::<Vec<_>>().join(", ")).unwrap();
    write!(js, "\"samples\": [{}], ", samples_out.iter().map(|s| format!("{s:?}")).collect::<Vec<_>>().join(", ")).unwrap();
    write!(js, "\"oracle_fails\": {fails}}}").unwrap();
    std::fs::write(format!("{outdir}/stats.json"), js)?;
    let _ = op_key;
    Ok(if fails > 0 { 1 } else { 0 })
}

/// The failing input recorded as the C04 known finding jit-trace-from-unsound-interval: f = min(u * v, -5) with
/// u = x * 1e30 * 1e30 and v = w * 1e30 * 1e30 + 1 on x in [0, 1], w in [-1, 0] (w is the Y axis).
pub fn demo() {
    use fidget_core::context::Context;
    let mut ctx = Context::new();
    let x = ctx.x(); let w = ctx.y();
    let a = ctx.mul(x, 1e30).unwrap(); let u = ctx.mul(a, 1e30).unwrap();
    let b = ctx.mul(w, 1e30).unwrap(); let b = ctx.mul(b, 1e30).unwrap(); let v = ctx.add(b, 1.0).unwrap();
    let p = ctx.mul(u, v).unwrap();
    let f = ctx.min(p, -5.0).unwrap();
    let dag = Dag { ctx, roots: vec![f], vs: vec![] };
    let bx = vec![(0.0f32, 1.0f32), (-1.0, 0.0), (0.0, 0.0)];
    let pt = vec![1.0f32, -1.0, 0.0];
    macro_rules! go { ($f:expr, $name:expr, $dag:expr, $bx:expr, $pt:expr) => {{
        let (dag, bx, pt) = (&$dag, &$bx, &$pt);
        let f0 = $f;
        let (iv, tr) = interval_eval(&f0, &dag.vs, &bx).unwrap();
        let (v0, _) = point_eval(&f0, &dag.vs, &pt).unwrap();
        println!("{}: interval [{}, {}] trace {:?}; value at the point = {}", $name, iv[0].lower(), iv[0].upper(), tr, v0[0]);
        if let Some(t) = tr { let t0 = make_trace(&t); let mut ws = Default::default();
            let f1 = f0.simplify(&t0, Default::default(), &mut ws).unwrap();
            let (v1, _) = point_eval(&f1, &dag.vs, &pt).unwrap();
            println!("{}: simplified value at the point = {}", $name, v1[0]); }
    }} }
    go!(GenericVmFunction::<255>::new(&dag.ctx, &dag.roots).unwrap(), "vm", dag, bx, pt);
    go!(JitFunction::new(&dag.ctx, &dag.roots).unwrap(), "jit", dag, bx, pt);
    // the known finding nan-hidden-by-interval: g = min(max(x * y, 5), 3) on x in [-1, 1], y = inf; at x = 0 the product is NaN
    let mut ctx = Context::new();
    let x = ctx.x(); let y = ctx.y();
    let p = ctx.mul(x, y).unwrap(); let m = ctx.max(p, 5.0).unwrap(); let g = ctx.min(m, 3.0).unwrap();
    let dag = Dag { ctx, roots: vec![g], vs: vec![] };
    let bx = vec![(-1.0f32, 1.0f32), (f32::INFINITY, f32::INFINITY), (0.0, 0.0)];
    let pt = vec![0.0f32, f32::INFINITY, 0.0];
    println!("g = min(max(x * y, 5), 3), x in [-1, 1], y = inf, evaluated at x = 0:");
    go!(GenericVmFunction::<255>::new(&dag.ctx, &dag.roots).unwrap(), "vm", dag, bx, pt);
    go!(JitFunction::new(&dag.ctx, &dag.roots).unwrap(), "jit", dag, bx, pt);
}
