//! SplitMix64: every random choice in the harness derives from one state.
#[derive(Clone)]
pub struct Rng(pub u64);
impl Rng {
    pub fn new(seed: u64) -> Self { Rng(seed.wrapping_mul(0x9E3779B97F4A7C15) ^ 0xD1B54A32D192ED03) }
    pub fn next(&mut self) -> u64 {
        self.0 = self.0.wrapping_add(0x9E3779B97F4A7C15);
        let mut z = self.0;
        z = (z ^ (z >> 30)).wrapping_mul(0xBF58476D1CE4E5B9);
        z = (z ^ (z >> 27)).wrapping_mul(0x94D049BB133111EB);
        z ^ (z >> 31)
    }
    pub fn below(&mut self, n: usize) -> usize { if n == 0 { 0 } else { (self.next() % n as u64) as usize } }
    pub fn range(&mut self, lo: usize, hi: usize) -> usize { lo + self.below(hi - lo + 1) }
    pub fn chance(&mut self, p: f64) -> bool { self.unit() < p }
    pub fn unit(&mut self) -> f64 { (self.next() >> 11) as f64 / (1u64 << 53) as f64 }
    pub fn pick<'a, T>(&mut self, xs: &'a [T]) -> &'a T { &xs[self.below(xs.len())] }
    pub fn fork(&mut self) -> Rng { Rng::new(self.next()) }
    pub fn shuffle<T>(&mut self, xs: &mut [T]) {
        for i in (1..xs.len()).rev() { let j = self.below(i + 1); xs.swap(i, j); }
    }
}

pub const SPECIALS: &[f32] = &[
    0.0, -0.0, 1.0, -1.0, 2.0, -2.0, 0.5, -0.5, 3.0, 10.0, 0.1,
    f32::INFINITY, f32::NEG_INFINITY, f32::NAN, f32::MAX, f32::MIN, f32::MIN_POSITIVE,
    1.0e-40, -1.0e-40, 1.0e-45, 1.5, 2.5, -2.5, 0.25, 1.0e10, -1.0e10, 1.0e30, 1.0e-30,
    std::f32::consts::PI, std::f32::consts::FRAC_PI_2, -std::f32::consts::PI, 16777216.0, 8388608.5,
    // rounding edges: just below a tie (x + 0.5 rounds up), odd integers where ulp = 1, ties at the last place with a fraction
    0.49999997, -0.49999997, 8388609.0, -8388609.0, 16777215.0, 8388607.5, -8388607.5, 4194304.5, 0.99999994, 1.0000001, -1.5, 3.5,
];

/// A float value: special with probability `p_special`, else mixed magnitudes.
pub fn gen_f32(r: &mut Rng, p_special: f64) -> f32 {
    if r.chance(p_special) { return *r.pick(SPECIALS); }
    match r.below(4) {
        0 => (r.range(0, 20) as f32) - 10.0,
        1 => ((r.unit() * 20.0) - 10.0) as f32,
        2 => ((r.unit() * 2.0) - 1.0) as f32,
        _ => {
            let e = (r.unit() * 24.0 - 12.0) as f32;
            let s = if r.chance(0.5) { 1.0 } else { -1.0 };
            s * 10f32.powf(e)
        }
    }
}

/// "tame" values: finite, moderate magnitude
pub fn gen_tame(r: &mut Rng) -> f32 {
    match r.below(3) {
        0 => (r.range(0, 12) as f32) - 6.0,
        1 => ((r.unit() * 8.0) - 4.0) as f32,
        _ => ((r.unit() * 2.0) - 1.0) as f32,
    }
}

pub fn canon_bits(f: f32) -> u32 { if f.is_nan() { 0x7fc00000 } else { f.to_bits() } }
