//! C19: the constraint solver honours fixed parameters and solves solvable systems.
//! Consistent, well-conditioned linear systems with 1..40 unknowns, random subsets fixed
//! (including all and none), equations over different subsets of the variables, both
//! backends.  The seed packing / Jacobian columns are observed through the verif hook and
//! compared with the Coq model's seed table.
use crate::rng::*;
use fidget_core::context::{Context, Tree};
use fidget_core::eval::{Function, MathFunction};
use fidget_core::var::Var;
use fidget_core::vm::VmFunction;
use fidget_jit::JitFunction;
use fidget_solver::{solve, verif_jacobian, Parameter};
use std::collections::{BTreeMap, HashMap};
use std::fmt::Write as _;
use std::panic::{catch_unwind, AssertUnwindSafe};

#[derive(Clone)]
struct System { exact: bool, scale: f32, unused: Vec<(Var, bool, f32)>, vars: Vec<Var>, coef: Vec<Vec<i32>>, rhs: Vec<f32>, truth: Vec<f32>, fixed: Vec<bool>, start: Vec<f32> }

fn gen_system(r: &mut Rng) -> System {
    let n = *r.pick(&[1usize, 2, 3, 4, 5, 6, 7, 8, 10, 13, 16, 25, 40]);
    let vars: Vec<Var> = (0..n).map(|_| Var::new()).collect();
    // half of the systems have solutions on a dyadic grid (every residual can reach exactly 0), half do not
    let exact = r.chance(0.5);
    // coefficients times a power of two, unknowns divided by it: the right-hand sides stay of order 1 while every unknown is tiny
    let scale = *r.pick(&[1.0f32, 1.0, 1.0, 1024.0, 1048576.0, 33554432.0]);
    let truth: Vec<f32> = (0..n).map(|_| (if exact { (r.range(0, 16) as f32 - 8.0) * 0.5 } else { (r.unit() as f32 - 0.5) * 8.0 }) / scale).collect();
    let mode = r.below(5);
    let fixed: Vec<bool> = (0..n).map(|_| match mode { 0 => false, 1 => true, _ => r.chance(0.35) }).collect();
    // one equation per variable: diagonally dominant rows over a few variables each
    let mut coef = vec![vec![0i32; n]; n];
    for i in 0..n {
        coef[i][i] = 4 + r.below(3) as i32;
        let extra = r.below(3.min(n));
        for _ in 0..extra { let j = r.below(n); if j != i { coef[i][j] = r.below(3) as i32 - 1; } }
        // now and then an equation over MANY unknowns (16 and more inputs in one tape), still diagonally dominant
        if n >= 16 && r.chance(0.08) { coef[i][i] = 2 * n as i32; for j in 0..n { if j != i && r.chance(0.8) { coef[i][j] = r.below(3) as i32 - 1; } } }
    }
    let rhs: Vec<f32> = (0..n).map(|i| (0..n).map(|j| coef[i][j] as f32 * scale * truth[j]).sum()).collect();
    let start: Vec<f32> = (0..n).map(|j| if fixed[j] { truth[j] } else if r.chance(0.15) { truth[j] } else { truth[j] + (r.range(0, 8) as f32 - 4.0) * 0.25 / scale }).collect();
    // parameters that occur in no equation: a free one still gets a value in the result, a fixed one does not
    let unused: Vec<(Var, bool, f32)> = if r.chance(0.3) { (0..r.range(1, 3)).map(|_| (Var::new(), r.chance(0.4), gen_tame(r))).collect() } else { vec![] };
    System { exact, scale, unused, vars, coef, rhs, truth, fixed, start }
}

fn build<F: Function + MathFunction>(s: &System) -> Vec<F> {
    (0..s.coef.len()).map(|i| {
        let mut t = Tree::constant(-s.rhs[i]);
        for j in 0..s.vars.len() { if s.coef[i][j] != 0 { t = t + Tree::from(s.vars[j]) * (s.coef[i][j] as f32 * s.scale); } }
        let mut ctx = Context::new();
        let n = ctx.import(&t);
        F::new(&ctx, &[n]).unwrap()
    }).collect()
}

fn params_of(s: &System) -> HashMap<Var, Parameter> {
    let mut params = HashMap::new();
    for j in 0..s.vars.len() { params.insert(s.vars[j], if s.fixed[j] { Parameter::Fixed(s.start[j]) } else { Parameter::Free(s.start[j]) }); }
    for (v, fixed, val) in &s.unused { params.insert(*v, if *fixed { Parameter::Fixed(*val) } else { Parameter::Free(*val) }); }
    params
}

fn check<F: Function + MathFunction + 'static>(s: &System, params: &HashMap<Var, Parameter>, backend: &str, bad: &mut Vec<String>) -> Option<HashMap<Var, f32>> {
    // the solver runs on its own thread: a call that does not come back within the limit (5 minutes: the slowest solve seen on the
    // repaired code, 40 unknowns of which three creep toward an exactly-zero solution, takes half a minute) is reported, its thread left behind
    let (tx, rx) = std::sync::mpsc::channel();
    let (s2, p2) = (s.clone(), params.clone());
    std::thread::spawn(move || { let eqs: Vec<F> = build(&s2); let r = catch_unwind(AssertUnwindSafe(|| solve(&eqs, &p2))); let _ = tx.send(r); });
    let limit = std::time::Duration::from_secs(std::env::var("FV_SOLVE_LIMIT").ok().and_then(|v| v.parse().ok()).unwrap_or(300));
    let sol = match rx.recv_timeout(limit) {
        Ok(Ok(Ok(m))) => m,
        Ok(Ok(Err(e))) => { bad.push(format!("kind=solver-error backend={backend} {e}")); return None; }
        Ok(Err(_)) => { bad.push(format!("kind=panic backend={backend} n={} fixed={}", s.vars.len(), s.fixed.iter().filter(|f| **f).count())); return None; }
        Err(_) => {
            // known mechanism (KNOWN_FINDINGS, C19): a free unknown whose solution is exactly 0 is approached geometrically through
            // ever smaller steps, each of which still "changes" the iterate, so none of the exit criteria fires for tens of thousands of iterations
            let zeros = (0..s.vars.len()).filter(|j| !s.fixed[*j] && s.truth[*j] == 0.0).count();
            let kind = if zeros > 0 && s.exact { "solver-creeps-toward-zero-solution" } else { "solver-does-not-return" };
            bad.push(format!("kind={kind} backend={backend} within {}s n={} zero-valued-free-unknowns={zeros} fixed={:?} start={:?} truth={:?} coef={:?}", limit.as_secs(), s.vars.len(), s.fixed, s.start, s.truth, s.coef)); return None; }
    };
    // a value for exactly the free parameters
    for j in 0..s.vars.len() {
        if s.fixed[j] && sol.contains_key(&s.vars[j]) { bad.push(format!("kind=fixed-in-result backend={backend} variable {j}")); }
        if !s.fixed[j] && !sol.contains_key(&s.vars[j]) { bad.push(format!("kind=free-missing backend={backend} variable {j}")); }
    }
    for (v, fixed, _) in &s.unused {
        if *fixed && sol.contains_key(v) { bad.push(format!("kind=fixed-in-result backend={backend} a fixed parameter that occurs in no equation")); }
        if !*fixed && !sol.contains_key(v) { bad.push(format!("kind=free-missing backend={backend} a free parameter that occurs in no equation has no value in the result")); }
    }
    if sol.len() != s.fixed.iter().filter(|f| !**f).count() + s.unused.iter().filter(|u| !u.1).count() { bad.push(format!("kind=result-size backend={backend} {} entries", sol.len())); }
    // residual with fixed parameters at their given values
    let val = |j: usize| if s.fixed[j] { s.start[j] } else { *sol.get(&s.vars[j]).unwrap_or(&f32::NAN) };
    let all_start_exact = (0..s.vars.len()).all(|j| s.start[j] == s.truth[j]);
    let mut worst = 0f32;
    for i in 0..s.coef.len() {
        let r: f32 = (0..s.vars.len()).map(|j| s.coef[i][j] as f32 * s.scale * val(j)).sum::<f32>() - s.rhs[i];
        worst = worst.max(r.abs());
    }
    // fixed parameters sit at their true values, so the system stays consistent
    // unknowns of order 1: 1e-3 has never been exceeded.  Unknowns of order 1e-3 .. 1e-8 against coefficients of 1e3 .. 1e8 (right-hand
    // sides of order 1..10): the f32 Levenberg-Marquardt iteration sometimes stalls at 1e-2 .. 1e-1 (the recorded finding
    // stalls-on-tiny-unknowns); an exit that came too early shows as a residual of order 1 and more.
    let res_tol = if s.scale == 1.0 { 1e-3 } else { 1e-2 };
    if !(worst <= res_tol) {
        let kind = if s.scale != 1.0 && worst <= 0.5 { "stalls-on-tiny-unknowns" } else { "large-residual" };
        bad.push(format!("kind={kind} backend={backend} residual={worst} n={} fixed={} scale={} start={:?} truth={:?} result={:?} coef={:?}", s.vars.len(), s.fixed.iter().filter(|f| **f).count(), s.scale, s.start, s.truth, (0..s.vars.len()).map(|j| val(j)).collect::<Vec<_>>(), s.coef)); }
    if all_start_exact && s.exact {
        for j in 0..s.vars.len() { if !s.fixed[j] && sol[&s.vars[j]].to_bits() != s.start[j].to_bits() {
            bad.push(format!("kind=satisfied-start-moved backend={backend} variable {j}: {} -> {}", s.start[j], sol[&s.vars[j]])); } }
    }
    Some(sol)
}

pub fn run(seed: u64, count: usize, outdir: &str) -> std::io::Result<i32> {
    let mut rng = Rng::new(seed ^ 0xC19);
    let (mut cases, mut impls, mut oracle) = (String::new(), String::new(), String::new());
    let mut fails = 0usize;
    let mut hist: BTreeMap<String, usize> = BTreeMap::new();
    let mut samples_out: Vec<String> = vec![];
    for ci in 0..count {
        let mut r = rng.fork();
        let s = gen_system(&mut r);
        if let Ok(o) = std::env::var("FV_ONLY") { if o.parse::<usize>().ok() != Some(ci) { cases.push_str("c19 0 0\n"); impls.push_str("nfree 0 | seeds\n"); continue; } }
        let n = s.vars.len();
        let nfix = s.fixed.iter().filter(|f| **f).count();
        *hist.entry(format!("n={n}")).or_default() += 1;
        *hist.entry(if nfix == 0 { "none-fixed".into() } else if nfix == n { "all-fixed".into() } else { "mixed".to_string() }).or_default() += 1;
        let mut bad = vec![];
        // (one parameter map for the solver runs and for the hook: the solver numbers the free variables in its iteration order)
        let params = params_of(&s);
        let a = check::<VmFunction>(&s, &params, "vm", &mut bad);
        let b = check::<JitFunction>(&s, &params, "jit", &mut bad);
        if let (Some(a), Some(b)) = (&a, &b) {
            for j in 0..n { if !s.fixed[j] { let (x, y) = (a[&s.vars[j]], b[&s.vars[j]]); if (x - y).abs() * s.scale > 1e-3 * (1.0 + x.abs() * s.scale) {
                bad.push(format!("kind=backends-disagree variable {j}: vm {x} jit {y}")); } } }
        }
        // ---- seed packing through the hook: Jacobian = coefficient matrix, seeds = model's table
        let eqs: Vec<VmFunction> = build(&s);
        let (index, rows, res0, grads) = verif_jacobian(&eqs, &params);
        let nfree = index.len();
        let pos = |v: Var| s.vars.iter().position(|x| *x == v);
        for (ti, row) in rows.iter().enumerate() {
            for (v, gi) in &index {
                let want = match pos(*v) { Some(j) => s.coef[ti][j] as f32 * s.scale, None => 0.0 };
                if row[*gi] != want { bad.push(format!("kind=jacobian-column equation {ti} column {gi}: {} expected {want} (n={n} free={nfree})", row[*gi])); }
            }
        }
        // seeds of the LAST equation's tape variables, as (grad index, sample, lanes)
        let mut il = format!("nfree {nfree} | seeds");
        if let Some(last) = eqs.last() {
            let tv = last.vars();
            let mut rows_out: Vec<(usize, String)> = vec![];
            for (v, gi) in &index {
                if let Some(i) = tv.get(v) {
                    let mut srow = String::new();
                    for g in &grads[i] { write!(srow, " {}{}{}", (g[1] == 1.0) as u8, (g[2] == 1.0) as u8, (g[3] == 1.0) as u8).unwrap(); }
                    rows_out.push((*gi, srow));
                }
            }
            rows_out.sort();
            for (gi, srow) in rows_out { write!(il, " ; {gi}:{srow}").unwrap(); }
        }
        // did the interpreter run return the starting point unchanged?  (the model predicts it whenever the exit test holds at the start)
        let stay = match &a { Some(sol) => index.iter().all(|(v, _)| match (sol.get(v), params.get(v)) { (Some(x), Some(Parameter::Free(x0))) => x.to_bits() == x0.to_bits(), _ => false }), None => false };
        if nfree > 0 { write!(il, " | stay {}", stay as u8).unwrap(); }
        impls.push_str(&il); impls.push('\n');
        // the case for the model: nfree and the grad indices present in the last tape
        let mut line = format!("c19 {nfree}");
        if let Some(last) = eqs.last() {
            let tv = last.vars();
            let mut gis: Vec<usize> = index.iter().filter(|(v, _)| tv.get(v).is_some()).map(|(_, gi)| *gi).collect();
            gis.sort();
            write!(line, " {}", gis.len()).unwrap();
            for g in gis { write!(line, " {g}").unwrap(); }
        } else { line.push_str(" 0"); }
        // ... and the Jacobian rows, residuals and free values at the starting point (grad-index order), for the exit test
        if nfree > 0 {
            let mut cur = vec![0f32; nfree];
            for (v, gi) in &index { if let Some(Parameter::Free(x0)) = params.get(v) { cur[*gi] = *x0; } }
            write!(line, " D {} {nfree}", rows.len()).unwrap();
            for row in &rows { for gi in 0..nfree { write!(line, " {}", canon_bits(row[gi])).unwrap(); } }
            for r0 in res0.iter() { write!(line, " {}", canon_bits(*r0)).unwrap(); }
            for x in &cur { write!(line, " {}", canon_bits(*x)).unwrap(); }
        }
        cases.push_str(&line); cases.push('\n');
        for m in &bad { fails += 1; writeln!(oracle, "FAIL case={ci} {m}").unwrap(); }
        if samples_out.len() < 3 && n <= 5 { samples_out.push(format!("n={n} fixed={:?} start={:?} truth={:?} {il}", s.fixed, s.start, s.truth)); }
    }
    std::fs::write(format!("{outdir}/cases.txt"), cases)?;
    std::fs::write(format!("{outdir}/impl.txt"), impls)?;
    std::fs::write(format!("{outdir}/oracle.txt"), oracle)?;
    let mut js = String::from("{");
    write!(js, "\"cases\": {count}, \"distinct_nontrivial\": {count}, ").unwrap();
    write!(js, "\"systems\": {{{}}}, ", hist.iter().map(|(k, v)| format!("\"{k}\": {v}")).collect::<Vec<_>>().join(", ")).unwrap();
    write!(js, "\"samples\": [{}], ", samples_out.iter().map(|s| format!("{s:?}")).collect::<Vec<_>>().join(", ")).unwrap();
    write!(js, "\"oracle_fails\": {fails}}}").unwrap();
    std::fs::write(format!("{outdir}/stats.json"), js)?;
    Ok(if fails > 0 { 1 } else { 0 })
}
