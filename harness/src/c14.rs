//! C14: shape evaluation binds variables by identity and applies the transform.
//! Random single-root expressions over a subset of X, Y, Z and up to 24 free variables
//! (created, used and supplied in unrelated random orders), transforms (none / affine /
//! projective), supplied tables with extras and with a variable missing.  The VM point
//! evaluation is replayed by the Coq model (flatten + allocate + slot filling + tape run);
//! the oracle checks the other evaluator kinds, the JIT, and simplified shapes against it.
use crate::dag::*;
use crate::refeval::*;
use crate::rng::*;
use crate::wire::*;
use fidget_core::context::Node;
use fidget_core::eval::{Function, MathFunction};
use fidget_core::shape::{Shape, ShapeVars, Transformable};
use fidget_core::types::{Grad, Interval};
use fidget_core::var::Var;
use fidget_core::vm::VmFunction;
use fidget_jit::JitFunction;
use nalgebra::Matrix4;
use std::collections::{BTreeMap, BTreeSet};
use std::fmt::Write as _;
use std::panic::{catch_unwind, AssertUnwindSafe};

fn gen_mat(r: &mut Rng) -> Option<Matrix4<f32>> {
    match r.below(4) {
        0 => None,
        1 => { // affine
            let mut m = Matrix4::<f32>::identity();
            for i in 0..3 { for j in 0..4 { if r.chance(0.6) { m[(i, j)] = gen_tame(r); } } }
            Some(m)
        }
        2 => { // projective
            let mut m = Matrix4::<f32>::identity();
            for i in 0..4 { for j in 0..4 { if r.chance(0.6) { m[(i, j)] = gen_tame(r); } } }
            Some(m)
        }
        _ => { let mut m = Matrix4::<f32>::identity(); m[(0, 3)] = gen_tame(r); m[(1, 1)] = 2.0; m[(3, 3)] = *r.pick(&[1.0, 2.0, 0.5, 0.0]); Some(m) }
    }
}

struct Case<'a> { dag: &'a Dag, root: Node, mat: Option<Matrix4<f32>>, p: [f32; 3], supplied: Vec<(usize, f32)> /* (k-th V var, value) */, extra: usize }

fn shape_vars(c: &Case) -> ShapeVars<f32> {
    let mut sv = ShapeVars::new();
    for (k, v) in &c.supplied { sv.insert(c.dag.vs[*k].index().unwrap(), *v); }
    for _ in 0..c.extra { sv.insert(Var::new().index().unwrap(), 123.0); }
    sv
}

/// Point evaluation through the shape wrapper: Ok(bits) / Err(missing var's wire id)
fn eval_point<F: Function + MathFunction>(c: &Case) -> Result<f32, u64> {
    let shape = Shape::<F>::new(&c.dag.ctx, c.root).unwrap();
    let tape = shape.point_tape(Default::default());
    let mut e = Shape::<F>::new_point_eval();
    let sv = shape_vars(c);
    let r = match &c.mat { Some(m) => e.eval_with_transform_and_vars(&tape, c.p[0], c.p[1], c.p[2], m, &sv),
                           None => e.eval_with_vars(&tape, c.p[0], c.p[1], c.p[2], &sv) };
    match r { Ok((v, _)) => Ok(v), Err(fidget_core::shape::ShapeTracingEvalError::MissingVar(m)) => Err(var_id(Var::V(m.var), &c.dag.vs)) }
}

/// A point at which a min / max of zeros of opposite sign feeds the result: the evaluator kinds (and a simplified tape) may return
/// different zeros there (C02), and atan2 / a division downstream make different values of them; no single value to agree on.
fn zero_open(c: &Case) -> bool {
    let t = match &c.mat { Some(m) => <f32 as Transformable>::transform(c.p[0], c.p[1], c.p[2], m), None => (c.p[0], c.p[1], c.p[2]) };
    let mut orc = Oracle::default();
    let env = |v: Var| -> f32 { match v { Var::X => t.0, Var::Y => t.1, Var::Z => t.2,
        _ => { let k = c.dag.vs.iter().position(|x| *x == v).unwrap(); c.supplied.iter().find(|(kk, _)| *kk == k).map(|(_, v)| *v).unwrap_or(f32::NAN) } } };
    let vals = eval_arena(&c.dag.ctx, &env, &mut orc);
    // ... or an atan2 whose first argument is a zero (its sign decides between +pi and -pi, and the interval evaluator that drives a
    // simplification does not track it), or abs of a negative zero
    zero_tie_taint(&c.dag.ctx, &vals)[c.root.verif_index()] || orc.atan00 || orc.atan_y_zero || orc.abs_of_neg_zero
}

fn other_kinds<F: Function + MathFunction>(c: &Case, want: f32, backend: &str, bad: &mut Vec<String>) {
    if zero_open(c) { return; }
    let shape = Shape::<F>::new(&c.dag.ctx, c.root).unwrap();
    let sv = shape_vars(c);
    // the sign of a zero result of min / max is code-generation dependent (known, see C02)
    let same = |a: f32, b: f32| canon_bits(a) == canon_bits(b) || (a == 0.0 && b == 0.0);
    // many points (the case point among others), scalar variables
    {
        let tape = shape.float_slice_tape(Default::default());
        let mut e = Shape::<F>::new_float_slice_eval();
        let xs = [c.p[0], 1.0, -2.0, c.p[0]]; let ys = [c.p[1], 0.5, 3.0, c.p[1]]; let zs = [c.p[2], -1.0, 0.25, c.p[2]];
        let r = match &c.mat { Some(m) => e.eval_with_transform_and_vars(&tape, &xs, &ys, &zs, m, &sv).map(|o| o.to_vec()),
                               None => e.eval_with_vars(&tape, &xs, &ys, &zs, &sv).map(|o| o.to_vec()) };
        match r { Ok(o) => { if !same(o[0], want) || !same(o[3], want) { bad.push(format!("kind=float-slice-differs backend={backend} slice {} / {} point {}", o[0], o[3], want)); } }
                  Err(e) => bad.push(format!("kind=float-slice-error backend={backend} {e}")) }
        // per-sample variable arrays: sample 0 carries the supplied values, the others garbage
        let mut sva: ShapeVars<Vec<f32>> = ShapeVars::new();
        for (k, v) in &c.supplied { sva.insert(c.dag.vs[*k].index().unwrap(), vec![*v, 9.0, -9.0, *v]); }
        let r = match &c.mat { Some(m) => e.eval_with_transform_and_var_arrays(&tape, &xs, &ys, &zs, m, &sva).map(|o| o.to_vec()),
                               None => e.eval_with_var_arrays(&tape, &xs, &ys, &zs, &sva).map(|o| o.to_vec()) };
        match r { Ok(o) => { if !same(o[0], want) || !same(o[3], want) { bad.push(format!("kind=var-arrays-differ backend={backend} slice {} / {} point {}", o[0], o[3], want)); } }
                  Err(e) => bad.push(format!("kind=var-arrays-error backend={backend} {e}")) }
    }
    if want.is_nan() { return; }
    // a projective transform with w == 0 at the point has no transformed position (nalgebra leaves the
    // point undivided, the Grad / Interval transforms divide by zero): outside the claim
    // ... and when w nearly cancels, the transformed position is ill-conditioned (the evaluator kinds round it differently)
    if let Some(m) = &c.mat { let t = [m[(3, 0)] * c.p[0], m[(3, 1)] * c.p[1], m[(3, 2)] * c.p[2], m[(3, 3)]]; let w: f32 = t.iter().sum(); let mag: f32 = t.iter().map(|v| v.abs()).sum();
        if w == 0.0 || !w.is_finite() || w.abs() <= 2e-2 * mag { return; } }
    // With a transform, the gradient and interval evaluators transform the position in their own arithmetic
    // (different rounding from nalgebra's point transform), and the functions here are not continuous
    // (floor, compare, mod ...).  So: (1) the three transforms must agree on the position; (2) each evaluator
    // must give what the POINT evaluator gives at the position that evaluator itself computed.
    let point_at = |x: f32, y: f32, z: f32| -> Option<f32> {
        let tape = shape.point_tape(Default::default());
        let mut e = Shape::<F>::new_point_eval();
        e.eval_with_vars(&tape, x, y, z, &sv).ok().map(|o| o.0)
    };
    let (gpos, ipos) = match &c.mat {
        Some(m) => {
            let (gx, gy, gz) = <Grad as Transformable>::transform(Grad::new(c.p[0], 1.0, 0.0, 0.0), Grad::new(c.p[1], 0.0, 1.0, 0.0), Grad::new(c.p[2], 0.0, 0.0, 1.0), m);
            let (ix, iy, iz) = <Interval as Transformable>::transform(Interval::from(c.p[0]), Interval::from(c.p[1]), Interval::from(c.p[2]), m);
            let (fx, fy, fz) = <f32 as Transformable>::transform(c.p[0], c.p[1], c.p[2], m);
            let mag = |i: usize| (0..3).map(|j| (m[(i, j)] * c.p[j]).abs()).sum::<f32>() + m[(i, 3)].abs();
            let wv = (0..3).map(|j| m[(3, j)] * c.p[j]).sum::<f32>() + m[(3, 3)];
            for (k, (f, g, iv)) in [(fx, gx.v, ix), (fy, gy.v, iy), (fz, gz.v, iz)].iter().enumerate() {
                let tol = 1e-4 * (mag(k) / wv.abs() + f.abs()) + 1e-30;
                if (f - g).abs() > tol { bad.push(format!("kind=transform-position-differs backend={backend} coordinate {k}: point transform {f}, gradient transform {g}")); }
                if !(iv.has_nan() || (iv.lower() - tol <= *f && *f <= iv.upper() + tol)) { bad.push(format!("kind=transform-position-differs backend={backend} coordinate {k}: point transform {f}, interval transform [{}, {}]", iv.lower(), iv.upper())); }
            }
            ([gx.v, gy.v, gz.v], [ix, iy, iz])
        }
        None => ([c.p[0], c.p[1], c.p[2]], [Interval::from(c.p[0]), Interval::from(c.p[1]), Interval::from(c.p[2])]),
    };
    // the value the expression takes at a position when abs keeps the sign of a negative zero, as Grad::abs and
    // Interval::abs do (`if v < 0 { -v } else { v }`): atan2 / division / hashes downstream then see -0.0
    let alt2 = |pos: [f32; 3], keep: bool| -> (f32, bool) {
        let mut orc = Oracle::default(); orc.abs_keeps_neg_zero = keep;
        let env = |v: Var| -> f32 { match v { Var::X => pos[0], Var::Y => pos[1], Var::Z => pos[2],
            _ => { let k = c.dag.vs.iter().position(|x| *x == v).unwrap(); c.supplied.iter().find(|(kk, _)| *kk == k).map(|(_, v)| *v).unwrap_or(f32::NAN) } } };
        let v = eval_arena(&c.dag.ctx, &env, &mut orc)[c.root.verif_index()];
        (v, orc.atan00)
    };
    let alt_at = |pos: [f32; 3]| -> f32 { alt2(pos, true).0 };
    // atan2 with both arguments zero is left out of the enclosure property (C03) and so of this comparison
    let atan00_at = |pos: [f32; 3]| -> bool { alt2(pos, false).1 || alt2(pos, true).1 };
    // gradient: the value lane
    {
        let tape = shape.grad_slice_tape(Default::default());
        let mut e = Shape::<F>::new_grad_slice_eval();
        let xs = [Grad::new(c.p[0], 1.0, 0.0, 0.0)]; let ys = [Grad::new(c.p[1], 0.0, 1.0, 0.0)]; let zs = [Grad::new(c.p[2], 0.0, 0.0, 1.0)];
        let r = match &c.mat { Some(m) => e.eval_with_transform_and_vars(&tape, &xs, &ys, &zs, m, &sv).map(|o| o.to_vec()),
                               None => e.eval_with_vars(&tape, &xs, &ys, &zs, &sv).map(|o| o.to_vec()) };
        let expect = point_at(gpos[0], gpos[1], gpos[2]);
        match (r, expect) { (Ok(o), Some(w2)) => { let v = o[0].v; if !(same(v, w2) || v.is_nan() || w2.is_nan()) { let kind = if same(alt_at(gpos), v) { "abs-keeps-negative-zero" } else { "grad-value-differs" };
                             bad.push(format!("kind={kind} backend={backend} grad {} point evaluator at the same position {}", v, w2)); } }
                  (Err(e), _) => bad.push(format!("kind=grad-error backend={backend} {e}")), _ => {} }
    }
    // box evaluation on the degenerate box contains the point value at the position the interval transform computed
    {
        let tape = shape.interval_tape(Default::default());
        let mut e = Shape::<F>::new_interval_eval();
        let (x, y, z) = (Interval::from(c.p[0]), Interval::from(c.p[1]), Interval::from(c.p[2]));
        let r = match &c.mat { Some(m) => e.eval_with_transform_and_vars(&tape, x, y, z, m, &sv).map(|o| o.0),
                               None => e.eval_with_vars(&tape, x, y, z, &sv).map(|o| o.0) };
        let degenerate = ipos.iter().all(|i| !i.has_nan() && i.lower() == i.upper());
        let expect = if degenerate { point_at(ipos[0].lower(), ipos[1].lower(), ipos[2].lower()) } else { None };
        match (r, expect) { (Ok(i), Some(w2)) if !w2.is_nan() => { let slack = 1e-3 * (1.0 + w2.abs());
                             let inside = if w2.is_infinite() { i.lower() <= w2 && w2 <= i.upper() } else { i.lower() - slack <= w2 && w2 <= i.upper() + slack };
                             if !(i.has_nan() || inside || atan00_at([ipos[0].lower(), ipos[1].lower(), ipos[2].lower()])) { let a = alt_at([ipos[0].lower(), ipos[1].lower(), ipos[2].lower()]);
                                 let kind = if i.lower() - slack <= a && a <= i.upper() + slack { "abs-keeps-negative-zero" } else { "interval-excludes-point" };
                                 bad.push(format!("kind={kind} backend={backend} [{}, {}] point evaluator at the same position {}", i.lower(), i.upper(), w2)); } }
                  (Err(e), _) => bad.push(format!("kind=interval-error backend={backend} {e}")), _ => {} }
    }
}

/// Simplify on a box around the point and re-evaluate: same value, same binding
fn simplified<F: Function + MathFunction>(c: &Case, want: f32, backend: &str, bad: &mut Vec<String>) -> bool {
    if zero_open(c) { return false; }
    let shape = Shape::<F>::new(&c.dag.ctx, c.root).unwrap();
    let sv = shape_vars(c);
    let tape = shape.interval_tape(Default::default());
    let mut e = Shape::<F>::new_interval_eval();
    let w = 0.25f32;
    let (x, y, z) = (Interval::new(c.p[0] - w, c.p[0] + w), Interval::new(c.p[1] - w, c.p[1] + w), Interval::new(c.p[2] - w, c.p[2] + w));
    let r = match &c.mat { Some(m) => e.eval_with_transform_and_vars(&tape, x, y, z, m, &sv), None => e.eval_with_vars(&tape, x, y, z, &sv) };
    let Ok((_, Some(trace))) = r else { return false };
    let mut ws = Default::default();
    // storage recycled from an UNRELATED shape over the same variables met in the opposite order
    let storage = {
        let mut ctx2 = fidget_core::context::Context::new();
        let mut vs2: Vec<Var> = tape.vars().iter().map(|(v, _)| v).collect();
        vs2.sort_by_key(|v| std::cmp::Reverse(tape.vars().get(v)));
        let mut acc = ctx2.constant(1.0);
        for (k, v) in vs2.iter().enumerate() { let n = ctx2.var(*v); let m = ctx2.mul(n, (k + 2) as f32).unwrap(); acc = ctx2.sub(m, acc).unwrap(); }
        Shape::<F>::new(&ctx2, acc).ok().and_then(|q| q.recycle()).unwrap_or_default()
    };
    let Ok(s2) = shape.simplify(trace, storage, &mut ws) else { bad.push(format!("kind=simplify-error backend={backend}")); return false };
    let t2 = s2.point_tape(Default::default());
    let mut pe = Shape::<F>::new_point_eval();
    let r = match &c.mat { Some(m) => pe.eval_with_transform_and_vars(&t2, c.p[0], c.p[1], c.p[2], m, &sv), None => pe.eval_with_vars(&t2, c.p[0], c.p[1], c.p[2], &sv) };
    match r { Ok((v, _)) => { if canon_bits(v) != canon_bits(want) && !want.is_nan() && !(v == 0.0 && want == 0.0) { bad.push(format!("kind=simplified-differs backend={backend} simplified {} original {}", v, want)); } }
              Err(e) => bad.push(format!("kind=simplified-error backend={backend} {e}")) }
    // never renumbered: every variable of the simplified tape has the index it had before
    let (v1, v2) = (tape.vars(), t2.vars());
    for (v, i) in v2.iter() { if v1.get(&v) != Some(i) { bad.push(format!("kind=simplify-renumbered backend={backend} {:?}: {:?} -> {}", v, v1.get(&v), i)); } }
    true
}

pub fn run(seed: u64, count: usize, outdir: &str) -> std::io::Result<i32> {
    let mut rng = Rng::new(seed ^ 0xC14);
    let (mut cases, mut impls, mut oracle) = (String::new(), String::new(), String::new());
    let mut fails = 0usize;
    let mut hist: BTreeMap<String, usize> = BTreeMap::new();
    let mut distinct = BTreeSet::new();
    let mut samples_out: Vec<String> = vec![];
    let mut ll_vm = Shape::<VmFunction>::new_point_eval();
    let mut ll_jit = Shape::<JitFunction>::new_point_eval();
    let mut ll_fs_vm = Shape::<VmFunction>::new_float_slice_eval(); let mut ll_gs_vm = Shape::<VmFunction>::new_grad_slice_eval();
    let mut ll_fs_jit = Shape::<JitFunction>::new_float_slice_eval(); let mut ll_gs_jit = Shape::<JitFunction>::new_grad_slice_eval();
    for ci in 0..count {
        let mut r = rng.fork();
        let cfg = DagCfg { max_ops: 40, max_outputs: 1, max_free_vars: *r.pick(&[0usize, 1, 2, 3, 5, 8, 12, 24]), p_const_operand: 0.2,
                           p_special_const: 0.05, p_recent: 0.4, choice_heavy: r.chance(0.5), no_hash: true, const_roots: false, choice_chain: if r.chance(0.3) { r.range(1, 6) } else { 0 } };
        let mut dag = gen_dag(&mut r, &cfg);
        let mut root = dag.roots[0];
        // usually fold (a random subset of) the free variables into the root, in an order unrelated to their creation
        if r.chance(0.8) {
            let mut ks: Vec<usize> = (0..dag.vs.len()).collect();
            r.shuffle(&mut ks);
            let keep = if r.chance(0.5) { ks.len() } else { r.below(ks.len() + 1) };
            for k in &ks[..keep] {
                let v = dag.ctx.var(dag.vs[*k]);
                let b = *r.pick(&[fidget_core::context::BinaryOpcode::Add, fidget_core::context::BinaryOpcode::Sub, fidget_core::context::BinaryOpcode::Mul,
                                  fidget_core::context::BinaryOpcode::Min, fidget_core::context::BinaryOpcode::Max]);
                root = if r.chance(0.5) { apply_bin(&mut dag.ctx, b, root, v) } else { apply_bin(&mut dag.ctx, b, v, root) };
            }
        }
        let nfree = dag.vs.len();
        // supplied table: every free variable in a random order, sometimes with one missing, sometimes with extras
        let mut order: Vec<usize> = (0..nfree).collect();
        r.shuffle(&mut order);
        // mode 5: one variable missing AND more unrelated extras than the shape has inputs (the table is large enough, yet incomplete)
        let mode = r.below(6);
        let drop = if (mode == 0 || mode == 5) && nfree > 0 { Some(order[r.below(nfree)]) } else { None };
        let supplied: Vec<(usize, f32)> = order.iter().filter(|k| Some(**k) != drop).map(|k| (*k, gen_tame(&mut r))).collect();
        let extra = if mode == 1 { r.range(1, 4) } else if mode == 5 { r.range(28, 40) } else { 0 };
        let p = [gen_tame(&mut r), gen_tame(&mut r), gen_tame(&mut r)];
        let mat = gen_mat(&mut r);
        let c = Case { dag: &dag, root, mat, p, supplied, extra };
        *hist.entry(format!("vars-created={}", match nfree { 0 => "0", 1..=3 => "1-3", 4..=8 => "4-8", _ => "9-24" })).or_default() += 1;
        *hist.entry(match (&c.mat, mode) { (None, _) => "no-transform", (Some(m), _) if m[(3, 0)] != 0.0 || m[(3, 1)] != 0.0 || m[(3, 2)] != 0.0 || m[(3, 3)] != 1.0 => "projective", _ => "affine" }.into()).or_default() += 1;
        *hist.entry(match mode { 0 if drop.is_some() => "one-missing", 5 if drop.is_some() => "one-missing-many-extras", 1 | 5 => "extras-supplied", _ => "exact-table" }.into()).or_default() += 1;

        let mut bad: Vec<String> = vec![];
        // ---- implementation (VM point) + the tape's variable map
        let shape = Shape::<VmFunction>::new(&dag.ctx, root).unwrap();
        let tape = shape.point_tape(Default::default());
        let vm = tape.vars();
        let mut by_index: Vec<(usize, u64)> = vm.iter().map(|(v, i)| (i, var_id(v, &dag.vs))).collect();
        let it: Vec<(u64, usize)> = vm.iter().map(|(v, i)| (var_id(v, &dag.vs), i)).collect(); // the map's own iteration order
        by_index.sort();
        let t = match &c.mat { Some(m) => <f32 as Transformable>::transform(p[0], p[1], p[2], m), None => (p[0], p[1], p[2]) };
        let res = catch_unwind(AssertUnwindSafe(|| eval_point::<VmFunction>(&c)));
        let mut bind_section = String::from("?");
        // ---- the same evaluation with evaluators that live for the whole run (every earlier shape has been dropped by now)
        {
            let sv = shape_vars(&c);
            macro_rules! reused { ($F:ty, $e:expr, $name:expr) => {{
                let sh = Shape::<$F>::new(&dag.ctx, root).unwrap();
                let tp = sh.point_tape(Default::default());
                let fresh = { let mut e = Shape::<$F>::new_point_eval();
                    match &c.mat { Some(m) => e.eval_with_transform_and_vars(&tp, p[0], p[1], p[2], m, &sv).map(|o| canon_bits(o.0)).map_err(|e| e.to_string()),
                                   None => e.eval_with_vars(&tp, p[0], p[1], p[2], &sv).map(|o| canon_bits(o.0)).map_err(|e| e.to_string()) } };
                let again = match &c.mat { Some(m) => $e.eval_with_transform_and_vars(&tp, p[0], p[1], p[2], m, &sv).map(|o| canon_bits(o.0)).map_err(|e| e.to_string()),
                                           None => $e.eval_with_vars(&tp, p[0], p[1], p[2], &sv).map(|o| canon_bits(o.0)).map_err(|e| e.to_string()) };
                if fresh != again { bad.push(format!("kind=reused-evaluator-differs backend={} fresh {:?} long-lived {:?}", $name, fresh, again)); }
            }} }
            if catch_unwind(AssertUnwindSafe(|| { reused!(VmFunction, ll_vm, "vm"); reused!(JitFunction, ll_jit, "jit"); })).is_err() { bad.push("kind=panic with a long-lived evaluator".into()); }
            // ---- the many-point and gradient shape evaluators, long-lived too, with a number of points that changes from case to case
            {
                let npts = 1 + (ci * 7) % 19;
                let xs: Vec<f32> = (0..npts).map(|k| p[0] + k as f32 * 0.125).collect(); let ys: Vec<f32> = (0..npts).map(|k| p[1] - k as f32 * 0.25).collect(); let zs: Vec<f32> = (0..npts).map(|k| p[2] + k as f32 * 0.5).collect();
                let g = |v: &Vec<f32>, a: usize| -> Vec<Grad> { v.iter().map(|x| Grad::new(*x, (a == 0) as u8 as f32, (a == 1) as u8 as f32, (a == 2) as u8 as f32)).collect() };
                macro_rules! reused_bulk { ($F:ty, $fe:expr, $ge:expr, $name:expr) => {{
                    let sh = Shape::<$F>::new(&dag.ctx, root).unwrap();
                    let (ft, gt) = (sh.float_slice_tape(Default::default()), sh.grad_slice_tape(Default::default()));
                    let bits = |o: &[f32]| o.iter().map(|v| canon_bits(*v)).collect::<Vec<u32>>();
                    let gbits = |o: &[Grad]| o.iter().map(|v| [canon_bits(v.v), canon_bits(v.dx), canon_bits(v.dy), canon_bits(v.dz)]).collect::<Vec<[u32; 4]>>();
                    let fresh_f = { let mut e = Shape::<$F>::new_float_slice_eval(); e.eval_with_vars(&ft, &xs, &ys, &zs, &sv).map(|o| bits(o)).map_err(|e| e.to_string()) };
                    let again_f = $fe.eval_with_vars(&ft, &xs, &ys, &zs, &sv).map(|o| bits(o)).map_err(|e| e.to_string());
                    if fresh_f != again_f { bad.push(format!("kind=reused-evaluator-differs backend={} many-point evaluation ({npts} points): fresh {:?} long-lived {:?}", $name, fresh_f.as_ref().map(|v| v.len()), again_f.as_ref().map(|v| v.len()))); }
                    let (gx, gy, gz) = (g(&xs, 0), g(&ys, 1), g(&zs, 2));
                    let fresh_g = { let mut e = Shape::<$F>::new_grad_slice_eval(); e.eval_with_vars(&gt, &gx, &gy, &gz, &sv).map(|o| gbits(o)).map_err(|e| e.to_string()) };
                    let again_g = $ge.eval_with_vars(&gt, &gx, &gy, &gz, &sv).map(|o| gbits(o)).map_err(|e| e.to_string());
                    if fresh_g != again_g { bad.push(format!("kind=reused-evaluator-differs backend={} gradient evaluation ({npts} points) differs between a fresh and a long-lived evaluator", $name)); }
                }} }
                if catch_unwind(AssertUnwindSafe(|| { reused_bulk!(VmFunction, ll_fs_vm, ll_gs_vm, "vm"); reused_bulk!(JitFunction, ll_fs_jit, ll_gs_jit, "jit"); })).is_err() {
                    bad.push("kind=panic with a long-lived many-point / gradient evaluator".into());
                    // (an evaluator that panicked may be left in any state)
                    ll_fs_vm = Shape::<VmFunction>::new_float_slice_eval(); ll_gs_vm = Shape::<VmFunction>::new_grad_slice_eval();
                    ll_fs_jit = Shape::<JitFunction>::new_float_slice_eval(); ll_gs_jit = Shape::<JitFunction>::new_grad_slice_eval(); }
            }
            // ---- binding: accepted exactly when every variable of the tape is in the table
            // (the shape whose map iteration order went into the case line: the model runs ShapeVars::check over that order)
            let sh = &shape;
            let needs: BTreeSet<u64> = sh.inner().vars().iter().map(|(v, _)| var_id(v, &dag.vs)).filter(|v| *v >= 3).collect();
            let have: BTreeSet<u64> = c.supplied.iter().map(|(k, _)| 3 + *k as u64).collect();
            bind_section = match sh.bind(&sv) { Ok(_) => "ok".to_string(), Err(m) => var_id(Var::V(m.var), &dag.vs).to_string() };
            match sh.bind(&sv) {
                Ok(_) => if !needs.is_subset(&have) { bad.push(format!("kind=bind-accepts-incomplete-table needs {:?} has {:?} (+{} unrelated)", needs, have, c.extra)); },
                Err(m) => { let w = var_id(Var::V(m.var), &dag.vs); if needs.is_subset(&have) { bad.push(format!("kind=bind-rejects-complete-table names {w}")); }
                            else if !needs.contains(&w) || have.contains(&w) { bad.push(format!("kind=bind-names-wrong-variable {w}")); } }
            }
        }
        let mut il = format!("vars {}", by_index.iter().map(|(_, v)| v.to_string()).collect::<Vec<_>>().join(" "));
        write!(il, " | xyz {} {} {}", canon_bits(t.0), canon_bits(t.1), canon_bits(t.2)).unwrap();
        match &res { Ok(Ok(v)) => write!(il, " | out {}", canon_bits(*v)).unwrap(),
                     Ok(Err(_)) => write!(il, " | out missing").unwrap(),
                     Err(_) => write!(il, " | out panic").unwrap() }
        write!(il, " | bind {bind_section}").unwrap();
        impls.push_str(&il); impls.push('\n');
        // ---- the case for the model
        let mut line = format!("c14 {} {} 255 {}", fmt_arena(&dag.ctx, &dag.vs), root.verif_index(), it.len());
        for (v, i) in &it { write!(line, " {v} {i}").unwrap(); }
        match &c.mat { None => line.push_str(" 0"), Some(m) => { line.push_str(" 1"); for i in 0..4 { for j in 0..4 { write!(line, " {}", canon_bits(m[(i, j)])).unwrap(); } } } }
        write!(line, " {} {} {} {}", canon_bits(p[0]), canon_bits(p[1]), canon_bits(p[2]), c.supplied.len()).unwrap();
        for (k, v) in &c.supplied { write!(line, " {} {}", 3 + k, canon_bits(*v)).unwrap(); }
        distinct.insert(line.clone());
        cases.push_str(&line); cases.push('\n');
        // ---- oracle
        let used: BTreeSet<u64> = by_index.iter().map(|(_, v)| *v).collect();
        *hist.entry(format!("vars-in-tape={}", match used.len() { 0..=1 => "0-1", 2..=3 => "2-3", 4..=8 => "4-8", _ => "9-27" })).or_default() += 1;
        let missing_used = drop.map(|k| used.contains(&(3 + k as u64))).unwrap_or(false);
        match &res {
            Ok(Ok(want)) => {
                if missing_used { bad.push("kind=missing-not-reported a variable of the tape was not supplied but evaluation succeeded".into()); }
                // independent evaluation with an explicit binding, operation by operation
                let mut orc = Oracle::default();
                let env = |v: Var| -> f32 { match v { Var::X => t.0, Var::Y => t.1, Var::Z => t.2,
                    _ => { let k = dag.vs.iter().position(|x| *x == v).unwrap(); c.supplied.iter().find(|(kk, _)| *kk == k).map(|(_, v)| *v).unwrap_or(f32::NAN) } } };
                let vals = eval_arena(&dag.ctx, &env, &mut orc);
                let nan_inside = vals.iter().any(|v| v.is_nan());
                let direct = vals[root.verif_index()];
                if !nan_inside && canon_bits(direct) != canon_bits(*want) { bad.push(format!("kind=value-differs-from-direct-evaluation shape {} direct {}", want, direct)); }
                if !nan_inside {
                    match catch_unwind(AssertUnwindSafe(|| eval_point::<JitFunction>(&c))) {
                        Ok(Ok(j)) => if canon_bits(j) != canon_bits(*want) && !(j == 0.0 && *want == 0.0) && !zero_open(&c) { bad.push(format!("kind=jit-point-differs jit {} vm {}", j, want)); },
                        Ok(Err(_)) => bad.push("kind=jit-missing jit reports a missing variable".into()),
                        Err(_) => bad.push("kind=jit-panic".into()),
                    }
                    let mut b2 = vec![];
                    if catch_unwind(AssertUnwindSafe(|| { other_kinds::<VmFunction>(&c, *want, "vm", &mut b2); other_kinds::<JitFunction>(&c, *want, "jit", &mut b2);
                        let a = simplified::<VmFunction>(&c, *want, "vm", &mut b2); let b = simplified::<JitFunction>(&c, *want, "jit", &mut b2); a || b })).map(|s| { if s { *hist.entry("simplified-and-re-evaluated".into()).or_default() += 1; } }).is_err() {
                        bad.push("kind=panic in another evaluator kind".into());
                    }
                    bad.extend(b2);
                }
            }
            Ok(Err(w)) => {
                let w_missing = *w >= 3 && !c.supplied.iter().any(|(k, _)| 3 + *k as u64 == *w);
                if !missing_used { bad.push(format!("kind=spurious-missing-var error names {w} but every variable of the tape was supplied")); }
                else if !w_missing || !used.contains(w) { bad.push(format!("kind=wrong-missing-var error names {w}")); }
                match catch_unwind(AssertUnwindSafe(|| eval_point::<JitFunction>(&c))) { Ok(Err(_)) => {}, _ => bad.push("kind=jit-missing-not-reported".into()) }
            }
            Err(_) => bad.push("kind=panic shape evaluation panicked".into()),
        }
        for m in &bad { fails += 1; writeln!(oracle, "FAIL case={ci} {m}").unwrap(); }
        if samples_out.len() < 2 && nfree >= 2 { samples_out.push(format!("free={nfree} used={:?} iteration={:?} supplied={:?} -> {il}", used, it, c.supplied)); }
    }
    std::fs::write(format!("{outdir}/cases.txt"), cases)?;
    std::fs::write(format!("{outdir}/impl.txt"), impls)?;
    std::fs::write(format!("{outdir}/oracle.txt"), oracle)?;
    let mut js = String::from("{");
    write!(js, "\"cases\": {count}, \"distinct_nontrivial\": {}, ", distinct.len()).unwrap();
    write!(js, "\"mix\": {{{}}}, ", hist.iter().map(|(k, v)| format!("\"{k}\": {v}")).collect::<Vec<_>>().join(", ")).unwrap();
    write!(js, "\"samples\": [{}], ", samples_out.iter().map(|s| format!("{s:?}")).collect::<Vec<_>>().join(", ")).unwrap();
    write!(js, "\"oracle_fails\": {fails}}}").unwrap();
    std::fs::write(format!("{outdir}/stats.json"), js)?;
    Ok(if fails > 0 { 1 } else { 0 })
}
