//! Structured random expression DAGs, built through the public Context API.
use crate::rng::*;
use crate::wire::{BOPS, UOPS};
use fidget_core::context::{BinaryOpcode, Context, Node, Op, UnaryOpcode};
use fidget_core::var::Var;

pub struct Dag {
    pub ctx: Context,
    pub roots: Vec<Node>,
    /// Var::V variables created for this DAG (wire id 3+k)
    pub vs: Vec<Var>,
}

#[derive(Clone)]
pub struct DagCfg {
    pub max_ops: usize,
    pub max_outputs: usize,
    pub max_free_vars: usize,
    pub p_const_operand: f64,
    pub p_special_const: f64,
    /// probability of choosing an operand among the most recent nodes (chains) rather than uniformly (wide)
    pub p_recent: f64,
    /// restrict to opcodes that do not need the libm oracle / are "tame"
    pub choice_heavy: bool,
    /// exclude rand/mix (bit-hash ops) — used where NaN payloads would otherwise matter
    pub no_hash: bool,
    pub const_roots: bool,
    /// extra choice clauses appended as a chain (forces many clauses)
    pub choice_chain: usize,
}
impl Default for DagCfg {
    fn default() -> Self {
        DagCfg { max_ops: 60, max_outputs: 4, max_free_vars: 3, p_const_operand: 0.25, p_special_const: 0.3,
                 p_recent: 0.5, choice_heavy: false, no_hash: false, const_roots: true, choice_chain: 0 }
    }
}

pub fn apply_un(ctx: &mut Context, u: UnaryOpcode, a: Node) -> Node {
    use UnaryOpcode::*;
    match u {
        Neg => ctx.neg(a), Abs => ctx.abs(a), Recip => ctx.recip(a), Sqrt => ctx.sqrt(a),
        Square => ctx.square(a), Floor => ctx.floor(a), Ceil => ctx.ceil(a), Round => ctx.round(a),
        Sin => ctx.sin(a), Cos => ctx.cos(a), Tan => ctx.tan(a), Asin => ctx.asin(a), Acos => ctx.acos(a),
        Atan => ctx.atan(a), Exp => ctx.exp(a), Ln => ctx.ln(a), Not => ctx.not(a), Rand => ctx.rand(a),
    }.unwrap()
}
pub fn apply_bin(ctx: &mut Context, b: BinaryOpcode, l: Node, r: Node) -> Node {
    use BinaryOpcode::*;
    match b {
        Add => ctx.add(l, r), Sub => ctx.sub(l, r), Mul => ctx.mul(l, r), Div => ctx.div(l, r),
        Atan => ctx.atan2(l, r), Min => ctx.min(l, r), Max => ctx.max(l, r), Compare => ctx.compare(l, r),
        Mod => ctx.modulo(l, r), And => ctx.and(l, r), Or => ctx.or(l, r), Mix => ctx.mix(l, r),
    }.unwrap()
}

pub fn gen_dag(r: &mut Rng, cfg: &DagCfg) -> Dag {
    let mut ctx = Context::new();
    let mut pool: Vec<Node> = vec![];
    let mut vs = vec![];
    // variables: a random non-empty subset of X, Y, Z in random order, plus free variables
    let mut axes = vec![0, 1, 2];
    r.shuffle(&mut axes);
    let n_axes = r.range(1, 3);
    let nfree = r.range(0, cfg.max_free_vars);
    for _ in 0..nfree { vs.push(Var::new()); }
    let mut leaves: Vec<Var> = axes[..n_axes].iter().map(|a| [Var::X, Var::Y, Var::Z][*a]).collect();
    leaves.extend(vs.iter().cloned());
    r.shuffle(&mut leaves);
    for v in &leaves { pool.push(ctx.var(*v)); }

    let n_ops = r.range(1, cfg.max_ops);
    let pick = |r: &mut Rng, pool: &Vec<Node>, ctx: &mut Context| -> Node {
        if r.chance(cfg.p_const_operand) {
            let c = if cfg.choice_heavy { gen_tame(r) } else { gen_f32(r, cfg.p_special_const) };
            return ctx.constant(c);
        }
        if r.chance(cfg.p_recent) {
            let w = pool.len().min(4);
            pool[pool.len() - 1 - r.below(w)]
        } else {
            pool[r.below(pool.len())]
        }
    };
    for _ in 0..n_ops {
        let unary = r.chance(if cfg.choice_heavy { 0.15 } else { 0.4 });
        let n = if unary {
            let mut u = *r.pick(&UOPS);
            if cfg.choice_heavy { u = *r.pick(&[UnaryOpcode::Neg, UnaryOpcode::Abs, UnaryOpcode::Square, UnaryOpcode::Floor, UnaryOpcode::Not]); }
            if cfg.no_hash && u == UnaryOpcode::Rand { u = UnaryOpcode::Neg; }
            let a = pick(r, &pool, &mut ctx);
            apply_un(&mut ctx, u, a)
        } else {
            let mut b = *r.pick(&BOPS);
            if cfg.choice_heavy {
                b = *r.pick(&[BinaryOpcode::Min, BinaryOpcode::Max, BinaryOpcode::Min, BinaryOpcode::Max,
                              BinaryOpcode::And, BinaryOpcode::Or, BinaryOpcode::Add, BinaryOpcode::Sub,
                              BinaryOpcode::Mul, BinaryOpcode::Compare]);
            }
            if cfg.no_hash && b == BinaryOpcode::Mix { b = BinaryOpcode::Add; }
            let l = pick(r, &pool, &mut ctx);
            // now and then the same node on both sides (a - a, a / a, atan2(a, a), compare(a, a), mod(a, a) are not folded away)
            let rr = if r.chance(0.06) { l } else { pick(r, &pool, &mut ctx) };
            apply_bin(&mut ctx, b, l, rr)
        };
        // constants produced by folding stay out of the pool unless asked for
        if !matches!(ctx.get_op(n), Some(Op::Const(_))) { pool.push(n); }
    }
    if cfg.choice_chain > 0 {
        let mut acc = pool[pool.len() - 1];
        for _ in 0..cfg.choice_chain {
            let b = *r.pick(&[BinaryOpcode::Min, BinaryOpcode::Max, BinaryOpcode::Min, BinaryOpcode::Max, BinaryOpcode::And, BinaryOpcode::Or]);
            let other = if r.chance(0.3) { let c = gen_tame(r); ctx.constant(c) } else { pool[r.below(pool.len())] };
            let fresh = { let c = gen_tame(r); let x = pool[r.below(pool.len().min(6))]; ctx.add(x, c).unwrap() };
            let other = if r.chance(0.5) { fresh } else { other };
            let n = if r.chance(0.5) { apply_bin(&mut ctx, b, acc, other) } else { apply_bin(&mut ctx, b, other, acc) };
            if !matches!(ctx.get_op(n), Some(Op::Const(_))) { pool.push(n); acc = n; }
        }
    }
    let n_out = r.range(1, cfg.max_outputs);
    let mut roots = vec![];
    for k in 0..n_out {
        let c = r.unit();
        if cfg.const_roots && c < 0.07 {
            let v = gen_f32(r, 0.5);
            roots.push(ctx.constant(v));
        } else if c < 0.14 && !roots.is_empty() {
            let d = *r.pick(&roots);
            roots.push(d);
        } else if k == 0 || c < 0.6 {
            // late nodes make deep roots
            let w = pool.len().min(3);
            roots.push(pool[pool.len() - 1 - r.below(w)]);
        } else {
            roots.push(pool[r.below(pool.len())]);
        }
    }
    Dag { ctx, roots, vs }
}

/// One value per wire variable id (0..3+vs.len())
pub fn gen_point(r: &mut Rng, nvars: usize, p_special: f64) -> Vec<f32> {
    (0..nvars).map(|_| gen_f32(r, p_special)).collect()
}

/// Minimized past failures and hand-made corner cases; always run first.
pub fn corpus() -> Vec<(Dag, Vec<Vec<f32>>)> {
    let mut out = vec![];
    // D11: constants created BEFORE the variable end up on the left of commutative ops,
    // and SsaTape::new swaps them into the RegImm form: min(0, x) at x = -0
    for c in [0.0f32, -0.0] {
        let mut ctx = Context::new();
        let k = ctx.constant(c);
        let x = ctx.x();
        let y = ctx.y();
        let a = ctx.min(k, x).unwrap();
        let b = ctx.max(k, x).unwrap();
        let d = ctx.add(k, x).unwrap();
        let e = ctx.mul(x, y).unwrap();
        let f = ctx.min(e, k).unwrap();
        out.push((Dag { ctx, roots: vec![a, b, d, f], vs: vec![] },
                  vec![vec![-0.0, 1.0, 0.0], vec![0.0, -1.0, 0.0], vec![-0.0, -0.0, 0.0], vec![3.0, 0.0, 0.0]]));
    }
    // D1: several outputs sharing choices
    {
        let mut ctx = Context::new();
        let x = ctx.x(); let y = ctx.y();
        let a = ctx.min(x, y).unwrap();
        let b = ctx.max(x, y).unwrap();
        out.push((Dag { ctx, roots: vec![a, b, a], vs: vec![] }, vec![vec![1.0, 2.0, 0.0], vec![2.0, 1.0, 0.0], vec![1.0, 1.0, 0.0]]));
    }
    // D2: nested choices (more than one clause)
    {
        let mut ctx = Context::new();
        let x = ctx.x(); let y = ctx.y(); let z = ctx.z();
        let a = ctx.min(x, y).unwrap();
        let b = ctx.max(a, z).unwrap();
        let c = ctx.and(b, x).unwrap();
        let d = ctx.or(c, 2.0).unwrap();
        out.push((Dag { ctx, roots: vec![d], vs: vec![] }, vec![vec![1.0, 2.0, 3.0], vec![0.0, 0.0, 0.0], vec![-1.0, 5.0, -7.0]]));
    }
    // register-with-immediate forms with extreme constants (subnormal divisors, the largest finite value, an
    // infinity): algebraic shortcuts on the immediate (x / c as x * (1 / c) ...) stop being exact exactly there
    for c in [1.0e-40f32, -7.0e-42, 1.4693679e-39, f32::MIN_POSITIVE, f32::MAX, f32::INFINITY, 3.0, 0.5] {
        let mut ctx = Context::new();
        let x = ctx.x(); let y = ctx.y();
        let k = ctx.constant(c);
        let e = ctx.mul(x, y).unwrap();
        let roots = vec![ctx.div(x, k).unwrap(), ctx.div(k, x).unwrap(), ctx.mul(x, k).unwrap(), ctx.sub(x, k).unwrap(),
                         ctx.div(e, k).unwrap(), ctx.modulo(x, k).unwrap(), ctx.atan2(x, k).unwrap()];
        out.push((Dag { ctx, roots, vs: vec![] },
                  vec![vec![0.0, 1.0, 0.0], vec![-0.0, 1.0, 0.0], vec![1.0e-30, 1.0, 0.0], vec![1.0e-42, -1.0, 0.0], vec![3.0, 0.5, 0.0], vec![-2.5e38, 1.0, 0.0]]));
    }
    out
}
