//! C03: interval evaluation encloses every point result in the region.
//! Every non-constant node of the DAG is exported as an output, so a failure names
//! one opcode.  Interpreter interval results are compared bit-for-bit with the Coq
//! model; the enclosure oracle is run on interpreter and JIT, with and without a
//! transform matrix.
use crate::c01::fmt_bits;
use crate::c04::*;
use crate::dag::*;
use crate::rng::*;
use crate::wire::*;
use fidget_core::context::{BinaryOpcode, Node, Op};
use fidget_core::eval::{Function, MathFunction};
use fidget_core::shape::{EzShape, Shape};
use fidget_core::types::Interval;
use fidget_core::var::Var;
use fidget_core::vm::{GenericVmFunction, VmTrace};
use fidget_jit::JitFunction;
use nalgebra::Matrix4;
use std::collections::BTreeMap;
use std::fmt::Write as _;
use std::panic::{catch_unwind, AssertUnwindSafe};

pub fn all_nodes(dag: &Dag, limit: usize) -> Vec<Node> {
    let n = dag.ctx.len();
    let mut v: Vec<Node> = (0..n).map(Node::verif_new)
        .filter(|nd| !matches!(dag.ctx.get_op(*nd), Some(Op::Const(_)))).collect();
    if v.len() > limit { v = v[v.len() - limit..].to_vec(); }
    v
}

fn ulp(x: f32) -> f32 {
    if !x.is_finite() { return 0.0; }
    let a = x.abs().max(f32::MIN_POSITIVE);
    f32::from_bits(a.to_bits() + 1) - a
}

/// the property's enclosure relation with `k` ulps of slack
pub fn encloses(i: &Interval, v: f32, k: f32) -> bool {
    if i.lower().is_nan() || i.upper().is_nan() || v.is_nan() { return true; }
    let sl = if k == 0.0 { 0.0 } else { k * ulp(v).max(ulp(i.lower())).max(ulp(i.upper())) };
    let sl = if sl.is_finite() { sl } else { 0.0 };
    v >= i.lower() - sl && v <= i.upper() + sl
}
pub fn strictly_inside(i: &Interval, v: f32) -> bool {
    !i.lower().is_nan() && !i.upper().is_nan() && !v.is_nan() && v >= i.lower() && v <= i.upper()
}

pub fn op_name(dag: &Dag, n: Node) -> String {
    match dag.ctx.get_op(n) {
        Some(Op::Unary(u, _)) => format!("{u:?}"),
        Some(Op::Binary(b, _, _)) => format!("{b:?}"),
        Some(Op::Input(_)) => "Input".into(),
        _ => "Const".into(),
    }
}

/// Enclosure oracle over all exported nodes.  Returns failure descriptions.
fn enclosure_oracle<F: Function<Trace = VmTrace>>(f: &F, dag: &Dag, roots: &[Node], bx: &[(f32, f32)], samples: &[Vec<f32>],
                    backend: &str, local_checks: &mut usize) -> Vec<String> {
    let mut bad = vec![];
    let ivs = match interval_eval(f, &dag.vs, bx) { Ok((o, _)) => o, Err(_) => return bad /* totality is C11 */ };
    let idx: std::collections::HashMap<usize, usize> = roots.iter().enumerate().map(|(k, n)| (n.verif_index(), k)).collect();
    for s in samples {
        let vals = match point_eval(f, &dag.vs, s) { Ok((o, _)) => o, Err(_) => continue };
        for (k, n) in roots.iter().enumerate() {
            // a half-NaN interval is not "the NaN interval"
            let half_nan = ivs[k].lower().is_nan() != ivs[k].upper().is_nan();
            let slack = match dag.ctx.get_op(*n) {
                Some(Op::Unary(u, _)) if format!("{u:?}").len() <= 4 && matches!(format!("{u:?}").as_str(), "Sin" | "Cos" | "Tan" | "Asin" | "Acos" | "Atan" | "Exp" | "Ln") => 4.0,
                Some(Op::Binary(b, _, _)) if matches!(format!("{b:?}").as_str(), "Atan" | "Mod") => 4.0,
                _ => 0.0,
            };
            if vals[k].is_nan() { continue; }   // "unless the point value itself is NaN"
            if half_nan || !encloses(&ivs[k], vals[k], slack) {
                // local obligation: were the operands inside their own intervals?
                let kids: Vec<Node> = dag.ctx.get_op(*n).unwrap().iter_children().collect();
                let mut operands_ok = true;
                let mut nan_hidden = false;
                let mut atan00 = false;
                let mut zero_sign = false;
                for c in &kids {
                    match dag.ctx.get_op(*c) {
                        Some(Op::Const(_)) => {}
                        _ => if let Some(j) = idx.get(&c.verif_index()) {
                            if !strictly_inside(&ivs[*j], vals[*j]) { operands_ok = false; }
                            if vals[*j].is_nan() && !ivs[*j].lower().is_nan() && !ivs[*j].upper().is_nan() { nan_hidden = true; }
                            if vals[*j] == 0.0 && ivs[*j].lower() == 0.0 && ivs[*j].upper() == 0.0
                                && (vals[*j].to_bits() != ivs[*j].lower().to_bits() || vals[*j].to_bits() != ivs[*j].upper().to_bits()) { zero_sign = true; }
                        } else { operands_ok = false; }
                    }
                }
                if let Some(Op::Binary(b, l, r)) = dag.ctx.get_op(*n) {
                    if format!("{b:?}") == "Atan" {
                        let z = |nd: &Node| match dag.ctx.get_op(*nd) { Some(Op::Const(c)) => c.0 == 0.0, _ => idx.get(&nd.verif_index()).map(|j| vals[*j] == 0.0).unwrap_or(false) };
                        if z(l) && z(r) { atan00 = true; }
                    }
                }
                if atan00 { continue; }
                *local_checks += 1;
                let hash_op = matches!(op_name(dag, *n).as_str(), "Mix" | "Rand");
                // one of the four endpoint products of a multiplication is NaN (0 * inf): the x86 min / max chain
                // of the JIT returns its second operand on NaN and can lose a bound
                let nan_product = op_name(dag, *n) == "Mul" && {
                    let ends = |c: &Node| -> Option<[f32; 2]> { match dag.ctx.get_op(*c) { Some(Op::Const(k)) => Some([k.0 as f32, k.0 as f32]), _ => idx.get(&c.verif_index()).map(|j| [ivs[*j].lower(), ivs[*j].upper()]) } };
                    match (kids.get(0).and_then(ends), kids.get(1).or(kids.get(0)).and_then(ends)) { (Some(a), Some(b)) => a.iter().any(|x| b.iter().any(|y| (x * y).is_nan())), _ => false } };
                let kind = if half_nan { "half-nan-interval" } else if nan_hidden { "nan-operand-hidden" }
                    else if nan_product && operands_ok && backend == "jit" { "nan-product-drops-bound" }
                    else if hash_op && zero_sign { "hash-of-signed-zero" }
                    else if operands_ok { "local-enclosure" } else { continue };
                let ops: Vec<String> = kids.iter().map(|c| match dag.ctx.get_op(*c) { Some(Op::Const(c)) => format!("const {}", c.0),
                    _ => idx.get(&c.verif_index()).map(|j| format!("{} in [{}, {}]", vals[*j], ivs[*j].lower(), ivs[*j].upper())).unwrap_or("?".into()) }).collect();
                bad.push(format!("kind={kind} backend={backend} op={} node={} value={} interval=[{}, {}] operands={:?} point={:?}",
                    op_name(dag, *n), n.verif_index(), vals[k], ivs[k].lower(), ivs[k].upper(), ops, s));
            }
        }
    }
    bad.sort(); bad.dedup_by(|a, b| a.split(" value=").next() == b.split(" value=").next());
    bad
}

pub fn gen_matrix(r: &mut Rng) -> Matrix4<f32> {
    let mut m = Matrix4::<f32>::identity();
    match r.below(4) {
        0 => { for i in 0..3 { m[(i, 3)] = gen_tame(r); } }
        1 => { for i in 0..3 { m[(i, i)] = gen_tame(r) + 0.1; m[(i, 3)] = gen_tame(r); } }
        2 => { for i in 0..3 { for j in 0..4 { m[(i, j)] = gen_tame(r); } } }
        _ => { for i in 0..4 { for j in 0..4 { m[(i, j)] = gen_tame(r); } } m[(3, 3)] = 1.0 + gen_tame(r).abs(); }
    }
    // a uniform scale kept in the homogeneous coordinate: bottom row (0, 0, 0, w), w != 1
    if r.chance(0.3) { for j in 0..3 { m[(3, j)] = 0.0; } m[(3, 3)] = *r.pick(&[2.0f32, 0.5, 3.0, -1.0, 4.0, 0.25, -2.0]); }
    m
}

/// Shape-level enclosure with a transform matrix (single output).
fn transform_oracle<F: Function<Trace = VmTrace> + MathFunction>(dag: &Dag, root: Node, bx: &[(f32, f32)], samples: &[Vec<f32>], mat: &Matrix4<f32>, backend: &str)
    -> (Option<Interval>, Vec<String>) {
    let mut bad = vec![];
    if !dag.vs.is_empty() { return (None, bad); }
    let r = catch_unwind(AssertUnwindSafe(|| {
        let shape = Shape::<F>::new(&dag.ctx, root).unwrap();
        let tape = shape.ez_interval_tape();
        let mut ie = Shape::<F>::new_interval_eval();
        let iv = |k: usize| Interval::new(bx[k].0, bx[k].1);
        let (i, _) = ie.eval_with_transform(&tape, iv(0), iv(1), iv(2), mat).unwrap();
        // The transformed box must enclose the transformed point (coordinate level: the
        // function itself may be arbitrarily steep, and nalgebra sums in another order)
        use fidget_core::shape::Transformable;
        let (tx, ty, tz) = <Interval as Transformable>::transform(iv(0), iv(1), iv(2), mat);
        let mut bad = vec![];
        for s in samples {
            let (px, py, pz) = <f32 as Transformable>::transform(s[0], s[1], s[2], mat);
            for (name, ti, pv, row) in [("x", tx, px, 0usize), ("y", ty, py, 1), ("z", tz, pz, 2)] {
                if ti.lower().is_nan() || ti.upper().is_nan() || pv.is_nan() { continue; }
                let mag: f32 = (0..3).map(|j| (mat[(row, j)] * s[j]).abs()).sum::<f32>() + mat[(row, 3)].abs();
                let w: f32 = (mat[(3, 0)] * s[0] + mat[(3, 1)] * s[1] + mat[(3, 2)] * s[2] + mat[(3, 3)]).abs();
                let tol = 1e-5 * (mag / w.max(1e-30) + pv.abs());
                let clamped = pv.max(ti.lower()).min(ti.upper());
                if (pv - clamped).abs() > tol {
                    bad.push(format!("kind=transform-enclosure backend={backend} coord={name} value={pv} interval=[{}, {}] point={:?}", ti.lower(), ti.upper(), s));
                }
            }
        }
        (i, bad)
    }));
    match r { Ok((i, b)) => { bad.extend(b); (Some(i), bad) } Err(_) => (None, bad) }
}

/// values at which rounding, branch cuts and periodic functions change behaviour
pub const EDGE_VALUES: &[f32] = &[
    0.0, -0.0, 0.49999997, -0.49999997, 0.5, -0.5, 0.50000006, -0.50000006, 1.0, -1.0, 0.99999994, 1.0000001, -0.99999994, -1.0000001,
    1.5, -1.5, 2.5, -2.5, 3.5, 8388608.0, -8388608.0, 8388609.0, -8388609.0, 8388611.0, 4194303.5, -4194303.5, 16777215.0, 16777216.0,
    1.0e-45, -1.0e-45, f32::MIN_POSITIVE, std::f32::consts::FRAC_PI_2, -std::f32::consts::FRAC_PI_2, std::f32::consts::PI, -std::f32::consts::PI,
    4.712389, -4.712389, std::f32::consts::TAU, -std::f32::consts::TAU, 100.0, -100.0, 1.0e30, -1.0e30, f32::MAX, f32::MIN, 2.0, -2.0, 0.25, 3.0, -3.0,
];
pub fn gen_edge_box(r: &mut Rng, nvars: usize) -> Vec<(f32, f32)> {
    (0..nvars).map(|_| {
        let a = *r.pick(EDGE_VALUES);
        let b = match r.below(4) { 0 => a, 1 => *r.pick(EDGE_VALUES), 2 => a + 0.25, _ => a + (r.unit() * 3.0) as f32 };
        let (l, u) = if a <= b { (a, b) } else { (b, a) };
        if l.is_finite() && u.is_finite() && l <= u { (l, u) } else { (a, a) }
    }).collect()
}

/// every opcode applied directly to the variables (and to a constant on either side): with `gen_edge_box`
/// this sweeps each operation over rounding-sensitive bounds
pub fn sweep_dag(r: &mut Rng) -> Dag {
    use fidget_core::context::Context;
    let mut ctx = Context::new();
    let (x, y, z) = (ctx.x(), ctx.y(), ctx.z());
    let mut roots = vec![];
    for u in crate::wire::UOPS { if u == fidget_core::context::UnaryOpcode::Rand { continue; } roots.push(crate::dag::apply_un(&mut ctx, u, x)); }
    let c = *r.pick(EDGE_VALUES);
    let k = ctx.constant(c);
    for b in crate::wire::BOPS {
        if b == fidget_core::context::BinaryOpcode::Mix { continue; }
        roots.push(crate::dag::apply_bin(&mut ctx, b, x, y));
        roots.push(crate::dag::apply_bin(&mut ctx, b, y, x));
        if c.is_finite() { roots.push(crate::dag::apply_bin(&mut ctx, b, x, k)); roots.push(crate::dag::apply_bin(&mut ctx, b, k, z)); }
    }
    // a second layer so that results feed further operations
    let n = roots.len();
    for _ in 0..6 { let a = roots[r.below(n)]; let b2 = roots[r.below(n)]; let op = *r.pick(&crate::wire::BOPS); if op != fidget_core::context::BinaryOpcode::Mix { roots.push(crate::dag::apply_bin(&mut ctx, op, a, b2)); } }
    Dag { ctx, roots, vs: vec![] }
}

pub fn gen_box_c03(r: &mut Rng, nvars: usize) -> Vec<(f32, f32)> {
    if r.chance(0.12) { return gen_edge_box(r, nvars); }
    let mode = r.below(5);
    (0..nvars).map(|_| {
        let a = match mode { 0 => gen_tame(r), 1 => gen_f32(r, 0.1), 4 => gen_tame(r) * *r.pick(&[1e18f32, 1e30, 3e38, 1e-30, 1.0]), _ => gen_tame(r) * *r.pick(&[1.0f32, 1.0, 10.0, 1e3, 1e-3]) };
        let a = if a.is_finite() { a } else { 1.0 };
        let (l, u) = match r.below(6) {
            0 => (a, a),
            1 => (a, a + (r.unit() * 1e-3) as f32),
            2 => { let w = (r.unit() * 7.0) as f32; (a - w, a + w) }
            3 => { let b = gen_tame(r); (a.min(b), a.max(b)) }
            4 => (-a.abs(), a.abs()),
            _ => (a, a + (r.unit() * 1.5) as f32),
        };
        if l <= u && l.is_finite() && u.is_finite() { (l, u) } else { (a, a) }
    }).collect()
}

/// Inputs of the known findings, run first on every check.
fn c03_corpus() -> Vec<(Dag, Vec<(f32, f32)>, Vec<Vec<f32>>, bool)> {
    use fidget_core::context::Context;
    let mut out = vec![];
    {   // D9: a NaN point operand behind a non-NaN interval, un-NaN'ed by `and`
        let mut ctx = Context::new();
        let x = ctx.x(); let y = ctx.y();
        let yy = ctx.mul(y, y).unwrap();
        let p = ctx.mul(x, yy).unwrap();
        let m = ctx.min(p, 0.0).unwrap();
        let a = ctx.and(m, 5.0).unwrap();
        out.push((Dag { ctx, roots: vec![a], vs: vec![] }, vec![(0.0, 1.0), (1e30, 1e30), (0.0, 0.0)],
                  vec![vec![0.0, 1e30, 0.0], vec![1.0, 1e30, 0.0]], true));
    }
    {   // hash opcodes distinguish the two zeros, interval arithmetic does not
        let mut ctx = Context::new();
        let x = ctx.x(); let zz = ctx.z();
        let z = ctx.mul(x, zz).unwrap();
        let m = ctx.mix(z, 1.0).unwrap();
        let r = ctx.rand(z).unwrap();
        let s = ctx.add(m, r).unwrap();
        out.push((Dag { ctx, roots: vec![s], vs: vec![] }, vec![(-1.0, 1.0), (0.0, 0.0), (0.0, 0.0)],
                  vec![vec![-0.5, 0.0, 0.0], vec![0.5, 0.0, 0.0], vec![0.0, 0.0, 0.0], vec![-1.0, 0.0, -0.0]], false));
    }
    out
}

pub fn run(seed: u64, count: usize, outdir: &str) -> std::io::Result<i32> {
    let mut rng = Rng::new(seed ^ 0xC03);
    let (mut cases, mut impls, mut oracle) = (String::new(), String::new(), String::new());
    let mut fails = 0usize;
    let mut distinct = std::collections::HashSet::new();
    let mut samples_out: Vec<String> = vec![];
    let mut ops_seen: BTreeMap<String, usize> = BTreeMap::new();
    let mut local_checks = 0usize;
    let mut node_point_checks = 0usize;
    let mut corpus = c03_corpus();
    corpus.reverse();
    for ci in 0..count {
        let mut r = rng.fork();
        let from_corpus = corpus.pop();
        let cfg = DagCfg { max_ops: *r.pick(&[3, 8, 20, 40]), max_outputs: 1, max_free_vars: *r.pick(&[0, 0, 2]),
            p_recent: *r.pick(&[0.3, 0.7]), p_const_operand: *r.pick(&[0.15, 0.35]), p_special_const: *r.pick(&[0.02, 0.15]),
            choice_heavy: false, no_hash: !r.chance(0.15), const_roots: false, choice_chain: 0 };
        let diffed = cfg.no_hash;
        let dag = gen_dag(&mut r, &cfg);
        // every eighth case: the per-opcode sweep over rounding-sensitive bounds
        let sweep = from_corpus.is_none() && ci % 8 == 3;
        let (dag, diffed) = if sweep { (sweep_dag(&mut r), true) } else { (dag, diffed) };
        let (dag, fixed_box, fixed_samples, diffed) = match from_corpus {
            Some((d, b, s, df)) => (d, Some(b), Some(s), df),
            None => (dag, None, None, diffed),
        };
        let roots = all_nodes(&dag, if sweep { 96 } else { 48 });
        let d2 = Dag { ctx: dag.ctx, roots: roots.clone(), vs: dag.vs };
        let dag = d2;
        for n in &roots { *ops_seen.entry(op_name(&dag, *n)).or_default() += 1; }
        let nvars = 3 + dag.vs.len();
        let bx = fixed_box.unwrap_or_else(|| if sweep { gen_edge_box(&mut r, nvars) } else { gen_box_c03(&mut r, nvars) });
        let samples = fixed_samples.unwrap_or_else(|| sample_box(&mut r, &bx, 8));
        // ---- implementation: interpreter interval results for the model diff
        let vm = GenericVmFunction::<255>::new(&dag.ctx, &dag.roots).unwrap();
        let mut text = String::from("iv");
        // atan2 met with both argument intervals exactly zero: the case the property leaves out.  Its result depends on
        // the signs of the zeros, which `f32::min` / `max` of two zeros (unspecified in Rust) decide: not compared.
        let diffed = diffed && match interval_eval(&vm, &dag.vs, &bx) {
            Ok((o, _)) => { let pos: std::collections::HashMap<usize, usize> = dag.roots.iter().enumerate().map(|(k, n)| (n.verif_index(), k)).collect();
                // (also when only a BOUND of an argument interval is a zero: atan2 jumps by 2 pi with the sign of a zero first argument,
                //  and the sign of a zero bound is what f32::min / max of two zeros - unspecified in Rust - made it)
                let zero = |c: &Node| match dag.ctx.get_op(*c) { Some(Op::Const(k)) => k.0 == 0.0, _ => pos.get(&c.verif_index()).map(|j| o[*j].lower() == 0.0 || o[*j].upper() == 0.0).unwrap_or(true) };
                !(0..dag.ctx.len()).any(|i| matches!(dag.ctx.get_op(Node::verif_new(i)), Some(Op::Binary(BinaryOpcode::Atan, l, r)) if zero(l) || zero(r))) }
            Err(_) => true };
        if !diffed { text.push_str(" x"); } else {
        match interval_eval(&vm, &dag.vs, &bx) {
            Ok((o, _)) => for i in &o { write!(text, " {}", fmt_interval(i)).unwrap(); },
            Err(_) => text.push_str(" panic"),
        } }
        // transform variant on the last root
        let mat = gen_matrix(&mut r);
        let last = *roots.last().unwrap();
        let (ti, tbad) = transform_oracle::<GenericVmFunction<255>>(&dag, last, &bx, &samples, &mat, "vm");
        if !diffed { text.push_str(" | tv x"); } else {
        match &ti { Some(i) => write!(text, " | tv {}", fmt_interval(i)).unwrap(), None => text.push_str(" | tv none") } }
        impls.push_str(&text); impls.push('\n');
        // ---- case line
        let mut line = format!("c03 {} {}", fmt_arena(&dag.ctx, &dag.vs), dag.roots.len());
        for rt in &dag.roots { write!(line, " {}", rt.verif_index()).unwrap(); }
        write!(line, " {nvars}").unwrap();
        for (l, u) in &bx { write!(line, " {} {}", canon_bits(*l), canon_bits(*u)).unwrap(); }
        write!(line, " {} {}", diffed as u8, if dag.vs.is_empty() { 1 } else { 0 }).unwrap();
        for i in 0..4 { for j in 0..4 { write!(line, " {}", canon_bits(mat[(i, j)])).unwrap(); } }
        cases.push_str(&line); cases.push('\n');
        // ---- oracle
        let mut bad = enclosure_oracle(&vm, &dag, &roots, &bx, &samples, "vm", &mut local_checks);
        let jit = JitFunction::new(&dag.ctx, &dag.roots).unwrap();
        bad.extend(enclosure_oracle(&jit, &dag, &roots, &bx, &samples, "jit", &mut local_checks));
        bad.extend(tbad);
        let (_, jbad) = transform_oracle::<JitFunction>(&dag, last, &bx, &samples, &mat, "jit");
        bad.extend(jbad);
        node_point_checks += 2 * roots.len() * samples.len();
        for b in &bad { fails += 1; writeln!(oracle, "FAIL case={ci} {b}").unwrap(); }
        if roots.len() > 2 { distinct.insert(fmt_arena(&dag.ctx, &dag.vs)); }
        if samples_out.len() < 2 && roots.len() >= 3 && roots.len() <= 6 { samples_out.push(format!("box={bx:?} {text}")); }
        let _ = fmt_bits;
    }
    std::fs::write(format!("{outdir}/cases.txt"), cases)?;
    std::fs::write(format!("{outdir}/impl.txt"), impls)?;
    std::fs::write(format!("{outdir}/oracle.txt"), oracle)?;
    let mut js = String::from("{");
    write!(js, "\"cases\": {count}, \"distinct_nontrivial\": {}, \"node_point_checks\": {node_point_checks}, \"suspect_checks\": {local_checks}, ", distinct.len()).unwrap();
    write!(js, "\"ops_exported\": {{{}}}, ", ops_seen.iter().map(|(k, v)| format!("\"{k}\": {v}")).collect::<Vec<_>>().join(", ")).unwrap();
    write!(js, "\"samples\": [{}], ", samples_out.iter().map(|s| format!("{s:?}")).collect::<Vec<_>>().join(", ")).unwrap();
    write!(js, "\"oracle_fails\": {fails}}}").unwrap();
    std::fs::write(format!("{outdir}/stats.json"), js)?;
    Ok(if fails > 0 { 1 } else { 0 })
}
