mod rng;
mod wire;
mod dag;
mod refeval;
mod c01;
mod c02;
mod c03;
mod c04;
mod c05;
mod c06;
mod c07;
mod c08;
mod c09;
mod c10;
mod shapegen;
mod c11;
mod c12;
mod c14;
mod c15;
mod c16;
mod c17;
mod c18;
mod c19;
mod c20;

fn main() {
    // silence panic messages from catch_unwind'ed implementation panics
    if std::env::var("FV_PANIC").is_err() { std::panic::set_hook(Box::new(|_| {})); }
    let args: Vec<String> = std::env::args().collect();
    let cmd = args.get(1).map(|s| s.as_str()).unwrap_or("");
    let seed: u64 = args.get(2).and_then(|s| s.parse().ok()).unwrap_or(1);
    let count: usize = args.get(3).and_then(|s| s.parse().ok()).unwrap_or(100);
    let outdir = args.get(4).cloned().unwrap_or_else(|| ".".into());
    let budgets: Vec<usize> = args.get(5).and_then(|s| s.split(',').map(|x| x.parse().ok()).collect())
        .unwrap_or_else(|| vec![1, 2, 3, 4, 6, 255]);
    let rc = match cmd {
        "c01" => c01::run(seed, count, &outdir, &budgets).unwrap(),
        "c11" => c11::run(seed, count, &outdir).unwrap(),
        "c11-chunk" => { let lo = count; let hi: usize = outdir.parse().unwrap(); c11::run_chunk(seed, lo, hi); 0 }
        "c05" => c05::run(seed, count, &outdir).unwrap(),
        "c06" => c06::run(seed, count, &outdir).unwrap(),
        "c07" => c07::run(seed, count, &outdir).unwrap(),
        "c08" => c08::run(seed, count, &outdir).unwrap(),
        "c09" => c09::run(seed, count, &outdir).unwrap(),
        "c10" => c10::run(seed, count, &outdir).unwrap(),
        "c12" => c12::run(seed, count, &outdir, "c12").unwrap(),
        "c13" => c12::run(seed, count, &outdir, "c13").unwrap(),
        "c12-deep" => c12::deep_child(),
        "c17" => c17::run(seed, count, &outdir).unwrap(),
        "c18" => c18::run(seed, count, &outdir).unwrap(),
        "c19" => c19::run(seed, count, &outdir).unwrap(),
        "c16" => c16::run(seed, count, &outdir).unwrap(),
        "c14" => c14::run(seed, count, &outdir).unwrap(),
        "c15" => c15::run(seed, count, &outdir).unwrap(),
        "c20" => c20::run(seed, count, &outdir).unwrap(),
        "c02" => c02::run(seed, count, &outdir).unwrap(),
        "c02-chunk" => { let lo = count; let hi: usize = outdir.parse().unwrap(); c02::run_chunk(seed, lo, hi); 0 }
        "c03" => c03::run(seed, count, &outdir).unwrap(),
        "c04-demo" => { c04::demo(); 0 }
        "c08-demo" => { c08::demo(); 0 }
        "c05-demo" => { c05::demo(); 0 }
        "c04" => c04::run(seed, count, &outdir, args.get(5).map(|s| s == "jit").unwrap_or(false)).unwrap(),
        _ => { eprintln!("usage: fv <cmd> <seed> <count> <outdir> [budgets]"); 2 }
    };
    std::process::exit(rc);
}
