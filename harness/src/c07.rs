//! C07: 3D rendering equals the brute-force heightmap of the shape.
//! Random 3D CSG shapes and expressions, voxel grids 1..40 per axis (width != height != depth,
//! not multiples of the root tile), random valid tile-size lists, view transforms, interpreter
//! and JIT, with and without thread pools.  The oracle evaluates every voxel of every column
//! operation by operation and compares depth; normals are compared with the gradient
//! evaluator at the hit voxel.
use crate::c06::gen_tiles;
use crate::refeval::*;
use crate::rng::*;
use crate::shapegen::*;
use fidget_core::eval::{Function, MathFunction};
use fidget_core::render::{ThreadPool, TileSizes, VoxelSize};
use fidget_core::shape::Shape;
use fidget_core::types::Grad;
use fidget_core::var::Var;
use fidget_core::vm::VmFunction;
use fidget_jit::JitFunction;
use fidget_raster::voxel::{render, EvalConfig, GeometryPixel, RenderConfig};
use nalgebra::{Matrix4, Point3, Vector3};
use std::collections::{BTreeMap, BTreeSet};
use std::fmt::Write as _;
use std::panic::{catch_unwind, AssertUnwindSafe};

pub fn gen_mat4(r: &mut Rng) -> Matrix4<f32> {
    // a perspective camera (bottom row with a z term), as the CLI and the benchmarks use
    if r.chance(0.15) { let mut m = Matrix4::identity(); m[(3, 2)] = *r.pick(&[0.3f32, 0.1, -0.2]); if r.chance(0.5) { m = m * Matrix4::new_scaling(1.2); } return m; }
    if r.chance(0.15) { let mut m = Matrix4::identity(); if r.chance(0.5) { m = Matrix4::from_euler_angles(r.unit() as f32 * 3.0, r.unit() as f32 * 3.0, r.unit() as f32 * 3.0); } m[(3, 3)] = *r.pick(&[2.0f32, 0.5, 1.6, 3.0]); return m; }
    match r.below(4) {
        0 => Matrix4::identity(),
        1 => Matrix4::new_scaling(*r.pick(&[0.5f32, 2.0, 1.5, 0.75])),
        2 => Matrix4::new_translation(&Vector3::new(gen_tame(r) * 0.2, gen_tame(r) * 0.2, gen_tame(r) * 0.2)) * Matrix4::new_scaling(1.0 + r.unit() as f32),
        _ => Matrix4::from_euler_angles(r.unit() as f32 * 3.0, r.unit() as f32 * 3.0, r.unit() as f32 * 3.0) * Matrix4::new_scaling(0.7 + r.unit() as f32),
    }
}

pub struct Cfg3 { pub w: u32, pub h: u32, pub d: u32, pub tiles: Vec<usize>, pub mat: Matrix4<f32>, pub threads: usize }

pub fn render3<F: Function + MathFunction + fidget_core::render::RenderHints>(g: &GenShape, c: &Cfg3) -> Option<Vec<GeometryPixel>> {
    let shape = Shape::<F>::new(&g.ctx, g.root).unwrap();
    let rc = RenderConfig { image_size: VoxelSize::new(c.w, c.h, c.d), world_to_model: c.mat };
    let pool;
    let threads = match c.threads { 0 => None, 1 => Some(&ThreadPool::Global),
        n => { pool = ThreadPool::Custom(rayon::ThreadPoolBuilder::new().num_threads(n - 1).build().unwrap()); Some(&pool) } };
    let ec = EvalConfig { tile_sizes: Some(TileSizes::new(&c.tiles).unwrap()), threads, cancel: Default::default() };
    let img = render(shape.try_into().ok()?, &rc, &ec)?;
    let mut out = vec![];
    for y in 0..c.h as usize { for x in 0..c.w as usize { out.push(img[(y, x)]); } }
    Some(out)
}

pub fn run(seed: u64, count: usize, outdir: &str) -> std::io::Result<i32> {
    let mut rng = Rng::new(seed ^ 0xC07);
    let (mut cases, mut impls, mut oracle) = (String::new(), String::new(), String::new());
    let mut fails = 0usize;
    let mut hist: BTreeMap<String, usize> = BTreeMap::new();
    let mut distinct = BTreeSet::new();
    let (mut ncols, mut nskip_top, mut nnear, mut nnormals, mut nsurface) = (0usize, 0usize, 0usize, 0usize, 0usize);
    let mut nmodel = 0usize;
    for ci in 0..count {
        let mut r = rng.fork();
        let mut g = if r.chance(0.7) { gen_csg(&mut r, true, false) } else { gen_expr(&mut r) };
        // sometimes the same solid written as -max(-s, 0): exactly -0.0 everywhere outside (a zero is not inside)
        if r.chance(0.15) { let a = g.ctx.neg(g.root).unwrap(); let b = g.ctx.max(a, 0.0).unwrap(); g.root = g.ctx.neg(b).unwrap(); g.kind = "negative-zero-outside"; }
        let c = Cfg3 { w: r.range(1, 40) as u32, h: r.range(1, 40) as u32, d: r.range(1, 40) as u32, tiles: { let mut t = gen_tiles(&mut r); while t[0] > 64 || t.last().unwrap().pow(3) > 4096 { t = gen_tiles(&mut r); } t },
                       mat: gen_mat4(&mut r), threads: *r.pick(&[0usize, 0, 1, 2, 3, 5]) };
        let line = format!("c07 kind={} nodes={} {}x{}x{} tiles={:?} threads={} mat={:?}", g.kind, g.ctx.len(), c.w, c.h, c.d, c.tiles, c.threads, c.mat.as_slice());
        distinct.insert(line.clone());
        *hist.entry(g.kind.into()).or_default() += 1;
        *hist.entry(format!("tile-levels={}", c.tiles.len())).or_default() += 1;
        *hist.entry(match c.threads { 0 => "no-pool", 1 => "global-pool", _ => "custom-pool" }.into()).or_default() += 1;
        if c.d as usize % c.tiles[0] != 0 { *hist.entry("depth-not-multiple-of-root-tile".into()).or_default() += 1; }
        let mut bad: Vec<String> = vec![];
        let vm = catch_unwind(AssertUnwindSafe(|| render3::<VmFunction>(&g, &c)));
        let jit = catch_unwind(AssertUnwindSafe(|| render3::<JitFunction>(&g, &c)));
        let m4 = c.mat * VoxelSize::new(c.w, c.h, c.d).screen_to_world();
        // brute force: per column the values of every voxel up to one root tile above the grid
        let t0 = c.tiles[0];
        // TileSizesRef::new trims the list for small images; the margin uses the largest size to be safe
        let ztop = (c.d as usize).div_ceil(t0) * t0 + 1;
        let (w, h) = (c.w as usize, c.h as usize);
        let mut want: Vec<Option<u32>> = vec![None; w * h]; // None: outside the claim
        let mut near: Vec<bool> = vec![false; w * h];
        for y in 0..h { for x in 0..w {
            let mut top: u32 = 0; let mut excluded = false; let mut nearz = false;
            for z in 0..ztop {
                let p = m4.transform_point(&Point3::new(x as f32, y as f32, z as f32));
                let mut orc = Oracle::default();
                let vals = eval_arena(&g.ctx, &|v: Var| match v { Var::X => p.x, Var::Y => p.y, Var::Z => p.z, _ => f32::NAN }, &mut orc);
                if vals.iter().any(|v| v.is_nan()) || orc.zero_tie || orc.atan00 || orc.atan_y_zero || orc.abs_of_neg_zero { excluded = true; break; }
                let v = vals[g.root.verif_index()];
                let scale = vals.iter().fold(1.0f32, |a, b| a.max(b.abs()));
                if v != 0.0 && v.abs() <= 1e-4 * scale { nearz = true; }   // an exact zero is simply not negative
                if v < 0.0 { if z < c.d as usize { top = z as u32 + 1; } else { excluded = true; } }
            }
            ncols += 1;
            if excluded { nskip_top += 1; } else { want[y * w + x] = Some(top); }
            near[y * w + x] = nearz;
        } }
        let mut il = String::new();
        for (name, res) in [("vm", &vm), ("jit", &jit)] {
            let img = match res { Ok(Some(i)) => i, Ok(None) => { bad.push(format!("kind=no-image backend={name}")); continue; }
                                  Err(_) => { bad.push(format!("kind=panic backend={name} render panicked")); continue; } };
            let (mut nbad, mut first) = (0usize, None);
            let mut surf: Vec<(usize, usize, u32)> = vec![];
            for y in 0..h { for x in 0..w {
                let px = img[y * w + x];
                if px.depth > c.d { nbad += 1; if first.is_none() { first = Some(format!("pixel ({x}, {y}): depth {} exceeds the grid depth {}", px.depth, c.d)); } continue; }
                if let Some(wd) = want[y * w + x] {
                    if px.depth != wd {
                        if near[y * w + x] { nnear += 1; } else { nbad += 1; if first.is_none() { first = Some(format!("pixel ({x}, {y}): depth {} but the highest negative voxel gives {wd}", px.depth)); } }
                    } else if wd > 0 && wd < c.d && !near[y * w + x] { surf.push((x, y, wd - 1)); }
                }
            } }
            if nbad > 0 { bad.push(format!("kind=wrong-depth backend={name} {nbad} pixels; first {}", first.unwrap())); }
            // normals at surface pixels: the gradient evaluator at the hit voxel (screen coordinates seeded)
            if !surf.is_empty() {
                nsurface += surf.len();
                let shape = Shape::<VmFunction>::new(&g.ctx, g.root).unwrap();
                let tape = shape.grad_slice_tape(Default::default());
                let mut e = Shape::<VmFunction>::new_grad_slice_eval();
                let xs: Vec<Grad> = surf.iter().map(|s| Grad::new(s.0 as f32, 1.0, 0.0, 0.0)).collect();
                let ys: Vec<Grad> = surf.iter().map(|s| Grad::new(s.1 as f32, 0.0, 1.0, 0.0)).collect();
                let zs: Vec<Grad> = surf.iter().map(|s| Grad::new(s.2 as f32, 0.0, 0.0, 1.0)).collect();
                let gs = e.eval_with_transform(&tape, &xs, &ys, &zs, &m4).unwrap().to_vec();
                let (mut nb, mut firstn) = (0usize, None);
                for (k, s) in surf.iter().enumerate() {
                    // a min / max of two equal operands at the hit voxel: the value is fixed, the gradient is either operand's (and the
                    // renderer takes it from a simplified tape); such a voxel has no single reference normal
                    { let q = m4.transform_point(&Point3::new(s.0 as f32, s.1 as f32, s.2 as f32)); let mut orc = Oracle::default();
                      let _ = eval_arena(&g.ctx, &|v: Var| match v { Var::X => q.x, Var::Y => q.y, Var::Z => q.z, _ => f32::NAN }, &mut orc);
                      if orc.minmax_tie || orc.zero_tie || orc.atan00 || orc.abs_of_neg_zero { continue; } }
                    let n = img[s.1 * w + s.0].normal; let gk = gs[k];
                    let want = [gk.dx, gk.dy, gk.dz];
                    // (a gradient with a NaN or infinite component: not a point of differentiability)
                    if want.iter().any(|v| !v.is_finite()) { continue; }
                    let mag = want.iter().fold(1.0f32, |a, b| a.max(b.abs()));
                    let ok = (0..3).all(|i| n[i] == want[i] /* also equal infinities */ || (n[i] - want[i]).abs() <= 2e-3 * mag || (n[i].is_nan() && want[i].is_nan()));
                    nnormals += 1;
                    if !ok { nb += 1; if firstn.is_none() { firstn = Some(format!("pixel ({}, {}) voxel {}: normal {:?} gradient {:?}", s.0, s.1, s.2, n, want)); } }
                }
                // min/max ties on the surface make the gradient ambiguous at isolated voxels: only systematic disagreement counts
                if nb >= 8 && nb * 10 > surf.len() { bad.push(format!("kind=wrong-normal backend={name} {nb} of {} surface pixels; first {}", surf.len(), firstn.unwrap())); }
            }
            if name == "vm" {
                il.push_str("img");
                let cb = |v: f32| if v.is_nan() { 0x7fc00000 } else if v == 0.0 { 0 } else { v.to_bits() };
                for px in img.iter() { write!(il, " {}:{},{},{}", px.depth, cb(px.normal[0]), cb(px.normal[1]), cb(px.normal[2])).unwrap(); }
            }
        }
        if il.is_empty() { il.push_str("no-image"); }
        let root_tile = { let m = c.w.max(c.h) as usize; let i = c.tiles.iter().position(|t| *t < m).unwrap_or(c.tiles.len()).saturating_sub(1); c.tiles[i] };
        let small = (c.w as usize) * (c.h as usize) * (c.d as usize) <= 12000 && g.ctx.len() <= 120 && root_tile <= 32;
        if small {
            let mut wl = format!("c07 {} {}", crate::wire::fmt_arena(&g.ctx, &[]), g.root.verif_index());
            for i in 0..4 { for j in 0..4 { write!(wl, " {}", canon_bits(m4[(i, j)])).unwrap(); } }
            write!(wl, " {}", c.tiles.len()).unwrap();
            for t in &c.tiles { write!(wl, " {t}").unwrap(); }
            write!(wl, " {} {} {}", c.w, c.h, c.d).unwrap();
            cases.push_str(&wl); cases.push('\n');
            impls.push_str(&il); impls.push('\n');
            nmodel += 1;
        }
        for m in &bad { fails += 1; writeln!(oracle, "FAIL case={ci} {m} :: {line}").unwrap(); }
    }
    std::fs::write(format!("{outdir}/cases.txt"), cases)?;
    std::fs::write(format!("{outdir}/impl.txt"), impls)?;
    std::fs::write(format!("{outdir}/oracle.txt"), oracle)?;
    let mut js = String::from("{");
    write!(js, "\"cases\": {count}, \"distinct_nontrivial\": {}, \"columns\": {ncols}, \"columns_outside_claim\": {nskip_top}, \"mismatch_within_rounding_of_zero\": {nnear}, \"surface_pixels\": {nsurface}, \"normals_checked\": {nnormals}, \"images_replayed_by_the_model\": {nmodel}, ", distinct.len()).unwrap();
    write!(js, "\"mix\": {{{}}}, ", hist.iter().map(|(k, v)| format!("\"{k}\": {v}")).collect::<Vec<_>>().join(", ")).unwrap();
    write!(js, "\"oracle_fails\": {fails}}}").unwrap();
    std::fs::write(format!("{outdir}/stats.json"), js)?;
    Ok(if fails > 0 { 1 } else { 0 })
}
