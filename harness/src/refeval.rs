//! The harness's own operation-by-operation f32 evaluator over the arena.  It
//! records every libm / rem_euclid call (the oracle table handed to the Coq
//! model) and whether a NaN reached a bit-hashing opcode (rand/mix), in which
//! case NaN payload bits — which the model does not carry — could matter.
use fidget_core::context::{BinaryOpcode, Context, Node, Op, UnaryOpcode};
use fidget_core::types::FloatExt;
use fidget_core::var::Var;
use crate::rng::canon_bits;
use std::collections::BTreeMap;

#[derive(Default)]
pub struct Oracle {
    /// (fn id, a bits, b bits) -> result bits
    pub table: BTreeMap<(u64, u32, u32), u32>,
    pub tainted: bool,
    /// a zero reached rand / mix: its sign (which min / max of two zeros do not fix) feeds the hash
    pub zero_hashed: bool,
    /// evaluate abs as the gradient / interval evaluators do: `if v < 0 { -v } else { v }` (keeps -0.0)
    pub abs_keeps_neg_zero: bool,
    /// atan2 met with both arguments zero (the case C03 / C14 leave out)
    pub atan00: bool,
    /// atan2 met with a zero FIRST argument (the angle jumps by 2 pi with the sign of that zero when the second is negative)
    pub atan_y_zero: bool,
    /// a min / max / and / or picked between two zeros, or passed a zero on: the sign of the zero it returns is not fixed
    pub zero_tie: bool,
    /// a min / max met two EQUAL operands: the value is fixed but the gradient is either operand's
    pub minmax_tie: bool,
    /// abs met a negative zero (f32::abs gives +0, `if v < 0 { -v } else { v }` keeps -0)
    pub abs_of_neg_zero: bool,
}
impl Oracle {
    pub fn fmt(&self) -> String {
        let mut s = format!("{}", self.table.len());
        for ((f, a, b), r) in &self.table { s.push_str(&format!(" {f} {a} {b} {r}")); }
        s
    }
    fn log1(&mut self, id: u64, a: f32, r: f32) -> f32 {
        self.table.insert((id, canon_bits(a), 0), canon_bits(r)); r
    }
    fn log2(&mut self, id: u64, a: f32, b: f32, r: f32) -> f32 {
        self.table.insert((id, canon_bits(a), canon_bits(b)), canon_bits(r)); r
    }
    pub fn un(&mut self, u: UnaryOpcode, a: f32) -> f32 {
        use UnaryOpcode::*;
        match u {
            Neg => -a, Abs => { if a == 0.0 && a.is_sign_negative() { self.abs_of_neg_zero = true; } if self.abs_keeps_neg_zero { if a < 0.0 { -a } else { a } } else { a.abs() } }, Recip => 1.0 / a, Sqrt => a.sqrt(), Square => a * a,
            Floor => a.floor(), Ceil => a.ceil(), Round => a.round(),
            Sin => self.log1(0, a, a.sin()), Cos => self.log1(1, a, a.cos()), Tan => self.log1(2, a, a.tan()),
            Asin => self.log1(3, a, a.asin()), Acos => self.log1(4, a, a.acos()), Atan => self.log1(5, a, a.atan()),
            Exp => self.log1(6, a, a.exp()), Ln => self.log1(7, a, a.ln()),
            Not => if a == 0.0 { 1.0 } else { 0.0 },
            Rand => { if a.is_nan() { self.tainted = true; } if a == 0.0 { self.zero_hashed = true; } a.rand() }
        }
    }
    pub fn bin(&mut self, b: BinaryOpcode, x: f32, y: f32) -> f32 {
        use BinaryOpcode::*;
        match b {
            Add => x + y, Sub => x - y, Mul => x * y, Div => x / y,
            Atan => { if x == 0.0 && y == 0.0 { self.atan00 = true; } if x == 0.0 { self.atan_y_zero = true; } self.log2(8, x, y, x.atan2(y)) }
            Min | Max if x == 0.0 && y == 0.0 => { self.minmax_tie = true; if x.is_sign_negative() != y.is_sign_negative() { self.zero_tie = true; } if (b == Min) == x.is_sign_negative() { x } else { y } }
            Min | Max if x == y => { self.minmax_tie = true; x }
            Min => if x < y { x } else if y < x { y } else if x.is_nan() || y.is_nan() { f32::NAN } else if x.is_sign_negative() { x } else { y },
            Max => if x > y { x } else if y > x { y } else if x.is_nan() || y.is_nan() { f32::NAN } else if x.is_sign_positive() { x } else { y },
            Compare => match x.partial_cmp(&y) { Some(c) => c as i8 as f32, None => f32::NAN },
            Mod => self.log2(9, x, y, x.rem_euclid(y)),
            And => if x == 0.0 { x } else { y },
            Or => if x != 0.0 { x } else { y },
            Mix => { if x.is_nan() || y.is_nan() { self.tainted = true; } if x == 0.0 || y == 0.0 { self.zero_hashed = true; }
                     let r = x.mix(y); if r.is_nan() { /* result payload is arbitrary */ } r }
        }
    }
}

/// Evaluates every node of the arena in index order.
pub fn eval_arena(ctx: &Context, env: &dyn Fn(Var) -> f32, orc: &mut Oracle) -> Vec<f32> {
    let n = ctx.len();
    let mut vals: Vec<f32> = Vec::with_capacity(n);
    for i in 0..n {
        let v = match *ctx.get_op(Node::verif_new(i)).unwrap() {
            Op::Input(v) => env(v),
            Op::Const(c) => c.0,
            Op::Unary(u, a) => { let a = vals[a.verif_index()]; orc.un(u, a) }
            Op::Binary(b, l, r) => { let (l, r) = (vals[l.verif_index()], vals[r.verif_index()]); orc.bin(b, l, r) }
        };
        vals.push(v);
    }
    vals
}

/// Nodes whose value may legitimately differ between evaluators: a min / max of two zeros of opposite sign, and
/// everything computed from one.
pub fn zero_tie_taint(ctx: &Context, vals: &[f32]) -> Vec<bool> {
    let n = ctx.len();
    let mut t = vec![false; n];
    for i in 0..n {
        t[i] = match *ctx.get_op(Node::verif_new(i)).unwrap() {
            Op::Unary(_, a) => t[a.verif_index()],
            Op::Binary(b, l, r) => { let (li, ri) = (l.verif_index(), r.verif_index());
                t[li] || t[ri] || (matches!(b, BinaryOpcode::Min | BinaryOpcode::Max) && vals[li] == 0.0 && vals[ri] == 0.0 && vals[li].is_sign_negative() != vals[ri].is_sign_negative()) }
            _ => false,
        };
    }
    t
}
