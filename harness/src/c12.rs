//! C12 / C13: building expressions in a Context preserves their meaning; remapping a
//! tree's axes is substitution.
//!  (A) random sequences of constructor calls: returned nodes and the whole arena are
//!      compared with the Coq model of the Context (Ctx.v);
//!  (B) random Trees (all opcodes, special constants, shared subtrees, remap_xyz /
//!      remap_affine nested in any order): `Context::import` compared node-for-node with
//!      the model, and its value compared with an independent evaluation of the
//!      unrewritten tree (substitution semantics);
//!  (C) dedup, import(export(n)) = n, Eq/Hash coherence, 10^6-deep trees on a 256 KiB stack.
use crate::c01::fmt_bits;
use crate::dag::{apply_bin, apply_un};
use crate::rng::*;
use crate::wire::*;
use fidget_core::context::{BinaryOpcode, Context, Node, Tree, TreeOp, UnaryOpcode};
use fidget_core::types::FloatExt;
use fidget_core::var::Var;
use nalgebra::{Affine3, Matrix4};
use std::collections::hash_map::DefaultHasher;
use std::collections::{BTreeMap, HashMap};
use std::fmt::Write as _;
use std::hash::{Hash, Hasher};
use std::panic::{catch_unwind, AssertUnwindSafe};
use std::sync::Arc;

pub const CONSTS: &[f32] = &[0.0, -0.0, 1.0, -1.0, 2.0, 0.5, f32::INFINITY, f32::NAN, 1e-40, 3.0, -2.5, 1e30];

fn gen_const(r: &mut Rng) -> f32 { if r.chance(0.6) { *r.pick(CONSTS) } else { gen_tame(r) } }

// ---------------------------------------------------------------- (A) constructor sequences
fn ctor_sequence(r: &mut Rng) -> (String, String) {
    let mut ctx = Context::new();
    let mut nodes: Vec<usize> = vec![];
    let mut case = String::from("c12");
    let mut rets = String::from("ret");
    let n_calls = r.range(5, 70);
    let mut calls = 0;
    write!(case, " {n_calls}").unwrap();
    let vs: Vec<Var> = (0..3).map(|_| Var::new()).collect();
    while calls < n_calls {
        calls += 1;
        let pick_node = |r: &mut Rng, nodes: &Vec<usize>, len: usize| -> usize {
            if nodes.is_empty() || r.chance(0.03) { len + r.below(3) }            // out of range => BadNode
            else if r.chance(0.5) { nodes[nodes.len() - 1 - r.below(nodes.len().min(4))] }
            else if r.chance(0.5) { nodes[r.below(nodes.len())] } else { r.below(len.max(1)) }
        };
        let kind = if nodes.len() < 2 { r.below(2) } else { r.below(10) };
        let res: Result<Node, ()> = match kind {
            0 => { let v = r.below(6); write!(case, " 0 {v}").unwrap();
                   Ok(ctx.var(match v { 0 => Var::X, 1 => Var::Y, 2 => Var::Z, k => vs[k - 3] })) }
            1 => { let c = gen_const(r); write!(case, " 1 {}", canon_bits(c)).unwrap(); Ok(ctx.constant(if c.is_nan() { f32::NAN } else { c })) }
            2 | 3 => { let mut u = *r.pick(&UOPS); if u == UnaryOpcode::Rand { u = UnaryOpcode::Neg; } let a = pick_node(r, &nodes, ctx.len());
                   write!(case, " 2 {} {a}", uop_id(u)).unwrap();
                   catch_unwind(AssertUnwindSafe(|| unary_ctor(&mut ctx, u, Node::verif_new(a)))).unwrap_or(Err(())) }
            _ => { let mut b = *r.pick(&BOPS); if b == BinaryOpcode::Mix { b = BinaryOpcode::Add; } let a = pick_node(r, &nodes, ctx.len());
                   let bb = if r.chance(0.15) { a } else { pick_node(r, &nodes, ctx.len()) };
                   write!(case, " 3 {} {a} {bb}", bop_id(b)).unwrap();
                   catch_unwind(AssertUnwindSafe(|| binary_ctor(&mut ctx, b, Node::verif_new(a), Node::verif_new(bb)))).unwrap_or(Err(())) }
        };
        match res { Ok(n) => { nodes.push(n.verif_index()); write!(rets, " {}", n.verif_index()).unwrap(); } Err(()) => rets.push_str(" bad") }
    }
    let vsl: Vec<Var> = vs.clone();
    (case, format!("{rets} | arena {}", fmt_arena(&ctx, &vsl)))
}

fn unary_ctor(ctx: &mut Context, u: UnaryOpcode, a: Node) -> Result<Node, ()> {
    use UnaryOpcode::*;
    match u { Neg => ctx.neg(a), Abs => ctx.abs(a), Recip => ctx.recip(a), Sqrt => ctx.sqrt(a), Square => ctx.square(a),
        Floor => ctx.floor(a), Ceil => ctx.ceil(a), Round => ctx.round(a), Sin => ctx.sin(a), Cos => ctx.cos(a), Tan => ctx.tan(a),
        Asin => ctx.asin(a), Acos => ctx.acos(a), Atan => ctx.atan(a), Exp => ctx.exp(a), Ln => ctx.ln(a), Not => ctx.not(a), Rand => ctx.rand(a) }.map_err(|_| ())
}
fn binary_ctor(ctx: &mut Context, b: BinaryOpcode, l: Node, r: Node) -> Result<Node, ()> {
    use BinaryOpcode::*;
    match b { Add => ctx.add(l, r), Sub => ctx.sub(l, r), Mul => ctx.mul(l, r), Div => ctx.div(l, r), Atan => ctx.atan2(l, r),
        Min => ctx.min(l, r), Max => ctx.max(l, r), Compare => ctx.compare(l, r), Mod => ctx.modulo(l, r), And => ctx.and(l, r),
        Or => ctx.or(l, r), Mix => ctx.mix(l, r) }.map_err(|_| ())
}

// ---------------------------------------------------------------- (B) trees
fn tree_un(t: &Tree, u: UnaryOpcode) -> Tree {
    use UnaryOpcode::*;
    match u { Neg => t.neg(), Abs => t.abs(), Recip => t.recip(), Sqrt => t.sqrt(), Square => t.square(), Floor => t.floor(),
        Ceil => t.ceil(), Round => t.round(), Sin => t.sin(), Cos => t.cos(), Tan => t.tan(), Asin => t.asin(), Acos => t.acos(),
        Atan => t.atan(), Exp => t.exp(), Ln => t.ln(), Not => t.not(), Rand => t.rand() }
}
fn tree_bin(a: &Tree, b: BinaryOpcode, c: Tree) -> Tree {
    use BinaryOpcode::*;
    match b { Add => a.clone() + c, Sub => a.clone() - c, Mul => a.clone() * c, Div => a.clone() / c, Atan => a.atan2(c), Min => a.min(c),
        Max => a.max(c), Compare => a.compare(c), Mod => a.modulo(c), And => a.and(c), Or => a.or(c), Mix => a.mix(c) }
}

pub struct TreeCfg { pub ops: usize, pub remaps: usize, pub tame: bool, pub hash_ops: bool }

pub fn gen_affine(r: &mut Rng) -> Affine3<f32> {
    let mut m = Matrix4::<f32>::identity();
    match r.below(6) {
        // tiny / huge scales and tiny rotations: products of two of them have genuine entries far below f32::EPSILON
        5 => { if r.chance(0.6) { for i in 0..3 { m[(i, i)] = *r.pick(&[1e-4f32, 1e-5, 3e-3, 1e4, 1e-8, -1e-4]); } m[(r.below(3), 3)] = gen_tame(r); }
               else { let a = *r.pick(&[5e-8f32, 1e-6, -3e-7]); let (s, c) = a.sin_cos(); m[(0, 0)] = c; m[(0, 1)] = -s; m[(1, 0)] = s; m[(1, 1)] = c; } }
        0 => for i in 0..3 { m[(i, 3)] = gen_tame(r); },
        1 => for i in 0..3 { m[(i, i)] = *r.pick(&[2.0f32, -1.0, 0.5, 3.0, 1.0]); m[(i, 3)] = gen_tame(r); },
        2 => { let a = gen_tame(r); let (s, c) = a.sin_cos(); m[(0, 0)] = c; m[(0, 1)] = -s; m[(1, 0)] = s; m[(1, 1)] = c; m[(2, 3)] = gen_tame(r); }
        3 => { for i in 0..3 { for j in 0..4 { if i != j { m[(i, j)] = if r.chance(0.5) { gen_tame(r) } else { 0.0 }; } } } }   // shear + translation, unit diagonal
        _ => for i in 0..3 { for j in 0..4 { m[(i, j)] = gen_tame(r); } },
    }
    Affine3::from_matrix_unchecked(m)
}

pub fn gen_tree(r: &mut Rng, cfg: &TreeCfg, vs: &[Var]) -> Tree {
    let mut pool: Vec<Tree> = vec![Tree::x(), Tree::y(), Tree::z()];
    for v in vs { pool.push(Tree::from(*v)); }
    let uops: Vec<UnaryOpcode> = UOPS.iter().cloned().filter(|u| cfg.hash_ops || *u != UnaryOpcode::Rand).collect();
    let bops: Vec<BinaryOpcode> = BOPS.iter().cloned().filter(|b| cfg.hash_ops || *b != BinaryOpcode::Mix).collect();
    let mut remaps_left = cfg.remaps;
    // a few matrices reused within the tree, so that a shared remapped part can be met again
    // under a frame equal to the one it produces (repeated placement steps)
    let mats: Vec<Affine3<f32>> = (0..2).map(|_| gen_affine(r)).collect();
    if cfg.remaps >= 2 && r.chance(0.35) {
        let base = tree_bin(&pool[r.below(3)], *r.pick(&[BinaryOpcode::Mul, BinaryOpcode::Add, BinaryOpcode::Max]), pool[r.below(3)].clone()).sqrt().abs();
        let m = mats[0];
        let part = base.remap_affine(m);
        let other = if r.chance(0.5) { base.clone() } else { pool[r.below(pool.len())].clone() };
        let pair = if r.chance(0.5) { tree_bin(&part, BinaryOpcode::Min, other) } else { tree_bin(&other, BinaryOpcode::Min, part.clone()) };
        let moved = if r.chance(0.7) { pair.remap_affine(if r.chance(0.8) { m } else { mats[1] }) } else { let (x, y, z) = Tree::axes(); pair.remap_xyz(x + 1.0, y, z) };
        let row = if r.chance(0.5) { tree_bin(&moved, *r.pick(&[BinaryOpcode::Min, BinaryOpcode::Max, BinaryOpcode::Sub]), part.clone()) } else { tree_bin(&part, *r.pick(&[BinaryOpcode::Min, BinaryOpcode::Max, BinaryOpcode::Sub]), moved) };
        pool.push(part); pool.push(row);
        remaps_left = remaps_left.saturating_sub(2);
    }
    for k in 0..cfg.ops {
        let pick = |r: &mut Rng, pool: &Vec<Tree>| -> Tree {
            if r.chance(0.25) { Tree::constant(if cfg.tame { gen_tame(r) } else { gen_const(r) }) }
            else if r.chance(0.6) { pool[pool.len() - 1 - r.below(pool.len().min(4))].clone() } else { pool[r.below(pool.len())].clone() }
        };
        let want_remap = remaps_left > 0 && (r.chance(0.25) || cfg.ops - k <= remaps_left);
        let t = if want_remap {
            remaps_left -= 1;
            let target = pick(r, &pool);
            if r.chance(0.5) { target.remap_xyz(pick(r, &pool), pick(r, &pool), pick(r, &pool)) }
            else {
                // exact identities too: Affine3::identity() itself, and a translation followed by its opposite
                // (the collapsed matrix is the identity exactly), whose frame equals the enclosing one
                if r.chance(0.12) {
                    let t1 = if r.chance(0.5) { target.remap_affine(Affine3::identity()) } else {
                        let mut m = Matrix4::<f32>::identity(); for i in 0..3 { m[(i, 3)] = gen_tame(r); }
                        let mut n = Matrix4::<f32>::identity(); for i in 0..3 { n[(i, 3)] = -m[(i, 3)]; }
                        target.remap_affine(Affine3::from_matrix_unchecked(m)).remap_affine(Affine3::from_matrix_unchecked(n)) };
                    let sib = pick(r, &pool);
                    if r.chance(0.5) { tree_bin(&t1, *r.pick(&[BinaryOpcode::Add, BinaryOpcode::Min, BinaryOpcode::Sub, BinaryOpcode::Mul]), sib) } else { t1 }
                } else {
                let t1 = target.remap_affine(if r.chance(0.4) { mats[r.below(2)] } else { gen_affine(r) });
                if r.chance(0.4) { t1.remap_affine(if r.chance(0.4) { mats[r.below(2)] } else { gen_affine(r) }) } else { t1 }   // consecutive affines collapse
                }
            }
        } else if r.chance(0.35) { let a = pick(r, &pool); tree_un(&a, *r.pick(&uops)) }
        else { let a = pick(r, &pool); let b = pick(r, &pool); tree_bin(&a, *r.pick(&bops), b) };
        pool.push(t);
    }
    pool.last().unwrap().clone()
}

/// Tree -> table (children before parents, shared nodes once), root index last
pub fn tree_table(t: &Tree, vs: &[Var]) -> (String, usize) {
    let mut ids: HashMap<*const TreeOp, usize> = HashMap::new();
    let mut rows: Vec<String> = vec![];
    fn go(t: &TreeOp, ids: &mut HashMap<*const TreeOp, usize>, rows: &mut Vec<String>, vs: &[Var]) -> usize {
        let p = t as *const TreeOp;
        if let Some(i) = ids.get(&p) { return *i; }
        let row = match t {
            TreeOp::Input(v) => format!("0 {}", var_id(*v, vs)),
            TreeOp::Const(c) => format!("1 {}", canon_bits(*c)),
            TreeOp::Unary(u, a) => { let a = go(a, ids, rows, vs); format!("2 {} {a}", uop_id(*u)) }
            TreeOp::Binary(b, l, r) => { let l = go(l, ids, rows, vs); let r = go(r, ids, rows, vs); format!("3 {} {l} {r}", bop_id(*b)) }
            TreeOp::RemapAxes { target, x, y, z } => {
                let (t, x, y, z) = (go(target, ids, rows, vs), go(x, ids, rows, vs), go(y, ids, rows, vs), go(z, ids, rows, vs));
                format!("4 {t} {x} {y} {z}") }
            TreeOp::RemapAffine { target, mat } => {
                let t = go(target, ids, rows, vs);
                let m = mat.to_homogeneous();
                let mut s = format!("5 {t}");
                // identity * M as Context::import computes it: a -0 entry becomes +0
                for i in 0..4 { for j in 0..4 { let v = m[(i, j)]; write!(s, " {}", canon_bits(if v == 0.0 { 0.0 } else { v })).unwrap(); } }
                s }
        };
        rows.push(row);
        ids.insert(p, rows.len() - 1);
        rows.len() - 1
    }
    let root = go(&**t, &mut ids, &mut rows, vs);
    (format!("{} {}", rows.len(), rows.join(" ")), root)
}


/// Independent evaluation of the UNREWRITTEN tree with substitution semantics.
/// Returns (value, all intermediates finite, some intermediate is a zero)
pub fn eval_tree(t: &TreeOp, axes: [f32; 3], vars: &HashMap<Var, f32>, fin: &mut bool, zero: &mut bool) -> f32 {
    let mut note = |v: f32| { if !v.is_finite() { *fin = false; } if v == 0.0 { *zero = true; } v };
    match t {
        TreeOp::Input(Var::X) => axes[0], TreeOp::Input(Var::Y) => axes[1], TreeOp::Input(Var::Z) => axes[2],
        TreeOp::Input(v) => vars[v],
        TreeOp::Const(c) => note(*c),
        TreeOp::Unary(u, a) => { let a = eval_tree(a, axes, vars, fin, zero); let v = u.eval(a); if !v.is_finite() { *fin = false; } if v == 0.0 { *zero = true; } v }
        TreeOp::Binary(b, l, r) => { let x = eval_tree(l, axes, vars, fin, zero); let y = eval_tree(r, axes, vars, fin, zero);
            let v = b.eval(x, y); if !v.is_finite() { *fin = false; } if v == 0.0 { *zero = true; } v }
        TreeOp::RemapAxes { target, x, y, z } => {
            let nx = eval_tree(x, axes, vars, fin, zero); let ny = eval_tree(y, axes, vars, fin, zero); let nz = eval_tree(z, axes, vars, fin, zero);
            eval_tree(target, [nx, ny, nz], vars, fin, zero) }
        TreeOp::RemapAffine { target, mat } => {
            let m = mat.to_homogeneous();
            let mut out = [0f32; 3];
            for i in 0..3 {
                let a = m[(i, 0)] * axes[0]; let b = m[(i, 1)] * axes[1]; let c = m[(i, 2)] * axes[2];
                out[i] = (a + b) + (c + m[(i, 3)]);
                for v in [a, b, c, out[i]] { if !v.is_finite() { *fin = false; } if v == 0.0 { *zero = true; } }
            }
            eval_tree(target, out, vars, fin, zero) }
    }
}

fn has_sign_observer(t: &TreeOp, depth: usize) -> bool {
    if depth > 200 { return true; }
    match t {
        TreeOp::Unary(UnaryOpcode::Rand, _) | TreeOp::Binary(BinaryOpcode::Mix, ..) | TreeOp::Binary(BinaryOpcode::Atan, ..) => true,
        TreeOp::Unary(UnaryOpcode::Recip, _) | TreeOp::Binary(BinaryOpcode::Div, ..) => true,   // 1/±0 (then not finite, but keep conservative)
        TreeOp::Unary(_, a) => has_sign_observer(a, depth + 1),
        TreeOp::Binary(_, l, r) => has_sign_observer(l, depth + 1) || has_sign_observer(r, depth + 1),
        TreeOp::RemapAxes { target, x, y, z } => [target, x, y, z].iter().any(|c| has_sign_observer(c, depth + 1)),
        TreeOp::RemapAffine { target, .. } => has_sign_observer(target, depth + 1),
        _ => false,
    }
}

pub struct TreeResult { pub case: String, pub impl_line: String, pub fails: Vec<String>, pub has_remap: bool, pub too_shared: bool }

/// Number of nodes of the tree with all sharing expanded (what a walk without a visited set costs)
fn expanded_size(t: &TreeOp, memo: &mut HashMap<*const TreeOp, f64>) -> f64 {
    let k = t as *const TreeOp;
    if let Some(v) = memo.get(&k) { return *v; }
    let v = 1.0 + match t {
        TreeOp::Input(_) | TreeOp::Const(_) => 0.0,
        TreeOp::Unary(_, a) => expanded_size(a, memo),
        TreeOp::Binary(_, l, r) => expanded_size(l, memo) + expanded_size(r, memo),
        TreeOp::RemapAxes { target, x, y, z } => expanded_size(target, memo) + expanded_size(x, memo) + expanded_size(y, memo) + expanded_size(z, memo),
        TreeOp::RemapAffine { target, .. } => expanded_size(target, memo),
    };
    memo.insert(k, v); v
}

pub fn tree_case(r: &mut Rng, cmd: &str, remaps: usize) -> TreeResult {
    let vs: Vec<Var> = (0..r.below(3)).map(|_| Var::new()).collect();
    let tame = remaps > 0 || r.chance(0.5);
    let cfg = TreeCfg { ops: r.range(2, 25), remaps, tame, hash_ops: false };
    let tree = gen_tree(r, &cfg, &vs);
    let (table, root) = tree_table(&tree, &vs);
    let mut fails = vec![];
    // ---- implementation: import into a fresh context
    let mut ctx = Context::new();
    let case = format!("{cmd} {table} {root}");
    // a panic inside import is a failing input of its own (the tree is the replay), not a harness crash
    let node = match std::panic::catch_unwind(std::panic::AssertUnwindSafe(|| ctx.import(&tree))) {
        Ok(n) => n,
        Err(e) => { let msg = e.downcast_ref::<String>().cloned().or_else(|| e.downcast_ref::<&str>().map(|s| s.to_string())).unwrap_or_default();
            fails.push(format!("kind=import-panic Context::import panicked: {}", msg.chars().take(160).collect::<String>()));
            return TreeResult { case, impl_line: "node ? | arena ?".into(), fails, has_remap: remaps > 0, too_shared: false }; }
    };
    let impl_line = format!("node {} | arena {}", node.verif_index(), fmt_arena(&ctx, &vs));
    // ---- (C) dedup and round trips
    let again = ctx.import(&tree);
    if again != node { fails.push(format!("kind=dedup importing the same tree twice gave nodes {} and {}", node.verif_index(), again.verif_index())); }
    let len_before = ctx.len();
    let exported = ctx.export(node).unwrap();
    let back = ctx.import(&exported);
    // Tree's Eq and Hash (and the walks below) visit a shared subtree once per use: on a tree whose expansion is huge
    // (x*x squared twenty times) they take 2^depth steps.  That is cost, not meaning: those trees keep the import /
    // export / dedup checks and leave the structural comparisons and the tree walk out.
    let too_shared = expanded_size(&*tree, &mut HashMap::new()).max(expanded_size(&*exported, &mut HashMap::new())) > 200_000.0;
    if back != node || ctx.len() != len_before { fails.push(format!("kind=import-export import(export(n)) gave node {} (n = {}), arena grew by {}", back.verif_index(), node.verif_index(), ctx.len() - len_before)); }
    // structurally equal trees are Eq and hash equally (rebuild an equal tree without sharing)
    let twin = ctx.export(node).unwrap();
    if too_shared { return TreeResult { case, impl_line, fails, has_remap: remaps > 0, too_shared }; }
    if exported != twin { fails.push("kind=tree-eq two exports of one node are not equal".into()); }
    let h = |t: &Tree| { let mut s = DefaultHasher::new(); t.hash(&mut s); s.finish() };
    if h(&exported) != h(&twin) { fails.push("kind=tree-hash structurally equal trees hash differently".into()); }
    // ... and sharing is unobservable: an equal tree rebuilt node by node with no shared subtree
    fn unshare(t: &TreeOp) -> Tree {
        match t {
            TreeOp::Input(v) => Tree::from(*v),
            TreeOp::Const(c) => Tree::constant(*c as f32),
            TreeOp::Unary(u, a) => tree_un(&unshare(a), *u),
            TreeOp::Binary(b, l, r) => tree_bin(&unshare(l), *b, unshare(r)),
            TreeOp::RemapAxes { target, x, y, z } => unshare(target).remap_xyz(unshare(x), unshare(y), unshare(z)),
            TreeOp::RemapAffine { target, mat } => unshare(target).remap_affine(*mat),
        }
    }
    for (name, a) in [("exported", &exported), ("built", &tree)] {
        let u = unshare(a);
        if *a != u { fails.push(format!("kind=tree-eq the {name} tree is not equal to its copy without sharing")); }
        else if h(a) != h(&u) { fails.push(format!("kind=tree-hash the {name} tree and its equal copy without sharing hash differently")); }
        else { let mut m: HashMap<Tree, u8> = HashMap::new(); m.insert(u, 1); if m.get(a) != Some(&1) { fails.push(format!("kind=tree-hash HashMap lookup of the {name} tree misses its equal key")); } }
    }
    // ---- meaning: node value vs the unrewritten tree evaluated operation by operation
    for _ in 0..4 {
        let mut p = [gen_tame(r) + 0.0137, gen_tame(r) - 0.0071, gen_tame(r) + 0.0213];
        // sometimes tiny magnitudes: products underflow (finite), where algebraic shortcuts stop being exact
        if r.chance(0.2) { let k = *r.pick(&[1e-20f32, 3e-20, 1e-30, 1e-38]); for v in p.iter_mut() { *v *= k; } }
        let mut vars: HashMap<Var, f32> = HashMap::new();
        for v in &vs { vars.insert(*v, gen_tame(r) + 0.0091); }
        let (mut fin, mut zero) = (true, false);
        let want = eval_tree(&*tree, p, &vars, &mut fin, &mut zero);
        let mut m = vars.clone(); m.insert(Var::X, p[0]); m.insert(Var::Y, p[1]); m.insert(Var::Z, p[2]);
        let got = match ctx.eval(node, &m) { Ok(v) => v, Err(e) => { fails.push(format!("kind=eval-error {e:?}")); continue; } };
        if !fin { continue; }                       // the claim is for evaluations that stay finite throughout
        let same = got == want || (got.is_nan() && want.is_nan());
        if !same {
            let kind = if zero && has_sign_observer(&*tree, 0) { "zero-sign-observed" } else { "meaning-changed" };
            fails.push(format!("kind={kind} imported={got} direct={want} point={p:?}"));
        }
    }
    TreeResult { case, impl_line, fails, has_remap: remaps > 0, too_shared }
}

/// 10^6-deep trees: build, clone-compare, hash, import, export, drop on a 256 KiB stack.
pub fn deep_child() -> i32 {
    let h = std::thread::Builder::new().stack_size(256 * 1024).spawn(|| {
        let n = 1_000_000;
        let mut t = Tree::x();
        for i in 0..n { t = if i % 3 == 0 { t + 1.0 } else if i % 3 == 1 { t.sin() } else { t * Tree::y() }; }
        let mut u = Tree::x();
        for i in 0..n { u = if i % 3 == 0 { u + 1.0 } else if i % 3 == 1 { u.sin() } else { u * Tree::y() }; }
        assert!(t == u);
        let mut s1 = DefaultHasher::new(); t.hash(&mut s1);
        let mut s2 = DefaultHasher::new(); u.hash(&mut s2);
        assert_eq!(s1.finish(), s2.finish());
        let mut ctx = Context::new();
        let a = ctx.import(&t);
        let b = ctx.import(&u);
        assert_eq!(a, b);
        let e = ctx.export(a).unwrap();
        let back = ctx.import(&e);
        assert_eq!(back, a);
        let e2 = ctx.export(a).unwrap();
        assert!(e == e2);
        let r = t.remap_xyz(Tree::y(), Tree::z(), Tree::x());
        let _ = ctx.import(&r);
        drop(r); drop(e); drop(t); drop(u);
        // chains in which every level uses the previous one for ALL its operands
        let mut d = Tree::x();
        for i in 0..n { d = match i % 3 { 0 => d.clone() + d, 1 => d.clone().min(d), _ => d.clone() * d }; }
        let d2 = d.clone();
        drop(d); drop(d2);
    }).unwrap();
    match h.join() { Ok(()) => 0, Err(_) => 3 }
}

pub fn run(seed: u64, count: usize, outdir: &str, which: &str) -> std::io::Result<i32> {
    let mut rng = Rng::new(seed ^ if which == "c13" { 0xC13 } else { 0xC12 });
    let (mut cases, mut impls, mut oracle) = (String::new(), String::new(), String::new());
    let mut fails = 0usize;
    let mut distinct = std::collections::HashSet::new();
    let mut samples_out: Vec<String> = vec![];
    let mut kinds: BTreeMap<String, usize> = BTreeMap::new();
    for ci in 0..count {
        let mut r = rng.fork();
        if which == "c12" && ci % 2 == 0 {
            let (case, il) = ctor_sequence(&mut r);
            if samples_out.len() < 2 && case.len() < 300 { samples_out.push(format!("{case} => {il}")); }
            distinct.insert(case.clone());
            cases.push_str(&case); cases.push('\n'); impls.push_str(&il); impls.push('\n');
            *kinds.entry("ctor-sequence".into()).or_default() += 1;
            continue;
        }
        let remaps = if which == "c13" { r.range(1, 6) } else { 0 };
        let res = tree_case(&mut r, "c13", remaps);
        *kinds.entry(if res.has_remap { "tree-with-remaps".into() } else { "tree".into() }).or_default() += 1;
        if res.too_shared { *kinds.entry("tree-too-shared-for-structural-walks".into()).or_default() += 1; }
        for f in &res.fails { fails += 1; writeln!(oracle, "FAIL case={ci} {f} tree={}", res.case.chars().take(400).collect::<String>()).unwrap(); }
        if samples_out.len() < 3 && res.case.len() < 300 { samples_out.push(format!("{} => {}", res.case, res.impl_line)); }
        distinct.insert(res.case.clone());
        // C13: the flattening of consecutive affine remaps, against the model's product (Expr.aff_mul, which Affine4.v proves
        // to be the 4x4 product): the matrix Tree::remap_affine stores after two calls on a non-affine target
        let (mut case, mut il) = (res.case.clone(), res.impl_line.clone());
        if which == "c13" {
            let tiny = |r: &mut Rng| -> Affine3<f32> { let mut m = Matrix4::<f32>::identity();
                if r.chance(0.6) { for i in 0..3 { m[(i, i)] = *r.pick(&[1e-4f32, 1e-5, 3e-3, 1e4, 1e-8, -1e-4]); } m[(r.below(3), 3)] = gen_tame(r); }
                else { let a = *r.pick(&[5e-8f32, 1e-6, -3e-7, 0.7853982]); let (sn, c) = a.sin_cos(); m[(0, 0)] = c; m[(0, 1)] = -sn; m[(1, 0)] = sn; m[(1, 1)] = c; }
                Affine3::from_matrix_unchecked(m) };
            let (m1, m2) = if r.chance(0.4) { (tiny(&mut r), tiny(&mut r)) } else { (gen_affine(&mut r), gen_affine(&mut r)) };
            let t = Tree::x().sin().remap_affine(m1).remap_affine(m2);
            case.push_str(" F");
            for m in [&m1, &m2] { let mm = m.matrix(); for i in 0..3 { for j in 0..4 { write!(case, " {}", canon_bits(mm[(i, j)])).unwrap(); } } }
            il.push_str(" | fl");
            match &*t { TreeOp::RemapAffine { mat, .. } => { let mm = mat.matrix(); for i in 0..3 { for j in 0..4 { write!(il, " {}", canon_bits(mm[(i, j)])).unwrap(); } } }
                        _ => il.push_str(" not-flattened") }
        }
        cases.push_str(&case); cases.push('\n'); impls.push_str(&il); impls.push('\n');
    }
    // ---- one long-lived context through a history of build / import / evaluate / drop rounds:
    // what an import returns must not depend on trees that no longer exist
    if which == "c12" {
        let mut r = rng.fork();
        let rounds = (count / 4).clamp(40, 4000);
        let mut ctx = Context::new();
        for round in 0..rounds {
            if round % 64 == 63 { ctx = Context::new(); }
            let cfg = TreeCfg { ops: r.range(2, 14), remaps: 0, tame: true, hash_ops: false };
            let tree = gen_tree(&mut r, &cfg, &[]);
            let node = ctx.import(&tree);
            let p = [gen_tame(&mut r) + 0.0137, gen_tame(&mut r) - 0.0071, gen_tame(&mut r) + 0.0213];
            let (mut fin, mut zero) = (true, false);
            let want = eval_tree(&*tree, p, &HashMap::new(), &mut fin, &mut zero);
            let got = ctx.eval_xyz(node, p[0], p[1], p[2]).unwrap_or(f32::NAN);
            if fin && !(got == want || (got.is_nan() && want.is_nan())) && !(zero && has_sign_observer(&*tree, 0)) {
                fails += 1; writeln!(oracle, "FAIL case=-3 kind=stale-import round {round} of a long-lived context: imported={got} direct={want} point={p:?}").unwrap(); break;
            }
            let e = ctx.export(node).unwrap();
            if ctx.import(&e) != node { fails += 1; writeln!(oracle, "FAIL case=-3 kind=stale-import round {round} of a long-lived context: import(export(n)) != n").unwrap(); break; }
            drop(e); drop(tree);
        }
        *kinds.entry("long-lived-context-rounds".into()).or_default() += rounds;
        // ---- Context::from_text: a decimal constant must become the nearest f32 (what `str::parse::<f32>` gives),
        // also for literals just beyond the midpoint of two f32 values written with more digits than an f64 holds
        for k in 0..200 {
            let c = if k % 3 == 0 { gen_tame(&mut r) } else { gen_f32(&mut r, 0.0) };
            if !c.is_finite() || c == 0.0 { continue; }
            let next = f32::from_bits(c.to_bits() + 1);
            if !next.is_finite() { continue; }
            let mid = (c as f64 + next as f64) / 2.0;                 // exact in f64
            let mut lit = format!("{:.180}", mid);                    // its exact decimal expansion (padded with zeros)
            if !lit.contains('.') { continue; }
            match k % 4 { 0 => lit.push('1'), 1 => { /* exactly the midpoint: ties to even */ } 2 => { lit = format!("{c:?}"); } _ => lit.push_str("0000000000000009") }
            let text = format!("# test\n_0 const {lit}\n");
            let want: f32 = match lit.parse() { Ok(v) => v, Err(_) => continue };
            match Context::from_text(text.as_bytes()) {
                Ok((cx, n)) => { let got = cx.get_const(n).unwrap_or(f32::NAN);
                    if got.to_bits() != want.to_bits() { fails += 1; writeln!(oracle, "FAIL case=-4 kind=text-constant from_text reads `{}` as {got:?} ({:#x}), the nearest f32 is {want:?} ({:#x})", &lit[..lit.len().min(60)], got.to_bits(), want.to_bits()).unwrap(); break; } }
                Err(e) => { fails += 1; writeln!(oracle, "FAIL case=-4 kind=text-constant from_text rejects `{}`: {e:?}", &lit[..lit.len().min(60)]).unwrap(); break; }
            }
        }
        *kinds.entry("text-constants".into()).or_default() += 200;
    }
    // corpus: identity-elimination changes the sign of a zero, which atan2 observes (known finding)
    if which == "c12" {
        let t = (Tree::constant(0.0) - Tree::x()).atan2(-1.0);
        let mut ctx = Context::new();
        let n = ctx.import(&t);
        let got = ctx.eval_xyz(n, 0.0, 0.0, 0.0).unwrap();
        let (mut fin, mut zero) = (true, false);
        let want = eval_tree(&*t, [0.0, 0.0, 0.0], &HashMap::new(), &mut fin, &mut zero);
        if fin && got != want {
            fails += 1;
            writeln!(oracle, "FAIL case=-2 kind=zero-sign-observed imported={got} direct={want} tree=atan2(0 - x, -1) point=[0,0,0]").unwrap();
        }
    }
    // deep recursion in a child process (a stack overflow is a signal, not a panic)
    let mut deep = "not-run".to_string();
    if which == "c12" {
        let exe = std::env::current_exe()?;
        let st = std::process::Command::new(&exe).args(["c12-deep", "0", "0", "x"]).status()?;
        deep = format!("{st:?}");
        if !st.success() { fails += 1; writeln!(oracle, "FAIL case=-1 kind=deep-recursion 10^6-deep tree on a 256 KiB stack: child {st:?}").unwrap(); }
    }
    std::fs::write(format!("{outdir}/cases.txt"), cases)?;
    std::fs::write(format!("{outdir}/impl.txt"), impls)?;
    std::fs::write(format!("{outdir}/oracle.txt"), oracle)?;
    let mut js = String::from("{");
    write!(js, "\"cases\": {count}, \"distinct_nontrivial\": {}, \"deep_recursion_child\": {deep:?}, ", distinct.len()).unwrap();
    write!(js, "\"case_kinds\": {{{}}}, ", kinds.iter().map(|(k, v)| format!("\"{k}\": {v}")).collect::<Vec<_>>().join(", ")).unwrap();
    write!(js, "\"samples\": [{}], ", samples_out.iter().map(|s| format!("{s:?}")).collect::<Vec<_>>().join(", ")).unwrap();
    write!(js, "\"oracle_fails\": {fails}}}").unwrap();
    std::fs::write(format!("{outdir}/stats.json"), js)?;
    let _ = (apply_bin, apply_un, fmt_bits);
    Ok(if fails > 0 { 1 } else { 0 })
}
