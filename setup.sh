#!/bin/sh
# Offline setup after a fresh restore: regenerate tables, build the Coq development
# (full .vo), the extracted runner and the Rust harness.
set -e
cd "$(dirname "$0")"
export CARGO_NET_OFFLINE=true
python3 tools/gen_tables.py
cd coq && coq_makefile -f _CoqProject -o Makefile >/dev/null 2>&1 && timeout 3000 make -j16 >/dev/null && cd ..
sh extract/build.sh
[ -f harness/Cargo.lock ] || cp /repo/Cargo.lock harness/Cargo.lock
cd harness && cargo build --offline --release 2>&1 | tail -2
