(* C17 — scripts build the same expressions as the Rust API.
   Model: theories/Script.v (fidget-rhai's binding layer over rhai's overload resolution);
   proofs: theories/ScriptSound.v; tables tied to the Rust sources: theories/ScriptGenCheck.v.
   The property as worded holds for operators, coercions through Tree::from_dynamic, the map
   form, the ordered form and — with the stated side conditions — the unique and transform
   forms.  The parts that are FALSE for the code as written are pinned below with witnesses; the two
   defects repaired upstream (transform form ignoring defaults, reducers rejecting a lone tree) are
   kept as statements about [build_transform_old] / [build_unique_old]. *)
From Coq Require Import ZArith List Bool String Permutation.
From FV Require Import F32 Ops Expr Shapes Shapes32 Script ScriptSound ScriptGenCheck.
Import ListNotations.
Local Open Scope string_scope.

(* operators: operands in source order, whichever side the tree is on *)
Theorem C17_operator_order :
  forall rot o a b va vb ta tb,
    eval rot a = ROk va -> eval rot b = ROk vb ->
    tag_of va = TTree \/ tag_of vb = TTree ->
    tree_from_dyn va = ROk ta -> tree_from_dyn vb = ROk tb ->
    eval rot (SBin o a b) = ROk (DTree (EBin (arith_bop o) ta tb)).
Proof. exact S1_operator_order. Qed.
Print Assumptions C17_operator_order.

(* named binary functions, call and method spelling *)
Theorem C17_function_order :
  forall rot nb a b va vb ta tb,
    In nb tree_binary_fns -> ident_ok (fst nb) = true ->
    eval rot a = ROk va -> eval rot b = ROk vb ->
    tag_of va = TTree \/ tag_of vb = TTree ->
    tree_from_dyn va = ROk ta -> tree_from_dyn vb = ROk tb ->
    eval rot (SCall (fst nb) [a; b]) = ROk (DTree (EBin (snd nb) ta tb)) /\
    eval rot (SMeth a (fst nb) [b]) = ROk (DTree (EBin (snd nb) ta tb)).
Proof. exact S1_function_order. Qed.
Print Assumptions C17_function_order.

Theorem C17_unary_functions :
  forall rot nu a t, In nu tree_unary_fns -> eval rot a = ROk (DTree t) ->
    eval rot (SCall (fst nu) [a]) = ROk (DTree (EUn (snd nu) t)) /\
    eval rot (SMeth a (fst nu) []) = ROk (DTree (EUn (snd nu) t)).
Proof. exact S1_unary_function. Qed.
Print Assumptions C17_unary_functions.

Theorem C17_call_is_method :
  forall rot f a rest, res_equiv (eval rot (SCall f (a :: rest))) (eval rot (SMeth a f rest)).
Proof. exact S1_call_method_equiv. Qed.
Print Assumptions C17_call_is_method.

(* coercions *)
Theorem C17_numbers_are_constants :
  (forall z, tree_from_dyn (DInt z) = ROk (EConst (f32_of_int z))) /\
  (forall d, tree_from_dyn (DFloat d) = ROk (EConst (f32_of_f64 d))).
Proof. split; [exact S2_int_is_constant|exact S2_float_is_constant]. Qed.
Theorem C17_arrays_are_unions :
  forall l ts, mapM tree_from_dyn l = ROk ts -> tree_from_dyn (DArr l) = ROk (s_union ts).
Proof. exact S2_array_is_union. Qed.
Theorem C17_comparisons_rejected :
  forall rot c a b va vb, eval rot a = ROk va -> eval rot b = ROk vb ->
    tag_of va = TTree \/ tag_of vb = TTree -> eval rot (SCmp c a b) = RErr ECompareTree.
Proof. exact S2_compare_rejected. Qed.
Print Assumptions C17_comparisons_rejected.

(* the positional-unique form *)
Theorem C17_unique_order_independent :
  forall s args args', Permutation args args' ->
    (forall vs, mapM (fun a => value_from_dynamic a None) args = ROk vs -> NoDup (map ty_of vs)) ->
    build_unique s args = build_unique s args'.
Proof. exact S3_unique_order_independent. Qed.
Print Assumptions C17_unique_order_independent.
Theorem C17_unique_order_independent_engine :
  forall rot nm s k args args' vs, Permutation args args' ->
    lookup (user_regs rot) pkg_regs nm (dyns (List.length args)) = Some (NUnique s k) ->
    nm <> "plane" ->
    mapM (fun a => value_from_dynamic a None) args = ROk vs -> NoDup (map ty_of vs) ->
    call_fn rot nm args = call_fn rot nm args'.
Proof. exact S3_engine. Qed.
Print Assumptions C17_unique_order_independent_engine.

(* the forms agree *)
Theorem C17_map_vs_unique :
  forall s (l : supplied) args',
    s_fields s = map fst l -> sup_ok l ->
    NoDup (map f_name (map fst l)) -> NoDup (map f_ty (map fst l)) -> Permutation (args_of l) args' ->
    match spec_vals l with
    | Some vals => build_from_map s (map_of l) = finish s vals /\ build_unique s args' = finish s vals
    | None => build_from_map s (map_of l) = RErr EMissingField /\ build_unique s args' = RErr EMissingArg
    end.
Proof. exact S4_map_vs_unique. Qed.
Print Assumptions C17_map_vs_unique.
Theorem C17_ordered_vs_map :
  forall s (l : supplied),
    s_fields s = map fst l -> sup_ok l -> all_supplied l -> NoDup (map f_name (map fst l)) ->
    build_ordered s (args_of l) = finish s (vals_of l) /\ build_from_map s (map_of l) = finish s (vals_of l).
Proof. exact S4_ordered_vs_map. Qed.
Theorem C17_transform_vs_map :
  forall s t m f0 rest,
    s_fields s = f0 :: rest -> f_ty f0 = TyTree ->
    (forall f, In f rest -> f_ty f <> TyTree /\ f_name f <> f_name f0) ->
    build_transform s t m = build_from_map s ((f_name f0, t) :: m).
Proof. exact S4_transform_vs_map. Qed.
Print Assumptions C17_transform_vs_map.
(* reducers accept a lone tree (since 0735cc3), through build_unique1 *)
Theorem C17_reducer_single_tree :
  forall s f t, s_fields s = [f] -> f_ty f = TyVecTree -> f_default f = None ->
    build_unique s [DTree t] = finish s [VVecTree [t]] /\
    build_from_map s [(f_name f, DArr [DTree t])] = finish s [VVecTree [t]].
Proof. exact reducer_single_tree. Qed.
Print Assumptions C17_reducer_single_tree.
Theorem C17_unknown_key :
  forall s m k d, In (k, d) m -> has_key (s_fields s) k = false ->
    is_ok (build_from_map s m) = false /\ forall usedef t, is_ok (build_transform_gen usedef s t m) = false.
Proof. exact S4_unknown_key. Qed.

(* vec2 -> vec3 *)
Theorem C17_vec2_promotes :
  forall s pre post d2 x y dflt,
    has_ty (s_fields s) TyVec2 = false ->
    (forall f, In f (s_fields s) -> f_ty f = TyVec3 -> f_default f = Some (VVec3 dflt)) ->
    value_from_dynamic d2 None = ROk (VVec2 x y) ->
    (forall a v, In a (pre ++ post) -> value_from_dynamic a None = ROk v -> ty_of v <> TyVec2 /\ ty_of v <> TyVec3) ->
    build_unique s (pre ++ d2 :: post) = build_unique s (pre ++ DVec3 (mk3 x y (vz dflt)) :: post).
Proof. exact S5_vec2_promotes. Qed.
Print Assumptions C17_vec2_promotes.

(* ---- what is false for the code as written ---- *)
Theorem C17_refuted_order_without_distinct_types :
  ~ (forall s args args', Permutation args args' -> build_unique s args = build_unique s args').
Proof. exact S3_without_distinct_types_refuted. Qed.
(* ---- history: the two defects repaired in 2eb99d2 / 0735cc3, stated about the old builders ---- *)
Theorem C17_old_transform_defaults_refuted :
  ~ (forall s t m f0 rest, s_fields s = f0 :: rest -> f_ty f0 = TyTree ->
       (forall f, In f rest -> f_ty f <> TyTree /\ f_name f <> f_name f0) ->
       same_outcome (build_transform_old s t m) (build_from_map s ((f_name f0, t) :: m))).
Proof. exact S4_transform_defaults_refuted_old. Qed.
Print Assumptions C17_old_transform_defaults_refuted.
Theorem C17_old_transform_vs_map :
  forall s t m f0 rest,
    s_fields s = f0 :: rest -> f_ty f0 = TyTree ->
    (forall f, In f rest -> f_ty f <> TyTree /\ f_name f <> f_name f0 /\ map_get m (f_name f) <> None) ->
    build_transform_old s t m = build_from_map s ((f_name f0, t) :: m).
Proof. exact S4_transform_vs_map_old. Qed.
Theorem C17_old_reducer_single_tree :
  forall s f t, s_fields s = [f] -> f_ty f = TyVecTree -> f_default f = None ->
    build_unique_old s [DTree t] = RErr EMissingArg.
Proof. exact reducer_single_tree_old. Qed.
(* still true: build_reduce1 is replaced by build_unique1; plane(_, f64) shadows build_unique2; positional
   forms do not coerce numbers / arrays to trees: see R1 .. R10 in ScriptSound.v *)
Check R1_reduce1_shadowed. Check R1_reduce1_shadowed_old. Check R5_transform_applies_defaults.
Check R5_transform_ignores_defaults_old. Check R3_plane_overload. Check R6_positional_forms_do_not_coerce.

(* the tables are the ones in the Rust sources *)
Check shapes_table_matches. Check tree_binary_matches. Check tree_unary_matches. Check constants_match.
