(* C08 — meshes are closed, consistently oriented and enclose the shape's volume.
   (A) MeshCheck.v: a verified checker (closed 2-manifold: every directed edge once, its reverse
       once, no repeated index; exact signed volume over the dyadic vertex coordinates) that is
       extracted and run on every mesh the implementation produces, with the theorem that the
       signed volume of a closed consistently oriented mesh does not depend on the origin.
   (B) MdcTables.v: fidget-mesh/build.rs as a Gallina function, equal to the tables the
       implementation was built with (regenerated from OUT_DIR on every run), and finite-domain
       theorems over all 256 corner masks.
   (C) DcEdge.v: the triangle fan emitted around a sign-changing edge shared by four equal
       leaves is wound from inside to outside; and a reachable pair of face-adjacent cells
       (masks 185 over 155, an ambiguous shared face) for which the emitted fans repeat a directed
       edge: the mesh cannot be manifold (confirmed on the implementation; recorded finding). *)
From Coq Require Import List ZArith NArith Bool Lia Permutation.
From FV Require Import MeshCheck MdcTables DcEdge.
From FVGen Require Import MeshGen.
Import ListNotations.

Theorem C08_check_manifold_sound :
  forall (nv : N) (tris : list tri), check_manifold nv tris = true -> manifold nv tris.
Proof. exact (@check_manifold_sound). Qed.
Print Assumptions C08_check_manifold_sound.

Theorem C08_check_manifold_complete :
  forall (nv : N) (tris : list tri), manifold nv tris -> check_manifold nv tris = true.
Proof. exact (@check_manifold_complete). Qed.
Print Assumptions C08_check_manifold_complete.

Theorem C08_manifold_edges_perm :
  forall (nv : N) (tris : list tri),
       manifold nv tris -> Permutation (edges tris) (map swap (edges tris)).
Proof. exact (@manifold_edges_perm). Qed.
Print Assumptions C08_manifold_edges_perm.

Theorem C08_vol6_translation_invariant :
  forall (nv : N) (tris : list tri) (p : N -> vec) (t : vec),
       manifold nv tris -> sum_det (fun i : N => vadd (p i) t) tris = sum_det p tris.
Proof. exact (@vol6_translation_invariant). Qed.
Print Assumptions C08_vol6_translation_invariant.

Theorem C08_sum_det_flip :
  forall (p : N -> vec) (tris : list tri), sum_det p (map flip tris) = (- sum_det p tris)%Z.
Proof. exact (@sum_det_flip). Qed.
Print Assumptions C08_sum_det_flip.

Theorem C08_sum_flux_eq_sum_det :
  forall (nv : N) (tris : list tri) (p : N -> vec),
       manifold nv tris -> sum_flux p tris = sum_det p tris.
Proof. exact (@sum_flux_eq_sum_det). Qed.
Print Assumptions C08_sum_flux_eq_sum_det.

Theorem C08_check_mesh_spec :
  forall (nv : N) (verts : list fvert) (tris : list tri) (ok : bool) (V s : Z),
       check_mesh nv verts tris = (ok, V, s) ->
       let p := lookup (map (scale_vert (min_exp verts)) verts) in
       (ok = true <-> manifold nv tris /\ N.of_nat (length verts) = nv) /\
       s = (3 * min_exp verts)%Z /\ V = sum_flux p tris /\ (ok = true -> V = sum_det p tris).
Proof. exact (@check_mesh_spec). Qed.
Print Assumptions C08_check_mesh_spec.

Theorem C08_mdc_tables_match_generated :
  map mdc_tables masks = combine gen_vert_table gen_edge_table /\
       length gen_vert_table = 256%nat /\ length gen_edge_table = 256%nat.
Proof. exact (@mdc_tables_match_generated). Qed.
Print Assumptions C08_mdc_tables_match_generated.

Theorem C08_mdc_asserts_hold :
  forall mask : N, mask < 256 -> snd (mdc_full mask) = true.
Proof. exact (@mdc_asserts_hold). Qed.
Print Assumptions C08_mdc_asserts_hold.

Theorem C08_T1_edges_inside_to_outside :
  forall mask : N,
       mask < 256 ->
       forall vs : list (N * N),
       In vs (VT mask) ->
       forall s e : N,
       In (s, e) vs ->
       s < 8 /\
       e < 8 /\
       bit mask s = true /\
       bit mask e = false /\ (e = N.lxor s 1 \/ e = N.lxor s 2 \/ e = N.lxor s 4).
Proof. exact (@T1_edges_inside_to_outside). Qed.
Print Assumptions C08_T1_edges_inside_to_outside.

Theorem C08_T2_each_sign_change_once :
  forall mask : N,
       mask < 256 ->
       forall e : N, e < 12 -> occurrences mask e = (if sign_change mask e then 1%nat else 0%nat).
Proof. exact (@T2_each_sign_change_once). Qed.
Print Assumptions C08_T2_each_sign_change_once.

Theorem C08_T3_edge_table_inverse :
  forall mask : N,
       mask < 256 ->
       map (fun vd : N * (N * N) => nthN (ET mask) (edge_index (snd vd)) None) (tagged mask) =
       map (fun jvd : N * (N * (N * N)) => Some (fst (snd jvd), vert_count mask + fst jvd))
         (enumerate (tagged mask)).
Proof. exact (@T3_edge_table_inverse). Qed.
Print Assumptions C08_T3_edge_table_inverse.

Theorem C08_T3_some_iff_sign_change :
  forall mask : N,
       mask < 256 -> forall e : N, e < 12 -> is_some (nthN (ET mask) e None) = sign_change mask e.
Proof. exact (@T3_some_iff_sign_change). Qed.
Print Assumptions C08_T3_some_iff_sign_change.

Theorem C08_T3_offsets_contiguous :
  forall mask : N,
       mask < 256 ->
       map (fun vd : N * (N * N) => option_map snd (nthN (ET mask) (edge_index (snd vd)) None))
         (tagged mask) =
       map (fun j : N => Some (vert_count mask + j)) (range (length (tagged mask))).
Proof. exact (@T3_offsets_contiguous). Qed.
Print Assumptions C08_T3_offsets_contiguous.

Theorem C08_T4_same_vertex_iff_connected :
  forall mask : N,
       mask < 256 ->
       forall (v1 : N) (de1 : N * N) (v2 : N) (de2 : N * N),
       In (v1, de1) (tagged mask) ->
       In (v2, de2) (tagged mask) -> v1 = v2 <-> connected mask (fst de1) (fst de2) = true.
Proof. exact (@T4_same_vertex_iff_connected). Qed.
Print Assumptions C08_T4_same_vertex_iff_connected.

Theorem C08_T4_at_most_four_vertices :
  forall mask : N, mask < 256 -> (length (VT mask) <= 4)%nat.
Proof. exact (@T4_at_most_four_vertices). Qed.
Print Assumptions C08_T4_at_most_four_vertices.

Theorem C08_T5_complement_same_edges :
  forall mask : N,
       mask < 256 ->
       forall e : N,
       e < 12 -> is_some (nthN (ET mask) e None) = is_some (nthN (ET (255 - mask)) e None).
Proof. exact (@T5_complement_same_edges). Qed.
Print Assumptions C08_T5_complement_same_edges.

Theorem C08_T5_complement_symmetry_refuted :
  exists mask : N, mask < 256 /\ length (VT mask) <> length (VT (255 - mask)).
Proof. exact (@T5_complement_symmetry_refuted). Qed.
Print Assumptions C08_T5_complement_symmetry_refuted.

Theorem C08_dc_edge_same_fan :
  forall (t : N) (la lb lc ld : leaf),
       t < 3 ->
       lmask la < 256 ->
       lmask lb < 256 ->
       lmask lc < 256 ->
       lmask ld < 256 ->
       sign_change (lmask la) (t * 4 + 3) = true ->
       sign_change (lmask lb) (t * 4 + 2) = true ->
       sign_change (lmask lc) (t * 4 + 0) = true ->
       sign_change (lmask ld) (t * 4 + 1) = true ->
       exists va ka vb kb vc kc vd kd : N,
         leaf_edge la (t * 4 + 3) = Some (va, ka) /\
         leaf_edge lb (t * 4 + 2) = Some (vb, kb) /\
         leaf_edge lc (t * 4 + 0) = Some (vc, kc) /\
         leaf_edge ld (t * 4 + 1) = Some (vd, kd) /\
         (let A := lindex la + va in
          let B := lindex lb + vb in
          let C := lindex lc + vc in
          let D := lindex ld + vd in
          let I := lindex ld + kd in
          dc_edge_same t [la; lb; lc; ld] =
          Some
            (if bit (lmask ld) (start_corner t)
             then [(A, B, I); (B, C, I); (C, D, I); (D, A, I)]
             else [(A, D, I); (B, A, I); (C, B, I); (D, C, I)])).
Proof. exact (@dc_edge_same_fan). Qed.
Print Assumptions C08_dc_edge_same_fan.

Theorem C08_fan_orientation :
  forall (t : N) (at_ au av bt bu bv ct cu cv dt du dv it : Z),
       t < 3 ->
       (au <= 0)%Z ->
       (av <= 0)%Z ->
       (0 <= bu)%Z ->
       (bv <= 0)%Z ->
       (0 <= cu)%Z ->
       (0 <= cv)%Z ->
       (du <= 0)%Z ->
       (0 <= dv)%Z ->
       let A := to_xyz t (at_, au, av) in
       let B := to_xyz t (bt, bu, bv) in
       let C := to_xyz t (ct, cu, cv) in
       let D := to_xyz t (dt, du, dv) in
       let I := to_xyz t (it, 0%Z, 0%Z) in
       ((0 <= axis_comp t (tri_normal A B I))%Z /\
        (0 <= axis_comp t (tri_normal B C I))%Z /\
        (0 <= axis_comp t (tri_normal C D I))%Z /\ (0 <= axis_comp t (tri_normal D A I))%Z) /\
       (axis_comp t (tri_normal A D I) <= 0)%Z /\
       (axis_comp t (tri_normal B A I) <= 0)%Z /\
       (axis_comp t (tri_normal C B I) <= 0)%Z /\ (axis_comp t (tri_normal D C I) <= 0)%Z.
Proof. exact (@fan_orientation). Qed.
Print Assumptions C08_fan_orientation.

Theorem C08_ambiguous_face_nonmanifold :
  forall (nv : N) (pre post : list tri), ~ manifold nv (pre ++ witness_tris ++ post).
Proof. exact (@ambiguous_face_nonmanifold). Qed.
Print Assumptions C08_ambiguous_face_nonmanifold.

(* ---- where a leaf vertex may lie (after the repair of the unbounded QEF placement) ---- *)
From Coq Require Import Reals.
From FV Require Import QefBound.
Theorem C08_mass_point_in_cell :
  forall (lo hi : R) (l : list R), l <> [] -> Forall (fun x => (lo <= x <= hi)%R) l -> (lo <= mean l <= hi)%R.
Proof. exact mass_point_in_cell. Qed.
Print Assumptions C08_mass_point_in_cell.

Theorem C08_leaf_vertex_within_one_cell_size :
  forall (lo hi pos : R * R * R) (xs ys zs : list R) (v : R * R * R),
  let '(lx, ly, lz) := lo in let '(hx, hy, hz) := hi in
  (lx <= hx)%R -> (ly <= hy)%R -> (lz <= hz)%R ->
  xs <> [] -> ys <> [] -> zs <> [] ->
  Forall (fun x => (lx <= x <= hx)%R) xs -> Forall (fun y => (ly <= y <= hy)%R) ys -> Forall (fun z => (lz <= z <= hz)%R) zs ->
  ((~ far3 lo hi pos /\ v = pos) \/ (far3 lo hi pos /\ v = (mean xs, mean ys, mean zs))) ->
  within3 lo hi v.
Proof. exact leaf_vertex_within_one_cell_size. Qed.
Print Assumptions C08_leaf_vertex_within_one_cell_size.
