(* C03 — interval evaluation encloses every point result in the region. *)
From Coq Require Import List.
From FV Require Import Ops Tape Related.
Import ListNotations.

(* Soundness through composition, for every pair of value types and semantics:
   a relation preserved by every opcode (while the point values stay inside a guard,
   e.g. "not NaN") is preserved by every tape.  With rel := "the interval encloses the
   value" this lifts the per-opcode enclosure lemmas (IntervalSound) to whole programs. *)
Theorem C03_soundness_through_composition :
  forall (VA VB I : Type) (semA : Sem VA I) (semB : Sem VB I)
         (rel : VA -> VB -> Prop) (good : VA -> Prop),
    preserved semA semB rel good ->
    forall (inputsA : list VA) (inputsB : list VB),
      Forall2 rel inputsA inputsB ->
      rel (s_dflt semA) (s_dflt semB) ->
      forall (tape : list (op I)) (e0a : env) (e0b : env) (out0a : list VA) (out0b : list VB),
        Forall2 rel out0a out0b ->
        reads_written (rev tape) [] ->
        all_good semA good inputsA (rev tape) (init_state e0a out0a) ->
        Forall2 rel (m_out (eval_tape semA tape inputsA e0a out0a))
                    (m_out (eval_tape semB tape inputsB e0b out0b)).
Proof.
  intros VA VB I semA semB rel good Hp inputsA inputsB Hin Hd tape e0a e0b out0a out0b Ho Hr Hg.
  exact (tape_related semA semB rel good Hp inputsA inputsB Hin Hd tape e0a e0b out0a out0b Ho Hr Hg).
Qed.
Print Assumptions C03_soundness_through_composition.
