(* C03 — interval evaluation encloses every point result in the region. *)
From Coq Require Import List.
From FV Require Import Ops Tape Related.
Import ListNotations.

(* Soundness through composition, for every pair of value types and semantics:
   a relation preserved by every opcode (while the point values stay inside a guard,
   e.g. "not NaN") is preserved by every tape.  With rel := "the interval encloses the
   value" this lifts the per-opcode enclosure lemmas (IntervalSound) to whole programs. *)
Theorem C03_soundness_through_composition :
  forall (VA VB I : Type) (semA : Sem VA I) (semB : Sem VB I)
         (rel : VA -> VB -> Prop) (good : VA -> Prop),
    preserved semA semB rel good ->
    forall (inputsA : list VA) (inputsB : list VB),
      Forall2 rel inputsA inputsB ->
      rel (s_dflt semA) (s_dflt semB) ->
      forall (tape : list (op I)) (e0a : env) (e0b : env) (out0a : list VA) (out0b : list VB),
        Forall2 rel out0a out0b ->
        reads_written (rev tape) [] ->
        all_good semA good inputsA (rev tape) (init_state e0a out0a) ->
        Forall2 rel (m_out (eval_tape semA tape inputsA e0a out0a))
                    (m_out (eval_tape semB tape inputsB e0b out0b)).
Proof.
  intros VA VB I semA semB rel good Hp inputsA inputsB Hin Hd tape e0a e0b out0a out0b Ho Hr Hg.
  exact (tape_related semA semB rel good Hp inputsA inputsB Hin Hd tape e0a e0b out0a out0b Ho Hr Hg).
Qed.
Print Assumptions C03_soundness_through_composition.

(* ---- interval enclosure over the extended reals (proofs in IntervalSound .. IntervalAll): every interval operation of Interval.v, instantiated at exact extended-real arithmetic, encloses the point operation; lifted to every tape ---- *)
From Coq Require Import Reals Lra Lia Bool.
From FV Require Import Ops Tape Interval Related ER ERLemmas IntervalSound IntervalTotal IntervalLibm IntervalTape
     IntervalTransform IntervalTrig IntervalRem IntervalAtan2 IntervalTotal2 IntervalTapeTotal IntervalAll.
Import ListNotations.

Theorem C03_un_sound :
  forall (rnd : er -> er) (mix : er -> er -> er),
       rnd_in_unit rnd -> forall u : uop, sound1s (i_un (er_fl_gen rnd mix) u) (er_un rnd u).
Proof. exact (@un_sound). Qed.
Print Assumptions C03_un_sound.

Theorem C03_bin_sound :
  forall (rnd : er -> er) (mix : er -> er -> er) (b : bop),
       sound2s (i_bin (er_fl_gen rnd mix) b) (er_bin mix b).
Proof. exact (@bin_sound). Qed.
Print Assumptions C03_bin_sound.

Theorem C03_ifrom_sound :
  forall (rnd : er -> er) (mix : er -> er -> er) (c : er) (r : interval er),
       ifrom (er_fl_gen rnd mix) c = Some r -> valid r /\ encl r c.
Proof. exact (@ifrom_sound). Qed.
Print Assumptions C03_ifrom_sound.

Theorem C03_interval_tape_sound :
  forall (rnd : er -> er) (mix : er -> er -> er),
       rnd_in_unit rnd ->
       forall (tape : list (op er)) (n : nat) (pt : list er) (box : list (interval er)),
       in_box pt box ->
       reads_written (rev tape) [] ->
       all_good (er_sem rnd mix) good pt (rev tape)
         (init_state (fresh_env (er_sem rnd mix)) (fresh_out (er_sem rnd mix) n)) ->
       Forall2 rel (eval_outputs (er_sem rnd mix) tape n pt)
         (eval_outputs (interval_sem (er_fl_gen rnd mix)) tape n (map Some box)).
Proof. exact (@interval_tape_sound). Qed.
Print Assumptions C03_interval_tape_sound.

Theorem C03_interval_tape_sound_nth :
  forall (rnd : er -> er) (mix : er -> er -> er),
       rnd_in_unit rnd ->
       forall (tape : list (op er)) (n : nat) (pt : list er) (box : list (interval er)) 
         (k : nat) (i : interval er),
       in_box pt box ->
       reads_written (rev tape) [] ->
       all_good (er_sem rnd mix) good pt (rev tape)
         (init_state (fresh_env (er_sem rnd mix)) (fresh_out (er_sem rnd mix) n)) ->
       nth_error (eval_outputs (interval_sem (er_fl_gen rnd mix)) tape n (map Some box)) k =
       Some (Some i) ->
       exists v : er,
         nth_error (eval_outputs (er_sem rnd mix) tape n pt) k = Some v /\ valid i /\ encl i v.
Proof. exact (@interval_tape_sound_nth). Qed.
Print Assumptions C03_interval_tape_sound_nth.

Theorem C03_interval_tape_sound_er_fl :
  forall (tape : list (op er)) (n : nat) (pt : list er) (box : list (interval er)),
       in_box pt box ->
       reads_written (rev tape) [] ->
       all_good (er_sem (fun _ : er => EFin 0) (fun _ _ : er => EFin 0)) good pt 
         (rev tape)
         (init_state (fresh_env (er_sem (fun _ : er => EFin 0) (fun _ _ : er => EFin 0)))
            (fresh_out (er_sem (fun _ : er => EFin 0) (fun _ _ : er => EFin 0)) n)) ->
       Forall2 rel
         (eval_outputs (er_sem (fun _ : er => EFin 0) (fun _ _ : er => EFin 0)) tape n pt)
         (eval_outputs (interval_sem er_fl) tape n (map Some box)).
Proof. exact (@interval_tape_sound_er_fl). Qed.
Print Assumptions C03_interval_tape_sound_er_fl.

Theorem C03_itransform_sound :
  forall (rnd : er -> er) (mix : er -> er -> er) (ix iy iz : interval er) 
         (px py pz : er) (m : list er) (a b c : interval er),
       valid ix ->
       valid iy ->
       valid iz ->
       encl ix px ->
       encl iy py ->
       encl iz pz ->
       let
       '(qx, qy, qz) := ptransform px py pz m in
        qx <> ENaN ->
        qy <> ENaN ->
        qz <> ENaN ->
        itransform (er_fl_gen rnd mix) ix iy iz m = Some (a, b, c) ->
        (valid a /\ encl a qx) /\ (valid b /\ encl b qy) /\ valid c /\ encl c qz.
Proof. exact (@itransform_sound). Qed.
Print Assumptions C03_itransform_sound.

Theorem C03_imul_hides_nan :
  exists (a b : interval er) (x y : er) (r : interval er),
         valid a /\
         valid b /\
         encl a x /\
         encl b y /\
         x <> ENaN /\
         y <> ENaN /\
         imul er_fl a b = Some r /\
         er_mul x y = ENaN /\ has_nan er_fl r = false /\ ~ encl r (er_mul x y).
Proof. exact (@imul_hides_nan). Qed.
Print Assumptions C03_imul_hides_nan.

Theorem C03_encl_not_compositional_and :
  exists (a b : interval er) (x y : er) (r : interval er),
         valid a /\
         valid b /\
         (x = ENaN \/ encl a x) /\
         encl b y /\
         y <> ENaN /\
         fst (iand_choice er_fl a b) = Some r /\
         er_and x y <> ENaN /\ ~ (er_and x y = ENaN \/ encl r (er_and x y)).
Proof. exact (@encl_not_compositional_and). Qed.
Print Assumptions C03_encl_not_compositional_and.
