(* C14 — shape evaluation binds variables by identity and applies the transform.
   The slot-filling loop of ShapeTracingEval::eval_raw / ShapeBulkEval::eval_raw is
   theories/ShapeEval.v, generic in the value type (f32, Interval, Grad, slices). *)
From Coq Require Import List Arith Bool Lia Permutation.
From FV Require Import F32 Ops Tape Alloc Flatten F32Sem CtxEval Run01 ShapeEval ShapeEval32.
From FV Require Import FlattenLib FlattenPass2 FlattenWf FlattenF32Uncond AllocProof SsaWf.
From FVProps Require Import C01.
Import ListNotations.

(* Whatever order the VarMap iterates in, each slot receives the value of the variable that
   owns it: the scratch is [map env vars]. *)
Theorem C14_scratch_by_identity :
  forall (V : Type) (zero : V) (x y z : V) (vars : supplied) (vm : varmap) (it : list (nat * nat)),
    Permutation it (pairs vm) ->
    (forall v, In v vm -> bind x y z vars v <> None) ->
    scratch_of zero x y z vars vm it = Ok (map (env_of zero x y z vars) vm).
Proof. exact @scratch_by_identity. Qed.
Print Assumptions C14_scratch_by_identity.

Theorem C14_iteration_order_unobservable :
  forall (V : Type) (zero : V) (x y z : V) (vars : supplied) (vm : varmap) (it it' : list (nat * nat)),
    Permutation it (pairs vm) -> Permutation it' (pairs vm) ->
    (forall v, In v vm -> bind x y z vars v <> None) ->
    scratch_of zero x y z vars vm it = scratch_of zero x y z vars vm it'.
Proof. exact @iteration_order_unobservable. Qed.
Print Assumptions C14_iteration_order_unobservable.

(* a missing variable is an error that names a variable of the tape which was not supplied *)
Theorem C14_missing_variable_is_error :
  forall (V : Type) (zero : V) (x y z : V) (vars : supplied) (vm : varmap) (it : list (nat * nat)),
    Permutation it (pairs vm) ->
    (exists v, In v vm /\ bind x y z vars v = None) ->
    exists w, In w vm /\ bind x y z vars w = None /\ scratch_of zero x y z vars vm it = Err w.
Proof. exact @scratch_missing_is_error. Qed.
Print Assumptions C14_missing_variable_is_error.

Theorem C14_extra_variables_ignored :
  forall (V : Type) (zero : V) (x y z : V) (vars vars' : supplied) (vm : varmap) (it : list (nat * nat)),
    Permutation it (pairs vm) ->
    (forall v, In v vm -> vars v = vars' v) ->
    scratch_of zero x y z vars vm it = scratch_of zero x y z vars' vm it.
Proof. exact @extra_variables_ignored. Qed.
Print Assumptions C14_extra_variables_ignored.

(* many-point evaluation fills, for each sample, exactly the scratch of that sample *)
Theorem C14_bulk_is_pointwise :
  forall (V : Type) (zero : V) (pts : list (V * V * V)) (vars : nat -> supplied) (vm : varmap)
         (it : list (nat * nat)) (k : nat) (x y z : V),
    nth_error pts k = Some (x, y, z) ->
    nth_error (fill_bulk zero pts vars vm it) k = Some (scratch_of zero x y z (vars k) vm it).
Proof. exact @bulk_is_pointwise. Qed.
Print Assumptions C14_bulk_is_pointwise.

(* End to end, f32: compile any well-formed expression with any register budget; evaluating
   the shape at (x, y, z) with a transform and supplied variables — in any iteration order of
   the variable map — gives the expression's value with X, Y, Z bound to the transformed
   position and every other variable bound to the value supplied under its own id. *)
Theorem C14_shape_point_evaluation :
  forall (o : oracle) (arena : list (cnode f32)) (root n : nat),
    arena_ok arena [root] -> 3 <= n -> n <= 255 ->
    exists (t : ssa_tape f32) (vm : varmap) (rt : list (op f32)) (slots : nat),
      flatten arena [root] = Ok (t, vm) /\
      reg_tape_new n (t_ops t) = Ok (rt, slots) /\
      forall (mat : option (list f32)) (x y z : f32) (vars : nat -> option f32) (it : list (nat * nat)),
        Permutation it (pairs vm) ->
        let '(x', y', z') := match mat with Some m => ftransform m x y z | None => (x, y, z) end in
        (forall v, In v vm -> bind x' y' z' vars v <> None) ->
        shape_point o rt vm it mat x y z vars
        = Ok [ctx_eval (f32_sem o) arena (env_of fzero x' y' z' vars) root].
Proof.
  intros o arena root n OK H3 H255.
  destruct (C01_compiled_tape_computes_the_expression o arena [root] n OK H3 H255)
    as (t & vm & rt & slots & Hf & Ha & Hev).
  exists t, vm, rt, slots. split; [exact Hf|]. split; [exact Ha|].
  intros mat x y z vars it P.
  unfold shape_point.
  destruct (match mat with Some m => ftransform m x y z | None => (x, y, z) end) as [[x' y'] z'].
  intros Hb. rewrite (scratch_by_identity fzero x' y' z' vars vm it P Hb).
  unfold run_point. cbn [fst]. f_equal.
  exact (Hev (env_of fzero x' y' z' vars) (fresh_env (f32_sem o))).
Qed.
Print Assumptions C14_shape_point_evaluation.

(* ---- Shape::bind / ShapeVars::check --------------------------------------------------- *)
From FV Require Import ShapeCheck.

(* a table is accepted exactly when it holds every non-axis variable of the shape: its size and whatever
   else it holds do not matter, and neither does the iteration order of the map *)
Theorem C14_bind_accepts_exactly_complete_tables :
  forall (V : Type) (vars : @supplied V) (vm : varmap) (it : list (nat * nat)),
    Permutation it (pairs vm) ->
    (vars_check vars it = None <-> forall v, In v vm -> 3 <= v -> vars v <> None).
Proof. exact (@check_accepts_exactly_complete_tables). Qed.
Print Assumptions C14_bind_accepts_exactly_complete_tables.

Theorem C14_bind_rejection_names_a_missing_variable :
  forall (V : Type) (vars : @supplied V) (vm : varmap) (it : list (nat * nat)) (w : nat),
    Permutation it (pairs vm) -> vars_check vars it = Some w -> In w vm /\ 3 <= w /\ vars w = None.
Proof. exact (@check_rejection_names_a_missing_variable). Qed.
Print Assumptions C14_bind_rejection_names_a_missing_variable.

Theorem C14_bind_ignores_unrelated_entries :
  forall (V : Type) (vars vars' : @supplied V) (vm : varmap) (it : list (nat * nat)),
    Permutation it (pairs vm) ->
    (forall v, In v vm -> (vars v = None <-> vars' v = None)) ->
    vars_check vars it = vars_check vars' it.
Proof. exact (@check_ignores_unrelated_entries). Qed.
Print Assumptions C14_bind_ignores_unrelated_entries.

(* binding accepts exactly the tables with which evaluation cannot report a missing variable *)
Theorem C14_bind_agrees_with_evaluation :
  forall (V : Type) (zero x y z : V) (vars : @supplied V) (vm : varmap) (it : list (nat * nat)),
    Permutation it (pairs vm) ->
    (vars_check vars it = None <-> exists s, scratch_of zero x y z vars vm it = Ok s).
Proof. exact (@check_agrees_with_evaluation). Qed.
Print Assumptions C14_bind_agrees_with_evaluation.
