(* C05 — gradient evaluation returns the partial derivatives of the expression. *)
From Coq Require Import List.
From FV Require Import Ops Tape Interval Grad Related GradValue.
Import ListNotations.

(* The value lane of the gradient evaluator is a point evaluation, for every float
   structure and every tape (chain through any composition). *)
Theorem C05_value_lane_is_point_evaluation :
  forall (T : Type) (F : FL T) (div_euclid : T -> T -> T)
         (tape : list (op T)) (pins : list T) (gins : list (grad T)) (e0a : env) (e0b : env),
    Forall2 (fun v g => gv g = v) pins gins ->
    reads_written (rev tape) [] ->
    forall n,
      Forall2 (fun v g => gv g = v)
        (m_out (eval_tape (pv_sem F div_euclid) tape pins e0a (repeat (fl_nan _ F) n)))
        (m_out (eval_tape (grad_sem F div_euclid) tape gins e0b (repeat (gfrom F (fl_nan _ F)) n))).
Proof. exact (@grad_value_lane). Qed.
Print Assumptions C05_value_lane_is_point_evaluation.
