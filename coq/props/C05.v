(* C05 — gradient evaluation returns the partial derivatives of the expression. *)
From Coq Require Import List.
From FV Require Import Ops Tape Interval Grad Related GradValue.
Import ListNotations.

(* The value lane of the gradient evaluator is a point evaluation, for every float
   structure and every tape (chain through any composition). *)
Theorem C05_value_lane_is_point_evaluation :
  forall (T : Type) (F : FL T) (div_euclid : T -> T -> T)
         (tape : list (op T)) (pins : list T) (gins : list (grad T)) (e0a : env) (e0b : env),
    Forall2 (fun v g => gv g = v) pins gins ->
    reads_written (rev tape) [] ->
    forall n,
      Forall2 (fun v g => gv g = v)
        (m_out (eval_tape (pv_sem F div_euclid) tape pins e0a (repeat (fl_nan _ F) n)))
        (m_out (eval_tape (grad_sem F div_euclid) tape gins e0b (repeat (gfrom F (fl_nan _ F)) n))).
Proof. exact (@grad_value_lane). Qed.
Print Assumptions C05_value_lane_is_point_evaluation.

(* ---- derivatives, over the reals (the model's formulas with exact arithmetic) ---------- *)
From Coq Require Import Reals.
From Coquelicot Require Import Coquelicot.
From FV Require Import RFL GradSound.

(* Chain rule through ANY composition, arbitrary seeds: for every tape, every input point
   and seed direction, if every intermediate operation is differentiable at the point
   (tape_ok: no tie of min/max, no zero of abs, no integer point of floor/ceil/round, no
   branch cut ...), each output's value lane is the point evaluator's value and lane l is
   the derivative of the point evaluator along the seed direction of that lane. *)
Theorem C05_grad_tape_sound :
  forall (l : lane) (gin : list (grad R)) (tape : list (op R)) (nout : nat),
    tape_ok tape nout (map gv gin) ->
    forall k,
      let g := nth k (eval_outputs gs tape nout gin) (gfrom r_fl 0) in
      gv g = nth k (eval_outputs r_sem tape nout (map gv gin)) 0 /\
      is_derive (fun s => nth k (eval_outputs r_sem tape nout (pt_inputs l gin s)) 0) 0 (gl l g).
Proof. exact grad_tape_sound. Qed.
Print Assumptions C05_grad_tape_sound.

(* unit seeds on x, y, z: the three lanes are the three partial derivatives *)
Theorem C05_grad_tape_partials :
  forall (tape : list (op R)) (nout : nat) (x y z : R),
    tape_ok tape nout [x; y; z] ->
    forall k,
      let F := fun x y z => nth k (eval_outputs r_sem tape nout [x; y; z]) 0 in
      let g := nth k (eval_outputs gs tape nout (seed_xyz x y z)) (gfrom r_fl 0) in
      gv g = F x y z /\
      is_derive (fun x' => F x' y z) x (gx g) /\
      is_derive (fun y' => F x y' z) y (gy g) /\
      is_derive (fun z' => F x y z') z (gz g).
Proof. exact grad_tape_partials. Qed.
Print Assumptions C05_grad_tape_partials.

(* per opcode, with its differentiability side condition *)
Theorem C05_grad_un_sound :
  forall u (a : R -> R) t da l,
    ok_un u (a t) -> is_derive a t da ->
    forall g, gv g = a t -> gl l g = da ->
    gv (gun u g) = r_un u (a t) /\ is_derive (fun s => r_un u (a s)) t (gl l (gun u g)).
Proof. exact grad_un_sound. Qed.
Theorem C05_grad_bin_sound :
  forall b (a c : R -> R) t da dc l,
    ok_bin b (a t) (c t) -> is_derive a t da -> is_derive c t dc ->
    forall g h, gv g = a t -> gl l g = da -> gv h = c t -> gl l h = dc ->
    gv (gbin b g h) = r_bin b (a t) (c t) /\ is_derive (fun s => r_bin b (a s) (c s)) t (gl l (gbin b g h)).
Proof. exact grad_bin_sound. Qed.
Print Assumptions C05_grad_bin_sound.

(* the side conditions are necessary: at a kink the lane is a one-sided derivative *)
Theorem C05_kinks_excluded_for_a_reason :
  (gx (gun UAbs (mk1 0 1)) = 1 /\ ~ is_derive (fun s => r_un UAbs s) 0 1) /\
  (gx (gbin BMin (mk1 0 1) (mk1 0 (-1))) = -1 /\ ~ is_derive (fun s => r_bin BMin s (- s)) 0 (-1)).
Proof. split; [exact abs_at_zero | exact min_at_tie]. Qed.
Print Assumptions C05_kinks_excluded_for_a_reason.
