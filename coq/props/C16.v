(* C16 — standard shapes and transforms have their documented geometry. *)
From Coq Require Import List.
From FV Require Import Ops Expr Shapes.
From FVGen Require Import ShapesGen.

(* Named planes denote the planes their names say (regenerated from types.rs on every run):
   the XY plane is orthogonal to Z, YZ to X, ZX to Y; RevolveY measures the radius in XZ. *)
Theorem C16_named_planes_and_revolve_axis :
  gen_plane_xy_axis = AZ /\ gen_plane_yz_axis = AX /\ gen_plane_zx_axis = AY /\ gen_revolve_other = AZ.
Proof. repeat split; reflexivity. Qed.
Print Assumptions C16_named_planes_and_revolve_axis.
