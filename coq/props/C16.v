(* C16 — standard shapes and transforms have their documented geometry.
   The builders of theories/Shapes.v are generic in the scalar type: the f32 instance is what
   the correspondence check runs against `Tree::from(shape)`; the theorems below are about the
   same builders at the reals (proofs in theories/ShapesSound.v).  [den s p] is the value of
   the tree s at the point p; a point is inside when the value is negative. *)
From Coq Require Import Reals List.
From FV Require Import Ops Expr Shapes Affine ShapesSound.
From FVGen Require Import ShapesGen.
Import ListNotations.
Local Open Scope R_scope.

(* Named planes denote the planes their names say (regenerated from types.rs on every run):
   the XY plane is orthogonal to Z, YZ to X, ZX to Y; RevolveY measures the radius in XZ. *)
Theorem C16_named_planes_and_revolve_axis :
  gen_plane_xy_axis = AZ /\ gen_plane_yz_axis = AX /\ gen_plane_zx_axis = AY /\ gen_revolve_other = AZ.
Proof. repeat split; reflexivity. Qed.
Print Assumptions C16_named_planes_and_revolve_axis.

Theorem C16_circle_inside :
  forall (cx cy r : R) (p : pt),
       0 <= r -> den (circle cx cy r) p < 0 <-> (px p - cx) ^ 2 + (py p - cy) ^ 2 < r ^ 2.
Proof. exact (@circle_inside). Qed.
Print Assumptions C16_circle_inside.

Theorem C16_sphere_inside :
  forall (c : vec) (r : R) (p : pt),
       0 <= r ->
       den (sphere c r) p < 0 <-> (px p - vx c) ^ 2 + (py p - vy c) ^ 2 + (pz p - vz c) ^ 2 < r ^ 2.
Proof. exact (@sphere_inside). Qed.
Print Assumptions C16_sphere_inside.

Theorem C16_circle_nonpos_radius_empty :
  forall (cx cy r : R) (p : pt), r <= 0 -> ~ den (circle cx cy r) p < 0.
Proof. exact (@circle_nonpos_radius_empty). Qed.
Print Assumptions C16_circle_nonpos_radius_empty.

Theorem C16_rectangle_inside :
  forall (lx ly ux uy : R) (p : pt),
       den (rectangle lx ly ux uy) p < 0 <-> lx < px p < ux /\ ly < py p < uy.
Proof. exact (@rectangle_inside). Qed.
Print Assumptions C16_rectangle_inside.

Theorem C16_box_inside :
  forall (lo hi : vec) (p : pt),
       den (box lo hi) p < 0 <->
       vx lo < px p < vx hi /\ vy lo < py p < vy hi /\ vz lo < pz p < vz hi.
Proof. exact (@box_inside). Qed.
Print Assumptions C16_box_inside.

Theorem C16_plane_inside :
  forall (a : vec) (off : R) (p : pt), den (plane a off) p < 0 <-> dot a p < off.
Proof. exact (@plane_inside). Qed.
Print Assumptions C16_plane_inside.

Theorem C16_union_inside :
  forall (inf : R) (s : list shape) (p : pt),
       s <> [] -> den (union inf s) p < 0 <-> (exists t : shape, In t s /\ den t p < 0).
Proof. exact (@union_inside). Qed.
Print Assumptions C16_union_inside.

Theorem C16_intersection_inside :
  forall (ninf : R) (s : list shape) (p : pt),
       s <> [] -> den (intersection ninf s) p < 0 <-> (forall t : shape, In t s -> den t p < 0).
Proof. exact (@intersection_inside). Qed.
Print Assumptions C16_intersection_inside.

Theorem C16_inverse_inside :
  forall (s : shape) (p : pt), den (inverse s) p < 0 <-> 0 < den s p.
Proof. exact (@inverse_inside). Qed.
Print Assumptions C16_inverse_inside.

Theorem C16_difference_inside :
  forall (s c : shape) (p : pt), den (difference s c) p < 0 <-> den s p < 0 < den c p.
Proof. exact (@difference_inside). Qed.
Print Assumptions C16_difference_inside.

Theorem C16_blend_zero :
  forall (inf : R) (a b : shape) (p : pt), den (rblend a b 0) p = den (union inf [a; b]) p.
Proof. exact (@blend_zero). Qed.
Print Assumptions C16_blend_zero.

Theorem C16_blend_contains_union :
  forall (a b : shape) (r : R) (p : pt),
       0 < r -> den (rblend a b r) p <= Rmin (den a p) (den b p).
Proof. exact (@blend_contains_union). Qed.
Print Assumptions C16_blend_contains_union.

Theorem C16_den_remap_affine :
  forall (s : shape) (m : list R) (p : pt),
       den (remap_affine r_sc s m) p = den s (mat_apply m p).
Proof. exact (@den_remap_affine). Qed.
Print Assumptions C16_den_remap_affine.

Theorem C16_move_sound :
  forall (s : shape) (off : vec) (p : pt), den (move r_sc s off) p = den s (psub p (v2p off)).
Proof. exact (@move_sound). Qed.
Print Assumptions C16_move_sound.

Theorem C16_scale_image :
  forall (s : shape) (k : vec) (q : pt),
       vx k <> 0 ->
       vy k <> 0 ->
       vz k <> 0 -> den (scale r_sc s k) (vx k * px q, vy k * py q, vz k * pz q) = den s q.
Proof. exact (@scale_image). Qed.
Print Assumptions C16_scale_image.

Theorem C16_scale_uniform_image :
  forall (s : shape) (k : R) (q : pt),
       k <> 0 -> den (scale_uniform r_sc s k) (pscale k q) = den s q.
Proof. exact (@scale_uniform_image). Qed.
Print Assumptions C16_scale_uniform_image.

Theorem C16_rotate_sound :
  forall (s : shape) (rot : list R) (c : vec) (p : pt),
       den (rotate r_sc s rot c) p = den s (padd (v2p c) (mat3_apply rot (psub p (v2p c)))).
Proof. exact (@rotate_sound). Qed.
Print Assumptions C16_rotate_sound.

Theorem C16_rodrigues_inv :
  forall (a : vec) (th : R) (q : pt),
       vdot a a = 1 -> mat3_apply (rodrigues a (- th)) (mat3_apply (rodrigues a th) q) = q.
Proof. exact (@rodrigues_inv). Qed.
Print Assumptions C16_rodrigues_inv.

Theorem C16_rodrigues_isometry :
  forall (a : vec) (th : R) (q r : pt),
       vdot a a = 1 ->
       pdot (mat3_apply (rodrigues a th) q) (mat3_apply (rodrigues a th) r) = pdot q r.
Proof. exact (@rodrigues_isometry). Qed.
Print Assumptions C16_rodrigues_isometry.

Theorem C16_rotate_rodrigues :
  forall (s : shape) (a : vec) (th : R) (c : vec) (q : pt),
       vdot a a = 1 ->
       den (rotate r_sc s (rodrigues a (- th)) c) (padd (v2p c) (mat3_apply (rodrigues a th) q)) =
       den s (padd (v2p c) q).
Proof. exact (@rotate_rodrigues). Qed.
Print Assumptions C16_rotate_rodrigues.

Theorem C16_reflect_sound :
  forall (s : shape) (a : vec) (off : R) (p : pt),
       den (rreflect s a off) p = den s (reflect_pt a off p).
Proof. exact (@reflect_sound). Qed.
Print Assumptions C16_reflect_sound.

Theorem C16_reflect_image :
  forall (s : shape) (a : vec) (off : R) (q : pt),
       vdot a a = 1 -> den (rreflect s a off) (reflect_pt a off q) = den s q.
Proof. exact (@reflect_image). Qed.
Print Assumptions C16_reflect_image.

Theorem C16_reflect_xy_sound :
  forall (s : shape) (off : R) (p : pt),
       den (reflect_xy r_sc sqrt 2 s off) p =
       den s (py p - sqrt 2 * off, px p + sqrt 2 * off, pz p).
Proof. exact (@reflect_xy_sound). Qed.
Print Assumptions C16_reflect_xy_sound.

Theorem C16_repeat_x_periodic :
  forall (s : shape) (radius off : R) (p : pt),
       0 < radius ->
       den (rrepeat_x s radius off) (px p + 2 * radius, py p, pz p) =
       den (rrepeat_x s radius off) p.
Proof. exact (@repeat_x_periodic). Qed.
Print Assumptions C16_repeat_x_periodic.

Theorem C16_repeat_x_cell :
  forall (s : shape) (radius off : R) (p : pt),
       - (radius - off) <= px p < 2 * radius - (radius - off) ->
       den (rrepeat_x s radius off) p = den s p.
Proof. exact (@repeat_x_cell). Qed.
Print Assumptions C16_repeat_x_cell.

Theorem C16_repeat_x_fold :
  forall (s : shape) (radius off : R) (p : pt),
       0 < radius ->
       exists k : Z,
         - (radius - off) <= px p - IZR k * (2 * radius) < 2 * radius - (radius - off) /\
         den (rrepeat_x s radius off) p = den s (px p - IZR k * (2 * radius), py p, pz p).
Proof. exact (@repeat_x_fold). Qed.
Print Assumptions C16_repeat_x_fold.

Theorem C16_revolve_y_sound :
  forall (s : shape) (off : R) (p : pt),
       den (revolve_y r_sc gen_revolve_other s off) p =
       den s (sqrt ((px p + off) ^ 2 + pz p ^ 2) - off, py p, pz p).
Proof. exact (@revolve_y_sound). Qed.
Print Assumptions C16_revolve_y_sound.

Theorem C16_revolve_y_rotation_invariant :
  forall (s : shape) (off th : R) (p : pt),
       (forall x y z z' : R, den s (x, y, z) = den s (x, y, z')) ->
       den (revolve_y r_sc gen_revolve_other s off)
         (- off + (cos th * (px p + off) - sin th * pz p), py p,
          sin th * (px p + off) + cos th * pz p) = den (revolve_y r_sc gen_revolve_other s off) p.
Proof. exact (@revolve_y_rotation_invariant). Qed.
Print Assumptions C16_revolve_y_rotation_invariant.

Theorem C16_extrude_z_inside :
  forall (s : shape) (lo hi : R) (p : pt),
       den (extrude_z r_sc s lo hi) p < 0 <-> den s (px p, py p, 0) < 0 /\ lo < pz p < hi.
Proof. exact (@extrude_z_inside). Qed.
Print Assumptions C16_extrude_z_inside.

Theorem C16_loft_z_inside :
  forall (a b : shape) (lo hi : R) (p : pt),
       den (loft_z r_sc a b lo hi) p < 0 <-> loft_lerp a b lo hi p < 0 /\ lo < pz p < hi.
Proof. exact (@loft_z_inside). Qed.
Print Assumptions C16_loft_z_inside.

Theorem C16_loft_z_at_lo :
  forall (a b : shape) (lo hi : R) (p : pt),
       lo < hi -> pz p = lo -> loft_lerp a b lo hi p = den a (px p, py p, 0).
Proof. exact (@loft_z_at_lo). Qed.
Print Assumptions C16_loft_z_at_lo.

Theorem C16_loft_z_at_hi :
  forall (a b : shape) (lo hi : R) (p : pt),
       lo < hi -> pz p = hi -> loft_lerp a b lo hi p = den b (px p, py p, 0).
Proof. exact (@loft_z_at_hi). Qed.
Print Assumptions C16_loft_z_at_hi.

Theorem C16_plane_xy_den :
  forall p : pt, den (plane (axis_of r_sc gen_plane_xy_axis) 0) p = pz p.
Proof. exact (@plane_xy_den). Qed.
Print Assumptions C16_plane_xy_den.

Theorem C16_plane_yz_den :
  forall p : pt, den (plane (axis_of r_sc gen_plane_yz_axis) 0) p = px p.
Proof. exact (@plane_yz_den). Qed.
Print Assumptions C16_plane_yz_den.

Theorem C16_plane_zx_den :
  forall p : pt, den (plane (axis_of r_sc gen_plane_zx_axis) 0) p = py p.
Proof. exact (@plane_zx_den). Qed.
Print Assumptions C16_plane_zx_den.

Theorem C16_transform_order :
  forall p : pt,
       den
         (rotate r_sc (move r_sc EX (mkv (-1) 0 0)) (rodrigues (axis_z r_sc) (- (PI / 2)))
            (mkv 0 0 0)) p = py p + 1.
Proof. exact (@transform_order). Qed.
Print Assumptions C16_transform_order.
