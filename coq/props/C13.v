(* C13 — remapping a tree's axes is substitution.
   Part 1: Context::import of a tree with RemapAxes / RemapAffine nodes is substitution, over
   the Context model (proofs in CtxImport / CtxImportZ / CtxExport); part 2: the algebra of
   collapsing consecutive affine remaps, over the reals. *)
From Coq Require Import List Bool Arith ZArith Lia.
From Flocq Require Import IEEE754.BinarySingleNaN.
From FV Require Import F32 Ops Tape Alloc Flatten F32Sem CtxEval FlattenLib FlattenPass2 F32Facts Ctx.
From FV Require Import CtxBase CtxCtors CtxSem CtxImport CtxImportZ CtxExport CtxProof.
Import ListNotations.

(* ---- part 1: import is substitution --------------------------------------------- *)
Theorem C13_import_rec_sound :
  forall (o : oracle) (fuel : nat) (t : list tnode),
       no_copy t ->
       forall (c : list (cnode f32)) (ax ay az i : nat) (c' : ctx) (n : nat),
       arena_wf c ->
       (ax < length c)%nat ->
       (ay < length c)%nat ->
       (az < length c)%nat ->
       import_rec o fuel t c (ax, ay, az) i = Ok (c', n) ->
       reach goodc c c' /\
       (n < length c')%nat /\
       arena_wf c' /\
       (forall env env' : nat -> f32,
        agree o c env env' ax ay az ->
        tgood o fuel t env' i -> ctx_eval (f32_sem o) c' env n = tden o fuel t env' i).
Proof. exact (@import_rec_sound). Qed.
Print Assumptions C13_import_rec_sound.

Theorem C13_import_sound :
  forall (o : oracle) (t : list tnode) (root : nat) (c : list (cnode f32)) 
         (c' : ctx) (n : nat),
       arena_wf c ->
       no_copy t ->
       import o t root c = Ok (c', n) ->
       reach goodc c c' /\
       (n < length c')%nat /\
       (forall env : nat -> f32,
        tgood o (S (length t)) t env root ->
        ctx_eval (f32_sem o) c' env n = tden o (S (length t)) t env root).
Proof. exact (@import_sound). Qed.
Print Assumptions C13_import_sound.

Theorem C13_import_sound_wf :
  forall (o : oracle) (t : list tnode) (root : nat) (c : list (cnode f32)) 
         (c' : ctx) (n : nat),
       arena_wf c ->
       no_copy t ->
       table_wf t ->
       (root < length t)%nat ->
       import o t root c = Ok (c', n) ->
       forall env : nat -> f32,
       tree_good o t env root -> ctx_eval (f32_sem o) c' env n = tree_den o t env root.
Proof. exact (@import_sound_wf). Qed.
Print Assumptions C13_import_sound_wf.

Theorem C13_import_rec_sound_z :
  forall (o : oracle) (fuel : nat) (t : list tnode),
       no_copy t ->
       forall (c : list (cnode f32)) (ax ay az i : nat) (c' : ctx) (n : nat),
       arena_wf c ->
       (ax < length c)%nat ->
       (ay < length c)%nat ->
       (az < length c)%nat ->
       import_rec o fuel t c (ax, ay, az) i = Ok (c', n) ->
       forall env env' : nat -> f32,
       agree_z o c env env' ax ay az ->
       tgoodz o fuel t env' i -> eqz (ctx_eval (f32_sem o) c' env n) (tden o fuel t env' i).
Proof. exact (@import_rec_sound_z). Qed.
Print Assumptions C13_import_rec_sound_z.

Theorem C13_import_sound_z :
  forall (o : oracle) (t : list tnode) (root : nat) (c : list (cnode f32)) 
         (c' : ctx) (n : nat),
       arena_wf c ->
       no_copy t ->
       import o t root c = Ok (c', n) ->
       forall env : nat -> f32,
       tgoodz o (S (length t)) t env root ->
       eqz (ctx_eval (f32_sem o) c' env n) (tden o (S (length t)) t env root).
Proof. exact (@import_sound_z). Qed.
Print Assumptions C13_import_sound_z.

Theorem C13_import_dedup :
  forall (o : oracle) (t : list tnode) (root : nat) (c c' : ctx) (n : nat),
       import o t root c = Ok (c', n) -> import o t root c' = Ok (c', n).
Proof. exact (@import_dedup). Qed.
Print Assumptions C13_import_dedup.

Theorem C13_tfnz_tgood :
  forall (o : oracle) (fuel : nat) (t : list tnode) (env : nat -> f32) (i : nat),
       tfnz o fuel t env i -> tgood o fuel t env i.
Proof. exact (@tfnz_tgood). Qed.
Print Assumptions C13_tfnz_tgood.

Theorem C13_import_zero_sign_refuted :
  forall o : oracle,
       let t := [TConst fzero; TInput 0; TBin BSub 0 1; TConst fone; TBin BMix 2 3] in
       let env := fun _ : nat => fzero in
       exists (c' : ctx) (n : nat),
         import o t 4 [] = Ok (c', n) /\
         to_bits (ctx_eval (f32_sem o) c' env n) <> to_bits (tree_den o t env 4) /\
         finite (ctx_eval (f32_sem o) c' env n) /\ finite (tree_den o t env 4).
Proof. exact (@import_zero_sign_refuted). Qed.
Print Assumptions C13_import_zero_sign_refuted.

Theorem C13_import_atan2_zero_sign :
  forall o : oracle,
       let t := [TConst fzero; TInput 0; TBin BSub 0 1; TConst fnone; TBin BAtan 2 3] in
       let env := fun _ : nat => fzero in
       exists (c' : ctx) (n : nat),
         import o t 4 [] = Ok (c', n) /\
         ctx_eval (f32_sem o) c' env n = libm2 o LAtan2 fnzero fnone /\
         tree_den o t env 4 = libm2 o LAtan2 fzero fnone.
Proof. exact (@import_atan2_zero_sign). Qed.
Print Assumptions C13_import_atan2_zero_sign.

(* ---- part 2: affine remaps collapse -------------------------------------------- *)
From Coq Require Import Reals.
From FV Require Import Affine.

Theorem C13_affine_remaps_collapse :
  forall (next mat : aff) (p : R * R * R),
    apply (compose next mat) p = apply next (apply mat p).
Proof. exact affine_compose. Qed.
Print Assumptions C13_affine_remaps_collapse.

Theorem C13_affine_chains_associate :
  forall (a b c : aff) (p : R * R * R),
    apply (compose (compose a b) c) p = apply (compose a (compose b c)) p.
Proof. exact compose_assoc. Qed.
Print Assumptions C13_affine_chains_associate.

(* ---- part 3: the flattening product is nalgebra's 4x4 product, for any scalar type ---- *)
From FV Require Import Expr Affine4.
Theorem C13_affine_product_is_the_4x4_product :
  forall (T : Type) (S : @SC T) (a b : list T),
    length a = 12%nat -> length b = 12%nat ->
    firstn 12%nat (mat4_mul S (embed4 S a) (embed4 S b)) = aff_mul S a b.
Proof. exact (@aff_mul_is_mat4_mul). Qed.
Print Assumptions C13_affine_product_is_the_4x4_product.
