(* C13 — remapping a tree's axes is substitution.
   (import-as-substitution over the Context model is in CtxProof; this file pins the
   algebra of collapsing consecutive affine remaps.) *)
From Coq Require Import Reals.
From FV Require Import Affine.

Theorem C13_affine_remaps_collapse :
  forall (next mat : aff) (p : R * R * R),
    apply (compose next mat) p = apply next (apply mat p).
Proof. exact affine_compose. Qed.
Print Assumptions C13_affine_remaps_collapse.

Theorem C13_affine_chains_associate :
  forall (a b c : aff) (p : R * R * R),
    apply (compose (compose a b) c) p = apply (compose a (compose b c)) p.
Proof. exact compose_assoc. Qed.
Print Assumptions C13_affine_chains_associate.
