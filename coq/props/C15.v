(* C15 — serialized bytecode, read per its documented format, computes the tape. *)
From Coq Require Import List ZArith.
From FV Require Import Ops Tape Alloc Bytecode BytecodeProof Equiv.
Import ListNotations.
Open Scope nat_scope.

(* Per program: when the verified equivalence check accepts (register tape, tape decoded
   from the words by the documentation-only decoder), both write the same outputs for
   every value type, opcode semantics, input and initial register/memory contents. *)
Theorem C15_validated_bytecode_computes_tape :
  forall (V I : Type) (ieqb : I -> I -> bool),
    (forall a b, ieqb a b = true -> a = b) ->
    forall (sem : Sem V I) (inputs : list V) (reg_ops decoded : list (op I)),
      check_equiv ieqb reg_ops decoded = true ->
      forall (e0 e0' : env) (out0 : list V),
        m_out (run_fwd sem inputs reg_ops (init_state e0 out0))
        = m_out (run_fwd sem inputs decoded (init_state e0' out0)).
Proof. exact (@check_equiv_sound). Qed.
Print Assumptions C15_validated_bytecode_computes_tape.

(* marker words: any stream the decoder accepts has them, with two words per op between *)
Theorem C15_markers :
  forall (I : Type) (imm_of_bits : Z -> I) (ws : list Z) (ops : list (op I)),
    decode imm_of_bits ws = Some ops ->
    exists body, ws = (marker :: 0 :: body ++ [marker; marker])%Z /\ length body = (2 * length ops)%nat.
Proof. exact (@decode_markers). Qed.
Print Assumptions C15_markers.

(* the advertised counts bound every index and register 255 is never used *)
Theorem C15_register_bounds :
  forall (I : Type) (regs mems : nat) (o : op I),
    op_in_bounds regs mems o = true -> forall r, In r (op_regs o) -> r < regs /\ r < 255.
Proof. exact (@in_bounds_regs). Qed.
Print Assumptions C15_register_bounds.

Theorem C15_memory_bounds :
  forall (I : Type) (regs mems : nat) (o : op I),
    op_in_bounds regs mems o = true ->
    forall r m, (o = OLoad r m \/ o = OStore r m) -> mem_base <= m /\ m - mem_base < mems.
Proof. exact (@in_bounds_mem). Qed.
Print Assumptions C15_memory_bounds.
