(* C02 — native (JIT) evaluators agree with the interpreter on every tape.
   The x86_64/aarch64 instruction sequences are tied to the model by correspondence only;
   what is logic in the JIT path is proved here. *)
From Coq Require Import List Arith.
From FV Require Import Bulk BulkProof.
Import ListNotations.

(* Many-point evaluation: for EVERY slice length n (0, shorter than the SIMD width, not a
   multiple of it) and every positive SIMD width S, the driver around a kernel that only
   accepts multiples of S returns exactly n results and result i is the kernel's value for
   lane i of the caller's inputs. *)
Theorem C02_bulk_driver_correct :
  forall (V : Type) (nanv : V) (f pad : nat -> V) (n S : nat),
    0 < S ->
    length (driver_result V nanv f pad n S) = n /\
    forall i d, i < n -> nth i (driver_result V nanv f pad n S) d = f i.
Proof. exact driver_correct. Qed.
Print Assumptions C02_bulk_driver_correct.

(* ... and never reads outside the caller's slices nor writes outside the output rows
   (scratch rows, used only for n < S, are S lanes wide). *)
Theorem C02_bulk_driver_in_bounds :
  forall (n S : nat), 0 < S ->
    Forall (fun c => call_in_bounds n c /\ call_out_in_bounds n S c) (driver_calls n S).
Proof. exact driver_in_bounds. Qed.
Print Assumptions C02_bulk_driver_in_bounds.
