(* C20 — tracing and bulk results are well-formed records of the evaluation. *)
From Coq Require Import List.
From FV Require Import Ops Tape TraceFacts.
Import ListNotations.

(* one trace entry per choice clause of the tape: every value type, semantics, input *)
Theorem C20_trace_length :
  forall (V I : Type) (sem : Sem V I) (inputs : list V) (tape : list (op I)) (e0 : env) (out0 : list V),
    length (m_trace (eval_tape sem tape inputs e0 out0)) = count_choices tape.
Proof. exact (@trace_length). Qed.
Print Assumptions C20_trace_length.

(* each entry is the choice function applied to the operands' values at that clause *)
Theorem C20_trace_entry :
  forall (V I : Type) (sem : Sem V I) (inputs : list V) (s : mstate) (o : op I),
    m_trace (step sem inputs s o) =
    match o with
    | OBinRR b _ l r => if bop_has_choice b then s_ch_rr sem b (m_slots s l) (m_slots s r) :: m_trace s else m_trace s
    | OBinRI b _ a imm => if bop_has_choice b then s_ch_ri sem b (m_slots s a) imm :: m_trace s else m_trace s
    | _ => m_trace s
    end.
Proof. exact (@step_trace_entry). Qed.
Print Assumptions C20_trace_entry.

(* no trace is reported exactly when every clause is undecided *)
Theorem C20_no_trace_iff_all_both :
  forall t : list tchoice, trace_decided t = false <-> Forall (fun c => c = TBoth) t.
Proof. exact no_trace_iff_all_both. Qed.
Print Assumptions C20_no_trace_iff_all_both.

(* exactly the requested number of outputs *)
Theorem C20_outputs_length :
  forall (V I : Type) (sem : Sem V I) (inputs : list V) (tape : list (op I)) (e0 : env) (out0 : list V),
    length (m_out (eval_tape sem tape inputs e0 out0)) = length out0.
Proof. exact (@outputs_length). Qed.
Print Assumptions C20_outputs_length.
