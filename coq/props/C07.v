(* C07 — 3D rendering equals the brute-force heightmap of the shape.
   voxel.rs (render_tile with its z-descending root tiles, render_tile_recurse with the early
   exit on filled pixels, render_tile_pixels with the first-hit search and the gradient batch,
   the final merge with the depth clamp) is theories/Render3.v; its f32 instance replays depth
   and normal images bit for bit.  Proofs: Render3Sound.v.  The merge before the repair d2ae9d5
   is kept as render3_full_old and provably misreported columns of height depth-1. *)
From Coq Require Import List ZArith Bool Lia.
From FV Require Import Render2 Render2Sound Render3 Render3Sound.
Import ListNotations.
Open Scope Z_scope.

Theorem C07_render3_correct :
  forall (tape trace ires V G : Type) (ieval : tape -> Z * Z * Z -> Z -> ires * option trace)
         (i_upper_neg i_lower_pos : ires -> bool) (simplify : tape -> trace -> tape)
         (feval : tape -> Z * Z * Z -> V) (neg posv : V -> bool) (geval : tape -> Z * Z * Z -> G)
         (g_zero g_up : G),
       (forall v : V, posv v = true -> neg v = false) ->
       (forall (t : tape) (c : Z * Z * Z) (s : Z) (q : Z * Z * Z),
        in_cbox3 c s q -> i_upper_neg (fst (ieval t c s)) = true -> neg (feval t q) = true) ->
       (forall (t : tape) (c : Z * Z * Z) (s : Z) (q : Z * Z * Z),
        in_cbox3 c s q -> i_lower_pos (fst (ieval t c s)) = true -> posv (feval t q) = true) ->
       (forall (t : tape) (c : Z * Z * Z) (s : Z) (tr : trace) (q : Z * Z * Z),
        snd (ieval t c s) = Some tr -> in_cbox3 c s q -> feval (simplify t tr) q = feval t q) ->
       (forall (t : tape) (c : Z * Z * Z) (s : Z) (tr : trace) (q : Z * Z * Z),
        snd (ieval t c s) = Some tr -> in_cbox3 c s q -> geval (simplify t tr) q = geval t q) ->
       forall (root : tape) (tiles : list Z) (w h d : Z),
       ts_valid tiles ->
       0 < w ->
       0 < h ->
       0 < d ->
       render3_full ieval i_upper_neg i_lower_pos simplify feval neg geval g_zero g_up tiles w h d
         root = (brute3 feval neg geval g_zero g_up tiles w h d root, true).
Proof. exact (@render3_correct). Qed.
Print Assumptions C07_render3_correct.

Theorem C07_render3_depth_general :
  forall (tape trace ires V G : Type) (ieval : tape -> Z * Z * Z -> Z -> ires * option trace)
         (i_upper_neg i_lower_pos : ires -> bool) (simplify : tape -> trace -> tape)
         (feval : tape -> Z * Z * Z -> V) (neg posv : V -> bool) (geval : tape -> Z * Z * Z -> G)
         (g_zero g_up : G),
       (forall v : V, posv v = true -> neg v = false) ->
       (forall (t : tape) (c : Z * Z * Z) (s : Z) (q : Z * Z * Z),
        in_cbox3 c s q -> i_upper_neg (fst (ieval t c s)) = true -> neg (feval t q) = true) ->
       (forall (t : tape) (c : Z * Z * Z) (s : Z) (q : Z * Z * Z),
        in_cbox3 c s q -> i_lower_pos (fst (ieval t c s)) = true -> posv (feval t q) = true) ->
       (forall (t : tape) (c : Z * Z * Z) (s : Z) (tr : trace) (q : Z * Z * Z),
        snd (ieval t c s) = Some tr -> in_cbox3 c s q -> feval (simplify t tr) q = feval t q) ->
       (forall (t : tape) (c : Z * Z * Z) (s : Z) (tr : trace) (q : Z * Z * Z),
        snd (ieval t c s) = Some tr -> in_cbox3 c s q -> geval (simplify t tr) q = geval t q) ->
       forall (root : tape) (tiles : list Z) (w h d : Z),
       ts_valid tiles ->
       0 < w ->
       0 < h ->
       0 < d ->
       forall x y : Z,
       0 <= x < w ->
       0 <= y < h ->
       g_depth
         (znth
            (fst
               (render3_full ieval i_upper_neg i_lower_pos simplify feval neg geval g_zero g_up
                  tiles w h d root)) (y * w + x) (gdefault g_zero)) =
       clamp_up d (heightmap feval neg root (ztop_of tiles w h d) x y).
Proof. exact (@render3_depth_general). Qed.
Print Assumptions C07_render3_depth_general.

Theorem C07_render3_normal_general :
  forall (tape trace ires V G : Type) (ieval : tape -> Z * Z * Z -> Z -> ires * option trace)
         (i_upper_neg i_lower_pos : ires -> bool) (simplify : tape -> trace -> tape)
         (feval : tape -> Z * Z * Z -> V) (neg posv : V -> bool) (geval : tape -> Z * Z * Z -> G)
         (g_zero g_up : G),
       (forall v : V, posv v = true -> neg v = false) ->
       (forall (t : tape) (c : Z * Z * Z) (s : Z) (q : Z * Z * Z),
        in_cbox3 c s q -> i_upper_neg (fst (ieval t c s)) = true -> neg (feval t q) = true) ->
       (forall (t : tape) (c : Z * Z * Z) (s : Z) (q : Z * Z * Z),
        in_cbox3 c s q -> i_lower_pos (fst (ieval t c s)) = true -> posv (feval t q) = true) ->
       (forall (t : tape) (c : Z * Z * Z) (s : Z) (tr : trace) (q : Z * Z * Z),
        snd (ieval t c s) = Some tr -> in_cbox3 c s q -> feval (simplify t tr) q = feval t q) ->
       (forall (t : tape) (c : Z * Z * Z) (s : Z) (tr : trace) (q : Z * Z * Z),
        snd (ieval t c s) = Some tr -> in_cbox3 c s q -> geval (simplify t tr) q = geval t q) ->
       forall (root : tape) (tiles : list Z) (w h d : Z),
       ts_valid tiles ->
       0 < w ->
       0 < h ->
       0 < d ->
       forall x y : Z,
       0 <= x < w ->
       0 <= y < h ->
       g_normal
         (znth
            (fst
               (render3_full ieval i_upper_neg i_lower_pos simplify feval neg geval g_zero g_up
                  tiles w h d root)) (y * w + x) (gdefault g_zero)) =
       (if d <=? heightmap feval neg root (ztop_of tiles w h d) x y
        then g_up
        else
         if heightmap feval neg root (ztop_of tiles w h d) x y =? 0
         then g_zero
         else geval root (x, y, heightmap feval neg root (ztop_of tiles w h d) x y - 1)).
Proof. exact (@render3_normal_general). Qed.
Print Assumptions C07_render3_normal_general.

Theorem C07_render3_heightmap :
  forall (tape trace ires V G : Type) (ieval : tape -> Z * Z * Z -> Z -> ires * option trace)
         (i_upper_neg i_lower_pos : ires -> bool) (simplify : tape -> trace -> tape)
         (feval : tape -> Z * Z * Z -> V) (neg posv : V -> bool) (geval : tape -> Z * Z * Z -> G)
         (g_zero g_up : G),
       (forall v : V, posv v = true -> neg v = false) ->
       (forall (t : tape) (c : Z * Z * Z) (s : Z) (q : Z * Z * Z),
        in_cbox3 c s q -> i_upper_neg (fst (ieval t c s)) = true -> neg (feval t q) = true) ->
       (forall (t : tape) (c : Z * Z * Z) (s : Z) (q : Z * Z * Z),
        in_cbox3 c s q -> i_lower_pos (fst (ieval t c s)) = true -> posv (feval t q) = true) ->
       (forall (t : tape) (c : Z * Z * Z) (s : Z) (tr : trace) (q : Z * Z * Z),
        snd (ieval t c s) = Some tr -> in_cbox3 c s q -> feval (simplify t tr) q = feval t q) ->
       (forall (t : tape) (c : Z * Z * Z) (s : Z) (tr : trace) (q : Z * Z * Z),
        snd (ieval t c s) = Some tr -> in_cbox3 c s q -> geval (simplify t tr) q = geval t q) ->
       forall (root : tape) (tiles : list Z) (w h d : Z),
       ts_valid tiles ->
       0 < w ->
       0 < h ->
       0 < d ->
       forall x y : Z,
       0 <= x < w ->
       0 <= y < h ->
       nonneg_above feval neg root tiles w h d x y ->
       g_depth
         (znth
            (fst
               (render3_full ieval i_upper_neg i_lower_pos simplify feval neg geval g_zero g_up
                  tiles w h d root)) (y * w + x) (gdefault g_zero)) =
       heightmap feval neg root d x y.
Proof. exact (@render3_heightmap). Qed.
Print Assumptions C07_render3_heightmap.

Theorem C07_render3_normal :
  forall (tape trace ires V G : Type) (ieval : tape -> Z * Z * Z -> Z -> ires * option trace)
         (i_upper_neg i_lower_pos : ires -> bool) (simplify : tape -> trace -> tape)
         (feval : tape -> Z * Z * Z -> V) (neg posv : V -> bool) (geval : tape -> Z * Z * Z -> G)
         (g_zero g_up : G),
       (forall v : V, posv v = true -> neg v = false) ->
       (forall (t : tape) (c : Z * Z * Z) (s : Z) (q : Z * Z * Z),
        in_cbox3 c s q -> i_upper_neg (fst (ieval t c s)) = true -> neg (feval t q) = true) ->
       (forall (t : tape) (c : Z * Z * Z) (s : Z) (q : Z * Z * Z),
        in_cbox3 c s q -> i_lower_pos (fst (ieval t c s)) = true -> posv (feval t q) = true) ->
       (forall (t : tape) (c : Z * Z * Z) (s : Z) (tr : trace) (q : Z * Z * Z),
        snd (ieval t c s) = Some tr -> in_cbox3 c s q -> feval (simplify t tr) q = feval t q) ->
       (forall (t : tape) (c : Z * Z * Z) (s : Z) (tr : trace) (q : Z * Z * Z),
        snd (ieval t c s) = Some tr -> in_cbox3 c s q -> geval (simplify t tr) q = geval t q) ->
       forall (root : tape) (tiles : list Z) (w h d : Z),
       ts_valid tiles ->
       0 < w ->
       0 < h ->
       0 < d ->
       forall x y : Z,
       0 <= x < w ->
       0 <= y < h ->
       nonneg_above feval neg root tiles w h d x y ->
       0 <
       g_depth
         (znth
            (fst
               (render3_full ieval i_upper_neg i_lower_pos simplify feval neg geval g_zero g_up
                  tiles w h d root)) (y * w + x) (gdefault g_zero)) < d ->
       g_normal
         (znth
            (fst
               (render3_full ieval i_upper_neg i_lower_pos simplify feval neg geval g_zero g_up
                  tiles w h d root)) (y * w + x) (gdefault g_zero)) =
       geval root
         (x, y,
          g_depth
            (znth
               (fst
                  (render3_full ieval i_upper_neg i_lower_pos simplify feval neg geval g_zero g_up
                     tiles w h d root)) (y * w + x) (gdefault g_zero)) - 1).
Proof. exact (@render3_normal). Qed.
Print Assumptions C07_render3_normal.

Theorem C07_render3_normal_empty :
  forall (tape trace ires V G : Type) (ieval : tape -> Z * Z * Z -> Z -> ires * option trace)
         (i_upper_neg i_lower_pos : ires -> bool) (simplify : tape -> trace -> tape)
         (feval : tape -> Z * Z * Z -> V) (neg posv : V -> bool) (geval : tape -> Z * Z * Z -> G)
         (g_zero g_up : G),
       (forall v : V, posv v = true -> neg v = false) ->
       (forall (t : tape) (c : Z * Z * Z) (s : Z) (q : Z * Z * Z),
        in_cbox3 c s q -> i_upper_neg (fst (ieval t c s)) = true -> neg (feval t q) = true) ->
       (forall (t : tape) (c : Z * Z * Z) (s : Z) (q : Z * Z * Z),
        in_cbox3 c s q -> i_lower_pos (fst (ieval t c s)) = true -> posv (feval t q) = true) ->
       (forall (t : tape) (c : Z * Z * Z) (s : Z) (tr : trace) (q : Z * Z * Z),
        snd (ieval t c s) = Some tr -> in_cbox3 c s q -> feval (simplify t tr) q = feval t q) ->
       (forall (t : tape) (c : Z * Z * Z) (s : Z) (tr : trace) (q : Z * Z * Z),
        snd (ieval t c s) = Some tr -> in_cbox3 c s q -> geval (simplify t tr) q = geval t q) ->
       forall (root : tape) (tiles : list Z) (w h d : Z),
       ts_valid tiles ->
       0 < w ->
       0 < h ->
       0 < d ->
       forall x y : Z,
       0 <= x < w ->
       0 <= y < h ->
       nonneg_above feval neg root tiles w h d x y ->
       g_depth
         (znth
            (fst
               (render3_full ieval i_upper_neg i_lower_pos simplify feval neg geval g_zero g_up
                  tiles w h d root)) (y * w + x) (gdefault g_zero)) = 0 ->
       g_normal
         (znth
            (fst
               (render3_full ieval i_upper_neg i_lower_pos simplify feval neg geval g_zero g_up
                  tiles w h d root)) (y * w + x) (gdefault g_zero)) = g_zero.
Proof. exact (@render3_normal_empty). Qed.
Print Assumptions C07_render3_normal_empty.

Theorem C07_render3_normal_saturated :
  forall (tape trace ires V G : Type) (ieval : tape -> Z * Z * Z -> Z -> ires * option trace)
         (i_upper_neg i_lower_pos : ires -> bool) (simplify : tape -> trace -> tape)
         (feval : tape -> Z * Z * Z -> V) (neg posv : V -> bool) (geval : tape -> Z * Z * Z -> G)
         (g_zero g_up : G),
       (forall v : V, posv v = true -> neg v = false) ->
       (forall (t : tape) (c : Z * Z * Z) (s : Z) (q : Z * Z * Z),
        in_cbox3 c s q -> i_upper_neg (fst (ieval t c s)) = true -> neg (feval t q) = true) ->
       (forall (t : tape) (c : Z * Z * Z) (s : Z) (q : Z * Z * Z),
        in_cbox3 c s q -> i_lower_pos (fst (ieval t c s)) = true -> posv (feval t q) = true) ->
       (forall (t : tape) (c : Z * Z * Z) (s : Z) (tr : trace) (q : Z * Z * Z),
        snd (ieval t c s) = Some tr -> in_cbox3 c s q -> feval (simplify t tr) q = feval t q) ->
       (forall (t : tape) (c : Z * Z * Z) (s : Z) (tr : trace) (q : Z * Z * Z),
        snd (ieval t c s) = Some tr -> in_cbox3 c s q -> geval (simplify t tr) q = geval t q) ->
       forall (root : tape) (tiles : list Z) (w h d : Z),
       ts_valid tiles ->
       0 < w ->
       0 < h ->
       0 < d ->
       forall x y : Z,
       0 <= x < w ->
       0 <= y < h ->
       nonneg_above feval neg root tiles w h d x y ->
       g_depth
         (znth
            (fst
               (render3_full ieval i_upper_neg i_lower_pos simplify feval neg geval g_zero g_up
                  tiles w h d root)) (y * w + x) (gdefault g_zero)) = d ->
       g_normal
         (znth
            (fst
               (render3_full ieval i_upper_neg i_lower_pos simplify feval neg geval g_zero g_up
                  tiles w h d root)) (y * w + x) (gdefault g_zero)) = g_up.
Proof. exact (@render3_normal_saturated). Qed.
Print Assumptions C07_render3_normal_saturated.

Theorem C07_render3_above_grid :
  forall (tape trace ires V G : Type) (ieval : tape -> Z * Z * Z -> Z -> ires * option trace)
         (i_upper_neg i_lower_pos : ires -> bool) (simplify : tape -> trace -> tape)
         (feval : tape -> Z * Z * Z -> V) (neg posv : V -> bool) (geval : tape -> Z * Z * Z -> G)
         (g_zero g_up : G),
       (forall v : V, posv v = true -> neg v = false) ->
       (forall (t : tape) (c : Z * Z * Z) (s : Z) (q : Z * Z * Z),
        in_cbox3 c s q -> i_upper_neg (fst (ieval t c s)) = true -> neg (feval t q) = true) ->
       (forall (t : tape) (c : Z * Z * Z) (s : Z) (q : Z * Z * Z),
        in_cbox3 c s q -> i_lower_pos (fst (ieval t c s)) = true -> posv (feval t q) = true) ->
       (forall (t : tape) (c : Z * Z * Z) (s : Z) (tr : trace) (q : Z * Z * Z),
        snd (ieval t c s) = Some tr -> in_cbox3 c s q -> feval (simplify t tr) q = feval t q) ->
       (forall (t : tape) (c : Z * Z * Z) (s : Z) (tr : trace) (q : Z * Z * Z),
        snd (ieval t c s) = Some tr -> in_cbox3 c s q -> geval (simplify t tr) q = geval t q) ->
       forall (root : tape) (tiles : list Z) (w h d : Z),
       ts_valid tiles ->
       0 < w ->
       0 < h ->
       0 < d ->
       forall x y : Z,
       0 <= x < w ->
       0 <= y < h ->
       (exists z : Z, d <= z < ztop_of tiles w h d /\ neg (feval root (x, y, z)) = true) ->
       g_depth
         (znth
            (fst
               (render3_full ieval i_upper_neg i_lower_pos simplify feval neg geval g_zero g_up
                  tiles w h d root)) (y * w + x) (gdefault g_zero)) = d /\
       g_normal
         (znth
            (fst
               (render3_full ieval i_upper_neg i_lower_pos simplify feval neg geval g_zero g_up
                  tiles w h d root)) (y * w + x) (gdefault g_zero)) = g_up.
Proof. exact (@render3_above_grid). Qed.
Print Assumptions C07_render3_above_grid.

Theorem C07_render3_skipping_unobservable :
  forall (tape trace ires V G : Type) (ieval : tape -> Z * Z * Z -> Z -> ires * option trace)
         (i_upper_neg i_lower_pos : ires -> bool) (simplify : tape -> trace -> tape)
         (feval : tape -> Z * Z * Z -> V) (neg posv : V -> bool) (geval : tape -> Z * Z * Z -> G)
         (g_zero g_up : G),
       (forall v : V, posv v = true -> neg v = false) ->
       (forall (t : tape) (c : Z * Z * Z) (s : Z) (q : Z * Z * Z),
        in_cbox3 c s q -> i_upper_neg (fst (ieval t c s)) = true -> neg (feval t q) = true) ->
       (forall (t : tape) (c : Z * Z * Z) (s : Z) (q : Z * Z * Z),
        in_cbox3 c s q -> i_lower_pos (fst (ieval t c s)) = true -> posv (feval t q) = true) ->
       (forall (t : tape) (c : Z * Z * Z) (s : Z) (tr : trace) (q : Z * Z * Z),
        snd (ieval t c s) = Some tr -> in_cbox3 c s q -> feval (simplify t tr) q = feval t q) ->
       (forall (t : tape) (c : Z * Z * Z) (s : Z) (tr : trace) (q : Z * Z * Z),
        snd (ieval t c s) = Some tr -> in_cbox3 c s q -> geval (simplify t tr) q = geval t q) ->
       forall (root : tape) (tiles : list Z) (w h d : Z),
       ts_valid tiles ->
       0 < w ->
       0 < h ->
       0 < d ->
       fst
         (render3_full ieval i_upper_neg i_lower_pos simplify feval neg geval g_zero g_up tiles w h
            d root) = brute3 feval neg geval g_zero g_up tiles w h d root.
Proof. exact (@render3_skipping_unobservable). Qed.
Print Assumptions C07_render3_skipping_unobservable.

Theorem C07_render3_no_panic :
  forall (tape trace ires V G : Type) (ieval : tape -> Z * Z * Z -> Z -> ires * option trace)
         (i_upper_neg i_lower_pos : ires -> bool) (simplify : tape -> trace -> tape)
         (feval : tape -> Z * Z * Z -> V) (neg posv : V -> bool) (geval : tape -> Z * Z * Z -> G)
         (g_zero g_up : G),
       (forall v : V, posv v = true -> neg v = false) ->
       (forall (t : tape) (c : Z * Z * Z) (s : Z) (q : Z * Z * Z),
        in_cbox3 c s q -> i_upper_neg (fst (ieval t c s)) = true -> neg (feval t q) = true) ->
       (forall (t : tape) (c : Z * Z * Z) (s : Z) (q : Z * Z * Z),
        in_cbox3 c s q -> i_lower_pos (fst (ieval t c s)) = true -> posv (feval t q) = true) ->
       (forall (t : tape) (c : Z * Z * Z) (s : Z) (tr : trace) (q : Z * Z * Z),
        snd (ieval t c s) = Some tr -> in_cbox3 c s q -> feval (simplify t tr) q = feval t q) ->
       (forall (t : tape) (c : Z * Z * Z) (s : Z) (tr : trace) (q : Z * Z * Z),
        snd (ieval t c s) = Some tr -> in_cbox3 c s q -> geval (simplify t tr) q = geval t q) ->
       forall (root : tape) (tiles : list Z) (w h d : Z),
       ts_valid tiles ->
       0 < w ->
       0 < h ->
       0 < d ->
       snd
         (render3_full ieval i_upper_neg i_lower_pos simplify feval neg geval g_zero g_up tiles w h
            d root) = true.
Proof. exact (@render3_no_panic). Qed.
Print Assumptions C07_render3_no_panic.

Theorem C07_render3_old_heightmap_clamp_quirk :
  forall (tape trace ires V G : Type) (ieval : tape -> Z * Z * Z -> Z -> ires * option trace)
         (i_upper_neg i_lower_pos : ires -> bool) (simplify : tape -> trace -> tape)
         (feval : tape -> Z * Z * Z -> V) (neg posv : V -> bool) (geval : tape -> Z * Z * Z -> G)
         (g_zero g_up : G),
       (forall v : V, posv v = true -> neg v = false) ->
       (forall (t : tape) (c : Z * Z * Z) (s : Z) (q : Z * Z * Z),
        in_cbox3 c s q -> i_upper_neg (fst (ieval t c s)) = true -> neg (feval t q) = true) ->
       (forall (t : tape) (c : Z * Z * Z) (s : Z) (q : Z * Z * Z),
        in_cbox3 c s q -> i_lower_pos (fst (ieval t c s)) = true -> posv (feval t q) = true) ->
       (forall (t : tape) (c : Z * Z * Z) (s : Z) (tr : trace) (q : Z * Z * Z),
        snd (ieval t c s) = Some tr -> in_cbox3 c s q -> feval (simplify t tr) q = feval t q) ->
       (forall (t : tape) (c : Z * Z * Z) (s : Z) (tr : trace) (q : Z * Z * Z),
        snd (ieval t c s) = Some tr -> in_cbox3 c s q -> geval (simplify t tr) q = geval t q) ->
       forall (root : tape) (tiles : list Z) (w h d : Z),
       ts_valid tiles ->
       0 < w ->
       0 < h ->
       0 < d ->
       forall x y : Z,
       0 <= x < w ->
       0 <= y < h ->
       nonneg_above feval neg root tiles w h d x y ->
       heightmap feval neg root d x y = d - 1 ->
       g_depth
         (znth
            (fst
               (render3_full_old ieval i_upper_neg i_lower_pos simplify feval neg geval g_zero g_up
                  tiles w h d root)) (y * w + x) (gdefault g_zero)) = d /\
       g_normal
         (znth
            (fst
               (render3_full_old ieval i_upper_neg i_lower_pos simplify feval neg geval g_zero g_up
                  tiles w h d root)) (y * w + x) (gdefault g_zero)) = g_up.
Proof. exact (@render3_old_heightmap_clamp_quirk). Qed.
Print Assumptions C07_render3_old_heightmap_clamp_quirk.

Theorem C07_render3_old_vs_new :
  forall (tape trace ires V G : Type) (ieval : tape -> Z * Z * Z -> Z -> ires * option trace)
         (i_upper_neg i_lower_pos : ires -> bool) (simplify : tape -> trace -> tape)
         (feval : tape -> Z * Z * Z -> V) (neg posv : V -> bool) (geval : tape -> Z * Z * Z -> G)
         (g_zero g_up : G),
       (forall v : V, posv v = true -> neg v = false) ->
       (forall (t : tape) (c : Z * Z * Z) (s : Z) (q : Z * Z * Z),
        in_cbox3 c s q -> i_upper_neg (fst (ieval t c s)) = true -> neg (feval t q) = true) ->
       (forall (t : tape) (c : Z * Z * Z) (s : Z) (q : Z * Z * Z),
        in_cbox3 c s q -> i_lower_pos (fst (ieval t c s)) = true -> posv (feval t q) = true) ->
       (forall (t : tape) (c : Z * Z * Z) (s : Z) (tr : trace) (q : Z * Z * Z),
        snd (ieval t c s) = Some tr -> in_cbox3 c s q -> feval (simplify t tr) q = feval t q) ->
       (forall (t : tape) (c : Z * Z * Z) (s : Z) (tr : trace) (q : Z * Z * Z),
        snd (ieval t c s) = Some tr -> in_cbox3 c s q -> geval (simplify t tr) q = geval t q) ->
       forall (root : tape) (tiles : list Z) (w h d : Z),
       ts_valid tiles ->
       0 < w ->
       0 < h ->
       0 < d ->
       forall x y : Z,
       0 <= x < w ->
       0 <= y < h ->
       heightmap feval neg root (ztop_of tiles w h d) x y <> d - 1 ->
       znth
         (fst
            (render3_full_old ieval i_upper_neg i_lower_pos simplify feval neg geval g_zero g_up
               tiles w h d root)) (y * w + x) (gdefault g_zero) =
       znth
         (fst
            (render3_full ieval i_upper_neg i_lower_pos simplify feval neg geval g_zero g_up tiles
               w h d root)) (y * w + x) (gdefault g_zero).
Proof. exact (@render3_old_vs_new). Qed.
Print Assumptions C07_render3_old_vs_new.

Theorem C07_Render3DemoSound_render3_old_exact_heightmap_refuted :
  let t := (4, 4, 4, 3) in
       let img := fst (Render3Demo.render_old [8; 4; 2] 8 8 8 t) in
       ztop_of [8; 4; 2] 8 8 8 = 8 /\
       heightmap Render3Demo.feval Render2Demo.neg t 8 4 4 = 7 /\
       g_depth (znth img (4 * 8 + 4) {| g_depth := 0; g_normal := (0, 0, 0) |}) = 8 /\
       g_normal (znth img (4 * 8 + 4) {| g_depth := 0; g_normal := (0, 0, 0) |}) = (0, 0, 1) /\
       Render3Demo.geval t (4, 4, 6) = (0, 0, 4).
Proof. exact (@Render3DemoSound.render3_old_exact_heightmap_refuted). Qed.
Print Assumptions C07_Render3DemoSound_render3_old_exact_heightmap_refuted.

Theorem C07_Render3DemoSound_render3_old_depth_one_all_saturated :
  let img := fst (Render3Demo.render_old [8; 4; 2] 4 4 1 (100, 100, 100, 1)) in
       forallb (fun p : gpix (Z * Z * Z) => g_depth p =? 1) img = true /\
       forallb
         (fun o : Z =>
          heightmap Render3Demo.feval Render2Demo.neg (100, 100, 100, 1) 1 (o mod 4) (o / 4) =? 0)
         (zrange 16) = true.
Proof. exact (@Render3DemoSound.render3_old_depth_one_all_saturated). Qed.
Print Assumptions C07_Render3DemoSound_render3_old_depth_one_all_saturated.

Theorem C07_Render3DemoSound_render3_without_nonneg_above_refuted :
  let t := (4, 4, 6, 2) in
       let img := fst (Render3Demo.render [8; 4; 2] 8 8 4 t) in
       ztop_of [8; 4; 2] 8 8 4 = 8 /\
       heightmap Render3Demo.feval Render2Demo.neg t 4 4 4 = 0 /\
       g_depth (znth img (4 * 8 + 4) {| g_depth := 0; g_normal := (0, 0, 0) |}) = 4 /\
       g_normal (znth img (4 * 8 + 4) {| g_depth := 0; g_normal := (0, 0, 0) |}) = (0, 0, 1).
Proof. exact (@Render3DemoSound.render3_without_nonneg_above_refuted). Qed.
Print Assumptions C07_Render3DemoSound_render3_without_nonneg_above_refuted.

Theorem C07_Render3DemoSound_demo_render3_correct :
  forall (ts : list Z) (w h d : Z) (t : Render3Demo.tape),
       ts_valid ts ->
       0 < w ->
       0 < h -> 0 < d -> Render3Demo.render ts w h d t = (Render3Demo.brute ts w h d t, true).
Proof. exact (@Render3DemoSound.demo_render3_correct). Qed.
Print Assumptions C07_Render3DemoSound_demo_render3_correct.
