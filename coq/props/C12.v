(* C12 — building expressions in a context preserves their meaning.
   Part 1: the f32 facts every rewrite of context/mod.rs rests on; part 2: the constructors of
   the Context model (Ctx.v) keep the arena well-formed and deduplicated, return the same node
   for the same request, and denote the IEEE operation of their operands up to the sign of
   zero (exactly when no operand is a constant); import of an export is the identity. *)
From Coq Require Import List ZArith.
From FV Require Import F32 Ops F32Sem F32Facts.
Import ListNotations.

(* operand reordering of the commutative builders is exact, bit for bit *)
Theorem C12_commutative_reordering_exact :
  forall (o : oracle) (b : bop) (x y : f32),
    In b [BAdd; BMul; BMin; BMax] -> f32_bin o b x y = f32_bin o b y x.
Proof. exact f32_bin_comm. Qed.
Print Assumptions C12_commutative_reordering_exact.

(* a + a => 2 * a is exact for every value (infinities, NaN, overflow included) *)
Theorem C12_add_self : forall a : f32, fadd a a = fmul (of_bits 1073741824%Z) a.
Proof. exact add_self. Qed.
Print Assumptions C12_add_self.

(* identity elimination: exact, or exact up to the sign of zero *)
Theorem C12_identity_elimination :
  (forall z b, is_zerob z = true -> eqz (fadd z b) b) /\
  (forall z a, is_zerob z = true -> eqz (fadd a z) a) /\
  (forall b, fmul fone b = b) /\ (forall a, fmul a fone = a) /\
  (forall z b, is_zerob z = true -> finite b -> eqz (fmul z b) z) /\
  (forall z a, is_zerob z = true -> finite a -> eqz (fmul a z) z) /\
  (forall z b, is_zerob z = true -> eqz (fsub z b) (fneg b)) /\
  (forall a, fsub a fzero = a) /\
  (forall z b, is_zerob z = true -> is_nanb b = false -> is_zerob b = false -> eqz (fdiv z b) z) /\
  (forall a, fdiv a fone = a) /\
  (forall a, fst (fmin_choice a a) = a) /\ (forall a, fst (fmax_choice a a) = a) /\
  (forall z a, is_zerob z = true -> eqz (fst (for_choice a z)) a).
Proof.
  repeat split.
  - exact add_zero_l_z. - exact add_zero_r_z. - exact mul_one_l. - exact mul_one_r.
  - exact mul_zero_l_z. - exact mul_zero_r_z. - exact sub_zero_l_z. - exact sub_zero_r.
  - exact div_zero_l_z. - exact div_one_r. - exact min_self. - exact max_self. - exact or_zero_r_z.
Qed.
Print Assumptions C12_identity_elimination.

(* ... and the finiteness side conditions are necessary *)
Theorem C12_mul_zero_needs_finite : fmul fzero finf = fnan /\ fmul fzero fnan = fnan.
Proof. exact mul_zero_l_inf_refuted. Qed.
Print Assumptions C12_mul_zero_needs_finite.

(* ---- part 2: the Context model (proofs in CtxBase / CtxCtors / CtxSem / CtxExport) ---- *)
From Flocq Require Import IEEE754.BinarySingleNaN.
From FV Require Import Tape Alloc Flatten CtxEval FlattenLib FlattenPass2 Ctx.
From FV Require Import CtxBase CtxCtors CtxSem CtxImport CtxImportZ CtxExport CtxProof.
From Coq Require Import Bool Arith Lia.

Theorem C12_P1_binary :
  forall (o : oracle) (K : ctx -> nat -> nat -> R),
       bin_ctor o K ->
       forall (c : ctx) (a b : nat) (c' : ctx) (n : nat),
       ctx_inv c ->
       K c a b = Ok (c', n) ->
       ctx_inv c' /\ (exists ext : list (cnode f32), c' = c ++ ext) /\ (n < length c')%nat.
Proof. exact (@P1_binary). Qed.
Print Assumptions C12_P1_binary.

Theorem C12_P1_binary_err :
  forall (o : oracle) (K : ctx -> nat -> nat -> R),
       bin_ctor o K ->
       forall (c : ctx) (a b e : nat),
       K c a b = Err e <-> e = 100%nat /\ ~ ((a < length c)%nat /\ (b < length c)%nat).
Proof. exact (@P1_binary_err). Qed.
Print Assumptions C12_P1_binary_err.

Theorem C12_P1_unary :
  forall (o : oracle) (u : uop) (c : ctx) (a : nat) (c' : ctx) (n : nat),
       u <> UCopy ->
       ctx_inv c ->
       op_unary o c a u = Ok (c', n) ->
       ctx_inv c' /\ (exists ext : list (cnode f32), c' = c ++ ext) /\ (n < length c')%nat.
Proof. exact (@P1_unary). Qed.
Print Assumptions C12_P1_unary.

Theorem C12_P1_constant :
  forall (c : ctx) (v : f32) (c' : ctx) (n : nat),
       ctx_inv c ->
       constant c v = Ok (c', n) ->
       ctx_inv c' /\ (exists ext : list (cnode f32), c' = c ++ ext) /\ (n < length c')%nat.
Proof. exact (@P1_constant). Qed.
Print Assumptions C12_P1_constant.

Theorem C12_P1_var :
  forall (c : ctx) (v : nat) (c' : ctx) (n : nat),
       ctx_inv c ->
       var c v = Ok (c', n) ->
       ctx_inv c' /\ (exists ext : list (cnode f32), c' = c ++ ext) /\ (n < length c')%nat.
Proof. exact (@P1_var). Qed.
Print Assumptions C12_P1_var.

Theorem C12_P2_binary :
  forall (o : oracle) (K : ctx -> nat -> nat -> R),
       bin_ctor o K ->
       forall (c : ctx) (a b : nat) (c' : ctx) (n : nat),
       K c a b = Ok (c', n) -> K c' a b = Ok (c', n).
Proof. exact (@P2_binary). Qed.
Print Assumptions C12_P2_binary.

Theorem C12_P2_binary_later :
  forall (o : oracle) (K : ctx -> nat -> nat -> R),
       bin_ctor o K ->
       forall (c : ctx) (a b : nat) (c' : ctx) (n : nat) (ext : list (cnode f32)),
       K c a b = Ok (c', n) -> K (c' ++ ext) a b = Ok (c' ++ ext, n).
Proof. exact (@P2_binary_later). Qed.
Print Assumptions C12_P2_binary_later.

Theorem C12_P2_unary :
  forall (o : oracle) (u : uop) (c : ctx) (a : nat) (c' : ctx) (n : nat),
       op_unary o c a u = Ok (c', n) -> op_unary o c' a u = Ok (c', n).
Proof. exact (@P2_unary). Qed.
Print Assumptions C12_P2_unary.

Theorem C12_P2_constant :
  forall (c : ctx) (v : f32) (c' : ctx) (n : nat),
       constant c v = Ok (c', n) -> constant c' v = Ok (c', n).
Proof. exact (@P2_constant). Qed.
Print Assumptions C12_P2_constant.

Theorem C12_run_call_inv :
  forall (o : oracle) (c : ctx) (k : call) (c' : ctx) (n : nat),
       ctx_inv c ->
       call_ok k ->
       run_call o c k = Ok (c', n) ->
       ctx_inv c' /\ (exists ext : list (cnode f32), c' = c ++ ext) /\ (n < length c')%nat.
Proof. exact (@run_call_inv). Qed.
Print Assumptions C12_run_call_inv.

Theorem C12_run_call_dedup :
  forall (o : oracle) (c : ctx) (k : call) (c' : ctx) (n : nat),
       call_ok k -> run_call o c k = Ok (c', n) -> run_call o c' k = Ok (c', n).
Proof. exact (@run_call_dedup). Qed.
Print Assumptions C12_run_call_dedup.

Theorem C12_ctx_arena_ok :
  forall (o : oracle) (c : ctx) (roots : list nat),
       built_ctx o c -> (forall r : nat, In r roots -> (r < length c)%nat) -> arena_ok c roots.
Proof. exact (@ctx_arena_ok). Qed.
Print Assumptions C12_ctx_arena_ok.

Theorem C12_extension_preserves_values :
  forall (V I : Type) (sem : Sem V I) (c ext : list (cnode I)) (env : nat -> V) (n : nat),
       arena_wf c -> (n < length c)%nat -> ctx_eval sem (c ++ ext) env n = ctx_eval sem c env n.
Proof. exact (@extension_preserves_values). Qed.
Print Assumptions C12_extension_preserves_values.

Theorem C12_constant_sound :
  forall (o : oracle) (c : list (cnode f32)) (v : f32) (c' : ctx) (n : nat) (env : nat -> f32),
       arena_wf c ->
       constant c v = Ok (c', n) ->
       eqz (ctx_eval (f32_sem o) c' env n) v /\
       (is_zerob v = false -> ctx_eval (f32_sem o) c' env n = v).
Proof. exact (@constant_sound). Qed.
Print Assumptions C12_constant_sound.

Theorem C12_var_sound :
  forall (o : oracle) (c : list (cnode f32)) (v : nat) (c' : ctx) (n : nat) (env : nat -> f32),
       arena_wf c -> var c v = Ok (c', n) -> ctx_eval (f32_sem o) c' env n = env v.
Proof. exact (@var_sound). Qed.
Print Assumptions C12_var_sound.

Theorem C12_op_unary_sound :
  forall (o : oracle) (c : list (cnode f32)) (a : nat) (u : uop) (c' : ctx) 
         (n : nat) (env : nat -> f32),
       arena_wf c ->
       op_unary o c a u = Ok (c', n) ->
       eqz (ctx_eval (f32_sem o) c' env n) (f32_un o u (ctx_eval (f32_sem o) c env a)).
Proof. exact (@op_unary_sound). Qed.
Print Assumptions C12_op_unary_sound.

Theorem C12_build_bin_sound_strong :
  forall (o : oracle) (c : list (cnode f32)) (p : bop) (a b : nat) 
         (c' : ctx) (n : nat) (env : nat -> f32),
       arena_wf c ->
       build_bin o c p a b = Ok (c', n) ->
       let x := ctx_eval (f32_sem o) c env a in
       let y := ctx_eval (f32_sem o) c env b in
       bin_side p x y -> eqz (ctx_eval (f32_sem o) c' env n) (f32_bin o p x y).
Proof. exact (@build_bin_sound_strong). Qed.
Print Assumptions C12_build_bin_sound_strong.

Theorem C12_build_bin_sound :
  forall (o : oracle) (c : ctx) (p : bop) (a b : nat) (c' : ctx) (n : nat),
       ctx_inv c ->
       build_bin o c p a b = Ok (c', n) ->
       forall env : nat -> f32,
       let x := ctx_eval (f32_sem o) c env a in
       let y := ctx_eval (f32_sem o) c env b in
       finite x ->
       finite y ->
       finite (f32_bin o p x y) -> eqz (ctx_eval (f32_sem o) c' env n) (f32_bin o p x y).
Proof. exact (@build_bin_sound). Qed.
Print Assumptions C12_build_bin_sound.

Theorem C12_build_bin_exact_nonconst :
  forall (o : oracle) (c : list (cnode f32)) (p : bop) (a b : nat) 
         (c' : ctx) (n : nat) (env : nat -> f32),
       arena_wf c ->
       build_bin o c p a b = Ok (c', n) ->
       (forall k : f32, get_op c a <> Some (NConst k)) ->
       (forall k : f32, get_op c b <> Some (NConst k)) ->
       ctx_eval (f32_sem o) c' env n =
       f32_bin o p (ctx_eval (f32_sem o) c env a) (ctx_eval (f32_sem o) c env b).
Proof. exact (@build_bin_exact_nonconst). Qed.
Print Assumptions C12_build_bin_exact_nonconst.

Theorem C12_c_mul_inf_refuted :
  forall o : oracle,
       let c0 := [NInput 0; NConst fzero] in
       exists (c' : ctx) (n : nat),
         c_mul o c0 1 0 = Ok (c', n) /\
         (let env := fun _ : nat => finf in
          ctx_eval (f32_sem o) c' env n = fzero /\
          fmul (ctx_eval (f32_sem o) c0 env 1) (ctx_eval (f32_sem o) c0 env 0) = fnan).
Proof. exact (@c_mul_inf_refuted). Qed.
Print Assumptions C12_c_mul_inf_refuted.

Theorem C12_c_div_zero_refuted :
  forall o : oracle,
       let c0 := [NInput 0; NConst fzero] in
       exists (c' : ctx) (n : nat),
         c_div o c0 1 0 = Ok (c', n) /\
         (let env := fun _ : nat => fzero in
          ctx_eval (f32_sem o) c' env n = fzero /\
          fdiv (ctx_eval (f32_sem o) c0 env 1) (ctx_eval (f32_sem o) c0 env 0) = fnan).
Proof. exact (@c_div_zero_refuted). Qed.
Print Assumptions C12_c_div_zero_refuted.

Theorem C12_ctx_zero_sign_observable :
  forall o : oracle,
       let c0 := [NInput 0] in
       exists (c1 : ctx) (k : nat) (c2 : ctx) (n : nat),
         constant c0 fzero = Ok (c1, k) /\
         c_sub o c1 k 0 = Ok (c2, n) /\
         nth_error c2 n = Some (NUnary UNeg 0) /\
         (let env := fun _ : nat => fzero in
          ctx_eval (f32_sem o) c2 env n = fnzero /\
          fsub (ctx_eval (f32_sem o) c1 env k) (ctx_eval (f32_sem o) c1 env 0) = fzero /\
          finite (ctx_eval (f32_sem o) c2 env n) /\
          finite (fsub (ctx_eval (f32_sem o) c1 env k) (ctx_eval (f32_sem o) c1 env 0)) /\
          eqz (ctx_eval (f32_sem o) c2 env n)
            (fsub (ctx_eval (f32_sem o) c1 env k) (ctx_eval (f32_sem o) c1 env 0)) /\
          ctx_eval (f32_sem o) c2 env n <>
          fsub (ctx_eval (f32_sem o) c1 env k) (ctx_eval (f32_sem o) c1 env 0)).
Proof. exact (@ctx_zero_sign_observable). Qed.
Print Assumptions C12_ctx_zero_sign_observable.

Theorem C12_import_export :
  forall (o : oracle) (c : ctx) (x y z : nat),
       ctx_canon c ->
       axis_ok c x 0 ->
       axis_ok c y 1 ->
       axis_ok c z 2 ->
       forall fuel n : nat,
       (n < length c)%nat ->
       (n < fuel)%nat -> import_rec o fuel (export c) c (x, y, z) n = Ok (c, n).
Proof. exact (@import_export). Qed.
Print Assumptions C12_import_export.

Theorem C12_import_export_top :
  forall (o : oracle) (c : ctx) (x y z n : nat),
       ctx_canon c ->
       nth_error c x = Some (NInput 0) ->
       nth_error c y = Some (NInput 1) ->
       nth_error c z = Some (NInput 2) -> (n < length c)%nat -> import o (export c) n c = Ok (c, n).
Proof. exact (@import_export_top). Qed.
Print Assumptions C12_import_export_top.
