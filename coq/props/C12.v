(* C12 — building expressions in a context preserves their meaning.
   (The constructor-level theorems over the Context model are in CtxProof; this file
   pins the f32 facts every rewrite of context/mod.rs rests on.) *)
From Coq Require Import List ZArith.
From FV Require Import F32 Ops F32Sem F32Facts.
Import ListNotations.

(* operand reordering of the commutative builders is exact, bit for bit *)
Theorem C12_commutative_reordering_exact :
  forall (o : oracle) (b : bop) (x y : f32),
    In b [BAdd; BMul; BMin; BMax] -> f32_bin o b x y = f32_bin o b y x.
Proof. exact f32_bin_comm. Qed.
Print Assumptions C12_commutative_reordering_exact.

(* a + a => 2 * a is exact for every value (infinities, NaN, overflow included) *)
Theorem C12_add_self : forall a : f32, fadd a a = fmul (of_bits 1073741824%Z) a.
Proof. exact add_self. Qed.
Print Assumptions C12_add_self.

(* identity elimination: exact, or exact up to the sign of zero *)
Theorem C12_identity_elimination :
  (forall z b, is_zerob z = true -> eqz (fadd z b) b) /\
  (forall z a, is_zerob z = true -> eqz (fadd a z) a) /\
  (forall b, fmul fone b = b) /\ (forall a, fmul a fone = a) /\
  (forall z b, is_zerob z = true -> finite b -> eqz (fmul z b) z) /\
  (forall z a, is_zerob z = true -> finite a -> eqz (fmul a z) z) /\
  (forall z b, is_zerob z = true -> eqz (fsub z b) (fneg b)) /\
  (forall a, fsub a fzero = a) /\
  (forall z b, is_zerob z = true -> is_nanb b = false -> is_zerob b = false -> eqz (fdiv z b) z) /\
  (forall a, fdiv a fone = a) /\
  (forall a, fst (fmin_choice a a) = a) /\ (forall a, fst (fmax_choice a a) = a) /\
  (forall z a, is_zerob z = true -> eqz (fst (for_choice a z)) a).
Proof.
  repeat split.
  - exact add_zero_l_z. - exact add_zero_r_z. - exact mul_one_l. - exact mul_one_r.
  - exact mul_zero_l_z. - exact mul_zero_r_z. - exact sub_zero_l_z. - exact sub_zero_r.
  - exact div_zero_l_z. - exact div_one_r. - exact min_self. - exact max_self. - exact or_zero_r_z.
Qed.
Print Assumptions C12_identity_elimination.

(* ... and the finiteness side conditions are necessary *)
Theorem C12_mul_zero_needs_finite : fmul fzero finf = fnan /\ fmul fzero fnan = fnan.
Proof. exact mul_zero_l_inf_refuted. Qed.
Print Assumptions C12_mul_zero_needs_finite.
