(* C19 — the constraint solver honours fixed parameters and solves solvable systems.
   (Convergence of the SVD / Levenberg-Marquardt core is numerical analysis and is tested,
   not proved.) *)
From Coq Require Import List Arith.
From FV Require Import Solver.
Import ListNotations.

(* Jacobian column gi reads lane gi mod 3 of sample gi / 3, which carries the unit seed of
   free variable gi and of no other: any number of unknowns, not only multiples of three. *)
Theorem C19_seed_packing : forall gi gi' : nat, lane (seed gi' (gi / 3)) (gi mod 3) = Nat.eqb gi' gi.
Proof. exact seed_packing. Qed.
Print Assumptions C19_seed_packing.
Theorem C19_sample_in_range : forall gi nfree, gi < nfree -> gi / 3 < samples nfree.
Proof. exact sample_in_range. Qed.

(* a value for exactly the free parameters and never for fixed ones *)
Theorem C19_solve_keys :
  forall (T : Type) (is_zero : T -> bool) (t_abs : T -> T) (t_mul t_add : T -> T -> T) (t_leb : T -> T -> bool) (t_eps t_zero : T)
         (lm_step : list T -> list T -> option (list T))
         (residuals : list T -> list T) (jacobian : list T -> list (list T)),
    (forall cur r next, lm_step cur r = Some next -> length next = length cur) ->
    forall fuel vars,
      map fst (solve is_zero t_abs t_mul t_add t_leb t_eps t_zero lm_step residuals jacobian fuel vars) = map fst (free_vars vars).
Proof. exact (@solve_keys). Qed.
Print Assumptions C19_solve_keys.

Theorem C19_free_vars_are_the_free_parameters :
  forall (T : Type) (vars : list (nat * parameter T)) k v,
    In (k, v) (free_vars vars) <-> In (k, Free v) vars.
Proof. exact (@free_vars_spec). Qed.

(* already satisfied: the starting point is returned unchanged *)
Theorem C19_satisfied_is_fixpoint :
  forall (T : Type) (is_zero : T -> bool) (t_abs : T -> T) (t_mul t_add : T -> T -> T) (t_leb : T -> T -> bool) (t_eps t_zero : T)
         (lm_step : list T -> list T -> option (list T))
         (residuals : list T -> list T) (jacobian : list T -> list (list T)) fuel vars,
    0 < fuel ->
    forallb is_zero (residuals (map snd (free_vars vars))) = true ->
    solve is_zero t_abs t_mul t_add t_leb t_eps t_zero lm_step residuals jacobian fuel vars = free_vars vars.
Proof. exact (@solve_satisfied_is_fixpoint). Qed.
Print Assumptions C19_satisfied_is_fixpoint.

(* ... and more generally whenever the loop's exit test holds at the start (this is what the f32 instance,
   Solver32.done32, predicts for the implementation on every generated system) *)
Theorem C19_exit_test_at_start_is_fixpoint :
  forall (T : Type) (is_zero : T -> bool) (t_abs : T -> T) (t_mul t_add : T -> T -> T) (t_leb : T -> T -> bool) (t_eps t_zero : T)
         (lm_step : list T -> list T -> option (list T))
         (residuals : list T -> list T) (jacobian : list T -> list (list T)) fuel vars,
    0 < fuel ->
    (let cur := map snd (free_vars vars) in
     done_all is_zero t_abs t_mul t_add t_leb t_eps t_zero (residuals cur) (jacobian cur) cur = true) ->
    solve is_zero t_abs t_mul t_add t_leb t_eps t_zero lm_step residuals jacobian fuel vars = free_vars vars.
Proof. exact (@solve_done_is_fixpoint). Qed.
Print Assumptions C19_exit_test_at_start_is_fixpoint.

(* the exit test is invariant under rescaling an equation and under changing the unit of an unknown (reals) *)
From Coq Require Import Reals.
From FV Require Import SolverSound.
Theorem C19_exit_test_row_scale_invariant :
  forall (eps a r : R) (row cur : list R),
    a <> 0%R -> (r_done eps (a * r) (map (Rmult a) row) cur <-> r_done eps r row cur).
Proof. exact exit_test_row_scale_invariant. Qed.
Print Assumptions C19_exit_test_row_scale_invariant.
Theorem C19_exit_test_column_scale_invariant :
  forall (eps r : R) (row cur cs : list R),
    Forall (fun c => c <> 0%R) cs -> length cs = length row -> length cur = length row ->
    (r_done eps r (rescale_row row cs) (rescale_cur cur cs) <-> r_done eps r row cur).
Proof. exact exit_test_column_scale_invariant. Qed.
Print Assumptions C19_exit_test_column_scale_invariant.
