(* C19 — the constraint solver honours fixed parameters and solves solvable systems.
   (Convergence of the SVD / Levenberg-Marquardt core is numerical analysis and is tested,
   not proved.) *)
From Coq Require Import List Arith.
From FV Require Import Solver.
Import ListNotations.

(* Jacobian column gi reads lane gi mod 3 of sample gi / 3, which carries the unit seed of
   free variable gi and of no other: any number of unknowns, not only multiples of three. *)
Theorem C19_seed_packing : forall gi gi' : nat, lane (seed gi' (gi / 3)) (gi mod 3) = Nat.eqb gi' gi.
Proof. exact seed_packing. Qed.
Print Assumptions C19_seed_packing.
Theorem C19_sample_in_range : forall gi nfree, gi < nfree -> gi / 3 < samples nfree.
Proof. exact sample_in_range. Qed.

(* a value for exactly the free parameters and never for fixed ones *)
Theorem C19_solve_keys :
  forall (T : Type) (is_zero : T -> bool) (lm_step : list T -> list T -> option (list T))
         (residuals : list T -> list T),
    (forall cur r next, lm_step cur r = Some next -> length next = length cur) ->
    forall fuel vars,
      map fst (solve is_zero lm_step residuals fuel vars) = map fst (free_vars vars).
Proof. exact (@solve_keys). Qed.
Print Assumptions C19_solve_keys.

Theorem C19_free_vars_are_the_free_parameters :
  forall (T : Type) (vars : list (nat * parameter T)) k v,
    In (k, v) (free_vars vars) <-> In (k, Free v) vars.
Proof. exact (@free_vars_spec). Qed.

(* already satisfied: the starting point is returned unchanged *)
Theorem C19_satisfied_is_fixpoint :
  forall (T : Type) (is_zero : T -> bool) (lm_step : list T -> list T -> option (list T))
         (residuals : list T -> list T) fuel vars,
    0 < fuel ->
    forallb is_zero (residuals (map snd (free_vars vars))) = true ->
    solve is_zero lm_step residuals fuel vars = free_vars vars.
Proof. exact (@solve_satisfied_is_fixpoint). Qed.
Print Assumptions C19_satisfied_is_fixpoint.
