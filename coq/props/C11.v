(* C11 — evaluation is total: finite inputs never crash an evaluator. *)
From Coq Require Import List Arith.
From FV Require Import Ops Tape Alloc SsaWf AllocProof ArgCheck.
Import ListNotations.

(* No out-of-bounds slot access in the interpreter: every slot index a compiled tape
   touches is below the advertised slot count (registers < N, memory in [N, slot_count)). *)
Theorem C11_slots_in_bounds :
  forall (I : Type) (n : nat) (ssa rt : list (op I)) (slots : nat),
    1 <= n -> ssa_wf ssa = true -> reg_tape_new n ssa = Ok (rt, slots) -> tape_bounds n slots rt.
Proof. exact alloc_bounds. Qed.
Print Assumptions C11_slots_in_bounds.

(* Allocation itself cannot fail for budgets 3..255 (the allocator's assertions, unwraps and
   index operations are the model's Err values; none of them fires). *)
Theorem C11_allocation_total :
  forall (I : Type) (n : nat) (ssa : list (op I)),
    3 <= n -> n <= 255 -> ssa_wf ssa = true -> exists rt slots, reg_tape_new n ssa = Ok (rt, slots).
Proof.
  intros I n ssa H3 H255 Hwf.
  pose (sem := {| s_dflt := tt; s_imm := fun _ : I => tt; s_un := fun _ _ => tt;
                  s_rr := fun _ _ _ => tt; s_ri := fun _ _ _ => tt; s_ir := fun _ _ _ => tt;
                  s_ch_rr := fun _ _ _ => TUnknown; s_ch_ri := fun _ _ _ => TUnknown |}).
  destruct (alloc_correct unit I sem n ssa H3 H255 Hwf) as (rt & slots & E & _). eauto.
Qed.
Print Assumptions C11_allocation_total.

(* Argument errors are values: too few variables is reported, extra variables accepted. *)
Theorem C11_tracing_arguments :
  forall expected actual, check_tracing_arguments expected actual = None <-> expected <= actual.
Proof. exact tracing_ok_iff. Qed.
Print Assumptions C11_tracing_arguments.

Theorem C11_bulk_arguments :
  forall expected lens,
    check_bulk_arguments expected lens = None <->
    expected <= length lens /\ (forall n rest, lens = n :: rest -> Forall (fun l => l = n) lens).
Proof. exact bulk_ok_iff. Qed.
Print Assumptions C11_bulk_arguments.

(* ---- interval evaluation never panics (every opcode is total on valid intervals, every tape on every valid box), and the pre-repair definitions provably did ---- *)
From Coq Require Import Reals Lra Lia Bool.
From FV Require Import Ops Tape Interval Related ER ERLemmas IntervalSound IntervalTotal IntervalLibm IntervalTape
     IntervalTransform IntervalTrig IntervalRem IntervalAtan2 IntervalTotal2 IntervalTapeTotal IntervalAll.
Import ListNotations.

Theorem C11_un_total :
  forall (rnd : er -> er) (mix : er -> er -> er) (u : uop),
       total1 (i_un (er_fl_gen rnd mix) u).
Proof. exact (@un_total). Qed.
Print Assumptions C11_un_total.

Theorem C11_bin_total :
  forall (rnd : er -> er) (mix : er -> er -> er) (b : bop),
       total2 (i_bin (er_fl_gen rnd mix) b).
Proof. exact (@bin_total). Qed.
Print Assumptions C11_bin_total.

Theorem C11_un_valid :
  forall (rnd : er -> er) (mix : er -> er -> er) (u : uop) (a r : interval er),
       valid a -> i_un (er_fl_gen rnd mix) u a = Some r -> valid r.
Proof. exact (@un_valid). Qed.
Print Assumptions C11_un_valid.

Theorem C11_bin_valid :
  forall (rnd : er -> er) (mix : er -> er -> er) (b : bop) (x y r : interval er),
       valid x -> valid y -> i_bin (er_fl_gen rnd mix) b x y = Some r -> valid r.
Proof. exact (@bin_valid). Qed.
Print Assumptions C11_bin_valid.

Theorem C11_tape_no_panic :
  forall (rnd : er -> er) (mix : er -> er -> er) (tape : list (op er)) 
         (n : nat) (box : list (interval er)),
       Forall valid box ->
       reads_written (rev tape) [] ->
       Forall ok (eval_outputs (interval_sem (er_fl_gen rnd mix)) tape n (map Some box)).
Proof. exact (@tape_no_panic). Qed.
Print Assumptions C11_tape_no_panic.

Theorem C11_interval_tape_sound_no_panic :
  forall (rnd : er -> er) (mix : er -> er -> er),
       rnd_in_unit rnd ->
       forall (tape : list (op er)) (n : nat) (pt : list er) (box : list (interval er)),
       in_box pt box ->
       reads_written (rev tape) [] ->
       all_good (er_sem rnd mix) good pt (rev tape)
         (init_state (fresh_env (er_sem rnd mix)) (fresh_out (er_sem rnd mix) n)) ->
       Forall2
         (fun (v : er) (o : option (interval er)) =>
          exists i : interval er, o = Some i /\ valid i /\ encl i v)
         (eval_outputs (er_sem rnd mix) tape n pt)
         (eval_outputs (interval_sem (er_fl_gen rnd mix)) tape n (map Some box)).
Proof. exact (@interval_tape_sound_no_panic). Qed.
Print Assumptions C11_interval_tape_sound_no_panic.

Theorem C11_iadd_old_none_iff :
  forall (rnd : er -> er) (mix : er -> er -> er) (a b : interval er),
       valid a ->
       valid b ->
       iadd_old (er_fl_gen rnd mix) a b = None <->
       one_nan (er_add (lo a) (lo b)) (er_add (hi a) (hi b)).
Proof. exact (@iadd_old_none_iff). Qed.
Print Assumptions C11_iadd_old_none_iff.

Theorem C11_iadd_old_total_refuted :
  exists a b : interval er, valid a /\ valid b /\ iadd_old er_fl a b = None.
Proof. exact (@iadd_old_total_refuted). Qed.
Print Assumptions C11_iadd_old_total_refuted.

Theorem C11_isub_old_total_refuted :
  exists a b : interval er, valid a /\ valid b /\ isub_old er_fl a b = None.
Proof. exact (@isub_old_total_refuted). Qed.
Print Assumptions C11_isub_old_total_refuted.

Theorem C11_imul_f_old_total_refuted :
  exists (a : interval er) (c : er), valid a /\ c <> ENaN /\ imul_f_old er_fl a c = None.
Proof. exact (@imul_f_old_total_refuted). Qed.
Print Assumptions C11_imul_f_old_total_refuted.

Theorem C11_iexp_old_half_nan_refuted :
  exists a : interval er,
         has_nan er_fl a = true /\
         iexp_old er_fl a = None /\ (exists r : interval er, iexp er_fl a = Some r).
Proof. exact (@iexp_old_half_nan_refuted). Qed.
Print Assumptions C11_iexp_old_half_nan_refuted.
