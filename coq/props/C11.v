(* C11 — evaluation is total: finite inputs never crash an evaluator. *)
From Coq Require Import List Arith.
From FV Require Import Ops Tape Alloc SsaWf AllocProof ArgCheck.
Import ListNotations.

(* No out-of-bounds slot access in the interpreter: every slot index a compiled tape
   touches is below the advertised slot count (registers < N, memory in [N, slot_count)). *)
Theorem C11_slots_in_bounds :
  forall (I : Type) (n : nat) (ssa rt : list (op I)) (slots : nat),
    1 <= n -> ssa_wf ssa = true -> reg_tape_new n ssa = Ok (rt, slots) -> tape_bounds n slots rt.
Proof. exact alloc_bounds. Qed.
Print Assumptions C11_slots_in_bounds.

(* Allocation itself cannot fail for budgets 3..255 (the allocator's assertions, unwraps and
   index operations are the model's Err values; none of them fires). *)
Theorem C11_allocation_total :
  forall (I : Type) (n : nat) (ssa : list (op I)),
    3 <= n -> n <= 255 -> ssa_wf ssa = true -> exists rt slots, reg_tape_new n ssa = Ok (rt, slots).
Proof.
  intros I n ssa H3 H255 Hwf.
  pose (sem := {| s_dflt := tt; s_imm := fun _ : I => tt; s_un := fun _ _ => tt;
                  s_rr := fun _ _ _ => tt; s_ri := fun _ _ _ => tt; s_ir := fun _ _ _ => tt;
                  s_ch_rr := fun _ _ _ => TUnknown; s_ch_ri := fun _ _ _ => TUnknown |}).
  destruct (alloc_correct unit I sem n ssa H3 H255 Hwf) as (rt & slots & E & _). eauto.
Qed.
Print Assumptions C11_allocation_total.

(* Argument errors are values: too few variables is reported, extra variables accepted. *)
Theorem C11_tracing_arguments :
  forall expected actual, check_tracing_arguments expected actual = None <-> expected <= actual.
Proof. exact tracing_ok_iff. Qed.
Print Assumptions C11_tracing_arguments.

Theorem C11_bulk_arguments :
  forall expected lens,
    check_bulk_arguments expected lens = None <->
    expected <= length lens /\ (forall n rest, lens = n :: rest -> Forall (fun l => l = n) lens).
Proof. exact bulk_ok_iff. Qed.
Print Assumptions C11_bulk_arguments.
