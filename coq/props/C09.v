(* C09 — parallel execution and cancellation are unobservable in results.
   The scheduling / cancellation bookkeeping of render_tiles and of the result assembly is
   theories/Sched.v: tasks poll the cancel token in ANY time order (a permutation of the task
   list), results are collected in task order, the image is assembled from disjoint tiles. *)
From Coq Require Import List Arith Bool Lia Permutation.
From FV Require Import Sched.
Import ListNotations.

(* a run whose token is never set always returns the complete result, whatever the schedule *)
Theorem C09_never_cancelled_completes :
  forall (A B : Type) (f : A -> B) (tasks : list A) (order : list nat),
    run_tasks f tasks order None = Some (map f tasks).
Proof. exact @never_cancelled_completes. Qed.
Print Assumptions C09_never_cancelled_completes.

(* no partial results: the complete result or none *)
Theorem C09_all_or_nothing :
  forall (A B : Type) (f : A -> B) (tasks : list A) (order : list nat) (cancel_at : option nat),
    run_tasks f tasks order cancel_at = None \/ run_tasks f tasks order cancel_at = Some (map f tasks).
Proof. exact @all_or_nothing. Qed.
Print Assumptions C09_all_or_nothing.

(* a token set before the last poll of the schedule: no result, for every schedule *)
Theorem C09_cancelled_in_time_gives_none :
  forall (A B : Type) (f : A -> B) (tasks : list A) (order : list nat) (k : nat),
    schedule (length tasks) order -> k < length tasks ->
    run_tasks f tasks order (Some k) = None.
Proof. exact @cancelled_in_time_gives_none. Qed.
Print Assumptions C09_cancelled_in_time_gives_none.

Theorem C09_cancelled_too_late_completes :
  forall (A B : Type) (f : A -> B) (tasks : list A) (order : list nat) (k : nat),
    length order = length tasks -> length tasks <= k ->
    run_tasks f tasks order (Some k) = Some (map f tasks).
Proof. exact @cancelled_too_late_completes. Qed.
Print Assumptions C09_cancelled_too_late_completes.

(* the interleaving is unobservable *)
Theorem C09_schedule_unobservable :
  forall (A B : Type) (f : A -> B) (tasks : list A) (o1 o2 : list nat) (c : option nat),
    schedule (length tasks) o1 -> schedule (length tasks) o2 ->
    run_tasks f tasks o1 c = run_tasks f tasks o2 c.
Proof. exact @schedule_unobservable. Qed.
Print Assumptions C09_schedule_unobservable.

(* each pixel of the assembled image comes from THE tile covering it ... *)
Theorem C09_assemble_pixel :
  forall (P : Type) (dflt : P) (w h t : nat) (tiles : list ((nat * nat) * (nat -> nat -> P)))
         (a : (nat * nat) * (nat -> nat -> P)) (x y : nat),
    disjoint_tiles t tiles -> In a tiles -> covers t (fst a) x y = true -> x < w -> y < h ->
    assemble dflt w h t tiles x y = snd a (x - fst (fst a)) (y - snd (fst a)).
Proof. exact @assemble_pixel. Qed.
Print Assumptions C09_assemble_pixel.

(* ... so the order in which tile results arrive does not matter *)
Theorem C09_assemble_order_unobservable :
  forall (P : Type) (dflt : P) (w h t : nat) (tiles tiles' : list ((nat * nat) * (nat -> nat -> P))),
    Permutation tiles tiles' -> disjoint_tiles t tiles -> disjoint_tiles t tiles' ->
    forall x y, x < w -> y < h -> assemble dflt w h t tiles x y = assemble dflt w h t tiles' x y.
Proof. exact @assemble_order_unobservable. Qed.
Print Assumptions C09_assemble_order_unobservable.

(* ---- the multithreaded octree build (fidget-mesh/src/octree.rs build_inner_mt), theories/
   OctreeMerge.v: breadth-first expansion to the task count, independent local builds, offset
   remapping, slot stores, reverse fix-up walk.  For EVERY task count the merged array denotes
   the pure recombination of the task results (build_mt_spec: no index, offset or ordering
   error); it equals the single-threaded octree exactly when that recombination equals the
   single-threaded tree (M2_exact), which holds under interval coherence and tape independence
   (M2_main, M2_threads) and can fail without either (two refutations): the multithreaded build
   skips the interval test on the cells it expands and evaluates tasks with the unsimplified
   tape.  Cancellation is all-or-nothing (M4).  depth = 0 with a thread pool panics. ---- *)
From Coq Require Import List Arith Lia Bool.
From FV Require Import OctreeMerge.
Import ListNotations.

From FV Require Import OctreeMergeSound.

Theorem C09_M1_extend :
  forall (vertex : Type) (nverts : nat -> nat) (cs : list (list cell)) 
         (vs : list vertex) (lb : nat) (c : cell) (a : atree vertex) (more : list (list cell))
         (morev : list vertex),
       den nverts cs vs lb c a -> den nverts (cs ++ more) (vs ++ morev) lb c a.
Proof. exact (@M1_extend). Qed.
Print Assumptions C09_M1_extend.

Theorem C09_M1_remap :
  forall (vertex : Type) (nverts : nat -> nat) (lcs : list (list cell)) 
         (lvs : list vertex) (lb : nat) (c : cell) (a : atree vertex),
       den nverts lcs lvs lb c a ->
       forall (pre : list (list cell)) (vpre : list vertex) (post : list (list cell))
         (vpost : list vertex) (rcs : list (list cell)) (c' : cell),
       map_opt (remap_block (length pre) (length vpre)) lcs = Some rcs ->
       remap_cell (length pre) (length vpre) c = Some c' ->
       den nverts (pre ++ rcs ++ post) (vpre ++ lvs ++ vpost) (length pre + lb) c' a.
Proof. exact (@M1_remap). Qed.
Print Assumptions C09_M1_remap.

Theorem C09_build_mt_spec :
  forall (vertex herm tape : Type) (hdef : herm) (root_tape : tape) 
         (max_depth : nat) (interval : tape -> path -> ires tape)
         (leaf_eval : tape -> path -> herm -> lres vertex herm)
         (collapsible : list ckind -> option nat) (hmerge : list herm -> option herm)
         (hsolve : path -> nat -> herm -> option (herm * list vertex)) 
         (nverts : nat -> nat),
       (forall (t : tape) (p : path) (h : herm) (m : nat) (vs : list vertex) (h' : herm),
        leaf_eval t p h = LLeaf m vs h' -> length vs = nverts m) ->
       (forall (p : path) (m : nat) (h h2 : herm) (vs : list vertex),
        hsolve p m h = Some (h2, vs) -> length vs = nverts m) ->
       forall (cmt : nat -> nat -> bool) (target : nat),
       let K := K_of target in
       if tasks_cancel root_tape max_depth interval cmt 0 (seq K (7 * K + 1))
       then
        build_mt hdef root_tape max_depth interval leaf_eval collapsible hmerge hsolve cmt target =
        Cancel
       else
        if K =? 0
        then
         build_mt hdef root_tape max_depth interval leaf_eval collapsible hmerge hsolve cmt target =
         Panic
        else
         exists o : octree vertex,
           build_mt hdef root_tape max_depth interval leaf_eval collapsible hmerge hsolve cmt
             target = Ok o /\
           wf_octree nverts o
             (fst (Dmt hdef root_tape max_depth interval leaf_eval collapsible hmerge hsolve K 0)) /\
           blocks_ok o.
Proof. exact (@build_mt_spec). Qed.
Print Assumptions C09_build_mt_spec.

Theorem C09_M2_exact :
  forall (vertex herm tape : Type) (hdef : herm) (root_tape : tape) 
         (max_depth : nat) (interval : tape -> path -> ires tape)
         (leaf_eval : tape -> path -> herm -> lres vertex herm)
         (collapsible : list ckind -> option nat) (hmerge : list herm -> option herm)
         (hsolve : path -> nat -> herm -> option (herm * list vertex)) 
         (nverts : nat -> nat),
       (forall (t : tape) (p : path) (h : herm) (m : nat) (vs : list vertex) (h' : herm),
        leaf_eval t p h = LLeaf m vs h' -> length vs = nverts m) ->
       (forall (p : path) (m : nat) (h h2 : herm) (vs : list vertex),
        hsolve p m h = Some (h2, vs) -> length vs = nverts m) ->
       forall (cmt : nat -> nat -> bool) (canc : nat -> bool) (target : nat)
         (omt ost : octree vertex),
       build_mt hdef root_tape max_depth interval leaf_eval collapsible hmerge hsolve cmt target =
       Ok omt ->
       build_st hdef root_tape max_depth interval leaf_eval collapsible hmerge hsolve canc = Ok ost ->
       abs nverts omt = abs nverts ost <->
       fst
         (Dmt hdef root_tape max_depth interval leaf_eval collapsible hmerge hsolve (K_of target) 0) =
       T_st hdef root_tape max_depth interval leaf_eval collapsible hmerge hsolve.
Proof. exact (@M2_exact). Qed.
Print Assumptions C09_M2_exact.

Theorem C09_M2_main :
  forall (vertex herm tape : Type) (hdef : herm) (root_tape : tape) 
         (max_depth : nat) (interval : tape -> path -> ires tape)
         (leaf_eval : tape -> path -> herm -> lres vertex herm)
         (collapsible : list ckind -> option nat) (hmerge : list herm -> option herm)
         (hsolve : path -> nat -> herm -> option (herm * list vertex)) 
         (nverts : nat -> nat),
       (forall (t : tape) (p : path) (h : herm) (m : nat) (vs : list vertex) (h' : herm),
        leaf_eval t p h = LLeaf m vs h' -> length vs = nverts m) ->
       (forall (p : path) (m : nat) (h h2 : herm) (vs : list vertex),
        hsolve p m h = Some (h2, vs) -> length vs = nverts m) ->
       forall V : tape -> path -> Prop,
       (forall p : path, V root_tape p) ->
       (forall (t : tape) (p : path) (sub : tape), V t p -> interval t p = IAmbig sub -> V sub p) ->
       (forall (t : tape) (p : path) (sub : tape) (i : nat),
        V t p -> interval t p = IAmbig sub -> i < 8 -> V sub (p ++ [i])) ->
       (forall (t t' : tape) (p : path), V t p -> V t' p -> ires_sim (interval t p) (interval t' p)) ->
       (forall (t t' : tape) (p : path) (h : herm),
        V t p -> V t' p -> leaf_eval t p h = leaf_eval t' p h) ->
       (forall (p : list nat) (i : nat),
        length p < max_depth ->
        i < 8 ->
        interval root_tape p = IFull ->
        fst
          (T hdef interval leaf_eval collapsible hmerge hsolve (max_depth - S (length p)) root_tape
             (p ++ [i]) hdef) = AFull) ->
       (forall (p : list nat) (i : nat),
        length p < max_depth ->
        i < 8 ->
        interval root_tape p = IEmpty ->
        fst
          (T hdef interval leaf_eval collapsible hmerge hsolve (max_depth - S (length p)) root_tape
             (p ++ [i]) hdef) = AEmpty) ->
       forall (cmt : nat -> nat -> bool) (canc : nat -> bool) (target : nat),
       2 <= target <= 8 ^ max_depth ->
       build_mt hdef root_tape max_depth interval leaf_eval collapsible hmerge hsolve cmt target <>
       Cancel ->
       build_st hdef root_tape max_depth interval leaf_eval collapsible hmerge hsolve canc <>
       Cancel ->
       exists omt ost : octree vertex,
         build_mt hdef root_tape max_depth interval leaf_eval collapsible hmerge hsolve cmt target =
         Ok omt /\
         build_st hdef root_tape max_depth interval leaf_eval collapsible hmerge hsolve canc =
         Ok ost /\
         abs nverts omt =
         Some (T_st hdef root_tape max_depth interval leaf_eval collapsible hmerge hsolve) /\
         abs nverts ost =
         Some (T_st hdef root_tape max_depth interval leaf_eval collapsible hmerge hsolve).
Proof. exact (@M2_main). Qed.
Print Assumptions C09_M2_main.

Theorem C09_M2_threads :
  forall (vertex herm tape : Type) (hdef : herm) (root_tape : tape) 
         (max_depth : nat) (interval : tape -> path -> ires tape)
         (leaf_eval : tape -> path -> herm -> lres vertex herm)
         (collapsible : list ckind -> option nat) (hmerge : list herm -> option herm)
         (hsolve : path -> nat -> herm -> option (herm * list vertex)) 
         (nverts : nat -> nat),
       (forall (t : tape) (p : path) (h : herm) (m : nat) (vs : list vertex) (h' : herm),
        leaf_eval t p h = LLeaf m vs h' -> length vs = nverts m) ->
       (forall (p : path) (m : nat) (h h2 : herm) (vs : list vertex),
        hsolve p m h = Some (h2, vs) -> length vs = nverts m) ->
       forall V : tape -> path -> Prop,
       (forall p : path, V root_tape p) ->
       (forall (t : tape) (p : path) (sub : tape), V t p -> interval t p = IAmbig sub -> V sub p) ->
       (forall (t : tape) (p : path) (sub : tape) (i : nat),
        V t p -> interval t p = IAmbig sub -> i < 8 -> V sub (p ++ [i])) ->
       (forall (t t' : tape) (p : path), V t p -> V t' p -> ires_sim (interval t p) (interval t' p)) ->
       (forall (t t' : tape) (p : path) (h : herm),
        V t p -> V t' p -> leaf_eval t p h = leaf_eval t' p h) ->
       (forall (p : list nat) (i : nat),
        length p < max_depth ->
        i < 8 ->
        interval root_tape p = IFull ->
        fst
          (T hdef interval leaf_eval collapsible hmerge hsolve (max_depth - S (length p)) root_tape
             (p ++ [i]) hdef) = AFull) ->
       (forall (p : list nat) (i : nat),
        length p < max_depth ->
        i < 8 ->
        interval root_tape p = IEmpty ->
        fst
          (T hdef interval leaf_eval collapsible hmerge hsolve (max_depth - S (length p)) root_tape
             (p ++ [i]) hdef) = AEmpty) ->
       forall (cmt1 cmt2 : nat -> nat -> bool) (threads1 threads2 : nat),
       1 <= max_depth ->
       1 <= threads1 ->
       1 <= threads2 ->
       build_mt hdef root_tape max_depth interval leaf_eval collapsible hmerge hsolve cmt1
         (mt_target max_depth threads1) <> Cancel ->
       build_mt hdef root_tape max_depth interval leaf_eval collapsible hmerge hsolve cmt2
         (mt_target max_depth threads2) <> Cancel ->
       exists o1 o2 : octree vertex,
         build_mt hdef root_tape max_depth interval leaf_eval collapsible hmerge hsolve cmt1
           (mt_target max_depth threads1) = Ok o1 /\
         build_mt hdef root_tape max_depth interval leaf_eval collapsible hmerge hsolve cmt2
           (mt_target max_depth threads2) = Ok o2 /\
         abs nverts o1 = abs nverts o2 /\
         (forall a1 a2 : atree vertex,
          abs nverts o1 = Some a1 -> abs nverts o2 = Some a2 -> leaf_verts a1 = leaf_verts a2).
Proof. exact (@M2_threads). Qed.
Print Assumptions C09_M2_threads.

Theorem C09_M3_mt :
  forall (vertex herm tape : Type) (hdef : herm) (root_tape : tape) 
         (max_depth : nat) (interval : tape -> path -> ires tape)
         (leaf_eval : tape -> path -> herm -> lres vertex herm)
         (collapsible : list ckind -> option nat) (hmerge : list herm -> option herm)
         (hsolve : path -> nat -> herm -> option (herm * list vertex)) 
         (nverts : nat -> nat),
       (forall (t : tape) (p : path) (h : herm) (m : nat) (vs : list vertex) (h' : herm),
        leaf_eval t p h = LLeaf m vs h' -> length vs = nverts m) ->
       (forall (p : path) (m : nat) (h h2 : herm) (vs : list vertex),
        hsolve p m h = Some (h2, vs) -> length vs = nverts m) ->
       forall (cmt : nat -> nat -> bool) (target : nat) (o : octree vertex),
       build_mt hdef root_tape max_depth interval leaf_eval collapsible hmerge hsolve cmt target =
       Ok o ->
       wf_octree nverts o
         (fst
            (Dmt hdef root_tape max_depth interval leaf_eval collapsible hmerge hsolve
               (K_of target) 0)) /\ blocks_ok o.
Proof. exact (@M3_mt). Qed.
Print Assumptions C09_M3_mt.

Theorem C09_M3_reachable :
  forall (vertex : Type) (nverts : nat -> nat) (o : octree vertex) 
         (a : atree vertex) (j : nat),
       wf_octree nverts o a ->
       reach (cells o) (root o) j ->
       exists blk : list cell, nth_error (cells o) j = Some blk /\ wfblk blk.
Proof. exact (@M3_reachable). Qed.
Print Assumptions C09_M3_reachable.

Theorem C09_M4_st :
  forall (vertex herm tape : Type) (hdef : herm) (root_tape : tape) 
         (max_depth : nat) (interval : tape -> path -> ires tape)
         (leaf_eval : tape -> path -> herm -> lres vertex herm)
         (collapsible : list ckind -> option nat) (hmerge : list herm -> option herm)
         (hsolve : path -> nat -> herm -> option (herm * list vertex)) 
         (nverts : nat -> nat),
       (forall (t : tape) (p : path) (h : herm) (m : nat) (vs : list vertex) (h' : herm),
        leaf_eval t p h = LLeaf m vs h' -> length vs = nverts m) ->
       (forall (p : path) (m : nat) (h h2 : herm) (vs : list vertex),
        hsolve p m h = Some (h2, vs) -> length vs = nverts m) ->
       forall canc : nat -> bool,
       (build_st hdef root_tape max_depth interval leaf_eval collapsible hmerge hsolve canc =
        Cancel <-> (exists k : nat, k < NP_st root_tape max_depth interval /\ canc k = true)) /\
       (build_st hdef root_tape max_depth interval leaf_eval collapsible hmerge hsolve canc <>
        Cancel ->
        exists o : octree vertex,
          build_st hdef root_tape max_depth interval leaf_eval collapsible hmerge hsolve canc =
          Ok o /\
          abs nverts o =
          Some (T_st hdef root_tape max_depth interval leaf_eval collapsible hmerge hsolve)).
Proof. exact (@M4_st). Qed.
Print Assumptions C09_M4_st.

Theorem C09_M4_mt :
  forall (vertex herm tape : Type) (hdef : herm) (root_tape : tape) 
         (max_depth : nat) (interval : tape -> path -> ires tape)
         (leaf_eval : tape -> path -> herm -> lres vertex herm)
         (collapsible : list ckind -> option nat) (hmerge : list herm -> option herm)
         (hsolve : path -> nat -> herm -> option (herm * list vertex)) 
         (nverts : nat -> nat),
       (forall (t : tape) (p : path) (h : herm) (m : nat) (vs : list vertex) (h' : herm),
        leaf_eval t p h = LLeaf m vs h' -> length vs = nverts m) ->
       (forall (p : path) (m : nat) (h h2 : herm) (vs : list vertex),
        hsolve p m h = Some (h2, vs) -> length vs = nverts m) ->
       forall (cmt : nat -> nat -> bool) (target : nat),
       let K := K_of target in
       (build_mt hdef root_tape max_depth interval leaf_eval collapsible hmerge hsolve cmt target =
        Cancel <->
        (exists i k : nat,
           i < 7 * K + 1 /\ k < NPn root_tape max_depth interval (K + i) /\ cmt i k = true)) /\
       (2 <= target ->
        build_mt hdef root_tape max_depth interval leaf_eval collapsible hmerge hsolve cmt target <>
        Cancel ->
        exists o : octree vertex,
          build_mt hdef root_tape max_depth interval leaf_eval collapsible hmerge hsolve cmt target =
          Ok o /\
          abs nverts o =
          Some
            (fst (Dmt hdef root_tape max_depth interval leaf_eval collapsible hmerge hsolve K 0))) /\
       (target <= 1 ->
        build_mt hdef root_tape max_depth interval leaf_eval collapsible hmerge hsolve cmt target <>
        Cancel ->
        build_mt hdef root_tape max_depth interval leaf_eval collapsible hmerge hsolve cmt target =
        Panic).
Proof. exact (@M4_mt). Qed.
Print Assumptions C09_M4_mt.

Theorem C09_mt_depth0_panics :
  forall (vertex herm tape : Type) (hdef : herm) (root_tape : tape) 
         (max_depth : nat) (interval : tape -> path -> ires tape)
         (leaf_eval : tape -> path -> herm -> lres vertex herm)
         (collapsible : list ckind -> option nat) (hmerge : list herm -> option herm)
         (hsolve : path -> nat -> herm -> option (herm * list vertex)) 
         (nverts : nat -> nat),
       (forall (t : tape) (p : path) (h : herm) (m : nat) (vs : list vertex) (h' : herm),
        leaf_eval t p h = LLeaf m vs h' -> length vs = nverts m) ->
       (forall (p : path) (m : nat) (h h2 : herm) (vs : list vertex),
        hsolve p m h = Some (h2, vs) -> length vs = nverts m) ->
       forall (cmt : nat -> nat -> bool) (threads : nat),
       max_depth = 0 ->
       1 <= threads ->
       build_mt hdef root_tape max_depth interval leaf_eval collapsible hmerge hsolve cmt
         (mt_target max_depth threads) <> Cancel ->
       build_mt hdef root_tape max_depth interval leaf_eval collapsible hmerge hsolve cmt
         (mt_target max_depth threads) = Panic.
Proof. exact (@mt_depth0_panics). Qed.
Print Assumptions C09_mt_depth0_panics.

Theorem C09_demo_satisfies_M2 :
  forall target : nat,
       2 <= target <= 64 ->
       exists omt ost : octree nat,
         Demo.mt target = Ok omt /\
         Demo.st = Ok ost /\ abs Demo.ex_nverts omt = abs Demo.ex_nverts ost.
Proof. exact (@demo_satisfies_M2). Qed.
Print Assumptions C09_demo_satisfies_M2.

Theorem C09_M2_without_coherence_refuted :
  ~
       (forall (interval : unit -> path -> ires unit) (target : nat),
        2 <= target <= 8 ^ 2 ->
        abs_res Demo.ex_nverts
          (build_mt 0 tt 2 interval Demo.ex_leaf Demo.ex_collapsible Demo.ex_hmerge Demo.ex_hsolve
             (fun _ _ : nat => false) target) =
        abs_res Demo.ex_nverts
          (build_st 0 tt 2 interval Demo.ex_leaf Demo.ex_collapsible Demo.ex_hmerge Demo.ex_hsolve
             (fun _ : nat => false))).
Proof. exact (@M2_without_coherence_refuted). Qed.
Print Assumptions C09_M2_without_coherence_refuted.

Theorem C09_M2_without_tape_independence_refuted :
  abs_res Demo2.ex_nverts (Demo2.mt 8) <> abs_res Demo2.ex_nverts Demo2.st.
Proof. exact (@M2_without_tape_independence_refuted). Qed.
Print Assumptions C09_M2_without_tape_independence_refuted.
