(* C09 — parallel execution and cancellation are unobservable in results.
   The scheduling / cancellation bookkeeping of render_tiles and of the result assembly is
   theories/Sched.v: tasks poll the cancel token in ANY time order (a permutation of the task
   list), results are collected in task order, the image is assembled from disjoint tiles. *)
From Coq Require Import List Arith Bool Lia Permutation.
From FV Require Import Sched.
Import ListNotations.

(* a run whose token is never set always returns the complete result, whatever the schedule *)
Theorem C09_never_cancelled_completes :
  forall (A B : Type) (f : A -> B) (tasks : list A) (order : list nat),
    run_tasks f tasks order None = Some (map f tasks).
Proof. exact @never_cancelled_completes. Qed.
Print Assumptions C09_never_cancelled_completes.

(* no partial results: the complete result or none *)
Theorem C09_all_or_nothing :
  forall (A B : Type) (f : A -> B) (tasks : list A) (order : list nat) (cancel_at : option nat),
    run_tasks f tasks order cancel_at = None \/ run_tasks f tasks order cancel_at = Some (map f tasks).
Proof. exact @all_or_nothing. Qed.
Print Assumptions C09_all_or_nothing.

(* a token set before the last poll of the schedule: no result, for every schedule *)
Theorem C09_cancelled_in_time_gives_none :
  forall (A B : Type) (f : A -> B) (tasks : list A) (order : list nat) (k : nat),
    schedule (length tasks) order -> k < length tasks ->
    run_tasks f tasks order (Some k) = None.
Proof. exact @cancelled_in_time_gives_none. Qed.
Print Assumptions C09_cancelled_in_time_gives_none.

Theorem C09_cancelled_too_late_completes :
  forall (A B : Type) (f : A -> B) (tasks : list A) (order : list nat) (k : nat),
    length order = length tasks -> length tasks <= k ->
    run_tasks f tasks order (Some k) = Some (map f tasks).
Proof. exact @cancelled_too_late_completes. Qed.
Print Assumptions C09_cancelled_too_late_completes.

(* the interleaving is unobservable *)
Theorem C09_schedule_unobservable :
  forall (A B : Type) (f : A -> B) (tasks : list A) (o1 o2 : list nat) (c : option nat),
    schedule (length tasks) o1 -> schedule (length tasks) o2 ->
    run_tasks f tasks o1 c = run_tasks f tasks o2 c.
Proof. exact @schedule_unobservable. Qed.
Print Assumptions C09_schedule_unobservable.

(* each pixel of the assembled image comes from THE tile covering it ... *)
Theorem C09_assemble_pixel :
  forall (P : Type) (dflt : P) (w h t : nat) (tiles : list ((nat * nat) * (nat -> nat -> P)))
         (a : (nat * nat) * (nat -> nat -> P)) (x y : nat),
    disjoint_tiles t tiles -> In a tiles -> covers t (fst a) x y = true -> x < w -> y < h ->
    assemble dflt w h t tiles x y = snd a (x - fst (fst a)) (y - snd (fst a)).
Proof. exact @assemble_pixel. Qed.
Print Assumptions C09_assemble_pixel.

(* ... so the order in which tile results arrive does not matter *)
Theorem C09_assemble_order_unobservable :
  forall (P : Type) (dflt : P) (w h t : nat) (tiles tiles' : list ((nat * nat) * (nat -> nat -> P))),
    Permutation tiles tiles' -> disjoint_tiles t tiles -> disjoint_tiles t tiles' ->
    forall x y, x < w -> y < h -> assemble dflt w h t tiles x y = assemble dflt w h t tiles' x y.
Proof. exact @assemble_order_unobservable. Qed.
Print Assumptions C09_assemble_order_unobservable.
