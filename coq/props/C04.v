(* C04 — simplifying with a trace never changes values on the traced domain. *)
From Coq Require Import List.
From FV Require Import Ops Tape Validate ValidateProof SimplifyValidate SimplifyValidateProof
     TraceValid F32 F32Eq F32Sem F32Choice.

(* Stage A (per simplification; any value type / semantics with CopyReg = identity):
   a child tape accepted by the validator writes the parent's outputs at every input
   where the trace is valid, whatever the evaluators' slots held before. *)
Theorem C04_validated_simplification_correct :
  forall (V I : Type) (ieqb : I -> I -> bool),
    (forall a b, ieqb a b = true -> a = b) ->
    forall (sem : Sem V I), (forall v, s_un sem UCopy v = v) ->
    forall (inputs : list V) (parent : list (op I)) (trace : list tchoice) (child : list (op I)),
      check_simplify ieqb parent trace child = true ->
      forall (e0 e0' : env) (out0 : list V),
        valid_at sem inputs parent e0 out0 trace ->
        m_out (eval_tape sem parent inputs e0 out0) = m_out (eval_tape sem child inputs e0' out0).
Proof. exact (@check_simplify_sound). Qed.
Print Assumptions C04_validated_simplification_correct.

(* A trace recorded by a tracing evaluator is valid at the input that produced it,
   for every semantics with an honest choice function. *)
Theorem C04_recorded_trace_valid :
  forall (V I : Type) (sem : Sem V I) (inputs : list V),
    choice_law sem ->
    forall (tape : list (op I)) (e0 : env) (out0 : list V),
      valid_at sem inputs tape e0 out0 (rev (m_trace (eval_tape sem tape inputs e0 out0))).
Proof. exact (@recorded_trace_valid). Qed.
Print Assumptions C04_recorded_trace_valid.

(* f32 point evaluation: its own trace always simplifies soundly (validated child). *)
Theorem C04_point_trace_simplification_f32 :
  forall (o : oracle) (inputs : list f32) (parent child : list (op f32)) (e0 e0' : env (V:=f32)) (out0 : list f32),
    check_simplify f32_eqb parent (rev (m_trace (eval_tape (f32_sem o) parent inputs e0 out0))) child = true ->
    m_out (eval_tape (f32_sem o) parent inputs e0 out0) = m_out (eval_tape (f32_sem o) child inputs e0' out0).
Proof.
  intros o inputs parent child e0 e0' out0 H.
  apply (check_simplify_sound f32_eqb f32_eqb_eq (f32_sem o) (fun v => eq_refl) inputs _ _ _ H).
  apply recorded_trace_valid, f32_choice_law.
Qed.
Print Assumptions C04_point_trace_simplification_f32.

(* ---- Stage B: the for-all theorems about VmData::simplify itself ------------------- *)
From Coq Require Import Arith.
From FV Require Import Alloc SsaWf Simplify AllocProof SimplifyProof SimplifyTotal.
Import ListNotations.

(* Any successful simplification of a well-formed tape with a trace valid at the inputs:
   same outputs in the same order (for any stale slots), the child is a well-formed SSA
   tape, its choice count is its number of choice clauses, the output count is the parent's. *)
Theorem C04_simplify_ssa_correct :
  forall (V I : Type) (sem : Sem V I),
    (forall v, s_un sem UCopy v = v) ->
  forall (ao : bool) (m : nat) (parent : list (op I)) (trace : list tchoice)
         (inputs : list V) (e0 e0' : env) (out0 : list V) (z : simplified I),
    ssa_wf parent = true ->
    simplify ao m parent (count_choices parent) trace = Ok z ->
    valid_at sem inputs parent e0 out0 trace ->
    m_out (eval_tape sem parent inputs e0 out0) = m_out (eval_tape sem (z_ssa z) inputs e0' out0) /\
    wf_walk (length parent) (z_ssa z) ([], []) = true /\
    ssa_wf (z_ssa z) = true /\
    z_choices z = count_choices (z_ssa z) /\
    z_outputs z = count_outputs parent /\
    count_outputs parent = count_outputs (z_ssa z).
Proof. exact simplify_ssa_correct. Qed.
Print Assumptions C04_simplify_ssa_correct.

(* ... and into ANY register budget that allocates: the child's register tape is
   observationally equal to the child's SSA tape and in bounds. *)
Theorem C04_simplify_reg_correct :
  forall (V I : Type) (sem : Sem V I) (ao : bool) (m : nat) (parent : list (op I))
         (trace : list tchoice) (z : simplified I),
    ssa_wf parent = true ->
    simplify ao m parent (count_choices parent) trace = Ok z ->
    obs_equal sem (z_ssa z) (z_reg z) /\ tape_bounds m (z_slots z) (z_reg z).
Proof. exact simplify_reg_correct. Qed.
Print Assumptions C04_simplify_reg_correct.

(* A trace can ALWAYS be used (budgets 3..255, no Unknown entries, right length): none of
   simplify's assertions / unwraps fires — with the repaired closing assertion. *)
Theorem C04_simplify_total :
  forall (I : Type) (m : nat) (parent : list (op I)) (trace : list tchoice),
    3 <= m -> m <= 255 ->
    ssa_wf parent = true ->
    forallb ir_ok parent = true ->
    length trace = count_choices parent ->
    ~ In TUnknown trace ->
    exists z, simplify true m parent (count_choices parent) trace = Ok z.
Proof. exact simplify_total. Qed.
Print Assumptions C04_simplify_total.

(* The assertion as it was before the repair (count + 1 = len) is refuted by a two-output tape. *)
Theorem C04_old_assertion_refuted :
  let parent : list (op nat) := [OOutput 0 0; OOutput 0 1; OInput 0 0] in
  ssa_wf parent = true /\
  simplify false 4 parent (count_choices parent) [] = Err 40 /\
  exists z, simplify true 4 parent (count_choices parent) [] = Ok z.
Proof. exact simplify_old_assert_refuted. Qed.
Print Assumptions C04_old_assertion_refuted.

(* The recorded trace of any evaluator with an honest choice function simplifies soundly,
   at SSA and at register level. *)
Theorem C04_recorded_trace_simplifies :
  forall (V I : Type) (sem : Sem V I),
    (forall v, s_un sem UCopy v = v) -> choice_law sem ->
  forall (ao : bool) (m : nat) (parent : list (op I)) (inputs : list V) (e0 e0' : env)
         (out0 : list V) (z : simplified I),
    ssa_wf parent = true ->
    simplify ao m parent (count_choices parent)
             (rev (m_trace (eval_tape sem parent inputs e0 out0))) = Ok z ->
    m_out (eval_tape sem parent inputs e0 out0) = m_out (eval_tape sem (z_ssa z) inputs e0' out0) /\
    m_out (eval_tape sem parent inputs e0 out0) = m_out (eval_tape sem (z_reg z) inputs e0' out0).
Proof. exact simplify_recorded_trace. Qed.
Print Assumptions C04_recorded_trace_simplifies.

(* Chains of simplifications over successive valid traces keep the original outputs. *)
Theorem C04_simplify_chain :
  forall (V I : Type) (sem : Sem V I),
    (forall v, s_un sem UCopy v = v) ->
  forall (inputs : list V) (out0 : list V) (ao : bool) (m : nat) (t t' : list (op I)),
    ssa_wf t = true -> simp_chain sem inputs out0 ao m t t' ->
    ssa_wf t' = true /\
    forall e0 e0' : env,
      m_out (eval_tape sem t inputs e0 out0) = m_out (eval_tape sem t' inputs e0' out0).
Proof. intros V I sem Hc inputs out0 ao m t t'. exact (simplify_chain sem Hc inputs out0 ao m t t'). Qed.
Print Assumptions C04_simplify_chain.

(* ---- choice soundness: when the interval evaluation of min / max / and / or records Left or Right, the point result equals that operand at every point of the box ---- *)
From Coq Require Import Reals Lra Lia Bool.
From FV Require Import Ops Tape Interval Related ER ERLemmas IntervalSound IntervalTotal IntervalLibm IntervalTape
     IntervalTransform IntervalTrig IntervalRem IntervalAtan2 IntervalTotal2 IntervalTapeTotal IntervalAll.
Import ListNotations.

Theorem C04_choice_sound :
  forall (rnd : er -> er) (mix : er -> er -> er) (op : bop) (a b : interval er) (x y : er),
       valid a ->
       valid b ->
       encl a x ->
       encl b y ->
       x <> ENaN ->
       y <> ENaN -> choice_ok (i_choice (er_fl_gen rnd mix) op a b) (er_bin mix op x y) x y.
Proof. exact (@choice_sound). Qed.
Print Assumptions C04_choice_sound.

Theorem C04_imin_choice_sound :
  forall (rnd : er -> er) (mix : er -> er -> er) (a b : interval er) (x y : er),
       valid a ->
       valid b ->
       encl a x ->
       encl b y ->
       x <> ENaN ->
       y <> ENaN -> choice_ok (snd (imin_choice (er_fl_gen rnd mix) a b)) (er_pmin x y) x y.
Proof. exact (@imin_choice_sound). Qed.
Print Assumptions C04_imin_choice_sound.

Theorem C04_imax_choice_sound :
  forall (rnd : er -> er) (mix : er -> er -> er) (a b : interval er) (x y : er),
       valid a ->
       valid b ->
       encl a x ->
       encl b y ->
       x <> ENaN ->
       y <> ENaN -> choice_ok (snd (imax_choice (er_fl_gen rnd mix) a b)) (er_pmax x y) x y.
Proof. exact (@imax_choice_sound). Qed.
Print Assumptions C04_imax_choice_sound.

Theorem C04_iand_choice_sound :
  forall (rnd : er -> er) (mix : er -> er -> er) (a b : interval er) (x y : er),
       valid a ->
       valid b ->
       encl a x ->
       encl b y ->
       x <> ENaN ->
       y <> ENaN -> choice_ok (snd (iand_choice (er_fl_gen rnd mix) a b)) (er_and x y) x y.
Proof. exact (@iand_choice_sound). Qed.
Print Assumptions C04_iand_choice_sound.

Theorem C04_ior_choice_sound :
  forall (rnd : er -> er) (mix : er -> er -> er) (a b : interval er) (x y : er),
       valid a ->
       valid b ->
       encl a x ->
       encl b y ->
       x <> ENaN ->
       y <> ENaN -> choice_ok (snd (ior_choice (er_fl_gen rnd mix) a b)) (er_or x y) x y.
Proof. exact (@ior_choice_sound). Qed.
Print Assumptions C04_ior_choice_sound.
