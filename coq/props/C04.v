(* C04 — simplifying with a trace never changes values on the traced domain. *)
From Coq Require Import List.
From FV Require Import Ops Tape Validate ValidateProof SimplifyValidate SimplifyValidateProof
     TraceValid F32 F32Eq F32Sem F32Choice.

(* Stage A (per simplification; any value type / semantics with CopyReg = identity):
   a child tape accepted by the validator writes the parent's outputs at every input
   where the trace is valid, whatever the evaluators' slots held before. *)
Theorem C04_validated_simplification_correct :
  forall (V I : Type) (ieqb : I -> I -> bool),
    (forall a b, ieqb a b = true -> a = b) ->
    forall (sem : Sem V I), (forall v, s_un sem UCopy v = v) ->
    forall (inputs : list V) (parent : list (op I)) (trace : list tchoice) (child : list (op I)),
      check_simplify ieqb parent trace child = true ->
      forall (e0 e0' : env) (out0 : list V),
        valid_at sem inputs parent e0 out0 trace ->
        m_out (eval_tape sem parent inputs e0 out0) = m_out (eval_tape sem child inputs e0' out0).
Proof. exact (@check_simplify_sound). Qed.
Print Assumptions C04_validated_simplification_correct.

(* A trace recorded by a tracing evaluator is valid at the input that produced it,
   for every semantics with an honest choice function. *)
Theorem C04_recorded_trace_valid :
  forall (V I : Type) (sem : Sem V I) (inputs : list V),
    choice_law sem ->
    forall (tape : list (op I)) (e0 : env) (out0 : list V),
      valid_at sem inputs tape e0 out0 (rev (m_trace (eval_tape sem tape inputs e0 out0))).
Proof. exact (@recorded_trace_valid). Qed.
Print Assumptions C04_recorded_trace_valid.

(* f32 point evaluation: its own trace always simplifies soundly (validated child). *)
Theorem C04_point_trace_simplification_f32 :
  forall (o : oracle) (inputs : list f32) (parent child : list (op f32)) (e0 e0' : env (V:=f32)) (out0 : list f32),
    check_simplify f32_eqb parent (rev (m_trace (eval_tape (f32_sem o) parent inputs e0 out0))) child = true ->
    m_out (eval_tape (f32_sem o) parent inputs e0 out0) = m_out (eval_tape (f32_sem o) child inputs e0' out0).
Proof.
  intros o inputs parent child e0 e0' out0 H.
  apply (check_simplify_sound f32_eqb f32_eqb_eq (f32_sem o) (fun v => eq_refl) inputs _ _ _ H).
  apply recorded_trace_valid, f32_choice_law.
Qed.
Print Assumptions C04_point_trace_simplification_f32.
