(* C10 — reusing evaluators, storage and workspaces never changes results. *)
From Coq Require Import List.
From FV Require Import Ops Tape Lru Alloc Simplify Validate Reuse.
Import ListNotations.

(* RegisterAllocator::reset from ANY prior state is the freshly constructed allocator *)
Theorem C10_alloc_reset_is_new :
  forall (I : Type) (s : ast I) (size : nat),
    a_out s = [] -> length (a_regs s) = a_n s ->
    alloc_reset s size = Ok (alloc_new (a_n s) size).
Proof. exact (@alloc_reset_is_new). Qed.
Print Assumptions C10_alloc_reset_is_new.

(* VmWorkspace::reset from ANY prior state is the fresh workspace *)
Theorem C10_workspace_reset_is_new :
  forall (w : ws) (len : nat), ws_reset w len = {| w_bind := repeat None len; w_count := 0 |}.
Proof. exact ws_reset_is_new. Qed.
Print Assumptions C10_workspace_reset_is_new.

(* stale contents of the output vector are unobservable when every output is written *)
Theorem C10_out_independent :
  forall (V I : Type) (sem : Sem V I) (inputs : list V) (tape : list (op I)) (e0 : env) (out0 out0' : list V),
    length out0 = length out0' -> covers tape (length out0) ->
    m_out (eval_tape sem tape inputs e0 out0) = m_out (eval_tape sem tape inputs e0 out0').
Proof. exact (@out_independent). Qed.
Print Assumptions C10_out_independent.

(* a validated register tape in a reused evaluator = its SSA tape in a fresh one *)
Theorem C10_eval_ignores_stale :
  forall (V I : Type) (ieqb : I -> I -> bool),
    (forall a b, ieqb a b = true -> a = b) ->
    forall (sem : Sem V I) (inputs : list V) (ssa reg : list (op I)) (n : nat),
      check_alloc ieqb ssa reg = true -> covers ssa n ->
      forall (stale_slots : env) (stale_out : list V), length stale_out = n ->
        m_out (eval_tape sem reg inputs stale_slots stale_out)
        = m_out (eval_tape sem ssa inputs (fresh_env sem) (fresh_out sem n)).
Proof. exact (@eval_ignores_stale). Qed.
Print Assumptions C10_eval_ignores_stale.
