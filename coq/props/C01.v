(* C01 — compiled tapes compute exactly the expression they were built from.
   This file holds only the property theorems, each closed by [exact]. *)
From Coq Require Import List.
From FV Require Import Ops Tape Validate ValidateProof F32 F32Eq F32Sem.

(* Stage A (per program, any value type / semantics / inputs / stale slot contents):
   a register tape accepted by the validator is observationally equal to its SSA tape. *)
Theorem C01_validated_tape_correct :
  forall (V I : Type) (ieqb : I -> I -> bool),
    (forall a b, ieqb a b = true -> a = b) ->
    forall (sem : Sem V I) (inputs : list V) (ssa reg : list (op I)),
      check_alloc ieqb ssa reg = true ->
      forall (e0 e0' : env) (out0 : list V),
        m_out (eval_tape sem ssa inputs e0 out0) = m_out (eval_tape sem reg inputs e0' out0) /\
        m_trace (eval_tape sem ssa inputs e0 out0) = m_trace (eval_tape sem reg inputs e0' out0).
Proof. exact (@check_alloc_sound). Qed.
Print Assumptions C01_validated_tape_correct.

(* the f32 instance the runner executes *)
Theorem C01_validated_tape_correct_f32 :
  forall (o : oracle) (inputs : list f32) (ssa reg : list (op f32)),
    check_alloc f32_eqb ssa reg = true ->
    forall (e0 e0' : env) (out0 : list f32),
      m_out (eval_tape (f32_sem o) ssa inputs e0 out0) = m_out (eval_tape (f32_sem o) reg inputs e0' out0).
Proof. intros o inputs ssa reg H e0 e0' out0. exact (proj1 (check_alloc_sound f32_eqb f32_eqb_eq (f32_sem o) inputs ssa reg H e0 e0' out0)). Qed.
Print Assumptions C01_validated_tape_correct_f32.

(* ---- Stage B: the for-all theorems (no per-program check involved) ----------------- *)
From Coq Require Import List Arith.
From FV Require Import Lru Alloc SsaWf LruProof AllocProof.
Import ListNotations.

(* Every well-formed SSA tape, every register budget 3..255: allocation succeeds and the
   register tape writes the SSA tape's outputs and records its trace, for every value
   type, opcode semantics, input and stale slot contents (spills included). *)
Theorem C01_alloc_correct :
  forall (V I : Type) (sem : Sem V I) (n : nat) (ssa : list (op I)),
    3 <= n -> n <= 255 -> ssa_wf ssa = true ->
    exists rt slots,
      reg_tape_new n ssa = Ok (rt, slots) /\
      forall (inputs : list V) (e0 e0' : env) (out0 : list V),
        m_out (eval_tape sem ssa inputs e0 out0) = m_out (eval_tape sem rt inputs e0' out0) /\
        m_trace (eval_tape sem ssa inputs e0 out0) = m_trace (eval_tape sem rt inputs e0' out0).
Proof. exact alloc_correct. Qed.
Print Assumptions C01_alloc_correct.

(* Budgets below 3 fail loudly or are right, never wrong. *)
Theorem C01_alloc_small_budget :
  forall (V I : Type) (sem : Sem V I) (n : nat) (ssa rt : list (op I)) (slots : nat),
    1 <= n -> ssa_wf ssa = true -> reg_tape_new n ssa = Ok (rt, slots) ->
    forall (inputs : list V) (e0 e0' : env) (out0 : list V),
      m_out (eval_tape sem ssa inputs e0 out0) = m_out (eval_tape sem rt inputs e0' out0) /\
      m_trace (eval_tape sem ssa inputs e0 out0) = m_trace (eval_tape sem rt inputs e0' out0).
Proof. exact alloc_small_budget. Qed.
Print Assumptions C01_alloc_small_budget.

(* No slot index outside [0, slot_count): registers < N, memory in [N, slot_count). *)
Theorem C01_alloc_bounds :
  forall (I : Type) (n : nat) (ssa rt : list (op I)) (slots : nat),
    1 <= n -> ssa_wf ssa = true -> reg_tape_new n ssa = Ok (rt, slots) -> tape_bounds n slots rt.
Proof. exact alloc_bounds. Qed.
Print Assumptions C01_alloc_bounds.

(* The array-backed LRU refines an abstract recency list under any poke/pop sequence. *)
Theorem C01_lru_refines :
  forall (n : nat) (cs : list lru_cmd),
    1 <= n -> (forall i, In (CPoke i) cs -> i < n) ->
    lru_rep n (fst (lru_run (lru_new n) cs)) (fst (abs_run (seq 0 n) cs)) /\
    snd (lru_run (lru_new n) cs) = snd (abs_run (seq 0 n) cs) /\
    Permutation.Permutation (fst (abs_run (seq 0 n) cs)) (seq 0 n).
Proof. exact lru_refines. Qed.
Print Assumptions C01_lru_refines.

(* ---- Stage B for SsaTape::new: flattening a Context arena -------------------------- *)
From FV Require Import Flatten CtxEval FlattenPass2 FlattenProof.

(* On every arena a Context can build (children before parents, constants folded),
   flattening never fails ... *)
Theorem C01_flatten_total :
  forall (I : Type) (arena : list (cnode I)) (roots : list nat),
    arena_ok arena roots -> exists t vars, flatten arena roots = Ok (t, vars).
Proof. exact (@flatten_total). Qed.
Print Assumptions C01_flatten_total.

(* ... produces a well-formed SSA tape with the advertised counts and a duplicate-free
   variable map ... *)
Theorem C01_flatten_wf :
  forall (I : Type) (arena : list (cnode I)) (roots : list nat) (t : ssa_tape I) (vars : varmap),
    arena_ok arena roots -> flatten arena roots = Ok (t, vars) ->
    ssa_wf (t_ops t) = true /\
    t_outputs t = length roots /\
    t_choices t = count_choices (t_ops t) /\
    count_outputs (t_ops t) = length roots /\
    NoDup vars.
Proof.
  intros I arena roots t vars OK H.
  destruct (@flatten_wf I arena roots t vars OK H) as (A & B & C & D & E & _). auto.
Qed.
Print Assumptions C01_flatten_wf.

(* ... and the tape computes exactly the direct node-by-node evaluation of the graph, for
   every value type and semantics in which the immediate forms are the register forms and
   Add/Mul/Min/Max commute with an immediate operand (SsaTape::new swaps those), for any
   number of roots incl. duplicate and constant roots. *)
Theorem C01_flatten_correct :
  forall (V I : Type) (sem : Sem V I) (env : nat -> V) (arena : list (cnode I)) (roots : list nat),
    (forall b x c, s_ri sem b x c = s_rr sem b x (s_imm sem c)) ->
    (forall b c x, s_ir sem b c x = s_rr sem b (s_imm sem c) x) ->
    forall (t : ssa_tape I) (vars : varmap),
    (forall b x c, In b [BAdd; BMul; BMin; BMax] ->
       s_rr sem b x (s_imm sem c) = s_rr sem b (s_imm sem c) x) ->
    arena_ok arena roots -> flatten arena roots = Ok (t, vars) ->
    eval_outputs sem (t_ops t) (length roots) (map env vars) = map (ctx_eval sem arena env) roots.
Proof. intros V I sem env arena roots Hri Hir t vars. exact (@flatten_correct I arena roots V sem env Hri Hir t vars). Qed.
Print Assumptions C01_flatten_correct.

(* the commutation hypothesis is necessary: this is the defect repaired by 5adfca8 *)
From FV Require Import FlattenF32.
Theorem C01_old_min_choice_refuted :
  forall o : oracle,
  arena_ok min_arena [2] /\
  exists t vars,
    flatten min_arena [2] = Ok (t, vars) /\
    t_ops t = [OOutput 0 0; OBinRI BMin 0 1 fnzero; OInput 1 0] /\
    eval_outputs (f32_sem_old o) (t_ops t) 1 (map (fun _ => fzero) vars) = [fnzero] /\
    map (ctx_eval (f32_sem_old o) min_arena (fun _ => fzero)) [2] = [fzero].
Proof. exact flatten_f32_old_min_counterexample. Qed.
Print Assumptions C01_old_min_choice_refuted.

(* The f32 instance, with no hypothesis left: for every arena a Context can build, the tape
   SsaTape::new produces evaluates bit-for-bit (Leibniz equality on binary32 values, all
   NaNs being one value) to Context::eval of every root. *)
From FV Require Import F32Facts FlattenF32Uncond.
Theorem C01_flatten_correct_f32 :
  forall (o : oracle) (env : nat -> f32) (arena : list (cnode f32)) (roots : list nat)
         (t : ssa_tape f32) (vars : varmap),
    arena_ok arena roots -> flatten arena roots = Ok (t, vars) ->
    eval_outputs (f32_sem o) (t_ops t) (length roots) (map env vars)
    = map (ctx_eval (f32_sem o) arena env) roots.
Proof. exact flatten_correct_f32_all. Qed.
Print Assumptions C01_flatten_correct_f32.

(* ---- C01, end to end, on f32 --------------------------------------------------------
   For every expression graph a Context can build, every list of roots, every register
   budget 3..255 and every assignment of the variables: compilation succeeds, and the
   interpreter's outputs on the compiled register tape (from ANY stale slot contents)
   are bit-for-bit the direct operation-by-operation evaluation of each root. *)
Theorem C01_compiled_tape_computes_the_expression :
  forall (o : oracle) (arena : list (cnode f32)) (roots : list nat) (n : nat),
    arena_ok arena roots -> 3 <= n -> n <= 255 ->
    exists (t : ssa_tape f32) (vars : varmap) (rt : list (op f32)) (slots : nat),
      flatten arena roots = Ok (t, vars) /\
      reg_tape_new n (t_ops t) = Ok (rt, slots) /\
      forall (env : nat -> f32) (stale : Tape.env),
        m_out (eval_tape (f32_sem o) rt (map env vars) stale (fresh_out (f32_sem o) (length roots)))
        = map (ctx_eval (f32_sem o) arena env) roots.
Proof.
  intros o arena roots n OK H3 H255.
  destruct (@flatten_total f32 arena roots OK) as (t & vars & Hf).
  destruct (@flatten_wf f32 arena roots t vars OK Hf) as (Hwf & _).
  destruct (alloc_correct f32 f32 (f32_sem o) n (t_ops t) H3 H255 Hwf) as (rt & slots & Ha & Hobs).
  exists t, vars, rt, slots. split; [exact Hf|]. split; [exact Ha|].
  intros env stale.
  rewrite <- (flatten_correct_f32_all o env arena roots t vars OK Hf).
  unfold eval_outputs.
  destruct (Hobs (map env vars) (fresh_env (f32_sem o)) stale (fresh_out (f32_sem o) (length roots))) as [E _].
  symmetry. exact E.
Qed.
Print Assumptions C01_compiled_tape_computes_the_expression.

(* ... and the hypothesis [arena_ok] is met by every context a program can build: starting
   from the empty context, any sequence of successful public builder calls (constant, var,
   unary, every binary builder with its rewrites, import of a tree) yields an arena whose
   every choice of in-range roots compiles and evaluates as above. *)
From FV Require Import Ctx CtxProof.
Theorem C01_every_built_context_compiles_correctly :
  forall (o : oracle) (c : ctx) (roots : list nat) (n : nat),
    built_ctx o c -> (forall r, In r roots -> r < length c) -> 3 <= n -> n <= 255 ->
    exists (t : ssa_tape f32) (vars : varmap) (rt : list (op f32)) (slots : nat),
      flatten c roots = Ok (t, vars) /\
      reg_tape_new n (t_ops t) = Ok (rt, slots) /\
      forall (env : nat -> f32) (stale : Tape.env),
        m_out (eval_tape (f32_sem o) rt (map env vars) stale (fresh_out (f32_sem o) (length roots)))
        = map (ctx_eval (f32_sem o) c env) roots.
Proof.
  intros o c roots n B Hr H3 H255.
  apply C01_compiled_tape_computes_the_expression; try assumption.
  eapply ctx_arena_ok; eassumption.
Qed.
Print Assumptions C01_every_built_context_compiles_correctly.
