(* C01 — compiled tapes compute exactly the expression they were built from.
   This file holds only the property theorems, each closed by [exact]. *)
From Coq Require Import List.
From FV Require Import Ops Tape Validate ValidateProof F32 F32Eq F32Sem.

(* Stage A (per program, any value type / semantics / inputs / stale slot contents):
   a register tape accepted by the validator is observationally equal to its SSA tape. *)
Theorem C01_validated_tape_correct :
  forall (V I : Type) (ieqb : I -> I -> bool),
    (forall a b, ieqb a b = true -> a = b) ->
    forall (sem : Sem V I) (inputs : list V) (ssa reg : list (op I)),
      check_alloc ieqb ssa reg = true ->
      forall (e0 e0' : env) (out0 : list V),
        m_out (eval_tape sem ssa inputs e0 out0) = m_out (eval_tape sem reg inputs e0' out0) /\
        m_trace (eval_tape sem ssa inputs e0 out0) = m_trace (eval_tape sem reg inputs e0' out0).
Proof. exact (@check_alloc_sound). Qed.
Print Assumptions C01_validated_tape_correct.

(* the f32 instance the runner executes *)
Theorem C01_validated_tape_correct_f32 :
  forall (o : oracle) (inputs : list f32) (ssa reg : list (op f32)),
    check_alloc f32_eqb ssa reg = true ->
    forall (e0 e0' : env) (out0 : list f32),
      m_out (eval_tape (f32_sem o) ssa inputs e0 out0) = m_out (eval_tape (f32_sem o) reg inputs e0' out0).
Proof. intros o inputs ssa reg H e0 e0' out0. exact (proj1 (check_alloc_sound f32_eqb f32_eqb_eq (f32_sem o) inputs ssa reg H e0 e0' out0)). Qed.
Print Assumptions C01_validated_tape_correct_f32.
