(* C01 — compiled tapes compute exactly the expression they were built from.
   This file holds only the property theorems, each closed by [exact]. *)
From Coq Require Import List.
From FV Require Import Ops Tape Validate ValidateProof F32 F32Eq F32Sem.

(* Stage A (per program, any value type / semantics / inputs / stale slot contents):
   a register tape accepted by the validator is observationally equal to its SSA tape. *)
Theorem C01_validated_tape_correct :
  forall (V I : Type) (ieqb : I -> I -> bool),
    (forall a b, ieqb a b = true -> a = b) ->
    forall (sem : Sem V I) (inputs : list V) (ssa reg : list (op I)),
      check_alloc ieqb ssa reg = true ->
      forall (e0 e0' : env) (out0 : list V),
        m_out (eval_tape sem ssa inputs e0 out0) = m_out (eval_tape sem reg inputs e0' out0) /\
        m_trace (eval_tape sem ssa inputs e0 out0) = m_trace (eval_tape sem reg inputs e0' out0).
Proof. exact (@check_alloc_sound). Qed.
Print Assumptions C01_validated_tape_correct.

(* the f32 instance the runner executes *)
Theorem C01_validated_tape_correct_f32 :
  forall (o : oracle) (inputs : list f32) (ssa reg : list (op f32)),
    check_alloc f32_eqb ssa reg = true ->
    forall (e0 e0' : env) (out0 : list f32),
      m_out (eval_tape (f32_sem o) ssa inputs e0 out0) = m_out (eval_tape (f32_sem o) reg inputs e0' out0).
Proof. intros o inputs ssa reg H e0 e0' out0. exact (proj1 (check_alloc_sound f32_eqb f32_eqb_eq (f32_sem o) inputs ssa reg H e0 e0' out0)). Qed.
Print Assumptions C01_validated_tape_correct_f32.

(* ---- Stage B: the for-all theorems (no per-program check involved) ----------------- *)
From Coq Require Import List Arith.
From FV Require Import Lru Alloc SsaWf LruProof AllocProof.
Import ListNotations.

(* Every well-formed SSA tape, every register budget 3..255: allocation succeeds and the
   register tape writes the SSA tape's outputs and records its trace, for every value
   type, opcode semantics, input and stale slot contents (spills included). *)
Theorem C01_alloc_correct :
  forall (V I : Type) (sem : Sem V I) (n : nat) (ssa : list (op I)),
    3 <= n -> n <= 255 -> ssa_wf ssa = true ->
    exists rt slots,
      reg_tape_new n ssa = Ok (rt, slots) /\
      forall (inputs : list V) (e0 e0' : env) (out0 : list V),
        m_out (eval_tape sem ssa inputs e0 out0) = m_out (eval_tape sem rt inputs e0' out0) /\
        m_trace (eval_tape sem ssa inputs e0 out0) = m_trace (eval_tape sem rt inputs e0' out0).
Proof. exact alloc_correct. Qed.
Print Assumptions C01_alloc_correct.

(* Budgets below 3 fail loudly or are right, never wrong. *)
Theorem C01_alloc_small_budget :
  forall (V I : Type) (sem : Sem V I) (n : nat) (ssa rt : list (op I)) (slots : nat),
    1 <= n -> ssa_wf ssa = true -> reg_tape_new n ssa = Ok (rt, slots) ->
    forall (inputs : list V) (e0 e0' : env) (out0 : list V),
      m_out (eval_tape sem ssa inputs e0 out0) = m_out (eval_tape sem rt inputs e0' out0) /\
      m_trace (eval_tape sem ssa inputs e0 out0) = m_trace (eval_tape sem rt inputs e0' out0).
Proof. exact alloc_small_budget. Qed.
Print Assumptions C01_alloc_small_budget.

(* No slot index outside [0, slot_count): registers < N, memory in [N, slot_count). *)
Theorem C01_alloc_bounds :
  forall (I : Type) (n : nat) (ssa rt : list (op I)) (slots : nat),
    1 <= n -> ssa_wf ssa = true -> reg_tape_new n ssa = Ok (rt, slots) -> tape_bounds n slots rt.
Proof. exact alloc_bounds. Qed.
Print Assumptions C01_alloc_bounds.

(* The array-backed LRU refines an abstract recency list under any poke/pop sequence. *)
Theorem C01_lru_refines :
  forall (n : nat) (cs : list lru_cmd),
    1 <= n -> (forall i, In (CPoke i) cs -> i < n) ->
    lru_rep n (fst (lru_run (lru_new n) cs)) (fst (abs_run (seq 0 n) cs)) /\
    snd (lru_run (lru_new n) cs) = snd (abs_run (seq 0 n) cs) /\
    Permutation.Permutation (fst (abs_run (seq 0 n) cs)) (seq 0 n).
Proof. exact lru_refines. Qed.
Print Assumptions C01_lru_refines.
