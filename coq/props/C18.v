(* C18 — view manipulation keeps its promises: zooming keeps the point under the cursor,
   panning tracks the grabbed point, rotation stays in range and leaves centre and scale alone,
   and every `changed` flag is true exactly when the view changed.  The model (theories/View.v)
   is written once over an abstract number structure: its f32 instance (View32.v) replays the
   implementation bit for bit in the correspondence check; the theorems are about the same
   definitions at the reals (proofs in theories/ViewSound.v). *)
From Coq Require Import List ZArith Reals Lra Lia Bool.
From FV Require Import View.
Import ListNotations.
From FV Require Import ViewSound.

Theorem C18_w2m2_is_TS :
  forall (v : view2 R) (p : R * R),
       view2_w2m_point r_num v p = plus2 (v2_center v) (smul2 (v2_scale v) p).
Proof. exact (@w2m2_is_TS). Qed.
Print Assumptions C18_w2m2_is_TS.

Theorem C18_w2m_is_TRS :
  forall (v : view3 R) (p : R * R * R),
       view3_w2m_point r_num v p =
       plus3 (v3_center v) (Rz (v3_yaw v) (Rx (v3_pitch v) (smul3 (v3_scale v) p))).
Proof. exact (@w2m_is_TRS). Qed.
Print Assumptions C18_w2m_is_TRS.

Theorem C18_zoom2_fixes_cursor :
  forall (v : view2 R) (amount : R) (p : R * R),
       view2_w2m_point r_num (fst (view2_zoom r_num v amount (Some p))) p =
       view2_w2m_point r_num v p.
Proof. exact (@zoom2_fixes_cursor). Qed.
Print Assumptions C18_zoom2_fixes_cursor.

Theorem C18_zoom3_fixes_cursor :
  forall (v : view3 R) (amount : R) (p : R * R * R),
       view3_w2m_point r_num (fst (view3_zoom r_num v amount (Some p))) p =
       view3_w2m_point r_num v p.
Proof. exact (@zoom3_fixes_cursor). Qed.
Print Assumptions C18_zoom3_fixes_cursor.

Theorem C18_canvas2_zoom_fixes_cursor :
  forall (c : canvas2 R) (amount : R) (s : Z * Z),
       under2 (fst (canvas2_zoom r_num c amount (Some s))) s = under2 c s.
Proof. exact (@canvas2_zoom_fixes_cursor). Qed.
Print Assumptions C18_canvas2_zoom_fixes_cursor.

Theorem C18_canvas3_zoom_fixes_cursor :
  forall (c : canvas3 R) (amount : R) (s : Z * Z),
       under3 (fst (canvas3_zoom r_num c amount (Some s))) s = under3 c s.
Proof. exact (@canvas3_zoom_fixes_cursor). Qed.
Print Assumptions C18_canvas3_zoom_fixes_cursor.

Theorem C18_pan2_tracks_grab :
  forall (v v1 : view2 R) (start pos : R * R) (h : handle2 R),
       h = begin_translate2 r_num v start ->
       v2_scale v1 = v2_scale v ->
       view2_w2m_point r_num (fst (translate2 r_num v1 h pos)) pos = view2_w2m_point r_num v start.
Proof. exact (@pan2_tracks_grab). Qed.
Print Assumptions C18_pan2_tracks_grab.

Theorem C18_pan3_tracks_grab :
  forall (v v1 : view3 R) (start pos : R * R * R) (h : handle3 R),
       h = begin_translate3 r_num v start ->
       v3_scale v1 = v3_scale v ->
       v3_yaw v1 = v3_yaw v ->
       v3_pitch v1 = v3_pitch v ->
       view3_w2m_point r_num (fst (translate3 r_num v1 h pos)) pos = view3_w2m_point r_num v start.
Proof. exact (@pan3_tracks_grab). Qed.
Print Assumptions C18_pan3_tracks_grab.

Theorem C18_drag2_tracks_grab :
  forall (c : canvas2 R) (s0 : Z * Z) (evs : list (event2 R)),
       c2_drag c = None ->
       Forall zoomfree2 evs ->
       let c1 := fst (run2 r_num evs (canvas2_begin_drag r_num c s0)) in
       (forall s : Z * Z, under2 (fst (step2 r_num c1 (EDrag2 s))) s = under2 c s0) /\
       (forall size s : Z * Z,
        under2 (fst (step2 r_num c1 (EInteract2 size (Some (s, true)) 0%R))) s = under2 c s0).
Proof. exact (@drag2_tracks_grab). Qed.
Print Assumptions C18_drag2_tracks_grab.

Theorem C18_drag3_tracks_grab :
  forall (c : canvas3 R) (s0 : Z * Z) (evs : list (event3 R)),
       c3_drag c = None ->
       Forall zoomfree3 evs ->
       let c1 := fst (run3 r_num evs (canvas3_begin_drag r_num c s0 Pan)) in
       (forall s : Z * Z, under3 (fst (step3 r_num c1 (EDrag3 s))) s = under3 c s0) /\
       (forall (size : Z * Z * Z) (s : Z * Z) (md : drag_mode),
        under3 (fst (step3 r_num c1 (EInteract3 size (Some (s, Some md)) 0%R))) s = under3 c s0).
Proof. exact (@drag3_tracks_grab). Qed.
Print Assumptions C18_drag3_tracks_grab.

Theorem C18_drag2_after_zoom_refuted :
  exists (c : canvas2 R) (s0 : Z * Z) (a : R),
         c2_drag c = None /\
         (let c1 := fst (run2 r_num [EZoom2 a None] (canvas2_begin_drag r_num c s0)) in
          under2 (fst (step2 r_num c1 (EDrag2 s0))) s0 <> under2 c s0).
Proof. exact (@drag2_after_zoom_refuted). Qed.
Print Assumptions C18_drag2_after_zoom_refuted.

Theorem C18_rotate3_keeps_center_scale :
  forall (v : view3 R) (h : rotate_handle R) (pos : vec3 R),
       let v' := fst (rotate3 r_num v h pos) in
       v3_center v' = v3_center v /\ v3_scale v' = v3_scale v.
Proof. exact (@rotate3_keeps_center_scale). Qed.
Print Assumptions C18_rotate3_keeps_center_scale.

Theorem C18_rotate3_ranges :
  forall (v : view3 R) (h : rotate_handle R) (pos : vec3 R),
       let v' := fst (rotate3 r_num v h pos) in
       (0 <= v3_pitch v' <= PI)%R /\ (- (2 * PI) < v3_yaw v' < 2 * PI)%R.
Proof. exact (@rotate3_ranges). Qed.
Print Assumptions C18_rotate3_ranges.

Theorem C18_run3_ranges :
  forall (evs : list (event3 R)) (c : canvas3 R),
       range3 (c3_view c) -> range3 (c3_view (fst (run3 r_num evs c))).
Proof. exact (@run3_ranges). Qed.
Print Assumptions C18_run3_ranges.

Theorem C18_zoom2_changed_flag_sound :
  forall (v : view2 R) (amount : R) (pos : option (vec2 R)),
       snd (view2_zoom r_num v amount pos) = false <-> fst (view2_zoom r_num v amount pos) = v.
Proof. exact (@zoom2_changed_flag_sound). Qed.
Print Assumptions C18_zoom2_changed_flag_sound.

Theorem C18_zoom3_changed_flag_sound :
  forall (v : view3 R) (amount : R) (pos : option (vec3 R)),
       snd (view3_zoom r_num v amount pos) = false <-> fst (view3_zoom r_num v amount pos) = v.
Proof. exact (@zoom3_changed_flag_sound). Qed.
Print Assumptions C18_zoom3_changed_flag_sound.

Theorem C18_translate2_changed_flag_sound :
  forall (v : view2 R) (h : handle2 R) (pos : vec2 R),
       snd (translate2 r_num v h pos) = false <-> fst (translate2 r_num v h pos) = v.
Proof. exact (@translate2_changed_flag_sound). Qed.
Print Assumptions C18_translate2_changed_flag_sound.

Theorem C18_translate3_changed_flag_sound :
  forall (v : view3 R) (h : handle3 R) (pos : vec3 R),
       snd (translate3 r_num v h pos) = false <-> fst (translate3 r_num v h pos) = v.
Proof. exact (@translate3_changed_flag_sound). Qed.
Print Assumptions C18_translate3_changed_flag_sound.

Theorem C18_rotate3_changed_flag_sound :
  forall (v : view3 R) (h : rotate_handle R) (pos : vec3 R),
       snd (rotate3 r_num v h pos) = false <-> fst (rotate3 r_num v h pos) = v.
Proof. exact (@rotate3_changed_flag_sound). Qed.
Print Assumptions C18_rotate3_changed_flag_sound.

Theorem C18_zoom_old_flag_refuted :
  exists (v : view2 R) (amount : R) (p : R * R),
         amount <> 1%R /\ fst (view2_zoom r_num v amount (Some p)) = v.
Proof. exact (@zoom_old_flag_refuted). Qed.
Print Assumptions C18_zoom_old_flag_refuted.

Theorem C18_canvas2_interact_flag_sound :
  forall (c : canvas2 R) (size : Z * Z) (cursor : option (Z * Z * bool)) (scroll : R),
       snd (canvas2_interact r_num c size cursor scroll) = false <->
       c2_view (fst (canvas2_interact r_num c size cursor scroll)) = c2_view c.
Proof. exact (@canvas2_interact_flag_sound). Qed.
Print Assumptions C18_canvas2_interact_flag_sound.

Theorem C18_canvas3_interact_flag_sound :
  forall (c : canvas3 R) (size : Z * Z * Z) (cursor : option (Z * Z * option drag_mode))
         (scroll : R),
       (snd (canvas3_interact r_num c size cursor scroll) = false <->
        c3_view (fst (canvas3_interact r_num c size cursor scroll)) = c3_view c) /\
       (range3 (c3_view c) -> range3 (c3_view (fst (canvas3_interact r_num c size cursor scroll)))).
Proof. exact (@canvas3_interact_flag_sound). Qed.
Print Assumptions C18_canvas3_interact_flag_sound.

Theorem C18_step2_flag_sound :
  forall (c : canvas2 R) (e : event2 R),
       flag_ok2 c (fst (step2 r_num c e)) (snd (step2 r_num c e)).
Proof. exact (@step2_flag_sound). Qed.
Print Assumptions C18_step2_flag_sound.

Theorem C18_step3_flag_sound :
  forall (c : canvas3 R) (e : event3 R),
       flag_ok3 c (fst (step3 r_num c e)) (snd (step3 r_num c e)).
Proof. exact (@step3_flag_sound). Qed.
Print Assumptions C18_step3_flag_sound.

Theorem C18_run2_invariants :
  forall (evs : list (event2 R)) (c : canvas2 R),
       Forall
         (fun '(c0, e, c1, ob) =>
          step2 r_num c0 e = (c1, ob) /\
          flag_ok2 c0 c1 ob /\
          (forall p : vec2 R,
           view2_w2m_point r_num (c2_view c1) p =
           plus2 (v2_center (c2_view c1)) (smul2 (v2_scale (c2_view c1)) p))) 
         (trace2 evs c).
Proof. exact (@run2_invariants). Qed.
Print Assumptions C18_run2_invariants.

Theorem C18_run3_invariants :
  forall (evs : list (event3 R)) (c : canvas3 R),
       Forall
         (fun '(c0, e, c1, ob) =>
          step3 r_num c0 e = (c1, ob) /\
          flag_ok3 c0 c1 ob /\
          (range3 (c3_view c0) -> range3 (c3_view c1)) /\
          (forall p : vec3 R,
           view3_w2m_point r_num (c3_view c1) p =
           plus3 (v3_center (c3_view c1))
             (Rz (v3_yaw (c3_view c1))
                (Rx (v3_pitch (c3_view c1)) (smul3 (v3_scale (c3_view c1)) p))))) 
         (trace3 evs c).
Proof. exact (@run3_invariants). Qed.
Print Assumptions C18_run3_invariants.

Theorem C18_run2_all_false_view_unchanged :
  forall (evs : list (event2 R)) (c : canvas2 R),
       Forall (fun b : bool => b = false) (snd (run2 r_num evs c)) ->
       c2_view (fst (run2 r_num evs c)) = c2_view c.
Proof. exact (@run2_all_false_view_unchanged). Qed.
Print Assumptions C18_run2_all_false_view_unchanged.

Theorem C18_run3_all_false_view_unchanged :
  forall (evs : list (event3 R)) (c : canvas3 R),
       Forall (fun b : bool => b = false) (snd (run3 r_num evs c)) ->
       c3_view (fst (run3 r_num evs c)) = c3_view c.
Proof. exact (@run3_all_false_view_unchanged). Qed.
Print Assumptions C18_run3_all_false_view_unchanged.

Theorem C18_screen_to_world2_spec :
  forall w h px py : Z,
       let s := (2 / IZR (Z.min w h))%R in
       screen_to_world2 r_num w h px py =
       (((IZR px - IZR w / 2) * s)%R, ((IZR py - (IZR h / 2 - 1)) * - s)%R).
Proof. exact (@screen_to_world2_spec). Qed.
Print Assumptions C18_screen_to_world2_spec.

Theorem C18_screen_to_world3_spec :
  forall w h d px py pz : Z,
       let s := (2 / IZR (Z.min (Z.min w h) d))%R in
       screen_to_world3 r_num w h d px py pz =
       (((IZR px - IZR w / 2) * s)%R, ((IZR py - (IZR h / 2 - 1)) * - s)%R,
        ((IZR pz - IZR d / 2) * s)%R).
Proof. exact (@screen_to_world3_spec). Qed.
Print Assumptions C18_screen_to_world3_spec.
