(* C06 — 2D rendering equals per-pixel evaluation of the shape.
   The tiled renderer (pixel.rs render / render_tile_recurse / render_tile_pixels, lib.rs
   render_tiles, TileSizesRef, pixel_offset, TileSizes::new) is theories/Render2.v, generic in
   the evaluators; the f32 instance (Render32.v) replays the implementation's images bit for
   bit.  Hypotheses of the theorems: interval results enclose the point values on the closed
   tile box (C03) and simplification preserves values there (C04).  Proofs: Render2Sound.v. *)
From Coq Require Import List ZArith Bool Lia.
From FV Require Import Render2 Render2Sound.
Import ListNotations.
Open Scope Z_scope.

Theorem C06_tile_sizes_new_guarantee :
  forall l : list Z, ts_valid l -> l <> [] /\ Forall (fun s : Z => 0 < s) l /\ chain l.
Proof. exact (@tile_sizes_new_guarantee). Qed.
Print Assumptions C06_tile_sizes_new_guarantee.

Theorem C06_tile_sizes_ref_valid :
  forall (l : list Z) (m : Z), ts_valid l -> ts_valid (tile_sizes_ref l m).
Proof. exact (@tile_sizes_ref_valid). Qed.
Print Assumptions C06_tile_sizes_ref_valid.

Theorem C06_tile_sizes_ref_chain :
  forall (l : list Z) (m : Z),
       ts_valid l -> let r := tile_sizes_ref l m in r <> [] /\ chain r /\ 0 < hd 0 r.
Proof. exact (@tile_sizes_ref_chain). Qed.
Print Assumptions C06_tile_sizes_ref_chain.

Theorem C06_render2_correct :
  forall (tape trace ires V : Type) (ieval : tape -> Z * Z -> Z -> ires * option trace)
         (i_upper_neg i_lower_pos : ires -> bool) (simplify : tape -> trace -> tape)
         (feval : tape -> Z * Z -> V) (vdefault : V) (neg posv : V -> bool),
       (forall v : V, posv v = true -> neg v = false) ->
       (forall (t : tape) (c : Z * Z) (s : Z) (p : Z * Z),
        in_cbox c s p -> i_upper_neg (fst (ieval t c s)) = true -> neg (feval t p) = true) ->
       (forall (t : tape) (c : Z * Z) (s : Z) (p : Z * Z),
        in_cbox c s p -> i_lower_pos (fst (ieval t c s)) = true -> posv (feval t p) = true) ->
       (forall (t : tape) (c : Z * Z) (s : Z) (tr : trace) (p : Z * Z),
        snd (ieval t c s) = Some tr -> in_cbox c s p -> feval (simplify t tr) p = feval t p) ->
       forall (pixel_perfect : bool) (root : tape) (tiles : list Z) (w h : Z),
       ts_valid tiles ->
       0 < w ->
       0 < h ->
       let img :=
         render2 ieval i_upper_neg i_lower_pos simplify feval vdefault pixel_perfect tiles w h root
         in
       zlength img = w * h /\
       (forall x y : Z,
        0 <= x < w ->
        0 <= y < h ->
        pix_ok feval neg pixel_perfect root (x, y) (znth img (y * w + x) (pdefault vdefault))).
Proof. exact (@render2_correct). Qed.
Print Assumptions C06_render2_correct.

Theorem C06_render2_pixel_perfect :
  forall (tape trace ires V : Type) (ieval : tape -> Z * Z -> Z -> ires * option trace)
         (i_upper_neg i_lower_pos : ires -> bool) (simplify : tape -> trace -> tape)
         (feval : tape -> Z * Z -> V) (vdefault : V) (neg posv : V -> bool),
       (forall v : V, posv v = true -> neg v = false) ->
       (forall (t : tape) (c : Z * Z) (s : Z) (p : Z * Z),
        in_cbox c s p -> i_upper_neg (fst (ieval t c s)) = true -> neg (feval t p) = true) ->
       (forall (t : tape) (c : Z * Z) (s : Z) (p : Z * Z),
        in_cbox c s p -> i_lower_pos (fst (ieval t c s)) = true -> posv (feval t p) = true) ->
       (forall (t : tape) (c : Z * Z) (s : Z) (tr : trace) (p : Z * Z),
        snd (ieval t c s) = Some tr -> in_cbox c s p -> feval (simplify t tr) p = feval t p) ->
       forall (pixel_perfect : bool) (root : tape) (tiles : list Z) (w h x y : Z),
       ts_valid tiles ->
       0 < w ->
       0 < h ->
       pixel_perfect = true ->
       0 <= x < w ->
       0 <= y < h ->
       znth
         (render2 ieval i_upper_neg i_lower_pos simplify feval vdefault pixel_perfect tiles w h
            root) (y * w + x) (pdefault vdefault) = Dist (feval root (x, y)).
Proof. exact (@render2_pixel_perfect). Qed.
Print Assumptions C06_render2_pixel_perfect.

Theorem C06_render2_cases :
  forall (tape trace ires V : Type) (ieval : tape -> Z * Z -> Z -> ires * option trace)
         (i_upper_neg i_lower_pos : ires -> bool) (simplify : tape -> trace -> tape)
         (feval : tape -> Z * Z -> V) (vdefault : V) (neg posv : V -> bool),
       (forall v : V, posv v = true -> neg v = false) ->
       (forall (t : tape) (c : Z * Z) (s : Z) (p : Z * Z),
        in_cbox c s p -> i_upper_neg (fst (ieval t c s)) = true -> neg (feval t p) = true) ->
       (forall (t : tape) (c : Z * Z) (s : Z) (p : Z * Z),
        in_cbox c s p -> i_lower_pos (fst (ieval t c s)) = true -> posv (feval t p) = true) ->
       (forall (t : tape) (c : Z * Z) (s : Z) (tr : trace) (p : Z * Z),
        snd (ieval t c s) = Some tr -> in_cbox c s p -> feval (simplify t tr) p = feval t p) ->
       forall (pixel_perfect : bool) (root : tape) (tiles : list Z) (w h x y : Z),
       ts_valid tiles ->
       0 < w ->
       0 < h ->
       0 <= x < w ->
       0 <= y < h ->
       let px :=
         znth
           (render2 ieval i_upper_neg i_lower_pos simplify feval vdefault pixel_perfect tiles w h
              root) (y * w + x) (pdefault vdefault) in
       px = Dist (feval root (x, y)) \/
       pixel_perfect = false /\ (exists d : nat, px = Fill (neg (feval root (x, y))) d).
Proof. exact (@render2_cases). Qed.
Print Assumptions C06_render2_cases.

Theorem C06_render2_is_inside :
  forall (tape trace ires V : Type) (ieval : tape -> Z * Z -> Z -> ires * option trace)
         (i_upper_neg i_lower_pos : ires -> bool) (simplify : tape -> trace -> tape)
         (feval : tape -> Z * Z -> V) (vdefault : V) (neg posv : V -> bool),
       (forall v : V, posv v = true -> neg v = false) ->
       (forall (t : tape) (c : Z * Z) (s : Z) (p : Z * Z),
        in_cbox c s p -> i_upper_neg (fst (ieval t c s)) = true -> neg (feval t p) = true) ->
       (forall (t : tape) (c : Z * Z) (s : Z) (p : Z * Z),
        in_cbox c s p -> i_lower_pos (fst (ieval t c s)) = true -> posv (feval t p) = true) ->
       (forall (t : tape) (c : Z * Z) (s : Z) (tr : trace) (p : Z * Z),
        snd (ieval t c s) = Some tr -> in_cbox c s p -> feval (simplify t tr) p = feval t p) ->
       forall (pixel_perfect : bool) (root : tape) (tiles : list Z) (w h x y : Z),
       ts_valid tiles ->
       0 < w ->
       0 < h ->
       0 <= x < w ->
       0 <= y < h ->
       is_inside neg
         (znth
            (render2 ieval i_upper_neg i_lower_pos simplify feval vdefault pixel_perfect tiles w h
               root) (y * w + x) (pdefault vdefault)) = neg (feval root (x, y)).
Proof. exact (@render2_is_inside). Qed.
Print Assumptions C06_render2_is_inside.

Theorem C06_render2_equiv_brute :
  forall (tape trace ires V : Type) (ieval : tape -> Z * Z -> Z -> ires * option trace)
         (i_upper_neg i_lower_pos : ires -> bool) (simplify : tape -> trace -> tape)
         (feval : tape -> Z * Z -> V) (vdefault : V) (neg posv : V -> bool),
       (forall v : V, posv v = true -> neg v = false) ->
       (forall (t : tape) (c : Z * Z) (s : Z) (p : Z * Z),
        in_cbox c s p -> i_upper_neg (fst (ieval t c s)) = true -> neg (feval t p) = true) ->
       (forall (t : tape) (c : Z * Z) (s : Z) (p : Z * Z),
        in_cbox c s p -> i_lower_pos (fst (ieval t c s)) = true -> posv (feval t p) = true) ->
       (forall (t : tape) (c : Z * Z) (s : Z) (tr : trace) (p : Z * Z),
        snd (ieval t c s) = Some tr -> in_cbox c s p -> feval (simplify t tr) p = feval t p) ->
       forall (pixel_perfect : bool) (root : tape) (tiles : list Z) (w h : Z),
       ts_valid tiles ->
       0 < w ->
       0 < h ->
       Forall2 (pix_equiv neg)
         (render2 ieval i_upper_neg i_lower_pos simplify feval vdefault pixel_perfect tiles w h
            root) (brute2 feval w h root).
Proof. exact (@render2_equiv_brute). Qed.
Print Assumptions C06_render2_equiv_brute.

Theorem C06_render2_pixel_perfect_eq_brute :
  forall (tape trace ires V : Type) (ieval : tape -> Z * Z -> Z -> ires * option trace)
         (i_upper_neg i_lower_pos : ires -> bool) (simplify : tape -> trace -> tape)
         (feval : tape -> Z * Z -> V) (vdefault : V) (neg posv : V -> bool),
       (forall v : V, posv v = true -> neg v = false) ->
       (forall (t : tape) (c : Z * Z) (s : Z) (p : Z * Z),
        in_cbox c s p -> i_upper_neg (fst (ieval t c s)) = true -> neg (feval t p) = true) ->
       (forall (t : tape) (c : Z * Z) (s : Z) (p : Z * Z),
        in_cbox c s p -> i_lower_pos (fst (ieval t c s)) = true -> posv (feval t p) = true) ->
       (forall (t : tape) (c : Z * Z) (s : Z) (tr : trace) (p : Z * Z),
        snd (ieval t c s) = Some tr -> in_cbox c s p -> feval (simplify t tr) p = feval t p) ->
       forall (pixel_perfect : bool) (root : tape) (tiles : list Z) (w h : Z),
       ts_valid tiles ->
       0 < w ->
       0 < h ->
       pixel_perfect = true ->
       render2 ieval i_upper_neg i_lower_pos simplify feval vdefault pixel_perfect tiles w h root =
       brute2 feval w h root.
Proof. exact (@render2_pixel_perfect_eq_brute). Qed.
Print Assumptions C06_render2_pixel_perfect_eq_brute.

Theorem C06_pixel_offset_in_bounds :
  forall t0 rx ry : Z,
       0 < t0 ->
       rx mod t0 = 0 ->
       ry mod t0 = 0 -> forall p : Z * Z, bdom t0 rx ry p -> 0 <= pixel_offset t0 p < t0 * t0.
Proof. exact (@pixel_offset_in_bounds). Qed.
Print Assumptions C06_pixel_offset_in_bounds.

Theorem C06_pixel_offset_inj :
  forall t0 rx ry : Z,
       0 < t0 ->
       rx mod t0 = 0 ->
       ry mod t0 = 0 ->
       forall p q : Z * Z,
       bdom t0 rx ry p -> bdom t0 rx ry q -> pixel_offset t0 p = pixel_offset t0 q -> p = q.
Proof. exact (@pixel_offset_inj). Qed.
Print Assumptions C06_pixel_offset_inj.

Theorem C06_tile_sizes_new_zero_accepted :
  tile_sizes_new_old [0] = Some [0].
Proof. exact (@tile_sizes_new_zero_accepted). Qed.
Print Assumptions C06_tile_sizes_new_zero_accepted.

Theorem C06_Render2DemoSound_demo_render2_equiv_brute :
  forall (pp : bool) (ts : list Z) (w h : Z) (t : Render2Demo.tape),
       ts_valid ts ->
       0 < w ->
       0 < h ->
       Forall2 (pix_equiv Render2Demo.neg) (Render2Demo.render pp ts w h t)
         (Render2Demo.brute w h t).
Proof. exact (@Render2DemoSound.demo_render2_equiv_brute). Qed.
Print Assumptions C06_Render2DemoSound_demo_render2_equiv_brute.

(* ---- the pixel encoding: a value is never read back as a fill (constants and the NaN canonicalisation are
   regenerated from fidget-raster/src/pixel.rs on every run, PixelGenCheck.v) ---- *)
From Coq Require Import NArith.
From FV Require Import PixelCodec PixelGenCheck.
From FVGen Require Import RasterGen.
Theorem C06_value_pixel_is_never_a_fill :
  forall b : N, unpack (of_value gen_value_canonicalises_nan b) = Value (of_value gen_value_canonicalises_nan b).
Proof. exact source_value_is_never_a_fill. Qed.
Print Assumptions C06_value_pixel_is_never_a_fill.
Theorem C06_fill_pixel_round_trip :
  forall (depth : N) (inside : bool), (depth < 256)%N -> unpack (of_fill depth inside) = Fill depth inside.
Proof. exact fill_round_trip. Qed.
Print Assumptions C06_fill_pixel_round_trip.
Theorem C06_value_and_fill_encodings_disjoint :
  forall (b depth : N) (inside : bool), (depth < 256)%N -> of_value true b <> of_fill depth inside.
Proof. exact value_and_fill_disjoint. Qed.
Print Assumptions C06_value_and_fill_encodings_disjoint.
