(* CtxCtors.v — every constructor of Ctx.v as a "plan": a function of what the
   argument nodes hold ([get_op c a], [get_op c b]) that says which existing node is
   returned or which node is inserted.  From the plan equations:
     P1  each constructor preserves [ctx_inv] (and [ctx_canon]), only extends the
         arena, returns a node in range, and fails exactly with BadNode (Err 100)
         exactly when an argument is out of range;
     P2  calling it again (in any later context) returns the same node and changes
         nothing. *)
From Coq Require Import List Bool Arith ZArith Lia.
From Flocq Require Import IEEE754.BinarySingleNaN.
From FV Require Import F32 Ops Tape Alloc Flatten F32Sem CtxEval FlattenLib FlattenPass2 F32Facts Ctx CtxBase.
Import ListNotations.
Local Open Scope nat_scope.

(* ------------------------------------------------------------------------- *)
(* what a constructor reads of its arguments                                   *)
(* ------------------------------------------------------------------------- *)

Definition gconst (oa : option (cnode f32)) : option f32 :=
  match oa with Some (NConst v) => Some v | _ => None end.
Definition gis (oa : option (cnode f32)) (v : f32) : bool :=
  match gconst oa with Some x => feqb x v | None => false end.
Definition isc (x : cnode f32) : bool := match x with NConst _ => true | _ => false end.

Lemma get_const_g c a : get_const c a = gconst (get_op c a).
Proof. reflexivity. Qed.
Lemma is_const_eq_gis c a v : is_const_eq c a v = gis (get_op c a) v.
Proof. reflexivity. Qed.
Lemma is_constn_isc (c : ctx) a x : get_op c a = Some x -> is_constn c a = isc x.
Proof. unfold get_op, is_constn. intros ->. destruct x; reflexivity. Qed.

Lemma gis_true oa v : gis oa v = true -> exists x, oa = Some (NConst x) /\ feqb x v = true.
Proof. unfold gis, gconst. destruct oa as [[]|]; try discriminate. eauto. Qed.

(* ------------------------------------------------------------------------- *)
(* canonical form of stored commutative / identity-free nodes (for P5)         *)
(* ------------------------------------------------------------------------- *)

Definition canon_node (oa ob : option (cnode f32)) (p : bop) (l r : nat) : bool :=
  match p with
  | BAdd => (l <? r) && negb (gis oa fzero) && negb (gis ob fzero)
  | BMul => (l <? r) && negb (gis oa fone) && negb (gis ob fone) &&
            negb (gis oa fzero) && negb (gis ob fzero)
  | BMin | BMax => l <? r
  | BOr => negb (gis ob fzero)
  | BSub => negb (gis oa fzero) && negb (gis ob fzero)
  | BDiv => negb (gis oa fzero) && negb (gis ob fone)
  | _ => true
  end.

Definition canon_okb (c : ctx) (o : cnode f32) : bool :=
  match o with
  | NBinary p l r => canon_node (get_op c l) (get_op c r) p l r
  | _ => true
  end.

Definition goodc (c : ctx) (o : cnode f32) : Prop := good c o /\ canon_okb c o = true.

Definition nodes_canon (c : ctx) : Prop :=
  forall k o, nth_error c k = Some o -> canon_okb c o = true.

(* the stronger invariant: stored Add/Mul/Min/Max have sorted, distinct operands;
   no stored node has an identity / absorbing constant operand that a rewrite
   would have removed *)
Definition ctx_canon (c : ctx) : Prop := ctx_inv c /\ nodes_canon c.

Lemma canon_okb_ext (c ext : ctx) o :
  (forall k, In k (children o) -> k < length c) -> canon_okb (c ++ ext) o = canon_okb c o.
Proof.
  destruct o; simpl; intros H; auto.
  rewrite !get_op_ext; auto.
Qed.

Lemma insert_canon c o : ctx_canon c -> goodc c o -> ctx_canon (fst (insert c o)).
Proof.
  intros (I & C) (G & K). split; [apply insert_inv; auto|].
  unfold insert. destruct (find_node c o 0) eqn:E; simpl; auto.
  intros k n Hk.
  destruct (Nat.lt_ge_cases k (length c)) as [L|L].
  - rewrite nth_error_app1 in Hk by auto. rewrite canon_okb_ext; eauto.
    intros a Ha. eapply arena_wf_children_lt; eauto. apply I.
  - rewrite nth_error_app2 in Hk by auto.
    destruct (k - length c) as [|[|]] eqn:Ek; simpl in Hk; try discriminate.
    inversion Hk; subst. rewrite canon_okb_ext; auto. apply G.
Qed.

Lemma goodc_good c o : goodc c o -> good c o.
Proof. intros [A _]; auto. Qed.

Lemma reach_canon c c' : ctx_canon c -> reach goodc c c' -> ctx_canon c'.
Proof. intros I R. induction R; auto. apply insert_canon; auto. Qed.

Lemma ctx_canon_nil : ctx_canon [].
Proof. split; [apply ctx_inv_nil|]. intros [|k] x H; discriminate. Qed.

(* ------------------------------------------------------------------------- *)
(* goodness of the nodes the constructors insert                               *)
(* ------------------------------------------------------------------------- *)

Lemma good_const c v : good c (NConst v).
Proof. split; [intros k []|reflexivity]. Qed.
Lemma good_input c v : good c (NInput v).
Proof. split; [intros k []|reflexivity]. Qed.
Lemma goodc_const c v : goodc c (NConst v).
Proof. split; [apply good_const|reflexivity]. Qed.
Lemma goodc_input c v : goodc c (NInput v).
Proof. split; [apply good_input|reflexivity]. Qed.

Lemma good_unary c u a x :
  get_op c a = Some x -> isc x = false -> u <> UCopy -> good c (NUnary u a).
Proof.
  intros Ha Hx Hu. split.
  - intros k [<-|[]]. eapply nth_error_lt; eauto.
  - simpl. rewrite (is_constn_isc _ _ _ Ha), Hx. destruct u; try reflexivity. elim Hu; auto.
Qed.

Lemma goodc_unary c u a x :
  get_op c a = Some x -> isc x = false -> u <> UCopy -> goodc c (NUnary u a).
Proof. intros. split; [eapply good_unary; eauto|reflexivity]. Qed.

Lemma good_binary c p a b x y :
  get_op c a = Some x -> get_op c b = Some y ->
  isc x && isc y = false ->
  (match p with BAnd | BOr => isc x = false | _ => True end) ->
  good c (NBinary p a b).
Proof.
  intros Ha Hb Hxy Hp. split.
  - intros k [<-|[<-|[]]]; eapply nth_error_lt; eauto.
  - simpl. rewrite (is_constn_isc _ _ _ Ha), (is_constn_isc _ _ _ Hb), Hxy. simpl.
    destruct p; simpl; rewrite ?andb_false_r; auto; rewrite Hp; auto.
Qed.

(* ------------------------------------------------------------------------- *)
(* plans                                                                       *)
(* ------------------------------------------------------------------------- *)

Inductive plan :=
| POld (n : nat)                          (* return an existing node *)
| PIns (x : cnode f32)                    (* insert (deduplicating) *)
| PBad                                    (* BadNode *)
| PThen (x : cnode f32) (k : nat -> plan). (* insert, then continue with its index *)

Fixpoint run (c : ctx) (p : plan) : R :=
  match p with
  | POld n => Ok (c, n)
  | PIns x => Ok (insert c x)
  | PBad => bad
  | PThen x k => run (fst (insert c x)) (k (snd (insert c x)))
  end.

Fixpoint nobad (p : plan) : Prop :=
  match p with
  | PBad => False
  | PThen _ k => forall n, nobad (k n)
  | _ => True
  end.

Fixpoint plan_ok (G : ctx -> cnode f32 -> Prop) (c : ctx) (p : plan) : Prop :=
  match p with
  | POld n => n < length c
  | PIns x => G c x
  | PBad => True
  | PThen x k => G c x /\ plan_ok G (fst (insert c x)) (k (snd (insert c x)))
  end.

Ltac inv_ins E :=
  let E' := fresh "E" in let F1 := fresh "F" in let F2 := fresh "F" in
  inversion E as [E']; pose proof (f_equal fst E') as F1; pose proof (f_equal snd E') as F2;
  simpl in F1, F2; subst; clear E'.

Lemma run_err : forall p c e, run c p = Err e -> e = 100.
Proof.
  induction p; simpl; intros c e E; try discriminate.
  - inversion E; auto.
  - eapply H; eauto.
Qed.

Lemma run_ok : forall p c, nobad p -> exists c' n, run c p = Ok (c', n).
Proof.
  induction p; simpl; intros c N; eauto.
  - destruct (insert c x); eauto.
  - elim N.
Qed.

Lemma run_ext : forall p c c' n, run c p = Ok (c', n) -> exists e, c' = c ++ e.
Proof.
  induction p; simpl; intros c c' m E.
  - inversion E; subst. exists []. rewrite app_nil_r; auto.
  - inv_ins E. apply insert_ext.
  - discriminate.
  - apply H in E. destruct E as (e & ->). destruct (insert_ext c x) as (e' & ->).
    exists (e' ++ e). rewrite app_assoc; auto.
Qed.

Lemma run_reach (G : ctx -> cnode f32 -> Prop) : forall p c c' n,
  plan_ok G c p -> run c p = Ok (c', n) -> reach G c c' /\ n < length c'.
Proof.
  induction p; simpl; intros c c' m OKp E.
  - inversion E; subst. split; [apply reach_refl|auto].
  - inv_ins E. split; [apply reach_one; auto | apply insert_lt].
  - discriminate.
  - destruct OKp as [A B]. destruct (H _ _ _ _ B E) as [R L]. split; auto.
    eapply reach_trans; [apply reach_one; eauto|auto].
Qed.

Lemma plan_ok_mono (G G' : ctx -> cnode f32 -> Prop) :
  (forall c x, G c x -> G' c x) -> forall p c, plan_ok G c p -> plan_ok G' c p.
Proof.
  intros M. induction p; simpl; intros c Hp; auto.
  destruct Hp; split; auto.
Qed.

(* P2 in its general form: the same plan, run in any context that extends the
   result, returns the same node and does not touch the context *)
Lemma run_stable : forall p c c' n ext,
  run c p = Ok (c', n) -> run (c' ++ ext) p = Ok (c' ++ ext, n).
Proof.
  induction p; simpl; intros c c' m ext E.
  - inversion E; subst; auto.
  - inv_ins E. rewrite insert_stable. reflexivity.
  - discriminate.
  - pose proof (run_ext _ _ _ _ E) as (e & ->).
    rewrite <- app_assoc. rewrite insert_stable. simpl.
    rewrite app_assoc. eapply H; eauto.
Qed.

(* ------------------------------------------------------------------------- *)
(* the plan of every constructor                                               *)
(* ------------------------------------------------------------------------- *)
Section Plans.
Variable o : oracle.

Definition p_unary (oa : option (cnode f32)) (a : nat) (u : uop) : plan :=
  match oa with
  | None => PBad
  | Some (NConst v) => PIns (NConst (f32_un o u v))
  | Some _ => PIns (NUnary u a)
  end.

Definition p_binary (oa ob : option (cnode f32)) (a b : nat) (p : bop) : plan :=
  match oa, ob with
  | None, _ | _, None => PBad
  | Some (NConst x), Some (NConst y) => PIns (NConst (f32_bin o p x y))
  | Some _, Some _ => PIns (NBinary p a b)
  end.

Definition p_comm (oa ob : option (cnode f32)) (a b : nat) (p : bop) : plan :=
  if a <=? b then p_binary oa ob a b p else p_binary ob oa b a p.

Definition p_check2 (oa ob : option (cnode f32)) (k : plan) : plan :=
  match oa, ob with None, _ | _, None => PBad | _, _ => k end.

Definition p_mul oa ob a b : plan :=
  p_check2 oa ob (
  if a =? b then p_unary oa a USquare
  else if gis oa fone then POld b
  else if gis ob fone then POld a
  else if gis oa fzero then POld a
  else if gis ob fzero then POld b
  else p_comm oa ob a b BMul).

Definition p_add oa ob a b : plan :=
  p_check2 oa ob (
  if a =? b then PThen (NConst ftwo) (fun two => p_mul oa (Some (NConst ftwo)) a two)
  else if gis oa fzero then POld b
  else if gis ob fzero then POld a
  else p_comm oa ob a b BAdd).

Definition p_min oa ob a b : plan :=
  p_check2 oa ob (if a =? b then POld a else p_comm oa ob a b BMin).
Definition p_max oa ob a b : plan :=
  p_check2 oa ob (if a =? b then POld a else p_comm oa ob a b BMax).

Definition p_and oa ob a b : plan :=
  p_check2 oa ob (
  match gconst oa with
  | Some v => if is_zerob v then POld a else POld b
  | None => p_binary oa ob a b BAnd
  end).

Definition p_or oa ob a b : plan :=
  p_check2 oa ob (
  match gconst oa with
  | Some v => if negb (is_zerob v) then POld a else POld b
  | None =>
      match gconst ob with
      | Some w => if is_zerob w then POld a else p_binary oa ob a b BOr
      | None => p_binary oa ob a b BOr
      end
  end).

Definition p_sub oa ob a b : plan :=
  p_check2 oa ob (
  if gis oa fzero then p_unary ob b UNeg
  else if gis ob fzero then POld a
  else p_binary oa ob a b BSub).

Definition p_div oa ob a b : plan :=
  p_check2 oa ob (
  if gis oa fzero then POld a
  else if gis ob fone then POld a
  else p_binary oa ob a b BDiv).

Definition p_build (p : bop) oa ob a b : plan :=
  match p with
  | BAdd => p_add oa ob a b | BSub => p_sub oa ob a b | BMul => p_mul oa ob a b
  | BDiv => p_div oa ob a b | BMin => p_min oa ob a b | BMax => p_max oa ob a b
  | BAnd => p_and oa ob a b | BOr => p_or oa ob a b
  | BAtan | BCompare | BMod | BMix => p_binary oa ob a b p
  end.

(* ---- the constructors are their plans -------------------------------------- *)

Lemma constant_plan c v : constant c v = run c (PIns (NConst v)).
Proof. reflexivity. Qed.
Lemma var_plan c v : var c v = run c (PIns (NInput v)).
Proof. reflexivity. Qed.

Lemma op_unary_plan c a u : op_unary o c a u = run c (p_unary (get_op c a) a u).
Proof. unfold op_unary, p_unary. destruct (get_op c a) as [[]|]; reflexivity. Qed.

Lemma op_binary_plan c a b p :
  op_binary o c a b p = run c (p_binary (get_op c a) (get_op c b) a b p).
Proof.
  unfold op_binary, p_binary.
  destruct (get_op c a) as [[]|]; destruct (get_op c b) as [[]|]; reflexivity.
Qed.

Lemma op_comm_plan c a b p :
  op_binary_commutative o c a b p = run c (p_comm (get_op c a) (get_op c b) a b p).
Proof.
  unfold op_binary_commutative, p_comm. rewrite op_binary_plan.
  destruct (Nat.leb_spec a b).
  - rewrite Nat.min_l, Nat.max_r by lia. reflexivity.
  - rewrite Nat.min_r, Nat.max_l by lia. reflexivity.
Qed.

Lemma check2_plan c a b k pk :
  k = run c pk -> check2 c a b k = run c (p_check2 (get_op c a) (get_op c b) pk).
Proof.
  intros ->. unfold check2, p_check2.
  destruct (get_op c a); destruct (get_op c b); reflexivity.
Qed.

Lemma run_if (b : bool) c p q : (if b then run c p else run c q) = run c (if b then p else q).
Proof. destruct b; reflexivity. Qed.

Lemma c_mul_plan c a b : c_mul o c a b = run c (p_mul (get_op c a) (get_op c b) a b).
Proof.
  unfold c_mul, p_mul. apply check2_plan.
  rewrite op_unary_plan, op_comm_plan, !is_const_eq_gis.
  change (Ok (c, b)) with (run c (POld b)). change (Ok (c, a)) with (run c (POld a)).
  rewrite !run_if. reflexivity.
Qed.

(* the node of the constant 2.0 *)
Lemma ftwo_nonzero : is_zerob ftwo = false. Proof. reflexivity. Qed.
Lemma insert_const_get c v :
  is_zerob v = false ->
  get_op (fst (insert c (NConst v))) (snd (insert c (NConst v))) = Some (NConst v).
Proof.
  intros Z. destruct (insert_get c (NConst v)) as (x & Hx & E). unfold get_op. rewrite Hx.
  apply cnode_eqb_true_iff in E. destruct E as [->|(a & b & -> & Hb & _ & Zb)]; auto.
  inversion Hb; subst. congruence.
Qed.

Lemma c_add_plan c a b : c_add o c a b = run c (p_add (get_op c a) (get_op c b) a b).
Proof.
  unfold c_add, p_add.
  destruct (Nat.eqb_spec a b) as [->|N].
  - unfold check2, p_check2. destruct (get_op c b) as [x|] eqn:Hb; [|reflexivity].
    simpl. unfold constant. destruct (insert c (NConst ftwo)) as [c1 two] eqn:E.
    rewrite c_mul_plan.
    replace c1 with (fst (insert c (NConst ftwo))) by (rewrite E; auto).
    replace two with (snd (insert c (NConst ftwo))) by (rewrite E; auto).
    rewrite insert_const_get by reflexivity.
    destruct (insert_ext c (NConst ftwo)) as (e & ->).
    rewrite get_op_ext by (eapply nth_error_lt; eauto). rewrite Hb. reflexivity.
  - apply check2_plan. rewrite op_comm_plan, !is_const_eq_gis.
    change (Ok (c, b)) with (run c (POld b)). change (Ok (c, a)) with (run c (POld a)).
    rewrite !run_if. reflexivity.
Qed.

Lemma c_min_plan c a b : c_min o c a b = run c (p_min (get_op c a) (get_op c b) a b).
Proof.
  unfold c_min, p_min. apply check2_plan. rewrite op_comm_plan.
  change (Ok (c, a)) with (run c (POld a)). rewrite !run_if. reflexivity.
Qed.
Lemma c_max_plan c a b : c_max o c a b = run c (p_max (get_op c a) (get_op c b) a b).
Proof.
  unfold c_max, p_max. apply check2_plan. rewrite op_comm_plan.
  change (Ok (c, a)) with (run c (POld a)). rewrite !run_if. reflexivity.
Qed.

Lemma c_and_plan c a b : c_and o c a b = run c (p_and (get_op c a) (get_op c b) a b).
Proof.
  unfold c_and, p_and. apply check2_plan. rewrite op_binary_plan, get_const_g.
  destruct (gconst (get_op c a)); [destruct (is_zerob f)|]; reflexivity.
Qed.

Lemma c_or_plan c a b : c_or o c a b = run c (p_or (get_op c a) (get_op c b) a b).
Proof.
  unfold c_or, p_or. apply check2_plan. rewrite op_binary_plan, !get_const_g.
  destruct (gconst (get_op c a)); [destruct (is_zerob f); reflexivity|].
  destruct (gconst (get_op c b)); [destruct (is_zerob f)|]; reflexivity.
Qed.

Lemma c_sub_plan c a b : c_sub o c a b = run c (p_sub (get_op c a) (get_op c b) a b).
Proof.
  unfold c_sub, p_sub. apply check2_plan.
  rewrite op_unary_plan, op_binary_plan, !is_const_eq_gis.
  change (Ok (c, a)) with (run c (POld a)). rewrite !run_if. reflexivity.
Qed.

Lemma c_div_plan c a b : c_div o c a b = run c (p_div (get_op c a) (get_op c b) a b).
Proof.
  unfold c_div, p_div. apply check2_plan.
  rewrite op_binary_plan, !is_const_eq_gis.
  change (Ok (c, a)) with (run c (POld a)). rewrite !run_if. reflexivity.
Qed.

Lemma build_bin_plan c p a b :
  build_bin o c p a b = run c (p_build p (get_op c a) (get_op c b) a b).
Proof.
  destruct p; simpl;
    first [apply c_add_plan | apply c_sub_plan | apply c_mul_plan | apply c_div_plan
          | apply c_min_plan | apply c_max_plan | apply c_and_plan | apply c_or_plan
          | apply op_binary_plan].
Qed.

End Plans.

(* ------------------------------------------------------------------------- *)
(* plan facts: BadNode exactly on a missing argument; inserted nodes are good   *)
(* ------------------------------------------------------------------------- *)

Ltac plan_cases :=
  repeat match goal with
  | |- context [if ?b then _ else _] => let E := fresh "E" in destruct b eqn:E
  end.

Ltac natb := repeat match goal with
  | H : (_ =? _) = true |- _ => apply Nat.eqb_eq in H
  | H : (_ =? _) = false |- _ => apply Nat.eqb_neq in H
  | H : (_ <=? _) = true |- _ => apply Nat.leb_le in H
  | H : (_ <=? _) = false |- _ => apply Nat.leb_gt in H
  end.

Ltac boolgoal :=
  rewrite ?andb_true_iff, ?negb_true_iff; repeat split;
  first [assumption | reflexivity | (apply Nat.ltb_lt; lia)].

Section PlanFacts.
Variable o : oracle.

Ltac unfold_plans :=
  unfold p_build, p_add, p_mul, p_min, p_max, p_and, p_or, p_sub, p_div,
         p_check2, p_unary, p_comm, p_binary, gis, gconst.

Ltac leaf Ha Hb :=
  first
  [ lia
  | exact I
  | apply goodc_const
  | (eapply goodc_unary; [exact Ha | reflexivity | discriminate])
  | (eapply goodc_unary; [exact Hb | reflexivity | discriminate])
  | (split;
     [ eapply good_binary; [eassumption | eassumption | reflexivity | first [exact I | reflexivity]]
     | simpl; rewrite ?Ha, ?Hb; simpl; boolgoal ]) ].

Lemma p_mul_ok c a b x y :
  get_op c a = Some x -> get_op c b = Some y -> plan_ok goodc c (p_mul o (Some x) (Some y) a b).
Proof.
  intros Ha Hb. pose proof (nth_error_lt _ _ _ Ha). pose proof (nth_error_lt _ _ _ Hb).
  unfold_plans. destruct x, y; simpl; plan_cases; simpl; natb; subst; leaf Ha Hb.
Qed.

Lemma gis_ftwo_one : gis (Some (NConst ftwo)) fone = false. Proof. reflexivity. Qed.
Lemma gis_ftwo_zero : gis (Some (NConst ftwo)) fzero = false. Proof. reflexivity. Qed.

Lemma p_add_ok c a b x y :
  get_op c a = Some x -> get_op c b = Some y -> plan_ok goodc c (p_add o (Some x) (Some y) a b).
Proof.
  intros Ha Hb. pose proof (nth_error_lt _ _ _ Ha). pose proof (nth_error_lt _ _ _ Hb).
  unfold p_add, p_check2. destruct (Nat.eqb_spec a b) as [->|N].
  - change (goodc c (NConst ftwo) /\
            plan_ok goodc (fst (insert c (NConst ftwo)))
              (p_mul o (Some x) (Some (NConst ftwo)) b (snd (insert c (NConst ftwo))))).
    split; [apply goodc_const|].
    apply p_mul_ok.
    + destruct (insert_ext c (NConst ftwo)) as (e & ->). rewrite get_op_ext; auto.
    + apply insert_const_get. reflexivity.
  - unfold_plans. destruct x, y; simpl; plan_cases; simpl; natb; subst; leaf Ha Hb.
Qed.

Lemma p_min_ok c a b x y :
  get_op c a = Some x -> get_op c b = Some y -> plan_ok goodc c (p_min o (Some x) (Some y) a b).
Proof.
  intros Ha Hb. pose proof (nth_error_lt _ _ _ Ha). pose proof (nth_error_lt _ _ _ Hb).
  unfold_plans. destruct x, y; simpl; plan_cases; simpl; natb; subst; leaf Ha Hb.
Qed.
Lemma p_max_ok c a b x y :
  get_op c a = Some x -> get_op c b = Some y -> plan_ok goodc c (p_max o (Some x) (Some y) a b).
Proof.
  intros Ha Hb. pose proof (nth_error_lt _ _ _ Ha). pose proof (nth_error_lt _ _ _ Hb).
  unfold_plans. destruct x, y; simpl; plan_cases; simpl; natb; subst; leaf Ha Hb.
Qed.
Lemma p_and_ok c a b x y :
  get_op c a = Some x -> get_op c b = Some y -> plan_ok goodc c (p_and o (Some x) (Some y) a b).
Proof.
  intros Ha Hb. pose proof (nth_error_lt _ _ _ Ha). pose proof (nth_error_lt _ _ _ Hb).
  unfold_plans. destruct x, y; simpl; plan_cases; simpl; natb; subst; leaf Ha Hb.
Qed.
Lemma p_or_ok c a b x y :
  get_op c a = Some x -> get_op c b = Some y -> plan_ok goodc c (p_or o (Some x) (Some y) a b).
Proof.
  intros Ha Hb. pose proof (nth_error_lt _ _ _ Ha). pose proof (nth_error_lt _ _ _ Hb).
  unfold_plans. destruct x, y; simpl; plan_cases; simpl; natb; subst; leaf Ha Hb.
Qed.
Lemma p_sub_ok c a b x y :
  get_op c a = Some x -> get_op c b = Some y -> plan_ok goodc c (p_sub o (Some x) (Some y) a b).
Proof.
  intros Ha Hb. pose proof (nth_error_lt _ _ _ Ha). pose proof (nth_error_lt _ _ _ Hb).
  unfold_plans. destruct x, y; simpl; plan_cases; simpl; natb; subst; leaf Ha Hb.
Qed.
Lemma p_div_ok c a b x y :
  get_op c a = Some x -> get_op c b = Some y -> plan_ok goodc c (p_div o (Some x) (Some y) a b).
Proof.
  intros Ha Hb. pose proof (nth_error_lt _ _ _ Ha). pose proof (nth_error_lt _ _ _ Hb).
  unfold_plans. destruct x, y; simpl; plan_cases; simpl; natb; subst; leaf Ha Hb.
Qed.

Definition plain_bop (p : bop) : Prop :=
  match p with BAtan | BCompare | BMod | BMix => True | _ => False end.
Definition not_andor (p : bop) : Prop :=
  match p with BAnd | BOr => False | _ => True end.

Lemma p_binary_okc c a b x y p :
  plain_bop p ->
  get_op c a = Some x -> get_op c b = Some y -> plan_ok goodc c (p_binary o (Some x) (Some y) a b p).
Proof.
  intros Hp Ha Hb. pose proof (nth_error_lt _ _ _ Ha). pose proof (nth_error_lt _ _ _ Hb).
  unfold_plans. destruct p; try elim Hp; destruct x, y; simpl; leaf Ha Hb.
Qed.

Lemma p_binary_ok c a b x y p :
  not_andor p ->
  get_op c a = Some x -> get_op c b = Some y -> plan_ok good c (p_binary o (Some x) (Some y) a b p).
Proof.
  intros Hp Ha Hb.
  unfold_plans. destruct x, y; simpl; try apply good_const;
    (eapply good_binary; [eassumption | eassumption | reflexivity | destruct p; try exact I; elim Hp]).
Qed.

Lemma p_comm_ok c a b x y p :
  not_andor p ->
  get_op c a = Some x -> get_op c b = Some y -> plan_ok good c (p_comm o (Some x) (Some y) a b p).
Proof.
  intros Hp Ha Hb. unfold p_comm. destruct (a <=? b); apply p_binary_ok; auto.
Qed.

Lemma p_unary_ok c a x u :
  u <> UCopy -> get_op c a = Some x -> plan_ok goodc c (p_unary o (Some x) a u).
Proof.
  intros Hu Ha. unfold p_unary. destruct x; simpl; try apply goodc_const;
    (eapply goodc_unary; [eassumption | reflexivity | assumption]).
Qed.

Lemma p_build_ok c p a b x y :
  get_op c a = Some x -> get_op c b = Some y -> plan_ok goodc c (p_build o p (Some x) (Some y) a b).
Proof.
  intros Ha Hb. destruct p; simpl;
    first [apply p_add_ok | apply p_sub_ok | apply p_mul_ok | apply p_div_ok | apply p_min_ok
          | apply p_max_ok | apply p_and_ok | apply p_or_ok | (apply p_binary_okc; [exact I|..])]; auto.
Qed.

(* ---- BadNode exactly on a missing argument --------------------------------- *)

Lemma p_check2_bad oa ob k : oa = None \/ ob = None -> p_check2 oa ob k = PBad.
Proof. intros [->| ->]; [reflexivity | destruct oa; reflexivity]. Qed.

Lemma p_binary_bad oa ob a b p : oa = None \/ ob = None -> p_binary o oa ob a b p = PBad.
Proof. intros [->| ->]; [reflexivity | destruct oa as [[]|]; reflexivity]. Qed.

Lemma p_comm_bad oa ob a b p : oa = None \/ ob = None -> p_comm o oa ob a b p = PBad.
Proof. intros H. unfold p_comm. destruct (a <=? b); apply p_binary_bad; tauto. Qed.

Lemma p_build_bad p oa ob a b : oa = None \/ ob = None -> p_build o p oa ob a b = PBad.
Proof.
  intros H. destruct p; simpl; try (apply p_check2_bad; auto); apply p_binary_bad; auto.
Qed.

Lemma p_unary_nobad x a u : nobad (p_unary o (Some x) a u).
Proof. destruct x; exact I. Qed.
Lemma p_binary_nobad x y a b p : nobad (p_binary o (Some x) (Some y) a b p).
Proof. destruct x, y; exact I. Qed.
Lemma p_comm_nobad x y a b p : nobad (p_comm o (Some x) (Some y) a b p).
Proof. unfold p_comm. destruct (a <=? b); apply p_binary_nobad. Qed.

Lemma p_mul_nobad x y a b : nobad (p_mul o (Some x) (Some y) a b).
Proof.
  unfold p_mul, p_check2. plan_cases; try exact I;
    first [apply p_unary_nobad | apply p_comm_nobad].
Qed.

Lemma p_add_nobad x y a b : nobad (p_add o (Some x) (Some y) a b).
Proof.
  unfold p_add, p_check2. destruct (a =? b); [intros n; apply p_mul_nobad|].
  plan_cases; try exact I; apply p_comm_nobad.
Qed.

Lemma p_build_nobad p x y a b : nobad (p_build o p (Some x) (Some y) a b).
Proof.
  destruct p; unfold p_build; try apply p_binary_nobad; try apply p_add_nobad;
    unfold p_sub, p_mul, p_div, p_min, p_max, p_and, p_or, p_check2;
    repeat match goal with
    | |- context [if ?b then _ else _] => destruct b
    | |- context [match gconst ?x with _ => _ end] => destruct (gconst x)
    end; try exact I;
    first [apply p_unary_nobad | apply p_comm_nobad | apply p_binary_nobad].
Qed.

End PlanFacts.

(* ------------------------------------------------------------------------- *)
(* P1 / P2 for every constructor                                               *)
(* ------------------------------------------------------------------------- *)

(* what is proved of a binary constructor K (G = the class of inserted nodes) *)
Record ctor_spec (G : ctx -> cnode f32 -> Prop) (K : ctx -> nat -> nat -> R) : Prop := {
  cs_ok : forall c a b c' n, K c a b = Ok (c', n) ->
            a < length c /\ b < length c /\ reach G c c' /\ n < length c';
  (* BadNode (Err 100) exactly when an argument is out of range; no other error *)
  cs_err : forall c a b e, K c a b = Err e <-> e = 100 /\ ~ (a < length c /\ b < length c);
  (* P2, general form: the same call in any later context finds the same node *)
  cs_stable : forall c a b c' n ext, K c a b = Ok (c', n) -> K (c' ++ ext) a b = Ok (c' ++ ext, n);
}.

Lemma get_op_some c a : a < length c -> exists x, get_op c a = Some x.
Proof.
  intros H. unfold get_op. destruct (nth_error c a) eqn:E; eauto.
  apply nth_error_None in E. lia.
Qed.
Lemma get_op_none c a : ~ a < length c -> get_op c a = None.
Proof. intros H. apply nth_error_None. lia. Qed.

Section BinCtor.
Variable G : ctx -> cnode f32 -> Prop.
Variable K : ctx -> nat -> nat -> R.
Variable P : option (cnode f32) -> option (cnode f32) -> nat -> nat -> plan.
Hypothesis HK : forall c a b, K c a b = run c (P (get_op c a) (get_op c b) a b).
Hypothesis Hbad : forall oa ob a b, oa = None \/ ob = None -> P oa ob a b = PBad.
Hypothesis Hnobad : forall x y a b, nobad (P (Some x) (Some y) a b).
Hypothesis Hok : forall c a b x y, get_op c a = Some x -> get_op c b = Some y ->
                                   plan_ok G c (P (Some x) (Some y) a b).

Lemma bin_args c a b c' n : K c a b = Ok (c', n) -> a < length c /\ b < length c.
Proof.
  rewrite HK. intros E.
  destruct (get_op c a) as [x|] eqn:Ha; [|rewrite Hbad in E by auto; discriminate].
  destruct (get_op c b) as [y|] eqn:Hb; [|rewrite Hbad in E by auto; discriminate].
  split; eapply nth_error_lt; eauto.
Qed.

Theorem bin_ctor_spec : ctor_spec G K.
Proof.
  constructor.
  - intros c a b c' n E. destruct (bin_args _ _ _ _ _ E) as [La Lb].
    split; auto. split; auto.
    destruct (get_op_some _ _ La) as (x & Ha), (get_op_some _ _ Lb) as (y & Hb).
    rewrite HK, Ha, Hb in E. eapply run_reach; [|exact E]. apply Hok; auto.
  - intros c a b e. split.
    + intros E. rewrite HK in E. split; [eapply run_err; eauto|].
      intros [La Lb].
      destruct (get_op_some _ _ La) as (x & Ha), (get_op_some _ _ Lb) as (y & Hb).
      rewrite Ha, Hb in E. destruct (run_ok _ c (Hnobad x y a b)) as (c' & n & E').
      congruence.
    + intros [-> N]. rewrite HK.
      rewrite Hbad; [reflexivity|].
      destruct (Nat.lt_ge_cases a (length c)); [|left; apply get_op_none; lia].
      destruct (Nat.lt_ge_cases b (length c)); [|right; apply get_op_none; lia].
      elim N; auto.
  - intros c a b c' n ext E. destruct (bin_args _ _ _ _ _ E) as [La Lb].
    rewrite HK in *. pose proof (run_ext _ _ _ _ E) as (e & ->).
    rewrite <- app_assoc, !get_op_ext by auto. rewrite app_assoc.
    apply run_stable with (c := c). auto.
Qed.
End BinCtor.

Lemma ctor_spec_mono (G G' : ctx -> cnode f32 -> Prop) K :
  (forall c x, G c x -> G' c x) -> ctor_spec G K -> ctor_spec G' K.
Proof.
  intros M [A B C]. constructor; auto.
  intros c a b c' n E. destruct (A _ _ _ _ _ E) as (X & Y & Z & W).
  repeat split; auto. eapply reach_mono; eauto.
Qed.

(* the statement of P1 *)
Theorem ctor_spec_inv K : ctor_spec good K ->
  forall c a b c' n, ctx_inv c -> K c a b = Ok (c', n) ->
  ctx_inv c' /\ (exists ext, c' = c ++ ext) /\ n < length c'.
Proof.
  intros S c a b c' n I E. destruct (cs_ok _ _ S _ _ _ _ _ E) as (_ & _ & Rch & L).
  split; [eapply reach_inv; eauto|]. split; auto. eapply reach_ext; eauto.
Qed.

Theorem ctor_spec_canon K : ctor_spec goodc K ->
  forall c a b c' n, ctx_canon c -> K c a b = Ok (c', n) ->
  ctx_canon c' /\ (exists ext, c' = c ++ ext) /\ n < length c'.
Proof.
  intros S c a b c' n I E. destruct (cs_ok _ _ S _ _ _ _ _ E) as (_ & _ & Rch & L).
  split; [eapply reach_canon; eauto|]. split; auto. eapply reach_ext; eauto.
Qed.

(* the statement of P2 *)
Theorem ctor_spec_dedup G K : ctor_spec G K ->
  forall c a b c' n, K c a b = Ok (c', n) -> K c' a b = Ok (c', n).
Proof.
  intros S c a b c' n E. pose proof (cs_stable _ _ S _ _ _ _ _ [] E) as H.
  rewrite app_nil_r in H. exact H.
Qed.

Section Specs.
Variable o : oracle.

Theorem op_binary_spec p : not_andor p -> ctor_spec good (fun c a b => op_binary o c a b p).
Proof.
  intros Hp. apply bin_ctor_spec with (P := fun oa ob a b => p_binary o oa ob a b p).
  - intros; apply op_binary_plan.
  - intros; apply p_binary_bad; auto.
  - intros; apply p_binary_nobad.
  - intros; apply p_binary_ok; auto.
Qed.

Theorem op_binary_plain_spec p : plain_bop p -> ctor_spec goodc (fun c a b => op_binary o c a b p).
Proof.
  intros Hp. apply bin_ctor_spec with (P := fun oa ob a b => p_binary o oa ob a b p).
  - intros; apply op_binary_plan.
  - intros; apply p_binary_bad; auto.
  - intros; apply p_binary_nobad.
  - intros; apply p_binary_okc; auto.
Qed.

Theorem op_binary_commutative_spec p :
  not_andor p -> ctor_spec good (fun c a b => op_binary_commutative o c a b p).
Proof.
  intros Hp. apply bin_ctor_spec with (P := fun oa ob a b => p_comm o oa ob a b p).
  - intros; apply op_comm_plan.
  - intros; apply p_comm_bad; auto.
  - intros; apply p_comm_nobad.
  - intros; apply p_comm_ok; auto.
Qed.

Theorem build_bin_spec p : ctor_spec goodc (fun c a b => build_bin o c p a b).
Proof.
  apply bin_ctor_spec with (P := p_build o p).
  - intros; apply build_bin_plan.
  - intros; apply p_build_bad; auto.
  - intros; apply p_build_nobad.
  - intros; apply p_build_ok; auto.
Qed.

Theorem c_add_spec : ctor_spec goodc (c_add o). Proof. exact (build_bin_spec BAdd). Qed.
Theorem c_sub_spec : ctor_spec goodc (c_sub o). Proof. exact (build_bin_spec BSub). Qed.
Theorem c_mul_spec : ctor_spec goodc (c_mul o). Proof. exact (build_bin_spec BMul). Qed.
Theorem c_div_spec : ctor_spec goodc (c_div o). Proof. exact (build_bin_spec BDiv). Qed.
Theorem c_min_spec : ctor_spec goodc (c_min o). Proof. exact (build_bin_spec BMin). Qed.
Theorem c_max_spec : ctor_spec goodc (c_max o). Proof. exact (build_bin_spec BMax). Qed.
Theorem c_and_spec : ctor_spec goodc (c_and o). Proof. exact (build_bin_spec BAnd). Qed.
Theorem c_or_spec : ctor_spec goodc (c_or o). Proof. exact (build_bin_spec BOr). Qed.

(* ---- nullary and unary constructors ---------------------------------------- *)

Theorem constant_spec c v :
  exists c' n, constant c v = Ok (c', n) /\ reach goodc c c' /\ n < length c' /\
               forall ext, constant (c' ++ ext) v = Ok (c' ++ ext, n).
Proof.
  exists (fst (insert c (NConst v))), (snd (insert c (NConst v))).
  split; [unfold constant; destruct (insert c (NConst v)); reflexivity|].
  split; [apply reach_one, goodc_const|]. split; [apply insert_lt|].
  intros ext. unfold constant. rewrite insert_stable. reflexivity.
Qed.

Theorem var_spec c v :
  exists c' n, var c v = Ok (c', n) /\ reach goodc c c' /\ n < length c' /\
               forall ext, var (c' ++ ext) v = Ok (c' ++ ext, n).
Proof.
  exists (fst (insert c (NInput v))), (snd (insert c (NInput v))).
  split; [unfold var; destruct (insert c (NInput v)); reflexivity|].
  split; [apply reach_one, goodc_input|]. split; [apply insert_lt|].
  intros ext. unfold var. rewrite insert_stable. reflexivity.
Qed.

Theorem op_unary_spec u : u <> UCopy ->
  (forall c a c' n, op_unary o c a u = Ok (c', n) ->
     a < length c /\ reach goodc c c' /\ n < length c') /\
  (forall c a e, op_unary o c a u = Err e <-> e = 100 /\ ~ a < length c) /\
  (forall c a c' n ext, op_unary o c a u = Ok (c', n) ->
     op_unary o (c' ++ ext) a u = Ok (c' ++ ext, n)).
Proof.
  intros Hu.
  assert (A : forall c a c' n, op_unary o c a u = Ok (c', n) -> a < length c).
  { intros c a c' n. rewrite op_unary_plan. destruct (get_op c a) eqn:E; [|discriminate].
    intros _. eapply nth_error_lt; eauto. }
  split; [|split].
  - intros c a c' n E. pose proof (A _ _ _ _ E) as La. split; auto.
    destruct (get_op_some _ _ La) as (x & Ha). rewrite op_unary_plan, Ha in E.
    eapply run_reach; [|exact E]. apply p_unary_ok; auto.
  - intros c a e. rewrite op_unary_plan. split.
    + intros E. split; [eapply run_err; eauto|]. intros La.
      destruct (get_op_some _ _ La) as (x & Ha). rewrite Ha in E.
      destruct (run_ok _ c (p_unary_nobad o x a u)) as (c' & n & E'). congruence.
    + intros [-> N]. rewrite get_op_none by auto. reflexivity.
  - intros c a c' n ext E. pose proof (A _ _ _ _ E) as La.
    rewrite op_unary_plan in *. pose proof (run_ext _ _ _ _ E) as (e & ->).
    rewrite <- app_assoc, get_op_ext by auto. rewrite app_assoc.
    apply run_stable with (c := c). auto.
Qed.

(* the raw (private) op_binary does NOT preserve the invariant for And/Or with a
   constant on the left; Context::and / Context::or never call it that way *)
Example op_binary_and_const_refuted :
  let c0 : ctx := [NConst fone; NInput 0] in
  exists c' n, op_binary o c0 0 1 BAnd = Ok (c', n) /\ arena_okb c' [n] = false.
Proof. eexists _, _. split; reflexivity. Qed.

End Specs.
