(* Expr.v — context/tree.rs as an AST (no sharing): a Tree with RemapAxes / RemapAffine,
   its denotation by substitution (generic in the scalar type), the builder functions
   `remap_xyz` / `remap_affine` (the latter flattens consecutive affine maps), and its
   import into the Context model. *)
From Coq Require Import List Bool Arith ZArith.
From FV Require Import F32 Ops Tape Alloc Flatten F32Sem Ctx.
Import ListNotations.
Local Open Scope nat_scope.

Section Expr.
Context {T : Type}.

Inductive etree :=
| EX | EY | EZ
| EVar (v : nat)                       (* a free variable: wire id 3+k *)
| EConst (c : T)
| EUn (u : uop) (a : etree)
| EBin (b : bop) (l r : etree)
| ERemapAxes (t x y z : etree)
| ERemapAffine (t : etree) (m : list T).   (* 3 rows x 4 columns, row-major (12 entries) *)

(* scalar operations used while BUILDING trees and matrices (f32 in Rust) *)
Record SC := {
  sc_zero : T; sc_one : T;
  sc_add : T -> T -> T; sc_sub : T -> T -> T; sc_mul : T -> T -> T; sc_div : T -> T -> T;
  sc_neg : T -> T;
}.
Variable S : SC.

Definition m_at (m : list T) (i j : nat) : T := nth (4 * i + j) m (sc_zero S).

(* Affine3 product `a * b` (apply b first).  Entry order of nalgebra's gemm:
   (((a_i0*b_0j + a_i1*b_1j) + a_i2*b_2j) + a_i3*b_3j) over the full 4x4 matrices, the last row of b
   being exactly (0 0 0 1): the term a_i3*0 is kept, it turns a -0 sum into +0 and an infinite
   translation into NaN *)
Definition aff_mul (a b : list T) : list T :=
  let e i j :=
    let s := sc_add S (sc_add S (sc_mul S (m_at a i 0) (m_at b 0 j)) (sc_mul S (m_at a i 1) (m_at b 1 j)))
                     (sc_mul S (m_at a i 2) (m_at b 2 j)) in
    sc_add S s (sc_mul S (m_at a i 3) (if Nat.eqb j 3 then sc_one S else sc_zero S)) in
  [e 0 0; e 0 1; e 0 2; e 0 3; e 1 0; e 1 1; e 1 2; e 1 3; e 2 0; e 2 1; e 2 2; e 2 3].

(* Tree::remap_xyz / Tree::remap_affine *)
Definition remap_xyz (t x y z : etree) : etree := ERemapAxes t x y z.
Definition remap_affine (t : etree) (mat : list T) : etree :=
  match t with
  | ERemapAffine target next => ERemapAffine target (aff_mul next mat)
  | _ => ERemapAffine t mat
  end.

(* denotation by substitution, generic in the meaning of the opcodes *)
Variable un : uop -> T -> T.
Variable bin : bop -> T -> T -> T.

Fixpoint eden (t : etree) (x y z : T) (vars : nat -> T) : T :=
  match t with
  | EX => x | EY => y | EZ => z
  | EVar v => vars v
  | EConst c => c
  | EUn u a => un u (eden a x y z vars)
  | EBin b l r => bin b (eden l x y z vars) (eden r x y z vars)
  | ERemapAxes t' ex ey ez =>
      eden t' (eden ex x y z vars) (eden ey x y z vars) (eden ez x y z vars) vars
  | ERemapAffine t' m =>
      (* rows exactly as Context::import builds them: (m0*x + m1*y) + (m2*z + m3) *)
      let row i := bin BAdd (bin BAdd (bin BMul (m_at m i 0) x) (bin BMul (m_at m i 1) y))
                            (bin BAdd (bin BMul (m_at m i 2) z) (m_at m i 3)) in
      eden t' (row 0) (row 1) (row 2) vars
  end.

End Expr.
Arguments etree : clear implicits.
Arguments SC : clear implicits.

(* ---- import into the Context model (f32) ------------------------------------------- *)
Section ImportE.
Variable o : oracle.

Fixpoint import_e (t : etree f32) (c : ctx) (axes : nat * nat * nat) : R :=
  match t with
  | EX => Ok (c, fst (fst axes)) | EY => Ok (c, snd (fst axes)) | EZ => Ok (c, snd axes)
  | EVar v => var c v
  | EConst k => constant c k
  | EUn u a => bindR (import_e a c axes) (fun c1 na => op_unary o c1 na u)
  | EBin p l r =>
      bindR (import_e r c axes) (fun c1 nr =>
      bindR (import_e l c1 axes) (fun c2 nl => build_bin o c2 p nl nr))
  | ERemapAxes t' x y z =>
      bindR (import_e z c axes) (fun c1 nz =>
      bindR (import_e y c1 axes) (fun c2 ny =>
      bindR (import_e x c2 axes) (fun c3 nx => import_e t' c3 (nx, ny, nz))))
  | ERemapAffine t' mat =>
      let '(ax, ay, az) := axes in
      let m i j := nth (4 * i + j) mat fzero in
      (* `identity * mat`: a -0 entry becomes +0 *)
      let mz i j := let v := m i j in if is_zerob v then fzero else v in
      let row (c0 : ctx) (i : nat) : R :=
        bindR (constant c0 (mz i 0)) (fun c1 k0 => bindR (c_mul o c1 k0 ax) (fun c2 a =>
        bindR (constant c2 (mz i 1)) (fun c3 k1 => bindR (c_mul o c3 k1 ay) (fun c4 b =>
        bindR (constant c4 (mz i 2)) (fun c5 k2 => bindR (c_mul o c5 k2 az) (fun c6 cc =>
        bindR (constant c6 (mz i 3)) (fun c7 d =>
        bindR (c_add o c7 a b) (fun c8 ab =>
        bindR (c_add o c8 cc d) (fun c9 cd => c_add o c9 ab cd))))))))) in
      bindR (row c 0) (fun c1 nx => bindR (row c1 1) (fun c2 ny => bindR (row c2 2) (fun c3 nz =>
      import_e t' c3 (nx, ny, nz))))
  end.

Definition import_tree (t : etree f32) : R :=
  bindR (var [] 0) (fun c1 x => bindR (var c1 1) (fun c2 y => bindR (var c2 2) (fun c3 z =>
  import_e t c3 (x, y, z)))).

End ImportE.

Definition f32_sc : SC f32 :=
  {| sc_zero := fzero; sc_one := fone; sc_add := fadd; sc_sub := fsub; sc_mul := fmul; sc_div := fdiv; sc_neg := fneg |}.
