(* FlattenWf.v — structural facts about the tape produced by [flatten]:
   ssa_wf, output / choice counts, VarMap facts, density of the slot numbering.
   Everything here is proved from the final invariants of the two loops. *)
From Coq Require Import List Bool Arith Lia Permutation.
From FV Require Import Ops Tape Alloc Flatten CtxEval SsaWf FlattenLib FlattenPass1 FlattenPass2 FlattenRun.
Import ListNotations.

(* ---- SsaWf helpers ------------------------------------------------------------------ *)
Lemma mem_In x l : mem x l = true <-> In x l.
Proof.
  unfold mem. rewrite existsb_exists. split.
  - intros (y & A & B). apply Nat.eqb_eq in B. subst; auto.
  - intros A. exists x. split; auto. apply Nat.eqb_refl.
Qed.
Lemma mem_nIn x l : mem x l = false <-> ~ In x l.
Proof. rewrite <- mem_In. destruct (mem x l); split; congruence. Qed.

Lemma in_remove_nat x v l : In v (remove_nat x l) <-> v <> x /\ In v l.
Proof.
  unfold remove_nat. rewrite filter_In. split.
  - intros [A B]. split; auto. intros ->. rewrite Nat.eqb_refl in B. discriminate.
  - intros [A B]. split; auto. destruct (Nat.eqb_spec x v); auto; congruence.
Qed.
Lemma in_add_nat x v l : In v (add_nat x l) <-> v = x \/ In v l.
Proof.
  unfold add_nat. destruct (mem x l) eqn:E.
  - apply mem_In in E. split; auto. intros [->|]; auto.
  - simpl. split; intros [A|A]; auto.
Qed.
Lemma in_fold_add v args l : In v (fold_right add_nat l args) <-> In v args \/ In v l.
Proof.
  induction args; simpl.
  - tauto.
  - rewrite in_add_nat, IHargs. split; intros; intuition.
Qed.

Section WfRun.
Context {I : Type}.
Notation op := (Tape.op I).

Fixpoint wf_run (bound : nat) (t : list op) (st : list nat * list nat) : option (list nat * list nat) :=
  match t with
  | [] => Some st
  | o :: r => match wf_step bound o st with Some st' => wf_run bound r st' | None => None end
  end.

Lemma wf_run_cons bound o r st :
  wf_run bound (o :: r) st = match wf_step bound o st with Some st' => wf_run bound r st' | None => None end.
Proof. reflexivity. Qed.
Lemma wf_walk_cons bound (o : op) r st :
  wf_walk bound (o :: r) st = match wf_step bound o st with Some st' => wf_walk bound r st' | None => false end.
Proof. reflexivity. Qed.

Lemma wf_walk_app bound t1 : forall t2 st st',
  wf_run bound t1 st = Some st' -> wf_walk bound (t1 ++ t2) st = wf_walk bound t2 st'.
Proof.
  induction t1; simpl; intros t2 st st' H.
  - inversion H; auto.
  - destruct (wf_step bound a st); try discriminate. eauto.
Qed.

Lemma wf_step_def bound (e : op) live defd out :
  is_ssa_op e = true -> op_out e = Some out ->
  In out live -> ~ In out defd -> out < bound ->
  (forall a, In a (op_args e) -> a <> out /\ ~ In a defd /\ a < bound) ->
  wf_step bound e (live, defd) =
  Some (fold_right add_nat (remove_nat out live) (op_args e), out :: defd).
Proof.
  intros Hs Ho Hl Hd Hb Ha. unfold wf_step. rewrite Hs, Ho. simpl.
  rewrite (proj2 (mem_In out live) Hl), (proj2 (mem_nIn out defd) Hd).
  rewrite (proj2 (Nat.ltb_lt _ _) Hb). simpl.
  replace (forallb _ (op_args e)) with true; auto.
  symmetry. apply forallb_forall. intros a Hin. destruct (Ha a Hin) as (A & B & C).
  rewrite (proj2 (Nat.ltb_lt _ _) C), andb_true_r.
  destruct (Nat.eqb_spec a out); try congruence. simpl.
  fold (mem a defd). rewrite (proj2 (mem_nIn a defd) B). auto.
Qed.

Lemma wf_step_nodef bound (e : op) live defd :
  is_ssa_op e = true -> op_out e = None ->
  (forall a, In a (op_args e) -> ~ In a defd /\ a < bound) ->
  wf_step bound e (live, defd) = Some (fold_right add_nat live (op_args e), defd).
Proof.
  intros Hs Ho Ha. unfold wf_step. rewrite Hs, Ho. simpl.
  replace (forallb _ (op_args e)) with true; auto.
  symmetry. apply forallb_forall. intros a Hin. destruct (Ha a Hin) as (B & C).
  rewrite (proj2 (Nat.ltb_lt _ _) C), andb_true_r.
  rewrite (proj2 (mem_nIn a defd) B). auto.
Qed.

End WfRun.

Section Facts.
Context {I : Type}.
Variable arena : list (cnode I).
Variable roots : list nat.
Notation n := (length arena).
Notation op := (Tape.op I).
Hypothesis OK : arena_ok arena roots.
Variable s1 : @p1 I.
Variable vis : list nat.
Hypothesis F1 : Inv1 arena roots s1 [] vis.
Variable order : list nat.
Hypothesis O_nd : NoDup order.
Hypothesis O_vis : forall k, In k order <-> In k vis.
Hypothesis O_ok : ord_ok arena roots order.

Notation mp := (p1_map s1).
Notation vars := (p1_vars s1).
Notation s0 := (p1_slots s1).
Notation node_op := (node_op arena s1).
Notation ops_of := (ops_of arena s1).
Notation childs := (childs arena).

(* ---- shapes of emitted ops ------------------------------------------------------------ *)
Inductive emit_shape (i : nat) : cnode I -> op -> Prop :=
| ES_in v k : var_index vars v = Some k -> emit_shape i (NInput v) (OInput i k)
| ES_un u a ra : nth a mp None = Some (SReg ra) -> emit_shape i (NUnary u a) (OUn u i ra)
| ES_rr b l r rl rr : nth l mp None = Some (SReg rl) -> nth r mp None = Some (SReg rr) ->
    emit_shape i (NBinary b l r) (OBinRR b i rl rr)
| ES_ri b l r rl c : nth l mp None = Some (SReg rl) -> nth r mp None = Some (SImm c) ->
    emit_shape i (NBinary b l r) (OBinRI b i rl c)
| ES_comm b l r c rr : nth l mp None = Some (SImm c) -> nth r mp None = Some (SReg rr) ->
    flatten_imm_lhs b = Some RegImm -> emit_shape i (NBinary b l r) (OBinRI b i rr c)
| ES_ir b l r c rr : nth l mp None = Some (SImm c) -> nth r mp None = Some (SReg rr) ->
    flatten_imm_lhs b = Some ImmReg -> emit_shape i (NBinary b l r) (OBinIR b i rr c).

Lemma emit_inv i o e : emit mp vars i o = Ok e -> emit_shape i o e.
Proof.
  unfold emit. destruct o as [v|c|u a|b l r].
  - destruct (var_index vars v) eqn:E; intros H; inversion H. constructor; auto.
  - discriminate.
  - destruct (nth a mp None) as [[|]|] eqn:E; intros H; inversion H. constructor; auto.
  - destruct (nth l mp None) as [[|]|] eqn:El, (nth r mp None) as [[|]|] eqn:Er;
      try discriminate; try (intros H; inversion H; econstructor; eauto; fail).
    destruct (flatten_imm_lhs b) as [[]|] eqn:Ef; intros H; inversion H.
    + apply ES_comm; auto.
    + apply ES_ir; auto.
Qed.

Lemma shape_out i o e : emit_shape i o e -> op_out e = Some i /\ is_ssa_op e = true.
Proof. destruct 1; simpl; auto. Qed.

Lemma shape_args i o e : emit_shape i o e ->
  forall a, In a (op_args e) <-> exists c, In c (children o) /\ nth c mp None = Some (SReg a).
Proof.
  destruct 1; simpl; intros x; split;
    try (intros []; fail);
    try (intros (c0 & [] & _); fail);
    try (intros [<-|[]]; eauto; fail);
    try (intros [<-|[<-|[]]]; eauto; fail);
    try (intros (c0 & [<-|[]] & E); left; congruence);
    try (intros (c0 & [<-|[<-|[]]] & E); try (left; congruence); try (right; left; congruence); congruence).
Qed.

Lemma shape_not_output i o e : emit_shape i o e ->
  match e with OOutput _ _ => false | _ => true end = true.
Proof. destruct 1; auto. Qed.

(* ---- node_op ------------------------------------------------------------------------------ *)
Lemma node_op_cases k : In k vis ->
  (exists c, nth_error arena k = Some (NConst c) /\ nth k mp None = Some (SImm c) /\ node_op k = []) \/
  (exists o i e, nth_error arena k = Some o /\ nth k mp None = Some (SReg i) /\ i < s0 /\
                 emit_shape i o e /\ node_op k = [e]).
Proof.
  intros Hk. destruct (vis_node arena roots s1 vis F1 k Hk) as (o & Eo).
  pose proof (vis_slot arena roots s1 vis F1 k o Hk Eo) as S.
  unfold FlattenPass2.node_op. rewrite Eo.
  destruct o as [v|c|u a|b l r]; simpl in S.
  2:{ left. exists c. rewrite S. auto. }
  all: right; destruct S as (i & Em & Li); rewrite Em;
    match goal with |- context [emit _ _ _ ?o] =>
      destruct (emit_total arena roots OK s1 vis F1 k o i Hk Eo Em) as (e & Ee);
      rewrite Ee; exists o, i, e; repeat split; auto; apply emit_inv; auto end.
Qed.

Lemma node_op_shape k e : In e (node_op k) ->
  exists o i, nth_error arena k = Some o /\ nth k mp None = Some (SReg i) /\ emit_shape i o e.
Proof.
  unfold FlattenPass2.node_op.
  destruct (nth_error arena k) as [o|]; simpl; try tauto.
  destruct (nth k mp None) as [[i|c]|]; simpl; try tauto.
  destruct (emit mp vars i o) as [e'|] eqn:E; simpl; try tauto.
  intros [<-|[]]. exists o, i. repeat split; auto. apply emit_inv; auto.
Qed.

Lemma reg_inj k1 k2 r : In k1 vis -> In k2 vis ->
  nth k1 mp None = Some (SReg r) -> nth k2 mp None = Some (SReg r) -> k1 = k2.
Proof. apply (i1_inj _ _ _ _ _ F1). Qed.

Lemma reg_lt k r : In k vis -> nth k mp None = Some (SReg r) -> r < s0.
Proof.
  intros Hk E. destruct (node_op_cases k Hk) as [(c & _ & E' & _)|(o & i & e & _ & E' & L & _)];
    rewrite E in E'; inversion E'; subst; auto.
Qed.

Lemma ops_of_app l1 l2 : ops_of (l1 ++ l2) = ops_of l1 ++ ops_of l2.
Proof. apply flat_map_app. Qed.

Lemma node_op_rev k : rev (node_op k) = node_op k.
Proof.
  unfold FlattenPass2.node_op.
  destruct (nth_error arena k); auto. destruct (nth k mp None) as [[|]|]; auto.
  destruct (emit _ _ _ _); auto.
Qed.

Lemma ops_of_rev l : rev (ops_of l) = ops_of (rev l).
Proof.
  induction l; simpl; auto.
  rewrite rev_app_distr, IHl, ops_of_app, node_op_rev. simpl. rewrite app_nil_r. auto.
Qed.

(* ---- the prologue ----------------------------------------------------------------------------- *)
Definition is_imm (r : nat) : bool :=
  match nth r mp None with Some (SImm _) => true | _ => false end.
Definition nconst (rts : list nat) : nat := length (filter is_imm rts).

Lemma root_slot r : In r vis ->
  (exists out, nth r mp None = Some (SReg out) /\ out < s0 /\ is_imm r = false) \/
  (exists c, nth r mp None = Some (SImm c) /\ is_imm r = true).
Proof.
  intros Hr. unfold is_imm.
  destruct (node_op_cases r Hr) as [(c & _ & E & _)|(o & i & e & _ & E & L & _)]; rewrite E; eauto.
Qed.

Lemma pro_fwd_length : forall rts i slots, (forall r, In r rts -> In r vis) ->
  length (pro_fwd mp rts i slots) = length rts + nconst rts.
Proof.
  induction rts as [|r rest IH]; simpl; intros i slots H; auto.
  unfold nconst in *. simpl.
  destruct (root_slot r) as [(out & E & _ & B)|(c & E & B)]; auto; rewrite E, B; simpl;
    rewrite IH by auto; lia.
Qed.

Lemma pro_fwd_outputs : forall rts i slots, (forall r, In r rts -> In r vis) ->
  count_outputs (pro_fwd mp rts i slots) = length rts.
Proof.
  induction rts as [|r rest IH]; simpl; intros i slots H; auto.
  destruct (root_slot r) as [(out & E & _ & B)|(c & E & B)]; auto; rewrite E;
    unfold count_outputs in *; simpl; rewrite IH by auto; lia.
Qed.

Lemma pro_fwd_no_input : forall rts i slots out k, ~ In (OInput out k) (pro_fwd mp rts i slots).
Proof.
  induction rts as [|r rest IH]; simpl; intros i slots out k; auto.
  destruct (nth r mp None) as [[o|c]|]; simpl; auto.
  - intros [A|A]; try discriminate. eapply IH; eauto.
  - intros [A|[A|A]]; try discriminate. eapply IH; eauto.
Qed.

Lemma pro_fwd_only : forall rts i slots e, In e (pro_fwd mp rts i slots) ->
  (exists a j, e = OOutput a j) \/ (exists a c, e = OCopyImm a c).
Proof.
  induction rts as [|r rest IH]; simpl; intros i slots e; try tauto.
  destruct (nth r mp None) as [[o|c]|]; simpl; try tauto.
  - intros [<-|A]; eauto.
  - intros [<-|[<-|A]]; eauto.
Qed.

Lemma wf_prologue bound : forall rts i slots live defd,
  (forall r, In r rts -> In r vis) ->
  (forall x, In x live -> x < s0) ->
  (forall x, In x defd -> s0 <= x < slots) ->
  s0 <= slots -> s0 <= bound -> slots + nconst rts <= bound ->
  exists live' defd',
    wf_run bound (pro_fwd mp rts i slots) (live, defd) = Some (live', defd') /\
    (forall x, In x live' <-> In x live \/ exists k, In k rts /\ nth k mp None = Some (SReg x)) /\
    (forall x, In x defd' -> s0 <= x).
Proof.
  induction rts as [|r rest IH]; intros i slots live defd Hv Hl Hd Hs Hb Hc.
  - exists live, defd. simpl. split; auto. split.
    + intros x; split; auto. intros [A|(k & [] & _)]; auto.
    + intros x Hx. apply Hd in Hx. lia.
  - unfold nconst in Hc. simpl in Hc. simpl pro_fwd.
    assert (Hrv : In r vis) by (apply Hv; simpl; auto).
    assert (Hv' : forall r', In r' rest -> In r' vis) by (intros; apply Hv; simpl; auto).
    destruct (root_slot r Hrv) as [(out & E & Lo & B)|(c & E & B)];
      rewrite E; rewrite B in Hc; simpl in Hc.
    + rewrite wf_run_cons, wf_step_nodef; simpl op_args; auto.
      2:{ intros a [<-|[]]. split; try lia. intros A. apply Hd in A. lia. }
      simpl fold_right.
      destruct (IH (S i) slots (add_nat out live) defd) as (live' & defd' & R & L & D); auto.
      { intros x Hx. apply in_add_nat in Hx. destruct Hx as [->|Hx]; auto. }
      exists live', defd'. split; auto. split; auto.
      intros x. rewrite L, in_add_nat. split.
      * intros [[->|A]|(k & A & B')].
        -- right; exists r; simpl; auto.
        -- auto.
        -- right; exists k; simpl; auto.
      * intros [A|(k & [<-|A] & B')].
        -- auto.
        -- left; left; congruence.
        -- right; exists k; auto.
    + rewrite wf_run_cons, wf_step_nodef; simpl op_args; auto.
      2:{ intros a [<-|[]]. split; try lia. intros A. apply Hd in A. lia. }
      simpl fold_right. rewrite wf_run_cons.
      rewrite (wf_step_def bound (OCopyImm slots c) (add_nat slots live) defd slots); simpl; auto;
        try lia; try tauto.
      2:{ apply in_add_nat; auto. }
      2:{ intros A. apply Hd in A. lia. }
      destruct (IH (S i) (S slots) (remove_nat slots (add_nat slots live)) (slots :: defd))
        as (live' & defd' & R & L & D); auto; try lia.
      { intros x Hx. apply in_remove_nat in Hx. destruct Hx as [A Hx].
        apply in_add_nat in Hx. destruct Hx; auto. congruence. }
      { intros x [<-|Hx]; try lia. apply Hd in Hx. lia. }
      { unfold nconst. lia. }
      exists live', defd'. split; auto. split; auto.
      intros x. rewrite L, in_remove_nat, in_add_nat. split.
      * intros [[A [->|B']]|(k & A & B')].
        -- congruence.
        -- auto.
        -- right; exists k; simpl; auto.
      * intros [A|(k & [<-|A] & B')].
        -- left. split; auto. apply Hl in A. lia.
        -- congruence.
        -- right; exists k; auto.
Qed.

(* ---- walking the emitted ops ------------------------------------------------------------------- *)
Definition Linv (live done : list nat) : Prop :=
  forall x, In x live <->
    exists k, In k vis /\ nth k mp None = Some (SReg x) /\ ~ In k done /\
              (In k roots \/ exists p, In p done /\ In k (childs p)).
Definition Dinv (defd done : list nat) : Prop :=
  forall x, In x defd -> s0 <= x \/ exists k, In k done /\ nth k mp None = Some (SReg x).

Lemma childs_of k o : nth_error arena k = Some o -> childs k = children o.
Proof. intros E. unfold FlattenLib.childs. rewrite E. auto. Qed.

Lemma wf_nodes bound : s0 <= bound -> forall rest done live defd,
  rev order = done ++ rest -> Linv live done -> Dinv defd done ->
  wf_walk bound (ops_of rest) (live, defd) = true.
Proof.
  intros Hb. induction rest as [|k rest IH]; intros done live defd Ho HL HD.
  - simpl. destruct live as [|x l]; auto. exfalso.
    destruct (proj1 (HL x) (or_introl eq_refl)) as (k & Hk & _ & Hn & _).
    apply Hn. rewrite app_nil_r in Ho. rewrite <- Ho, <- in_rev. apply O_vis; auto.
  - assert (Hord : order = rev rest ++ k :: rev done).
    { rewrite <- (rev_involutive order), Ho, rev_app_distr. simpl. rewrite <- app_assoc. auto. }
    assert (Hkv : In k vis).
    { apply O_vis. rewrite Hord. apply in_or_app; right; simpl; auto. }
    assert (Hkd : ~ In k done).
    { pose proof (NoDup_rev O_nd) as ND. rewrite Ho in ND.
      apply NoDup_remove_2 in ND. intros A; apply ND. apply in_or_app; auto. }
    pose proof O_ok as Hok. rewrite Hord in Hok.
    apply (ord_ok_split arena roots) in Hok. destruct Hok as [Hjust Hkids].
    assert (Hjust' : In k roots \/ exists p, In p done /\ In k (childs p)).
    { destruct Hjust as [A|(p & A & B)]; auto. right; exists p; split; auto. apply in_rev; auto. }
    assert (Hkids' : forall c, In c (childs k) -> ~ In c done).
    { intros c Hc A. apply (Hkids c Hc). apply -> in_rev; auto. }
    assert (Ho' : rev order = (done ++ [k]) ++ rest) by (rewrite <- app_assoc; auto).
    simpl ops_of.
    destruct (node_op_cases k Hkv) as [(c & Eo & Em & ->)|(o & i & e & Eo & Em & Li & Sh & ->)].
    + (* constant: no op *)
      simpl. apply (IH (done ++ [k])); auto.
      * intros x. rewrite (HL x). split.
        -- intros (k' & A & B & C & D). exists k'. repeat split; auto.
           ++ intros E. apply in_app_or in E. destruct E as [E|[<-|[]]]; auto. congruence.
           ++ destruct D as [D|(p & D & D')]; auto. right; exists p; split; auto.
              apply in_or_app; auto.
        -- intros (k' & A & B & C & D). exists k'. repeat split; auto.
           ++ intros E; apply C; apply in_or_app; auto.
           ++ destruct D as [D|(p & D & D')]; auto. right; exists p; split; auto.
              apply in_app_or in D. destruct D as [D|[<-|[]]]; auto.
              rewrite (childs_of k _ Eo) in D'. destruct D'.
      * intros x Hx. destruct (HD x Hx) as [A|(k' & A & B)]; auto.
        right; exists k'; split; auto. apply in_or_app; auto.
    + (* register node: one op *)
      destruct (shape_out _ _ _ Sh) as [Hout Hssa].
      pose proof (shape_args _ _ _ Sh) as Hargs.
      assert (Hchild : forall a, In a (op_args e) ->
                exists c, In c (childs k) /\ In c vis /\ nth c mp None = Some (SReg a) /\ c <> k).
      { intros a Ha. apply Hargs in Ha. destruct Ha as (c & Hc & Ec).
        rewrite <- (childs_of k _ Eo) in Hc. exists c. repeat split; auto.
        - eapply (vis_closed arena roots s1 vis F1); eauto.
        - apply (childs_lt arena (WF arena roots OK)) in Hc. lia. }
      simpl app. rewrite wf_walk_cons.
      rewrite (wf_step_def bound e live defd i); auto; try lia.
      * apply (IH (done ++ [k])); auto.
        -- intros x. rewrite in_fold_add, in_remove_nat, (HL x). split.
           ++ intros [Ha|[Hne (k' & A & B & C & D)]].
              ** destruct (Hchild x Ha) as (c & C1 & C2 & C3 & C4).
                 exists c. repeat split; auto.
                 --- intros E. apply in_app_or in E. destruct E as [E|[E|[]]]; try congruence.
                     apply (Hkids' c); auto.
                 --- right. exists k. split; auto. apply in_or_app; simpl; auto.
              ** exists k'. repeat split; auto.
                 --- intros E. apply in_app_or in E. destruct E as [E|[<-|[]]]; auto. congruence.
                 --- destruct D as [D|(p & D & D')]; auto. right; exists p; split; auto.
                     apply in_or_app; auto.
           ++ intros (k' & A & B & C & D).
              assert (Hk'k : k' <> k) by (intros ->; apply C; apply in_or_app; simpl; auto).
              assert (Hk'd : ~ In k' done) by (intros E; apply C; apply in_or_app; auto).
              destruct D as [D|(p & D & D')].
              ** right. split.
                 --- intros ->. apply Hk'k. eapply reg_inj; eauto.
                 --- exists k'. repeat split; auto.
              ** apply in_app_or in D. destruct D as [D|[<-|[]]].
                 --- right. split.
                     +++ intros ->. apply Hk'k. eapply reg_inj; eauto.
                     +++ exists k'. repeat split; auto. right; exists p; auto.
                 --- left. apply Hargs. exists k'. split; auto.
                     rewrite <- (childs_of _ _ Eo); auto.
        -- intros x [<-|Hx].
           ++ right. exists k. split; auto. apply in_or_app; simpl; auto.
           ++ destruct (HD x Hx) as [A|(k' & A & B)]; auto.
              right; exists k'; split; auto. apply in_or_app; auto.
      * apply HL. exists k. repeat split; auto.
      * intros A. destruct (HD i A) as [B|(k' & B & C)]; try lia.
        assert (k' = k). { eapply reg_inj; eauto. apply O_vis. apply in_rev. rewrite Ho.
                           apply in_or_app; auto. }
        subst; contradiction.
      * intros a Ha. destruct (Hchild a Ha) as (c & C1 & C2 & C3 & C4).
        pose proof (reg_lt c a C2 C3). repeat split; try lia.
        -- intros ->. apply C4. eapply reg_inj; eauto.
        -- intros A. destruct (HD a A) as [B|(k' & B & C)]; try lia.
           assert (k' = c). { eapply reg_inj; eauto. apply O_vis. apply in_rev. rewrite Ho.
                              apply in_or_app; auto. }
           subst. apply (Hkids' c); auto.
Qed.

(* ---- sizes ----------------------------------------------------------------------------------------- *)
Definition regs_of (l : list nat) : list nat :=
  flat_map (fun k => match nth k mp None with Some (SReg r) => [r] | _ => [] end) l.

Lemma ops_regs_length : forall l, (forall k, In k l -> In k vis) ->
  length (ops_of l) = length (regs_of l).
Proof.
  induction l; simpl; intros H; auto.
  rewrite !app_length, IHl by auto.
  destruct (node_op_cases a) as [(c & _ & E & ->)|(o & i & e & _ & E & _ & _ & ->)]; auto;
    rewrite E; auto.
Qed.

Lemma regs_of_in l x : In x (regs_of l) <-> exists k, In k l /\ nth k mp None = Some (SReg x).
Proof.
  unfold regs_of. rewrite in_flat_map. split.
  - intros (k & A & B). exists k. split; auto.
    destruct (nth k mp None) as [[r|]|]; simpl in B; try tauto. destruct B as [<-|[]]; auto.
  - intros (k & A & B). exists k. split; auto. rewrite B; simpl; auto.
Qed.

Lemma regs_of_nodup : forall l, NoDup l -> (forall k, In k l -> In k vis) -> NoDup (regs_of l).
Proof.
  induction l; simpl; intros ND H; [constructor|].
  inversion ND; subst.
  destruct (nth a mp None) as [[r|]|] eqn:E; simpl; auto.
  constructor; auto. intros A. apply regs_of_in in A. destruct A as (k & A & B).
  assert (k = a) by (eapply reg_inj; eauto). subst; contradiction.
Qed.

Lemma regs_dense : Permutation (regs_of order) (seq 0 s0).
Proof.
  apply NoDup_Permutation.
  - apply regs_of_nodup; auto. intros; apply O_vis; auto.
  - apply seq_NoDup.
  - intros x. rewrite regs_of_in, in_seq. split.
    + intros (k & A & B). apply O_vis in A. pose proof (reg_lt k x A B). lia.
    + intros [_ Hx]. destruct (i1_surj _ _ _ _ _ F1 x Hx) as (k & A & B).
      exists k. split; auto. apply O_vis; auto.
Qed.

Lemma ops_of_length : length (ops_of order) = s0.
Proof.
  rewrite ops_regs_length by (intros; apply O_vis; auto).
  rewrite (Permutation_length regs_dense). apply seq_length.
Qed.

(* ---- the theorems about T = prologue ++ emitted ops ------------------------------------------------ *)
Definition final_tape : list op := final_pro roots s1 ++ rev (ops_of order).

Lemma roots_vis r : In r roots -> In r vis.
Proof. apply (vis_roots arena roots s1 vis F1). Qed.

Lemma final_tape_length : length final_tape = length roots + nconst roots + s0.
Proof.
  unfold final_tape, final_pro. rewrite app_length, rev_length, ops_of_length.
  rewrite pro_fwd_length; auto. apply roots_vis.
Qed.

Theorem final_ssa_wf : ssa_wf final_tape = true.
Proof.
  unfold ssa_wf. rewrite final_tape_length. unfold final_tape, final_pro.
  set (bound := length roots + nconst roots + s0).
  destruct (wf_prologue bound roots 0 s0 [] []) as (live & defd & R & L & D);
    try (unfold bound; lia); try (simpl; tauto); try apply roots_vis.
  rewrite (wf_walk_app bound _ _ _ _ R). rewrite ops_of_rev.
  apply (wf_nodes bound) with (done := []); try (unfold bound; lia); auto.
  - intros x. rewrite L. split.
    + intros [[]|(k & A & B)]. exists k. repeat split; auto. apply roots_vis; auto.
    + intros (k & A & B & _ & [C|(p & [] & _)]). right; exists k; auto.
  - intros x Hx. left; auto.
Qed.

Lemma ops_of_no_output : forall l, count_outputs (ops_of l) = 0.
Proof.
  unfold count_outputs. induction l; simpl; auto.
  rewrite filter_app, app_length, IHl.
  destruct (node_op a) as [|e [|]] eqn:E; auto.
  - destruct (node_op_shape a e) as (o & i & _ & _ & Sh); [rewrite E; simpl; auto|].
    simpl. destruct Sh; auto.
  - exfalso. unfold FlattenPass2.node_op in E.
    destruct (nth_error arena a); try discriminate. destruct (nth a mp None) as [[|]|]; try discriminate.
    destruct (emit _ _ _ _); discriminate.
Qed.

Theorem final_outputs : count_outputs final_tape = length roots.
Proof.
  unfold final_tape, final_pro, count_outputs. rewrite filter_app, app_length.
  fold (count_outputs (pro_fwd mp roots 0 s0)). rewrite pro_fwd_outputs by apply roots_vis.
  rewrite ops_of_rev. fold (count_outputs (ops_of (rev order))). rewrite ops_of_no_output. lia.
Qed.

Theorem final_inputs out k : In (OInput out k) final_tape ->
  k < length vars /\
  exists node v, In node vis /\ nth_error arena node = Some (NInput v) /\
                 nth node mp None = Some (SReg out) /\ var_index vars v = Some k.
Proof.
  unfold final_tape, final_pro. intros H. apply in_app_or in H. destruct H as [H|H].
  - exfalso. eapply pro_fwd_no_input; eauto.
  - apply in_rev in H. unfold FlattenPass2.ops_of in H. apply in_flat_map in H.
    destruct H as (node & Hn & He).
    destruct (node_op_shape node _ He) as (o & i & Eo & Em & Sh).
    inversion Sh as [v' k' Hvi | | | | |]; subst.
    split.
    + apply var_index_some in Hvi. apply nth_error_Some. congruence.
    + exists node, v'. repeat split; auto. apply O_vis; auto.
Qed.

Theorem final_no_copy out a : In (OUn UCopy out a) final_tape -> False.
Proof.
  unfold final_tape, final_pro. intros H. apply in_app_or in H. destruct H as [H|H].
  - apply pro_fwd_only in H. destruct H as [(a' & j & H)|(a' & c & H)]; discriminate.
  - apply in_rev in H. unfold FlattenPass2.ops_of in H. apply in_flat_map in H.
    destruct H as (node & Hn & He).
    destruct (node_op_shape node _ He) as (o & i & Eo & Em & Sh).
    inversion Sh; subst.
    pose proof (proj2 (proj2 OK) node _ Eo) as Hok. simpl in Hok. discriminate.
Qed.

(* ---- density of the slot numbering ---------------------------------------------------------------- *)
Definition tape_outs (t : list op) : list nat :=
  flat_map (fun o => match op_out o with Some r => [r] | None => [] end) t.

Lemma pro_fwd_outs : forall rts i slots, (forall r, In r rts -> In r vis) ->
  tape_outs (pro_fwd mp rts i slots) = seq slots (nconst rts).
Proof.
  induction rts as [|r rest IH]; simpl; intros i slots H; auto.
  unfold nconst in *. simpl.
  destruct (root_slot r) as [(out & E & _ & B)|(c & E & B)]; auto; rewrite E, B; simpl;
    rewrite IH by auto; auto.
Qed.

Lemma ops_of_outs : forall l, (forall k, In k l -> In k vis) -> tape_outs (ops_of l) = regs_of l.
Proof.
  induction l; simpl; intros H; auto.
  unfold tape_outs in *. rewrite flat_map_app, IHl by auto.
  destruct (node_op_cases a) as [(c & _ & E & ->)|(o & i & e & _ & E & _ & Sh & ->)]; auto;
    rewrite E; simpl; auto.
  destruct (shape_out _ _ _ Sh) as [-> _]. auto.
Qed.

Theorem final_dense : Permutation (tape_outs final_tape) (seq 0 (s0 + nconst roots)).
Proof.
  unfold final_tape, final_pro, tape_outs. rewrite flat_map_app.
  fold (tape_outs (pro_fwd mp roots 0 s0)). fold (tape_outs (rev (ops_of order))).
  rewrite pro_fwd_outs by apply roots_vis.
  rewrite ops_of_rev, ops_of_outs by (intros k Hk; apply O_vis; apply in_rev; auto).
  rewrite seq_app. simpl.
  eapply Permutation_trans; [apply Permutation_app_comm|].
  apply Permutation_app_tail.
  eapply Permutation_trans; [|apply regs_dense].
  unfold regs_of. apply Permutation_flat_map. apply Permutation_sym, Permutation_rev.
Qed.

End Facts.
