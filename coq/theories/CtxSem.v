(* CtxSem.v — P3: a node built through the constructors evaluates to the same f32
   as the unsimplified expression, up to the sign of zero ([eqz]); which
   finiteness hypotheses are needed is stated per constructor. *)
From Coq Require Import List Bool Arith ZArith Lia.
From Flocq Require Import IEEE754.BinarySingleNaN.
From FV Require Import F32 Ops Tape Alloc Flatten F32Sem CtxEval FlattenLib FlattenPass2 F32Facts Ctx CtxBase CtxCtors.
Import ListNotations.
Local Open Scope nat_scope.

Definition wfnode (c : ctx) (x : cnode f32) : Prop := forall k, In k (children x) -> k < length c.

Lemma good_wfnode c x : good c x -> wfnode c x.
Proof. intros [A _]; exact A. Qed.
Lemma goodc_wfnode c x : goodc c x -> wfnode c x.
Proof. intros [[A _] _]; exact A. Qed.

Lemma insert_wf c x : arena_wf c -> wfnode c x -> arena_wf (fst (insert c x)).
Proof.
  intros WF GC. unfold insert. destruct (find_node c x 0) eqn:E; simpl; auto.
  intros i n Hi a Ha.
  destruct (Nat.lt_ge_cases i (length c)) as [L|L].
  - rewrite nth_error_app1 in Hi by auto. eapply WF; eauto.
  - rewrite nth_error_app2 in Hi by auto.
    destruct (i - length c) as [|[|]] eqn:Ei; simpl in Hi; try discriminate.
    inversion Hi; subst. specialize (GC a Ha). lia.
Qed.

Lemma reach_wf c c' : arena_wf c -> reach wfnode c c' -> arena_wf c'.
Proof. intros W R. induction R; auto. apply insert_wf; auto. Qed.

(* [eqz] is a congruence for add and mul (it is not for div, recip, atan2, rand, mix) *)
Lemma eqz_finite a b : eqz a b -> finite a -> finite b.
Proof.
  intros [->|[_ Zb]] F; auto. apply is_zerob_spec in Zb. destruct Zb as [s ->]. reflexivity.
Qed.

Lemma fadd_eqz a a' b b' : eqz a a' -> eqz b b' -> eqz (fadd a b) (fadd a' b').
Proof.
  intros [->|[Za Za']] [->|[Zb Zb']]; try apply eqz_refl.
  - apply is_zerob_spec in Zb, Zb'. destruct Zb as [s ->], Zb' as [s' ->].
    destruct a' as [sa|sa| |sa ma ea Ha]; try (left; reflexivity); zz.
  - apply is_zerob_spec in Za, Za'. destruct Za as [s ->], Za' as [s' ->].
    destruct b' as [sa|sa| |sa ma ea Ha]; try (left; reflexivity); zz.
  - apply is_zerob_spec in Za, Za', Zb, Zb'.
    destruct Za as [s1 ->], Za' as [s2 ->], Zb as [s3 ->], Zb' as [s4 ->]. zz.
Qed.

Lemma fmul_eqz a a' b b' : eqz a a' -> eqz b b' -> eqz (fmul a b) (fmul a' b').
Proof.
  intros [->|[Za Za']] [->|[Zb Zb']]; try apply eqz_refl.
  - apply is_zerob_spec in Zb, Zb'. destruct Zb as [s ->], Zb' as [s' ->].
    destruct a' as [sa|sa| |sa ma ea Ha]; try (left; reflexivity); zz.
  - apply is_zerob_spec in Za, Za'. destruct Za as [s ->], Za' as [s' ->].
    destruct b' as [sa|sa| |sa ma ea Ha]; try (left; reflexivity); zz.
  - apply is_zerob_spec in Za, Za', Zb, Zb'.
    destruct Za as [s1 ->], Za' as [s2 ->], Zb as [s3 ->], Zb' as [s4 ->]. zz.
Qed.

Section Sem.
Variable o : oracle.
Notation val := (ctx_eval (f32_sem o)).

(* the value of a node from the values [v] of its children *)
Definition nvalf (v : nat -> f32) (env : nat -> f32) (x : cnode f32) : f32 :=
  match x with
  | NInput i => env i
  | NConst k => k
  | NUnary u a => f32_un o u (v a)
  | NBinary p a b => f32_bin o p (v a) (v b)
  end.

Lemma val_node c env k x :
  arena_wf c -> nth_error c k = Some x -> val c env k = nvalf (val c env) env x.
Proof.
  intros WF H. rewrite (ctx_eval_node (f32_sem o) env c k x WF H). destruct x; reflexivity.
Qed.

Lemma val_const c env a k : arena_wf c -> get_op c a = Some (NConst k) -> val c env a = k.
Proof. intros WF H. rewrite (val_node c env a _ WF H). reflexivity. Qed.

Lemma nvalf_ext v v' env x :
  (forall k, In k (children x) -> v k = v' k) -> nvalf v env x = nvalf v' env x.
Proof.
  destruct x; simpl; intros H; auto.
  - rewrite H; auto.
  - rewrite (H l), (H r); auto.
Qed.

(* the value of the node [insert] returns *)
Lemma insert_val c env x :
  arena_wf c -> wfnode c x ->
  let c' := fst (insert c x) in let n := snd (insert c x) in
  eqz (val c' env n) (nvalf (val c env) env x) /\
  ((forall k, x = NConst k -> is_zerob k = false) -> val c' env n = nvalf (val c env) env x).
Proof.
  intros WF GC c' n.
  assert (WF' : arena_wf c') by (apply insert_wf; auto).
  destruct (insert_get c x) as (x' & Hx' & E). fold c' n in Hx'.
  rewrite (val_node c' env n x' WF' Hx').
  assert (EXT : nvalf (val c' env) env x = nvalf (val c env) env x).
  { apply nvalf_ext. intros k Hk. unfold c'. destruct (insert_ext c x) as (e & ->).
    apply extension_preserves_values_gen. auto. }
  apply cnode_eqb_true_iff in E. destruct E as [->|(a & b & -> & -> & Za & Zb)].
  - rewrite EXT. split; [apply eqz_refl | auto].
  - simpl. split; [right; auto|]. intros H. rewrite (H b eq_refl) in Zb. discriminate.
Qed.

(* ---- what a plan denotes ---------------------------------------------------- *)
Definition plan_denf (v : nat -> f32) (env : nat -> f32) (p : plan) (t : f32) : Prop :=
  match p with
  | POld m => eqz (v m) t
  | PIns x => eqz (nvalf v env x) t
  | PBad => True
  | PThen _ _ => False
  end.

Lemma run_valf c env p t c' n :
  arena_wf c -> plan_ok wfnode c p -> plan_denf (val c env) env p t ->
  run c p = Ok (c', n) -> eqz (val c' env n) t.
Proof.
  intros WF OKp D E. destruct p; simpl in *; try contradiction; try discriminate.
  - inversion E; subst; auto.
  - inv_ins E. eapply eqz_trans; [apply insert_val; auto | auto].
Qed.

Lemma feqb_fone k : feqb k fone = true -> k = fone.
Proof.
  intros H. apply feqb_true_iff in H. destruct H as [[_ H]|[_ H]]; auto. discriminate.
Qed.

Ltac unfold_plans :=
  unfold p_build, p_add, p_mul, p_min, p_max, p_and, p_or, p_sub, p_div,
         p_check2, p_unary, p_comm, p_binary, gis, gconst.

Ltac use_consts Ka Kb :=
  first [specialize (Ka _ eq_refl) | clear Ka];
  first [specialize (Kb _ eq_refl) | clear Kb];
  try match goal with E : ?a = ?b :> nat |- _ => subst b end;
  try rewrite Ka in *; try rewrite Kb in *;
  repeat match goal with H : feqb ?k fzero = ?r |- _ => change (is_zerob k = r) in H end;
  repeat match goal with H : feqb ?k fone = true |- _ => apply feqb_fone in H; try rewrite H in * end.

Ltac fin S1 :=
  first
    [ apply eqz_refl
    | (rewrite fmul_comm; apply eqz_refl)
    | (rewrite fadd_comm; apply eqz_refl)
    | (rewrite fmin_comm; apply eqz_refl)
    | (rewrite fmax_comm; apply eqz_refl)
    | (rewrite mul_one_l; apply eqz_refl)
    | (rewrite mul_one_r; apply eqz_refl)
    | (rewrite div_one_r; apply eqz_refl)
    | (rewrite min_self; apply eqz_refl)
    | (rewrite max_self; apply eqz_refl)
    | (apply eqz_sym, mul_zero_l_z; [assumption | auto])
    | (apply eqz_sym, mul_zero_r_z; [assumption | auto])
    | (apply eqz_sym, add_zero_l_z; assumption)
    | (apply eqz_sym, add_zero_r_z; assumption)
    | (apply eqz_sym, sub_zero_l_z; assumption)
    | (apply eqz_sym, sub_zero_r_z; assumption)
    | (apply eqz_sym, or_zero_r_z; assumption)
    | (apply eqz_sym, div_zero_l_z; [assumption | apply S1; assumption | apply S1; assumption]) ].

Lemma p_mul_denf v env a b x y :
  (forall k, x = NConst k -> v a = k) -> (forall k, y = NConst k -> v b = k) ->
  (a = b -> x = y) ->
  (is_zerob (v a) = true -> finite (v b)) -> (is_zerob (v b) = true -> finite (v a)) ->
  plan_denf v env (p_mul o (Some x) (Some y) a b) (fmul (v a) (v b)).
Proof.
  intros Ka Kb Ex S1 S2. unfold_plans.
  destruct x, y; simpl; plan_cases; simpl; natb;
    try (specialize (Ex E); discriminate); use_consts Ka Kb; fin S1.
Qed.

Lemma p_unary_denf v env a x u :
  (forall k, x = NConst k -> v a = k) ->
  plan_denf v env (p_unary o (Some x) a u) (f32_un o u (v a)).
Proof.
  intros Ka. unfold p_unary. destruct x; simpl; try apply eqz_refl.
  rewrite (Ka _ eq_refl). apply eqz_refl.
Qed.

Lemma p_binary_denf v env a b x y p :
  (forall k, x = NConst k -> v a = k) -> (forall k, y = NConst k -> v b = k) ->
  plan_denf v env (p_binary o (Some x) (Some y) a b p) (f32_bin o p (v a) (v b)).
Proof.
  intros Ka Kb. unfold p_binary. destruct x, y; cbn [plan_denf nvalf]; try apply eqz_refl.
  rewrite (Ka _ eq_refl), (Kb _ eq_refl). apply eqz_refl.
Qed.

Lemma p_comm_denf v env a b x y p :
  In p [BAdd; BMul; BMin; BMax] ->
  (forall k, x = NConst k -> v a = k) -> (forall k, y = NConst k -> v b = k) ->
  plan_denf v env (p_comm o (Some x) (Some y) a b p) (f32_bin o p (v a) (v b)).
Proof.
  intros Hp Ka Kb. unfold p_comm. destruct (a <=? b).
  - apply p_binary_denf; auto.
  - rewrite (f32_bin_comm o p (v a) (v b) Hp). apply p_binary_denf; auto.
Qed.

Lemma p_add_denf v env a b x y :
  (forall k, x = NConst k -> v a = k) -> (forall k, y = NConst k -> v b = k) ->
  a <> b ->
  plan_denf v env (p_add o (Some x) (Some y) a b) (fadd (v a) (v b)).
Proof.
  intros Ka Kb N. unfold p_add, p_check2. rewrite (proj2 (Nat.eqb_neq a b) N).
  unfold_plans.
  destruct x, y; simpl; plan_cases; simpl; natb; use_consts Ka Kb; fin I.
Qed.

Lemma p_min_denf v env a b x y :
  (forall k, x = NConst k -> v a = k) -> (forall k, y = NConst k -> v b = k) ->
  plan_denf v env (p_min o (Some x) (Some y) a b) (fst (fmin_choice (v a) (v b))).
Proof.
  intros Ka Kb. unfold_plans.
  destruct x, y; cbn [plan_denf nvalf f32_bin]; plan_cases; cbn [plan_denf nvalf f32_bin]; natb;
    use_consts Ka Kb; fin I.
Qed.

Lemma p_max_denf v env a b x y :
  (forall k, x = NConst k -> v a = k) -> (forall k, y = NConst k -> v b = k) ->
  plan_denf v env (p_max o (Some x) (Some y) a b) (fst (fmax_choice (v a) (v b))).
Proof.
  intros Ka Kb. unfold_plans.
  destruct x, y; cbn [plan_denf nvalf f32_bin]; plan_cases; cbn [plan_denf nvalf f32_bin]; natb;
    use_consts Ka Kb; fin I.
Qed.

Lemma p_and_denf v env a b x y :
  (forall k, x = NConst k -> v a = k) -> (forall k, y = NConst k -> v b = k) ->
  plan_denf v env (p_and o (Some x) (Some y) a b) (fst (fand_choice (v a) (v b))).
Proof.
  intros Ka Kb. unfold_plans.
  destruct x, y; cbn [plan_denf nvalf f32_bin]; plan_cases; cbn [plan_denf nvalf f32_bin];
    use_consts Ka Kb; rewrite ?and_const_l, ?E; apply eqz_refl.
Qed.

Lemma p_or_denf v env a b x y :
  (forall k, x = NConst k -> v a = k) -> (forall k, y = NConst k -> v b = k) ->
  plan_denf v env (p_or o (Some x) (Some y) a b) (fst (for_choice (v a) (v b))).
Proof.
  intros Ka Kb. unfold_plans.
  destruct x, y; cbn [plan_denf nvalf f32_bin]; plan_cases; cbn [plan_denf nvalf f32_bin];
    use_consts Ka Kb;
    first [ (rewrite or_const_l, E; apply eqz_refl)
          | (rewrite or_const_l; apply negb_false_iff in E; rewrite E; apply eqz_refl)
          | fin I ].
Qed.

Lemma p_sub_denf v env a b x y :
  (forall k, x = NConst k -> v a = k) -> (forall k, y = NConst k -> v b = k) ->
  plan_denf v env (p_sub o (Some x) (Some y) a b) (fsub (v a) (v b)).
Proof.
  intros Ka Kb. unfold_plans.
  destruct x, y; simpl; plan_cases; simpl; use_consts Ka Kb; fin I.
Qed.

Lemma p_div_denf v env a b x y :
  (forall k, x = NConst k -> v a = k) -> (forall k, y = NConst k -> v b = k) ->
  (is_zerob (v a) = true -> is_nanb (v b) = false /\ is_zerob (v b) = false) ->
  plan_denf v env (p_div o (Some x) (Some y) a b) (fdiv (v a) (v b)).
Proof.
  intros Ka Kb S1. unfold_plans.
  destruct x, y; simpl; plan_cases; simpl; use_consts Ka Kb; fin S1.
Qed.

(* ---- plans insert only nodes whose children exist -------------------------- *)
Lemma p_binary_okw c a b x y p :
  get_op c a = Some x -> get_op c b = Some y -> plan_ok wfnode c (p_binary o (Some x) (Some y) a b p).
Proof.
  intros Ha Hb. unfold p_binary.
  destruct x, y; simpl; intros k Hk; simpl in Hk; try contradiction;
    destruct Hk as [<-|[<-|[]]]; eapply nth_error_lt; eauto.
Qed.
Lemma p_comm_okw c a b x y p :
  get_op c a = Some x -> get_op c b = Some y -> plan_ok wfnode c (p_comm o (Some x) (Some y) a b p).
Proof. intros. unfold p_comm. destruct (a <=? b); apply p_binary_okw; auto. Qed.
Lemma p_unary_okw c a x u :
  get_op c a = Some x -> plan_ok wfnode c (p_unary o (Some x) a u).
Proof.
  intros Ha. unfold p_unary. destruct x; simpl; intros k Hk; simpl in Hk; try contradiction;
    destruct Hk as [<-|[]]; eapply nth_error_lt; eauto.
Qed.
Lemma p_build_okw c p a b x y :
  get_op c a = Some x -> get_op c b = Some y -> plan_ok wfnode c (p_build o p (Some x) (Some y) a b).
Proof.
  intros. eapply plan_ok_mono; [apply goodc_wfnode | apply p_build_ok; auto].
Qed.

Lemma den_const c env a x :
  arena_wf c -> get_op c a = Some x -> forall k, x = NConst k -> val c env a = k.
Proof. intros WF H k ->. eapply val_const; eauto. Qed.

Lemma ok_args K G : ctor_spec G K -> forall c a b c' n, K c a b = Ok (c', n) ->
  exists x y, get_op c a = Some x /\ get_op c b = Some y.
Proof.
  intros S c a b c' n E. destruct (cs_ok _ _ S _ _ _ _ _ E) as (La & Lb & _).
  destruct (get_op_some _ _ La) as (x & Hx), (get_op_some _ _ Lb) as (y & Hy). eauto.
Qed.

(* ---- nullary / unary -------------------------------------------------------- *)

Theorem constant_sound c v c' n env :
  arena_wf c -> constant c v = Ok (c', n) ->
  eqz (val c' env n) v /\ (is_zerob v = false -> val c' env n = v).
Proof.
  intros WF E. unfold constant in E. inv_ins E.
  destruct (insert_val c env (NConst v) WF) as [A B]; [intros k []|].
  split; auto. intros Z. apply B. intros k Hk. inversion Hk; subst; auto.
Qed.

Theorem var_sound c v c' n env :
  arena_wf c -> var c v = Ok (c', n) -> val c' env n = env v.
Proof.
  intros WF E. unfold var in E. inv_ins E.
  destruct (insert_val c env (NInput v) WF) as [A B]; [intros k []|].
  apply B. intros k Hk. discriminate.
Qed.

Theorem op_unary_sound c a u c' n env :
  arena_wf c -> op_unary o c a u = Ok (c', n) ->
  eqz (val c' env n) (f32_un o u (val c env a)).
Proof.
  intros WF E. rewrite op_unary_plan in E.
  destruct (get_op c a) as [x|] eqn:Ha; [|discriminate].
  eapply run_valf; [exact WF | | | exact E]; [apply p_unary_okw; eauto |].
  apply p_unary_denf. eapply den_const; eauto.
Qed.

(* exact whenever the result is not a zero, and whenever the argument is not a constant *)
Theorem op_unary_exact c a u c' n env :
  arena_wf c -> op_unary o c a u = Ok (c', n) ->
  is_zerob (f32_un o u (val c env a)) = false \/ (forall k, get_op c a <> Some (NConst k)) ->
  val c' env n = f32_un o u (val c env a).
Proof.
  intros WF E [Z|NC].
  - apply eqz_nonzero; auto. eapply op_unary_sound; eauto.
  - unfold op_unary in E. destruct (get_op c a) as [x|] eqn:Ha; [|discriminate].
    assert (E' : Ok (insert c (NUnary u a)) = Ok (c', n)).
    { destruct x; auto. elim (NC c0); auto. }
    inv_ins E'.
    destruct (insert_val c env (NUnary u a) WF) as [A B].
    + intros k [<-|[]]. eapply nth_error_lt; eauto.
    + apply B. intros k Hk. discriminate.
Qed.

(* the exact statement for unary constructors is false in general: folding a
   constant to -0 finds the node of +0 (OrderedFloat: +0 == -0) *)
Example op_unary_exact_refuted :
  let c0 : ctx := [NConst fzero] in
  exists c' n, op_unary o c0 0 UNeg = Ok (c', n) /\
    forall env, val c' env n = fzero /\ f32_un o UNeg (val c0 env 0) = fnzero.
Proof. eexists _, _. split; [reflexivity|]. intros env. split; reflexivity. Qed.

Example constant_zero_sign_refuted :
  let c0 : ctx := [NConst fzero] in
  exists c' n, constant c0 fnzero = Ok (c', n) /\ forall env, val c' env n = fzero.
Proof. eexists _, _. split; [reflexivity|]. intros env. reflexivity. Qed.

(* ---- binary ----------------------------------------------------------------- *)

(* the side condition under which a binary rewrite is sound up to the sign of zero *)
Definition bin_side (p : bop) (x y : f32) : Prop :=
  match p with
  | BMul => (is_zerob x = true -> finite y) /\ (is_zerob y = true -> finite x)
  | BDiv => is_zerob x = true -> is_nanb y = false /\ is_zerob y = false
  | _ => True
  end.

Lemma bin_side_finite p x y :
  finite x -> finite y -> finite (f32_bin o p x y) -> bin_side p x y.
Proof.
  intros Fx Fy Fr. destruct p; simpl; auto.
  intros Z. apply is_zerob_spec in Z. destruct Z as [s ->].
  destruct y as [sy|sy| |sy my ey Hy]; try discriminate; auto.
  split; [reflexivity | apply is_zerob_finite].
Qed.

Theorem op_binary_sound c a b p c' n env :
  arena_wf c -> op_binary o c a b p = Ok (c', n) ->
  eqz (val c' env n) (f32_bin o p (val c env a) (val c env b)).
Proof.
  intros WF E. rewrite op_binary_plan in E.
  destruct (get_op c a) as [x|] eqn:Ha; [|discriminate].
  destruct (get_op c b) as [y|] eqn:Hb; [|destruct x; discriminate].
  eapply run_valf; [exact WF | | | exact E]; [apply p_binary_okw; eauto |].
  apply p_binary_denf; eapply den_const; eauto.
Qed.

Theorem op_binary_commutative_sound c a b p c' n env :
  In p [BAdd; BMul; BMin; BMax] ->
  arena_wf c -> op_binary_commutative o c a b p = Ok (c', n) ->
  eqz (val c' env n) (f32_bin o p (val c env a) (val c env b)).
Proof.
  intros Hp WF E. unfold op_binary_commutative in E.
  pose proof (op_binary_sound _ _ _ _ _ _ env WF E) as H.
  destruct (Nat.le_ge_cases a b).
  - rewrite Nat.min_l, Nat.max_r in H by lia. exact H.
  - rewrite Nat.min_r, Nat.max_l in H by lia. rewrite f32_bin_comm; auto.
Qed.

Theorem c_mul_sound c a b c' n env :
  arena_wf c -> c_mul o c a b = Ok (c', n) ->
  let x := val c env a in let y := val c env b in
  (is_zerob x = true -> finite y) -> (is_zerob y = true -> finite x) ->
  eqz (val c' env n) (fmul x y).
Proof.
  intros WF E x y S1 S2.
  destruct (ok_args _ _ (c_mul_spec o) _ _ _ _ _ E) as (x0 & y0 & Ha & Hb).
  rewrite c_mul_plan, Ha, Hb in E.
  eapply run_valf; [exact WF | | | exact E]; [apply (p_build_okw c BMul); eauto |].
  apply p_mul_denf; auto; try (eapply den_const; eauto).
  intros ->. congruence.
Qed.

Theorem c_add_sound c a b c' n env :
  arena_wf c -> c_add o c a b = Ok (c', n) ->
  eqz (val c' env n) (fadd (val c env a) (val c env b)).
Proof.
  intros WF E.
  destruct (ok_args _ _ (c_add_spec o) _ _ _ _ _ E) as (x0 & y0 & Ha & Hb).
  destruct (Nat.eq_dec a b) as [->|N].
  - (* a + a = a * 2.0 *)
    unfold c_add, check2 in E. rewrite Hb, Nat.eqb_refl in E.
    assert (E1 : c_mul o (fst (insert c (NConst ftwo))) b (snd (insert c (NConst ftwo))) = Ok (c', n)).
    { destruct x0; unfold constant in E; destruct (insert c (NConst ftwo)); exact E. }
    clear E.
    assert (WF1 : arena_wf (fst (insert c (NConst ftwo)))) by (apply insert_wf; auto; intros k []).
    pose proof (c_mul_sound _ _ _ _ _ env WF1 E1) as H. cbv zeta in H.
    assert (V2 : val (fst (insert c (NConst ftwo))) env (snd (insert c (NConst ftwo))) = ftwo).
    { eapply val_const; auto. apply insert_const_get. reflexivity. }
    assert (Vb : val (fst (insert c (NConst ftwo))) env b = val c env b).
    { destruct (insert_ext c (NConst ftwo)) as (e & ->).
      apply extension_preserves_values_gen. eapply nth_error_lt; eauto. }
    rewrite V2, Vb in H. rewrite add_self_r. apply H.
    + intros _. reflexivity.
    + discriminate.
  - rewrite c_add_plan, Ha, Hb in E.
    eapply run_valf; [exact WF | | | exact E]; [apply (p_build_okw c BAdd); eauto |].
    apply p_add_denf; auto; eapply den_const; eauto.
Qed.

Ltac bin_sound_tac S BOP LEM :=
  match goal with
  | WF : arena_wf ?c, E : ?K = Ok _ |- _ =>
    let x0 := fresh "x0" in let y0 := fresh "y0" in let Ha := fresh "Ha" in let Hb := fresh "Hb" in
    destruct (ok_args _ _ S _ _ _ _ _ E) as (x0 & y0 & Ha & Hb);
    first [rewrite c_min_plan, Ha, Hb in E | rewrite c_max_plan, Ha, Hb in E
          | rewrite c_and_plan, Ha, Hb in E | rewrite c_or_plan, Ha, Hb in E
          | rewrite c_sub_plan, Ha, Hb in E | rewrite c_div_plan, Ha, Hb in E];
    eapply run_valf; [exact WF | | | exact E]; [apply (p_build_okw c BOP); eauto |];
    apply LEM; auto; eapply den_const; eauto
  end.

Theorem c_min_sound c a b c' n env :
  arena_wf c -> c_min o c a b = Ok (c', n) ->
  eqz (val c' env n) (fst (fmin_choice (val c env a) (val c env b))).
Proof. intros WF E. bin_sound_tac (c_min_spec o) BMin p_min_denf. Qed.

Theorem c_max_sound c a b c' n env :
  arena_wf c -> c_max o c a b = Ok (c', n) ->
  eqz (val c' env n) (fst (fmax_choice (val c env a) (val c env b))).
Proof. intros WF E. bin_sound_tac (c_max_spec o) BMax p_max_denf. Qed.

Theorem c_and_sound c a b c' n env :
  arena_wf c -> c_and o c a b = Ok (c', n) ->
  eqz (val c' env n) (fst (fand_choice (val c env a) (val c env b))).
Proof. intros WF E. bin_sound_tac (c_and_spec o) BAnd p_and_denf. Qed.

Theorem c_or_sound c a b c' n env :
  arena_wf c -> c_or o c a b = Ok (c', n) ->
  eqz (val c' env n) (fst (for_choice (val c env a) (val c env b))).
Proof. intros WF E. bin_sound_tac (c_or_spec o) BOr p_or_denf. Qed.

Theorem c_sub_sound c a b c' n env :
  arena_wf c -> c_sub o c a b = Ok (c', n) ->
  eqz (val c' env n) (fsub (val c env a) (val c env b)).
Proof. intros WF E. bin_sound_tac (c_sub_spec o) BSub p_sub_denf. Qed.

Theorem c_div_sound c a b c' n env :
  arena_wf c -> c_div o c a b = Ok (c', n) ->
  let x := val c env a in let y := val c env b in
  (is_zerob x = true -> is_nanb y = false /\ is_zerob y = false) ->
  eqz (val c' env n) (fdiv x y).
Proof. intros WF E x y S1. bin_sound_tac (c_div_spec o) BDiv p_div_denf. Qed.

(* P3 for the builder of every opcode, with the weakest side condition *)
Theorem build_bin_sound_strong c p a b c' n env :
  arena_wf c -> build_bin o c p a b = Ok (c', n) ->
  let x := val c env a in let y := val c env b in
  bin_side p x y -> eqz (val c' env n) (f32_bin o p x y).
Proof.
  intros WF E x y S. destruct p; simpl in E, S.
  - exact (c_add_sound _ _ _ _ _ env WF E).
  - exact (c_sub_sound _ _ _ _ _ env WF E).
  - destruct S. exact (c_mul_sound _ _ _ _ _ env WF E H H0).
  - exact (c_div_sound _ _ _ _ _ env WF E S).
  - exact (op_binary_sound _ _ _ _ _ _ env WF E).
  - exact (c_min_sound _ _ _ _ _ env WF E).
  - exact (c_max_sound _ _ _ _ _ env WF E).
  - exact (op_binary_sound _ _ _ _ _ _ env WF E).
  - exact (op_binary_sound _ _ _ _ _ _ env WF E).
  - exact (c_and_sound _ _ _ _ _ env WF E).
  - exact (c_or_sound _ _ _ _ _ env WF E).
  - exact (op_binary_sound _ _ _ _ _ _ env WF E).
Qed.

(* P3 as stated: finite operands and a finite result *)
Theorem build_bin_sound c p a b c' n :
  ctx_inv c -> build_bin o c p a b = Ok (c', n) ->
  forall env, let x := val c env a in let y := val c env b in
  finite x -> finite y -> finite (f32_bin o p x y) ->
  eqz (val c' env n) (f32_bin o p x y).
Proof.
  intros I E env x y Fx Fy Fr. apply build_bin_sound_strong; auto. apply I.
  apply bin_side_finite; auto.
Qed.

(* ... and exact whenever the unsimplified result is not a zero *)
Theorem build_bin_exact c p a b c' n env :
  arena_wf c -> build_bin o c p a b = Ok (c', n) ->
  let x := val c env a in let y := val c env b in
  bin_side p x y -> is_zerob (f32_bin o p x y) = false ->
  val c' env n = f32_bin o p x y.
Proof.
  intros WF E x y S Z. apply eqz_nonzero; auto. apply build_bin_sound_strong; auto.
Qed.

(* ---- exactness when no operand is a constant ---------------------------------- *)
(* the only rewrites that can fire are then x+x -> x*2, x*x -> square x, min/max(x,x)
   -> x and operand sorting, and all of these are exact *)
Definition plan_exact (v : nat -> f32) (env : nat -> f32) (p : plan) (t : f32) : Prop :=
  match p with
  | POld m => v m = t
  | PIns x => nvalf v env x = t /\ isc x = false
  | PBad => True
  | PThen _ _ => False
  end.

Lemma run_val_exact c env p t c' n :
  arena_wf c -> plan_ok wfnode c p -> plan_exact (val c env) env p t ->
  run c p = Ok (c', n) -> val c' env n = t.
Proof.
  intros WF OKp D E. destruct p; simpl in *; try contradiction; try discriminate.
  - inversion E; subst; auto.
  - inv_ins E. destruct D as [D NCx]. rewrite <- D.
    apply insert_val; auto. intros k ->. discriminate.
Qed.

Lemma p_build_exact v env p a b x y :
  isc x = false -> isc y = false -> (p = BAdd -> a <> b) ->
  plan_exact v env (p_build o p (Some x) (Some y) a b) (f32_bin o p (v a) (v b)).
Proof.
  intros Nx Ny Hab.
  destruct p; unfold_plans;
    try (rewrite (proj2 (Nat.eqb_neq a b) (Hab eq_refl)));
    destruct x, y; try discriminate;
    cbn [plan_exact nvalf f32_bin f32_un isc]; plan_cases;
    cbn [plan_exact nvalf f32_bin f32_un isc]; natb; subst;
    try (split; [|reflexivity]);
    first [ reflexivity | apply fadd_comm | apply fmul_comm | apply fmin_comm | apply fmax_comm
          | (symmetry; apply min_self) | (symmetry; apply max_self) ].
Qed.

Theorem build_bin_exact_nonconst c p a b c' n env :
  arena_wf c -> build_bin o c p a b = Ok (c', n) ->
  (forall k, get_op c a <> Some (NConst k)) -> (forall k, get_op c b <> Some (NConst k)) ->
  val c' env n = f32_bin o p (val c env a) (val c env b).
Proof.
  intros WF E NCa NCb.
  destruct (ok_args _ _ (build_bin_spec o p) _ _ _ _ _ E) as (x & y & Ha & Hb).
  assert (Nx : isc x = false) by (destruct x; auto; elim (NCa c0); auto).
  assert (Ny : isc y = false) by (destruct y; auto; elim (NCb c0); auto).
  destruct (bop_eqb p BAdd && (a =? b)) eqn:Self.
  - (* a + a = a * 2.0 *)
    apply andb_true_iff in Self. destruct Self as [Hp Hab].
    apply bop_eqb_eq in Hp. apply Nat.eqb_eq in Hab. subst p b.
    simpl in E |- *. unfold c_add, check2 in E. rewrite Ha, Nat.eqb_refl in E.
    assert (E1 : c_mul o (fst (insert c (NConst ftwo))) a (snd (insert c (NConst ftwo))) = Ok (c', n)).
    { destruct x; unfold constant in E; destruct (insert c (NConst ftwo)); exact E. }
    clear E.
    set (c1 := fst (insert c (NConst ftwo))) in *. set (two := snd (insert c (NConst ftwo))) in *.
    assert (WF1 : arena_wf c1) by (apply insert_wf; auto; intros k []).
    assert (H2 : get_op c1 two = Some (NConst ftwo)) by (apply insert_const_get; reflexivity).
    assert (Ha1 : get_op c1 a = Some x).
    { unfold c1. destruct (insert_ext c (NConst ftwo)) as (e & ->).
      rewrite get_op_ext; auto. eapply nth_error_lt; eauto. }
    assert (V2 : val c1 env two = ftwo) by (eapply val_const; eauto).
    assert (Va : val c1 env a = val c env a).
    { unfold c1. destruct (insert_ext c (NConst ftwo)) as (e & ->).
      apply extension_preserves_values_gen. eapply nth_error_lt; eauto. }
    assert (Nat2 : a <> two) by (intros ->; rewrite H2 in Ha1; inversion Ha1; subst; discriminate).
    rewrite c_mul_plan, Ha1, H2 in E1. rewrite add_self_r. change (of_bits 1073741824) with ftwo.
    rewrite <- Va, <- V2.
    eapply run_val_exact; [exact WF1 | | | exact E1]; [apply (p_build_okw c1 BMul); eauto |].
    unfold_plans. rewrite (proj2 (Nat.eqb_neq a two) Nat2).
    destruct x; try discriminate; cbn [plan_exact nvalf f32_bin isc];
      change (feqb ftwo fone) with false; change (feqb ftwo fzero) with false; cbn iota;
      plan_cases; cbn [plan_exact nvalf f32_bin isc]; (split; [|reflexivity]);
      first [reflexivity | apply fmul_comm].
  - rewrite build_bin_plan, Ha, Hb in E.
    eapply run_val_exact; [exact WF | | | exact E]; [apply p_build_okw; eauto |].
    apply p_build_exact; auto.
    intros -> ->. simpl in Self. rewrite Nat.eqb_refl in Self. discriminate.
Qed.

End Sem.

(* ---- the findings ------------------------------------------------------------ *)
Section Findings.
Variable o : oracle.
Notation val := (ctx_eval (f32_sem o)).

(* the rewrites change the sign of zero: 0 - x is built as neg(x); at x = +0 the
   built node gives -0 where the unsimplified expression gives +0.  Both are finite
   and [eqz], but atan2(., -1), rand and mix can tell them apart. *)
Example ctx_zero_sign_observable :
  let c0 : ctx := [NInput 0] in
  exists c1 k c2 n,
    constant c0 fzero = Ok (c1, k) /\ c_sub o c1 k 0 = Ok (c2, n) /\
    nth_error c2 n = Some (NUnary UNeg 0) /\
    let env := fun _ : nat => fzero in
    val c2 env n = fnzero /\
    fsub (val c1 env k) (val c1 env 0) = fzero /\
    finite (val c2 env n) /\ finite (fsub (val c1 env k) (val c1 env 0)) /\
    eqz (val c2 env n) (fsub (val c1 env k) (val c1 env 0)) /\
    val c2 env n <> fsub (val c1 env k) (val c1 env 0).
Proof.
  eexists _, _, _, _. split; [reflexivity|]. split; [reflexivity|]. split; [reflexivity|].
  cbv zeta. split; [reflexivity|]. split; [reflexivity|]. split; [reflexivity|].
  split; [reflexivity|]. split; [right; split; reflexivity | discriminate].
Qed.

(* without finiteness the mul / div rewrites are wrong: 0 * inf and 0 / 0 are NaN *)
Example c_mul_inf_refuted :
  let c0 : ctx := [NInput 0; NConst fzero] in
  exists c' n, c_mul o c0 1 0 = Ok (c', n) /\
    let env := fun _ : nat => finf in
    val c' env n = fzero /\ fmul (val c0 env 1) (val c0 env 0) = fnan.
Proof. eexists _, _. split; [reflexivity|]. split; reflexivity. Qed.

Example c_div_zero_refuted :
  let c0 : ctx := [NInput 0; NConst fzero] in
  exists c' n, c_div o c0 1 0 = Ok (c', n) /\
    let env := fun _ : nat => fzero in
    val c' env n = fzero /\ fdiv (val c0 env 1) (val c0 env 0) = fnan.
Proof. eexists _, _. split; [reflexivity|]. split; reflexivity. Qed.

End Findings.
