(* F32Eq.v — decidable Leibniz equality on f32 (bit identity, all NaNs being one value). *)
From Coq Require Import ZArith Bool.
From Flocq Require Import IEEE754.BinarySingleNaN.
From Coq Require Import Floats.SpecFloat.
From FV Require Import F32.

Definition sf_eqb (a b : spec_float) : bool :=
  match a, b with
  | S754_zero s, S754_zero t => Bool.eqb s t
  | S754_infinity s, S754_infinity t => Bool.eqb s t
  | S754_nan, S754_nan => true
  | S754_finite s m e, S754_finite t n f => Bool.eqb s t && Pos.eqb m n && Z.eqb e f
  | _, _ => false
  end.

Definition f32_eqb (a b : f32) : bool := sf_eqb (B2SF a) (B2SF b).

Lemma sf_eqb_eq a b : sf_eqb a b = true -> a = b.
Proof.
  destruct a, b; simpl; try discriminate; intros H.
  - apply Bool.eqb_prop in H; now subst.
  - apply Bool.eqb_prop in H; now subst.
  - reflexivity.
  - apply andb_prop in H as [H He]. apply andb_prop in H as [Hs Hm].
    apply Bool.eqb_prop in Hs. apply Pos.eqb_eq in Hm. apply Z.eqb_eq in He. now subst.
Qed.

Lemma f32_eqb_eq a b : f32_eqb a b = true -> a = b.
Proof. intros H. apply B2SF_inj. now apply sf_eqb_eq. Qed.
