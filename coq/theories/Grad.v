(* Grad.v — types/grad.rs (forward-mode value + 3 partials) and the grad-slice loop of
   vm/mod.rs, written once over the abstract float structure [FL] (plus div_euclid).
   f32 instance: what runs (tied bit-for-bit); real instance: what the derivative
   theorems are about. *)
From Coq Require Import List Bool Arith.
From FV Require Import Ops Tape Interval.
Import ListNotations.

Section Grad.
Context {T : Type}.
Variable F : FL T.
Variable div_euclid : T -> T -> T.     (* f32::div_euclid *)

Notation add := (fl_add _ F). Notation sub := (fl_sub _ F). Notation mul := (fl_mul _ F).
Notation div := (fl_div _ F). Notation neg := (fl_neg _ F).
Notation zero := (fl_zero _ F). Notation one := (fl_one _ F). Notation two := (fl_two _ F).

Record grad := { gv : T; gx : T; gy : T; gz : T }.

Definition gfrom (v : T) : grad := {| gv := v; gx := zero; gy := zero; gz := zero |}.
Definition gmap (f : T -> T) (v : T) (g : grad) : grad := {| gv := v; gx := f (gx g); gy := f (gy g); gz := f (gz g) |}.
Definition powi2 (x : T) : T := mul x x.

Definition gabs (g : grad) : grad :=
  if fl_lt _ F (gv g) zero then {| gv := neg (gv g); gx := neg (gx g); gy := neg (gy g); gz := neg (gz g) |} else g.
Definition gsqrt (g : grad) : grad :=
  let v := fl_sqrt _ F (gv g) in gmap (fun d => div d (mul two v)) v g.
Definition gsin (g : grad) : grad := let c := fl_cos _ F (gv g) in gmap (fun d => mul d c) (fl_sin _ F (gv g)) g.
Definition gcos (g : grad) : grad := let s := neg (fl_sin _ F (gv g)) in gmap (fun d => mul d s) (fl_cos _ F (gv g)) g.
Definition gtan (g : grad) : grad := let c := powi2 (fl_cos _ F (gv g)) in gmap (fun d => div d c) (fl_tan _ F (gv g)) g.
Definition gasin (g : grad) : grad :=
  let r := fl_sqrt _ F (sub one (powi2 (gv g))) in gmap (fun d => div d r) (fl_asin _ F (gv g)) g.
Definition gacos (g : grad) : grad :=
  let r := fl_sqrt _ F (sub one (powi2 (gv g))) in gmap (fun d => div (neg d) r) (fl_acos _ F (gv g)) g.
Definition gatan (g : grad) : grad :=
  let r := add (powi2 (gv g)) one in gmap (fun d => div d r) (fl_atan _ F (gv g)) g.
Definition gexp (g : grad) : grad := let v := fl_exp _ F (gv g) in gmap (fun d => mul v d) v g.
Definition gln (g : grad) : grad := gmap (fun d => div d (gv g)) (fl_ln _ F (gv g)) g.
Definition gneg (g : grad) : grad := gmap neg (neg (gv g)) g.
Definition gconst (v : T) : grad := gfrom v.
Definition gfloor (g : grad) := gfrom (fl_floor _ F (gv g)).
Definition gceil (g : grad) := gfrom (fl_ceil _ F (gv g)).
Definition ground (g : grad) := gfrom (fl_round _ F (gv g)).
Definition gnot (g : grad) := gfrom (if fl_eq _ F (gv g) zero then one else zero).
Definition grand (g : grad) := gfrom (fl_rand _ F (gv g)).

Definition gadd (a b : grad) : grad :=
  {| gv := add (gv a) (gv b); gx := add (gx a) (gx b); gy := add (gy a) (gy b); gz := add (gz a) (gz b) |}.
Definition gsub (a b : grad) : grad :=
  {| gv := sub (gv a) (gv b); gx := sub (gx a) (gx b); gy := sub (gy a) (gy b); gz := sub (gz a) (gz b) |}.
Definition gmul (a b : grad) : grad :=
  let d x y := add (mul (gv a) y) (mul (gv b) x) in
  {| gv := mul (gv a) (gv b); gx := d (gx a) (gx b); gy := d (gy a) (gy b); gz := d (gz a) (gz b) |}.
Definition gmul_f (a : grad) (r : T) : grad :=
  {| gv := mul (gv a) r; gx := mul (gx a) r; gy := mul (gy a) r; gz := mul (gz a) r |}.
Definition gdiv (a b : grad) : grad :=
  let d2 := powi2 (gv b) in
  let d x y := div (sub (mul (gv b) x) (mul (gv a) y)) d2 in
  {| gv := div (gv a) (gv b); gx := d (gx a) (gx b); gy := d (gy a) (gy b); gz := d (gz a) (gz b) |}.
Definition grecip (g : grad) : grad := gdiv (gfrom one) g.   (* VM loop: one / v[arg] *)
Definition gsquare (g : grad) : grad := gmul g g.             (* VM loop: s * s *)
Definition gmin (a b : grad) : grad :=
  if fl_is_nan _ F (gv a) || fl_is_nan _ F (gv b) then gfrom (fl_nan _ F)
  else if fl_lt _ F (gv a) (gv b) then a else b.
Definition gmax (a b : grad) : grad :=
  if fl_is_nan _ F (gv a) || fl_is_nan _ F (gv b) then gfrom (fl_nan _ F)
  else if fl_lt _ F (gv b) (gv a) then a else b.
Definition grem_euclid (a b : grad) : grad :=
  let e := div_euclid (gv a) (gv b) in
  {| gv := fl_rem_euclid _ F (gv a) (gv b);
     gx := sub (gx a) (mul (gx b) e); gy := sub (gy a) (mul (gy b) e); gz := sub (gz a) (mul (gz b) e) |}.
Definition gand (a b : grad) : grad := if fl_eq _ F (gv a) zero then a else b.
Definition gor (a b : grad) : grad := if negb (fl_eq _ F (gv a) zero) then a else b.
Definition gatan2 (y x : grad) : grad :=
  let d := add (powi2 (gv x)) (powi2 (gv y)) in
  let p dy dx := div (sub (mul (gv x) dy) (mul (gv y) dx)) d in
  {| gv := fl_atan2 _ F (gv y) (gv x); gx := p (gx y) (gx x); gy := p (gy y) (gy x); gz := p (gz y) (gz x) |}.
Definition gcompare (a b : grad) : grad :=
  gfrom (if fl_is_nan _ F (gv a) || fl_is_nan _ F (gv b) then fl_nan _ F
         else if fl_lt _ F (gv a) (gv b) then fl_neg_one _ F
         else if fl_lt _ F (gv b) (gv a) then one else zero).
Definition gmix (a b : grad) : grad := gfrom (fl_mix _ F (gv a) (gv b)).

Definition g_un (u : uop) (a : grad) : grad :=
  match u with
  | UNeg => gneg a | UAbs => gabs a | URecip => grecip a | USqrt => gsqrt a | USquare => gsquare a
  | UFloor => gfloor a | UCeil => gceil a | URound => ground a
  | USin => gsin a | UCos => gcos a | UTan => gtan a | UAsin => gasin a | UAcos => gacos a
  | UAtan => gatan a | UExp => gexp a | ULn => gln a | UNot => gnot a | URand => grand a
  | UCopy => a
  end.

Definition g_bin (b : bop) (x y : grad) : grad :=
  match b with
  | BAdd => gadd x y | BSub => gsub x y | BMul => gmul x y | BDiv => gdiv x y
  | BAtan => gatan2 x y | BMin => gmin x y | BMax => gmax x y | BCompare => gcompare x y
  | BMod => grem_euclid x y | BAnd => gand x y | BOr => gor x y | BMix => gmix x y
  end.

Definition grad_sem : Sem grad T :=
  {| s_dflt := gfrom (fl_nan _ F);
     s_imm := gfrom;
     s_un := g_un;
     s_rr := g_bin;
     s_ri := fun b x imm => match b with BMul => gmul_f x imm | _ => g_bin b x (gfrom imm) end;
     s_ir := fun b imm x => g_bin b (gfrom imm) x;
     s_ch_rr := fun _ _ _ => TUnknown;
     s_ch_ri := fun _ _ _ => TUnknown |}.

(* Transformable for Grad (shape/mod.rs): same row formula as for intervals *)
Definition gtransform (x y z : grad) (m : list T) : grad * grad * grad :=
  let row (i : nat) : grad :=
    let g k := nth (4 * i + k) m zero in
    gadd (gadd (gadd (gmul_f x (g 0)) (gmul_f y (g 1))) (gmul_f z (g 2))) (gfrom (g 3)) in
  (gdiv (row 0) (row 3), gdiv (row 1) (row 3), gdiv (row 2) (row 3)).

End Grad.
Arguments grad : clear implicits.
