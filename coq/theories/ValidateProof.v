(* ValidateProof.v — soundness of the Stage-A validator, for every value type and
   every opcode semantics. *)
From Coq Require Import List Bool Arith Lia.
From FV Require Import Ops Tape Validate.
Import ListNotations.

Lemma uop_eqb_eq a b : uop_eqb a b = true -> a = b.
Proof. destruct a, b; simpl; congruence. Qed.
Lemma bop_eqb_eq a b : bop_eqb a b = true -> a = b.
Proof. destruct a, b; simpl; congruence. Qed.

Section Sound.
Context {V I : Type}.
Variable ieqb : I -> I -> bool.
Hypothesis ieqb_sound : forall a b, ieqb a b = true -> a = b.
Variable sem : Sem V I.
Variable inputs : list V.
Notation op := (Tape.op I).

(* every slot that claims to hold SSA variable v holds v's value *)
Definition agree (s : sym) (ea eb : env (V:=V)) : Prop :=
  forall k v, s k = Some v -> eb k = ea v.

Lemma holds_agree s ea eb k v : agree s ea eb -> holds s k v = true -> eb k = ea v.
Proof.
  unfold holds; intros Ha H. destruct (s k) as [w|] eqn:E; [|discriminate].
  apply Nat.eqb_eq in H; subst. now apply Ha.
Qed.

Lemma agree_set s ea eb r o x :
  agree s ea eb -> agree (sym_set s r o) (upd ea o x) (upd eb r x).
Proof.
  intros Ha k v. unfold sym_set, upd.
  destruct (Nat.eqb k r) eqn:Ekr.
  - intros [= <-]. now rewrite Nat.eqb_refl.
  - destruct (s k) as [w|] eqn:Es; [|discriminate].
    destruct (Nat.eqb w o) eqn:Ewo; [discriminate|].
    intros [= <-]. rewrite Ewo. now apply Ha.
Qed.

Definition same_obs (a b : mstate (V:=V)) : Prop :=
  m_out a = m_out b /\ m_trace a = m_trace b.

Lemma match_op_step so ro s s' a b :
  match_op ieqb so ro s = Some s' ->
  agree s (m_slots a) (m_slots b) -> same_obs a b ->
  agree s' (m_slots (step sem inputs a so)) (m_slots (step sem inputs b ro)) /\
  same_obs (step sem inputs a so) (step sem inputs b ro).
Proof.
  intros Hm Ha [Ho Ht].
  destruct so, ro; simpl in Hm; try discriminate.
  - (* Output *)
    destruct (holds s arg0 arg) eqn:Hh; simpl in Hm; [|discriminate].
    destruct (Nat.eqb i i0) eqn:Ei; [|discriminate].
    injection Hm as <-. apply Nat.eqb_eq in Ei; subst i0.
    pose proof (holds_agree _ _ _ _ _ Ha Hh) as E.
    split; [exact Ha|]. split; simpl; [now rewrite E, Ho | exact Ht].
  - (* Input *)
    destruct (Nat.eqb i i0) eqn:Ei; [|discriminate].
    injection Hm as <-. apply Nat.eqb_eq in Ei; subst i0.
    split; [apply agree_set, Ha | split; simpl; assumption].
  - (* CopyImm *)
    destruct (ieqb imm imm0) eqn:Ei; [|discriminate].
    injection Hm as <-. apply ieqb_sound in Ei; subst imm0.
    split; [apply agree_set, Ha | split; simpl; assumption].
  - (* Un *)
    destruct (uop_eqb u u0) eqn:Eu; simpl in Hm; [|discriminate].
    destruct (holds s arg0 arg) eqn:Hh; [|discriminate].
    injection Hm as <-. apply uop_eqb_eq in Eu; subst u0.
    pose proof (holds_agree _ _ _ _ _ Ha Hh) as E.
    simpl. rewrite E. split; [apply agree_set, Ha | split; simpl; assumption].
  - (* BinRR *)
    destruct (bop_eqb b0 b1) eqn:Eb; simpl in Hm; [|discriminate].
    destruct (holds s lhs0 lhs) eqn:Hl; simpl in Hm; [|discriminate].
    destruct (holds s rhs0 rhs) eqn:Hr; [|discriminate].
    injection Hm as <-. apply bop_eqb_eq in Eb; subst b1.
    pose proof (holds_agree _ _ _ _ _ Ha Hl) as El.
    pose proof (holds_agree _ _ _ _ _ Ha Hr) as Er.
    simpl. rewrite El, Er.
    destruct (bop_has_choice b0); simpl;
      (split; [apply agree_set, Ha | split; simpl; congruence]).
  - (* BinRI *)
    destruct (bop_eqb b0 b1) eqn:Eb; simpl in Hm; [|discriminate].
    destruct (holds s arg0 arg) eqn:Hh; simpl in Hm; [|discriminate].
    destruct (ieqb imm imm0) eqn:Ei; [|discriminate].
    injection Hm as <-. apply bop_eqb_eq in Eb; subst b1. apply ieqb_sound in Ei; subst imm0.
    pose proof (holds_agree _ _ _ _ _ Ha Hh) as E.
    simpl. rewrite E.
    destruct (bop_has_choice b0); simpl;
      (split; [apply agree_set, Ha | split; simpl; congruence]).
  - (* BinIR *)
    destruct (bop_eqb b0 b1) eqn:Eb; simpl in Hm; [|discriminate].
    destruct (holds s arg0 arg) eqn:Hh; simpl in Hm; [|discriminate].
    destruct (ieqb imm imm0) eqn:Ei; [|discriminate].
    injection Hm as <-. apply bop_eqb_eq in Eb; subst b1. apply ieqb_sound in Ei; subst imm0.
    pose proof (holds_agree _ _ _ _ _ Ha Hh) as E.
    simpl. rewrite E.
    split; [apply agree_set, Ha | split; simpl; assumption].
Qed.

Lemma validate_sound reg : forall ssa s a b,
  validate ieqb ssa reg s = true ->
  agree s (m_slots a) (m_slots b) -> same_obs a b ->
  same_obs (run_fwd sem inputs ssa a) (run_fwd sem inputs reg b).
Proof.
  induction reg as [|ro reg IH]; intros ssa s a b Hv Ha Hs.
  - destruct ssa; [exact Hs | discriminate].
  - assert (Hgen : forall so ssa' s',
      ssa = so :: ssa' -> match_op ieqb so ro s = Some s' -> validate ieqb ssa' reg s' = true ->
      same_obs (run_fwd sem inputs ssa a) (run_fwd sem inputs (ro :: reg) b)).
    { intros so ssa' s' -> Hm Hv'. unfold run_fwd; simpl.
      destruct (match_op_step _ _ _ _ _ _ Hm Ha Hs) as [Ha' Hs'].
      exact (IH _ _ _ _ Hv' Ha' Hs'). }
    destruct ro; simpl in Hv;
      try (destruct ssa as [|so ssa']; [discriminate|];
           match type of Hv with
           | match ?m with _ => _ end = true =>
               destruct m as [s'|] eqn:Hm; [|discriminate]
           end;
           exact (Hgen _ _ _ eq_refl Hm Hv)).
    + (* Load *)
      unfold run_fwd at 2; simpl. apply (IH _ _ _ _ Hv).
      * intros k v. simpl. unfold upd. destruct (Nat.eqb k reg0); [apply Ha | apply Ha].
      * exact Hs.
    + (* Store *)
      unfold run_fwd at 2; simpl. apply (IH _ _ _ _ Hv).
      * intros k v. simpl. unfold upd. destruct (Nat.eqb k mem); [apply Ha | apply Ha].
      * exact Hs.
Qed.

Theorem check_alloc_sound ssa_tape reg_tape :
  check_alloc ieqb ssa_tape reg_tape = true ->
  forall (e0 e0' : env) (out0 : list V),
    same_obs (eval_tape sem ssa_tape inputs e0 out0) (eval_tape sem reg_tape inputs e0' out0).
Proof.
  intros Hc e0 e0' out0. unfold eval_tape.
  apply (validate_sound _ _ _ _ _ Hc).
  - intros k v; discriminate.
  - split; reflexivity.
Qed.

End Sound.
