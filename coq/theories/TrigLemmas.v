(* TrigLemmas.v — real-analysis facts for the quadrant logic of isin / icos / itan:
   integer periodicity, the "quarter-turn coordinate" U t = 2t/PI, the windows on
   which sin and cos are monotone, and floor facts.  Everything is proved from the
   Coq standard library. *)
From Coq Require Import Reals Lra Lia ZArith.
From FV Require Import ER.
Local Open Scope R_scope.

Lemma PI2_pos : 0 < PI / 2.
Proof. pose proof PI_RGT_0. lra. Qed.

(* ---- floor --------------------------------------------------------------------------- *)
Lemma Rfloor_bounds x : Rfloor x <= x < Rfloor x + 1.
Proof. unfold Rfloor. rewrite minus_IZR. destruct (archimed x). lra. Qed.

Lemma Rfloor_unique x z : IZR z <= x -> x < IZR z + 1 -> Rfloor x = IZR z.
Proof.
  intros H1 H2. pose proof (Rfloor_bounds x) as [H3 H4]. unfold Rfloor in *. f_equal.
  assert (up x - 1 < z + 1)%Z. { apply lt_IZR. rewrite plus_IZR. lra. }
  assert (z < up x - 1 + 1)%Z. { apply lt_IZR. rewrite plus_IZR. lra. }
  lia.
Qed.

Lemma Rfloor_div4 z : Rfloor (IZR z / 4) = IZR (z / 4).
Proof.
  apply Rfloor_unique.
  - pose proof (Z.mod_pos_bound z 4 ltac:(lia)) as Hm. pose proof (Z.div_mod z 4 ltac:(lia)) as Hd.
    assert (IZR z = 4 * IZR (z / 4) + IZR (z mod 4)).
    { rewrite Hd at 1. rewrite plus_IZR, mult_IZR. reflexivity. }
    assert (0 <= IZR (z mod 4)) by (apply IZR_le; lia). lra.
  - pose proof (Z.mod_pos_bound z 4 ltac:(lia)) as Hm. pose proof (Z.div_mod z 4 ltac:(lia)) as Hd.
    assert (IZR z = 4 * IZR (z / 4) + IZR (z mod 4)).
    { rewrite Hd at 1. rewrite plus_IZR, mult_IZR. reflexivity. }
    assert (IZR (z mod 4) <= 3) by (apply IZR_le; lia). lra.
Qed.

(* ---- integer periodicity ---------------------------------------------------------------- *)
Lemma sin_period_Z x k : sin (x + 2 * IZR k * PI) = sin x.
Proof.
  assert (P : forall y (n : nat), sin (y + 2 * IZR (Z.of_nat n) * PI) = sin y).
  { intros. rewrite <- INR_IZR_INZ. apply sin_period. }
  destruct (Z_le_gt_dec 0 k).
  - rewrite <- (Z2Nat.id k) by lia. apply P.
  - rewrite <- (P (x + 2 * IZR k * PI) (Z.to_nat (- k))). f_equal.
    rewrite Z2Nat.id by lia. rewrite opp_IZR. ring.
Qed.

Lemma cos_period_Z x k : cos (x + 2 * IZR k * PI) = cos x.
Proof.
  assert (P : forall y (n : nat), cos (y + 2 * IZR (Z.of_nat n) * PI) = cos y).
  { intros. rewrite <- INR_IZR_INZ. apply cos_period. }
  destruct (Z_le_gt_dec 0 k).
  - rewrite <- (Z2Nat.id k) by lia. apply P.
  - rewrite <- (P (x + 2 * IZR k * PI) (Z.to_nat (- k))). f_equal.
    rewrite Z2Nat.id by lia. rewrite opp_IZR. ring.
Qed.

(* ---- the quarter-turn coordinate ---------------------------------------------------------- *)
Definition U (t : R) : R := t * 2 / PI.

Lemma U_inv t : t = U t * (PI / 2).
Proof. unfold U. pose proof PI_RGT_0. field. lra. Qed.
Lemma U_sub a b : U (a - b) = U a - U b.
Proof. unfold U. pose proof PI_RGT_0. field. lra. Qed.
Lemma U_PI : U PI = 2.
Proof. unfold U. pose proof PI_RGT_0. field. lra. Qed.
Lemma U_2PI : U (2 * PI) = 4.
Proof. unfold U. pose proof PI_RGT_0. field. lra. Qed.
Lemma U_le a b : a <= b -> U a <= U b.
Proof.
  intros H. unfold U. pose proof PI_RGT_0. unfold Rdiv.
  apply Rmult_le_compat_r; [left; now apply Rinv_0_lt_compat | lra].
Qed.
Lemma U_lt a b : a < b -> U a < U b.
Proof.
  intros H. unfold U. pose proof PI_RGT_0. unfold Rdiv.
  apply Rmult_lt_compat_r; [now apply Rinv_0_lt_compat | lra].
Qed.
(* back from U-space *)
Lemma U_ge_conv c t : c <= U t -> c * (PI / 2) <= t.
Proof. intros H. rewrite (U_inv t) at 1. apply Rmult_le_compat_r; [left; apply PI2_pos | exact H]. Qed.
Lemma U_le_conv c t : U t <= c -> t <= c * (PI / 2).
Proof. intros H. rewrite (U_inv t) at 1. apply Rmult_le_compat_r; [left; apply PI2_pos | exact H]. Qed.
Lemma U_lt_conv c t : U t < c -> t < c * (PI / 2).
Proof. intros H. rewrite (U_inv t) at 1. apply Rmult_lt_compat_r; [apply PI2_pos | exact H]. Qed.
Lemma U_gt_conv c t : c < U t -> c * (PI / 2) < t.
Proof. intros H. rewrite (U_inv t) at 1. apply Rmult_lt_compat_r; [apply PI2_pos | exact H]. Qed.

(* the quarter-turn index of t *)
Definition qz (t : R) : Z := (up (U t) - 1)%Z.
Lemma qz_spec t : IZR (qz t) <= U t < IZR (qz t) + 1.
Proof. exact (Rfloor_bounds (U t)). Qed.

(* ---- monotone windows, in U-space ------------------------------------------------------------ *)
(* sin is increasing for U in [4k-1, 4k+1], decreasing for U in [4k+1, 4k+3] *)
Lemma sin_incr_U k a b :
  4 * IZR k - 1 <= U a -> U a <= U b -> U b <= 4 * IZR k + 1 -> sin a <= sin b.
Proof.
  intros H1 H2 H3.
  rewrite <- (sin_period_Z a (- k)), <- (sin_period_Z b (- k)). rewrite opp_IZR.
  assert (U a <= 4 * IZR k + 1) by lra. assert (4 * IZR k - 1 <= U b) by lra.
  apply U_ge_conv in H1, H0. apply U_le_conv in H, H3.
  assert (a <= b). { rewrite (U_inv a), (U_inv b). apply Rmult_le_compat_r; [left; apply PI2_pos | exact H2]. }
  apply sin_incr_1; lra.
Qed.

Lemma sin_decr_U k a b :
  4 * IZR k + 1 <= U a -> U a <= U b -> U b <= 4 * IZR k + 3 -> sin b <= sin a.
Proof.
  intros H1 H2 H3.
  rewrite <- (sin_period_Z a (- k)), <- (sin_period_Z b (- k)). rewrite opp_IZR.
  assert (U a <= 4 * IZR k + 3) by lra. assert (4 * IZR k + 1 <= U b) by lra.
  apply U_ge_conv in H1, H0. apply U_le_conv in H, H3.
  assert (a <= b). { rewrite (U_inv a), (U_inv b). apply Rmult_le_compat_r; [left; apply PI2_pos | exact H2]. }
  apply sin_decr_1; lra.
Qed.

(* cos is decreasing for U in [4k, 4k+2], increasing for U in [4k+2, 4k+4] *)
Lemma cos_decr_U k a b :
  4 * IZR k <= U a -> U a <= U b -> U b <= 4 * IZR k + 2 -> cos b <= cos a.
Proof.
  intros H1 H2 H3.
  rewrite <- (cos_period_Z a (- k)), <- (cos_period_Z b (- k)). rewrite opp_IZR.
  assert (U a <= 4 * IZR k + 2) by lra. assert (4 * IZR k <= U b) by lra.
  apply U_ge_conv in H1, H0. apply U_le_conv in H, H3.
  assert (a <= b). { rewrite (U_inv a), (U_inv b). apply Rmult_le_compat_r; [left; apply PI2_pos | exact H2]. }
  apply cos_decr_1; lra.
Qed.

Lemma cos_incr_U k a b :
  4 * IZR k + 2 <= U a -> U a <= U b -> U b <= 4 * IZR k + 4 -> cos a <= cos b.
Proof.
  intros H1 H2 H3.
  rewrite <- (cos_period_Z a (- k)), <- (cos_period_Z b (- k)). rewrite opp_IZR.
  assert (U a <= 4 * IZR k + 4) by lra. assert (4 * IZR k + 2 <= U b) by lra.
  apply U_ge_conv in H1, H0. apply U_le_conv in H, H3.
  assert (a <= b). { rewrite (U_inv a), (U_inv b). apply Rmult_le_compat_r; [left; apply PI2_pos | exact H2]. }
  apply cos_incr_1; lra.
Qed.

(* ---- tan ------------------------------------------------------------------------------------ *)
Lemma tan_plus_PI x : tan (x + PI) = tan x.
Proof. unfold tan. rewrite neg_sin, neg_cos. unfold Rdiv. rewrite Rinv_opp. ring. Qed.

Lemma tan_period_Z x k : tan (x + IZR k * PI) = tan x.
Proof.
  assert (P : forall y (n : nat), tan (y + IZR (Z.of_nat n) * PI) = tan y).
  { intros y n. induction n as [|n IH].
    - cbn. f_equal. ring.
    - rewrite Nat2Z.inj_succ, succ_IZR.
      replace (y + (IZR (Z.of_nat n) + 1) * PI) with (y + IZR (Z.of_nat n) * PI + PI) by ring.
      now rewrite tan_plus_PI. }
  destruct (Z_le_gt_dec 0 k).
  - rewrite <- (Z2Nat.id k) by lia. apply P.
  - rewrite <- (P (x + IZR k * PI) (Z.to_nat (- k))). f_equal.
    rewrite Z2Nat.id by lia. rewrite opp_IZR. ring.
Qed.

Lemma period_floor t : exists k : Z, IZR k * PI <= t < IZR k * PI + PI.
Proof.
  pose proof PI_RGT_0 as HP. exists (up (t / PI) - 1)%Z.
  pose proof (Rfloor_bounds (t / PI)) as [H1 H2]. unfold Rfloor in *.
  set (k := IZR (up (t / PI) - 1)) in *.
  assert (E : t = t / PI * PI) by (field; lra).
  split.
  - rewrite E at 1. apply Rmult_le_compat_r; lra.
  - replace (k * PI + PI) with ((k + 1) * PI) by ring. rewrite E at 1.
    apply Rmult_lt_compat_r; lra.
Qed.

(* If [a1, a2] is shorter than PI, neither end is a pole and tan a1 <= tan a2, then
   there is no pole inside and tan is monotone on it. *)
Lemma tan_window a1 a2 x :
  a1 <= x <= a2 -> a2 - a1 < PI -> cos a1 <> 0 -> cos a2 <> 0 -> cos x <> 0 ->
  tan a1 <= tan a2 -> tan a1 <= tan x <= tan a2.
Proof.
  intros Hx Hw C1 C2 Cx Ht. pose proof PI_RGT_0 as HP.
  destruct (period_floor (a1 + PI / 2)) as [k [K1 K2]].
  assert (K1' : IZR k * PI - PI / 2 < a1).
  { destruct (Req_dec a1 (IZR k * PI - PI / 2)) as [E|E]; [|lra].
    exfalso. apply C1. apply cos_eq_0_1. exists (k - 1)%Z. rewrite minus_IZR. lra. }
  (* shift everything into (-PI/2, PI/2) *)
  rewrite <- (tan_period_Z a1 (- k)), <- (tan_period_Z a2 (- k)), <- (tan_period_Z x (- k)) in *.
  rewrite opp_IZR in *.
  set (b1 := a1 + - IZR k * PI) in *. set (b2 := a2 + - IZR k * PI) in *. set (y := x + - IZR k * PI) in *.
  assert (B1 : - PI / 2 < b1 < PI / 2) by (unfold b1; lra).
  assert (Hy : b1 <= y <= b2) by (unfold b1, b2, y; lra).
  assert (Hw' : b2 - b1 < PI) by (unfold b1, b2; lra).
  destruct (Rlt_dec b2 (PI / 2)) as [L|L].
  - (* same branch *)
    assert (M : forall p q, - PI / 2 < p -> p <= q -> q < PI / 2 -> tan p <= tan q).
    { intros p q Hp [Hpq| ->] Hq; [left; now apply tan_increasing | lra]. }
    split; apply M; lra.
  - exfalso. destruct (Req_dec b2 (PI / 2)) as [E|E].
    + apply C2. apply cos_eq_0_1. exists k. unfold b2 in E. lra.
    + assert (T : tan (b2 + IZR (-1) * PI) < tan b1) by (apply tan_increasing; lra).
      rewrite tan_period_Z in T. lra.
Qed.
