(* IntervalAtan2.v — enclosure (C03) of iatan2 over the extended reals with NaN. *)
From Coq Require Import Reals Lra Lia Psatz List Bool.
From FV Require Import Ops Tape Interval ER Atan2Lemmas ERLemmas.
Local Open Scope R_scope.

Definition AT2MARK (a b : R) : Prop := True.
(* collect the range facts that apply to every [Ratan2 a b] in the goal *)
Ltac at2_hints :=
  repeat match goal with
  | |- context[Ratan2 ?a ?b] =>
      lazymatch goal with
      | H : AT2MARK a b |- _ => fail
      | _ =>
          assert (AT2MARK a b) by exact I;
          try pose proof (Ratan2_range_ynn a b ltac:(lra));
          try pose proof (Ratan2_range_yneg a b ltac:(lra));
          try pose proof (Ratan2_range_xnn a b ltac:(lra));
          try pose proof (Ratan2_range_q2 a b ltac:(lra) ltac:(lra));
          try pose proof (Ratan2_range_q3 a b ltac:(lra) ltac:(lra));
          try pose proof (Ratan2_range_q4c a b ltac:(lra) ltac:(lra));
          try pose proof (Ratan2_range_q2c a b ltac:(lra) ltac:(lra));
          try pose proof (Ratan2_range_q3c a b ltac:(lra) ltac:(lra))
      end
  end.
Ltac at2 tac :=
  er_destr; signs; try (exfalso; lra); pose proof PI_RGT_0;
  first [ lra | tac | at2_hints; lra ].

Lemma E_range y x : y <> ENaN -> x <> ENaN ->
  er_le (EFin (- PI)) (er_atan2 y x) /\ er_le (er_atan2 y x) (EFin PI).
Proof.
  intros. er_destr; signs; pose proof PI_RGT_0; split; try lra.
  all: destruct (Rle_dec 0 r0); at2_hints; lra.
Qed.

Lemma E_x_dec y x x' : er_le (EFin 0) y -> er_le x x' -> er_le (er_atan2 y x') (er_atan2 y x).
Proof. intros. at2 ltac:(apply Ratan2_x_dec; lra). Qed.
Lemma E_x_inc y x x' : er_lt y (EFin 0) -> er_le x x' -> er_le (er_atan2 y x) (er_atan2 y x').
Proof. intros. at2 ltac:(apply Ratan2_x_inc; lra). Qed.
Lemma E_y_inc x y y' : er_le (EFin 0) x -> er_le y y' -> er_le (er_atan2 y x) (er_atan2 y' x).
Proof. intros. at2 ltac:(apply Ratan2_y_inc; lra). Qed.
Lemma E_y_dec_nn x y y' : er_lt x (EFin 0) -> er_le (EFin 0) y -> er_le y y' ->
  er_le (er_atan2 y' x) (er_atan2 y x).
Proof. intros. at2 ltac:(apply Ratan2_y_dec_nn; lra). Qed.


(* boundary-inclusive variants *)
Lemma R_x_inc0 y x x' : y <= 0 -> 0 <= x -> x <= x' -> Ratan2 y x <= Ratan2 y x'.
Proof.
  intros [Hy| ->] Hx Hxx; [apply Ratan2_x_inc; lra|].
  rewrite !Ratan2_y0. destruct (Rlt_dec x 0), (Rlt_dec x' 0); lra.
Qed.
Lemma R_y_dec_pos0 x y y' : x <= 0 -> 0 < y -> y <= y' -> Ratan2 y' x <= Ratan2 y x.
Proof.
  intros [Hx| ->] Hy Hyy; [apply Ratan2_y_dec_nn; lra|].
  rewrite !Ratan2_x0. destruct (Rlt_dec 0 y), (Rlt_dec 0 y'); lra.
Qed.
Lemma R_y_dec_neg0 x y y' : x <= 0 -> y' < 0 -> y <= y' -> Ratan2 y' x <= Ratan2 y x.
Proof.
  intros [Hx| ->] Hy Hyy; [apply Ratan2_y_dec_neg; lra|].
  rewrite !Ratan2_x0. destruct (Rlt_dec 0 y), (Rlt_dec 0 y'), (Rlt_dec y 0), (Rlt_dec y' 0); lra.
Qed.

Lemma E_x_inc0 y x x' : er_le y (EFin 0) -> er_le (EFin 0) x -> er_le x x' ->
  er_le (er_atan2 y x) (er_atan2 y x').
Proof. intros. at2 ltac:(apply R_x_inc0; lra). Qed.
Lemma E_y_dec_pos0 x y y' : er_le x (EFin 0) -> er_lt (EFin 0) y -> er_le y y' ->
  er_le (er_atan2 y' x) (er_atan2 y x).
Proof. intros. at2 ltac:(apply R_y_dec_pos0; lra). Qed.
Lemma E_y_dec_neg0 x y y' : er_le x (EFin 0) -> er_lt y' (EFin 0) -> er_le y y' ->
  er_le (er_atan2 y' x) (er_atan2 y x).
Proof. intros. at2 ltac:(apply R_y_dec_neg0; lra). Qed.

Lemma er_leb_false_lt a b : a <> ENaN -> b <> ENaN -> er_leb a b = false -> er_lt b a.
Proof. intros. er_destr; fin. Qed.
Lemma er_ltb_false_le' a b : a <> ENaN -> b <> ENaN -> er_ltb a b = false -> er_le b a.
Proof. intros. er_destr; fin. Qed.
Lemma er_atan2_nn y x : y <> ENaN -> x <> ENaN -> er_atan2 y x <> ENaN.
Proof. intros. er_destr; signs; discriminate. Qed.

Section Atan2.
Variable rnd : er -> er.
Variable mix : er -> er -> er.
Notation F := (er_fl_gen rnd mix).

(* the NaN-ignoring fold of two candidates starting from +inf / -inf *)
Lemma two_pts_encl v1 v2 v r :
  inew F (er_min (er_min EPInf v1) v2) (er_max (er_max ENInf v1) v2) = Some r ->
  v <> ENaN ->
  er_le v1 v \/ er_le v2 v -> er_le v v1 \/ er_le v v2 ->
  valid r /\ encl r v.
Proof.
  intros H Hv HL HU. apply (inew_encl _ _ _ _ H Hv). intros _. split.
  - destruct HL as [L|L]; [apply er_min_lb_l, er_min_lb_r, L | apply er_min_lb_r, L].
  - destruct HU as [L|L]; [apply er_max_ub_l, er_max_ub_r, L | apply er_max_ub_r, L].
Qed.

Lemma iatan2_sound : sound2s (iatan2 F) er_atan2.
Proof.
  start2 a b y x. intros Hn r H. unfold iatan2, has_nan in H. clear Va Vb Ea Eb.
  rename a1 into y1, a2 into y2, b1 into x1, b2 into x2.
  destruct Ca as [[-> ->]|[Y1 Y2]]; [cbn in H; nan_res H|].
  destruct Cb as [[-> ->]|[X1 X2]].
  { fl_red_in H. cbn [er_is_nan] in H. rewrite orb_true_r in H. cbn in H. nan_res H. }
  assert (En : fl_is_nan er F (lo {| lo := y1; hi := y2 |}) || fl_is_nan er F (hi {| lo := y1; hi := y2 |})
               || (fl_is_nan er F (lo {| lo := x1; hi := x2 |}) || fl_is_nan er F (hi {| lo := x1; hi := x2 |})) = false).
  { fl_red. apply er_le_nn_l in Y1, X1. apply er_le_nn_r in Y2, X2.
    destruct y1, y2, x1, x2; try reflexivity; contradiction. }
  rewrite En in H. clear En. unfold ge in H. fl_red_in H.
  pose proof (er_le_nn_l _ _ Y1) as Ny1. pose proof (er_le_nn_r _ _ Y2) as Ny2.
  pose proof (er_le_nn_l _ _ X1) as Nx1. pose proof (er_le_nn_r _ _ X2) as Nx2.
  pose proof (er_le_nn_r _ _ Y1) as Ny. pose proof (er_le_nn_r _ _ X1) as Nx.
  assert (N0 : EFin 0 <> ENaN) by discriminate.
  (* the branch cut *)
  destruct (er_leb y1 (EFin 0) && er_leb (EFin 0) y2 && er_ltb x1 (EFin 0)) eqn:Ecut.
  { apply (inew_encl _ _ _ _ H Hn). intros _. now apply E_range. }
  destruct (er_leb (EFin 0) y1) eqn:Ey1.
  - apply er_leb_spec in Ey1.
    destruct (er_leb (EFin 0) x1) eqn:Ex1.
    + (* y >= 0, x >= 0 *)
      apply er_leb_spec in Ex1. apply (two_pts_encl _ _ _ _ H Hn).
      * right. eapply er_le_trans; [apply (E_x_dec y1 x x2) | apply (E_y_inc x y1 y)]; eauto using er_le_trans.
      * left. eapply er_le_trans; [apply (E_y_inc x y y2) | apply (E_x_dec y2 x1 x)]; eauto using er_le_trans.
    + (* x1 < 0, hence y1 > 0 *)
      apply er_leb_false_lt in Ex1; auto.
      assert (Hy1 : er_lt (EFin 0) y1).
      { apply er_ltb_spec in Ex1. rewrite Ex1, andb_true_r in Ecut.
        apply andb_false_iff in Ecut. destruct Ecut as [E|E].
        - apply er_leb_false_lt in E; auto.
        - exfalso. assert (er_leb (EFin 0) y2 = true); [|congruence].
          apply er_leb_spec. eauto using er_le_trans. }
      destruct (er_leb x2 (EFin 0)) eqn:Ex2.
      * apply er_leb_spec in Ex2. apply (two_pts_encl _ _ _ _ H Hn).
        -- right. eapply er_le_trans; [apply (E_y_dec_pos0 x2 y y2) | apply (E_x_dec y x x2)];
             eauto using er_le_trans, er_lt_le_trans.
        -- left. eapply er_le_trans; [apply (E_x_dec y x1 x) | apply (E_y_dec_nn x1 y1 y)];
             eauto using er_le_trans.
      * apply er_leb_false_lt in Ex2; auto. apply (two_pts_encl _ _ _ _ H Hn).
        -- right. eapply er_le_trans; [apply (E_y_inc x2 y1 y) | apply (E_x_dec y x x2)];
             eauto using er_le_trans, er_lt_le.
        -- left. eapply er_le_trans; [apply (E_x_dec y x1 x) | apply (E_y_dec_nn x1 y1 y)];
             eauto using er_le_trans.
  - apply er_leb_false_lt in Ey1; auto.
    destruct (er_leb y2 (EFin 0)) eqn:Ey2.
    + apply er_leb_spec in Ey2.
      destruct (er_leb (EFin 0) x1) eqn:Ex1.
      * (* y <= 0, x >= 0 *)
        apply er_leb_spec in Ex1. apply (two_pts_encl _ _ _ _ H Hn).
        -- left. eapply er_le_trans; [apply (E_x_inc y1 x1 x) | apply (E_y_inc x y1 y)];
             eauto using er_le_trans.
        -- right. eapply er_le_trans; [apply (E_x_inc0 y x x2) | apply (E_y_inc x2 y y2)];
             eauto using er_le_trans.
      * (* x1 < 0, hence y2 < 0 *)
        apply er_leb_false_lt in Ex1; auto.
        assert (Hy2 : er_lt y2 (EFin 0)).
        { apply er_ltb_spec in Ex1. rewrite Ex1, andb_true_r in Ecut.
          apply andb_false_iff in Ecut. destruct Ecut as [E|E].
          - exfalso. assert (er_leb y1 (EFin 0) = true); [|congruence].
            apply er_leb_spec. now apply er_lt_le.
          - apply er_leb_false_lt in E; auto. }
        assert (Hy : er_lt y (EFin 0)) by eauto using er_le_lt_trans.
        destruct (er_leb x2 (EFin 0)) eqn:Ex2.
        -- apply er_leb_spec in Ex2. apply (two_pts_encl _ _ _ _ H Hn).
           ++ left. eapply er_le_trans; [apply (E_y_dec_neg0 x1 y y2) | apply (E_x_inc y x1 x)];
                eauto using er_le_trans, er_lt_le.
           ++ right. eapply er_le_trans; [apply (E_x_inc y x x2) | apply (E_y_dec_neg0 x2 y1 y)];
                eauto using er_le_trans.
        -- apply er_leb_false_lt in Ex2; auto. apply (two_pts_encl _ _ _ _ H Hn).
           ++ left. eapply er_le_trans; [apply (E_y_dec_neg0 x1 y y2) | apply (E_x_inc y x1 x)];
                eauto using er_le_trans, er_lt_le.
           ++ right. eapply er_le_trans; [apply (E_x_inc y x x2) | apply (E_y_inc x2 y y2)];
                eauto using er_le_trans, er_lt_le.
    + (* y1 < 0 < y2; the cut test failed, so x1 >= 0 *)
      apply er_leb_false_lt in Ey2; auto.
      assert (Hx1 : er_le (EFin 0) x1).
      { apply er_ltb_false_le'; auto.
        assert (E1 : er_leb y1 (EFin 0) = true) by (apply er_leb_spec; now apply er_lt_le).
        assert (E2 : er_leb (EFin 0) y2 = true) by (apply er_leb_spec; now apply er_lt_le).
        rewrite E1, E2 in Ecut. exact Ecut. }
      apply (two_pts_encl _ _ _ _ H Hn).
      * left. eapply er_le_trans; [apply (E_x_inc y1 x1 x) | apply (E_y_inc x y1 y)];
          eauto using er_le_trans.
      * right. eapply er_le_trans; [apply (E_y_inc x y y2) | apply (E_x_dec y2 x1 x)];
          eauto using er_le_trans, er_lt_le.
Qed.

End Atan2.

Print Assumptions iatan2_sound.
