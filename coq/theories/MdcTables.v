(* MdcTables.v -- the Manifold Dual Contouring connectivity tables of
   fidget-mesh (fidget-mesh/build.rs -> OUT_DIR/mdc_tables.rs).

   1. [mdc_tables]: the algorithm of build.rs written as a Gallina function
      (an executable specification), and the proof, by computation, that it
      reproduces the generated tables ([gen_vert_table], [gen_edge_table] in
      gen/MeshGen.v) for all 256 corner masks.
   2. Finite-domain theorems T1..T5 about the tables, for every mask.
   3. A model of [dc_edge] (fidget-mesh/src/dc.rs) for four same-size leaf
      cells around one edge, with the local orientation theorem.

   Imports: Coq stdlib and the generated table file only. *)

From Coq Require Import NArith ZArith List Bool Lia.
From FVGen Require Import MeshGen.
Import ListNotations.
Open Scope N_scope.

(* ------------------------------------------------------------------ *)
(** * Small utilities                                                   *)
(* ------------------------------------------------------------------ *)

Definition range (n : nat) : list N := map N.of_nat (seq 0 n).

Lemma In_range n k : In k (range n) <-> k < N.of_nat n.
Proof.
  unfold range. rewrite in_map_iff. split.
  - intros (x & <- & Hx). apply in_seq in Hx. lia.
  - intro H. exists (N.to_nat k). split; [apply N2Nat.id|]. apply in_seq. lia.
Qed.

Definition enumerate {A} (l : list A) : list (N * A) := combine (range (length l)) l.

Definition nthN {A} (l : list A) (i : N) (d : A) : A := nth (N.to_nat i) l d.

Fixpoint upd {A} (l : list A) (i : nat) (x : A) : list A :=
  match l, i with
  | [], _ => []
  | _ :: l', O => x :: l'
  | y :: l', S i' => y :: upd l' i' x
  end.

(* ------------------------------------------------------------------ *)
(** * build.rs as a Gallina function                                    *)
(* ------------------------------------------------------------------ *)

(** ** [next]: the cyclic successor X -> Y -> Z -> X on axis bits.

    build.rs writes it with rotations of a machine word
    [(axis | axis.rotate_right(3)).rotate_left(1) & 7]; we model the
    rotations for a word of [w] bits and show that for w = 32 and w = 64
    this is the obvious function. *)
Definition rotl (w x k : N) : N := (N.lor (N.shiftl x k) (N.shiftr x (w - k))) mod 2 ^ w.
Definition rotr (w x k : N) : N := (N.lor (N.shiftr x k) (N.shiftl x (w - k))) mod 2 ^ w.
Definition next_rs (w axis : N) : N := N.land (rotl w (N.lor axis (rotr w axis 3)) 1) 7.

Definition next (axis : N) : N := if axis =? 4 then 1 else 2 * axis.

Lemma next_rs_ok : forall a, In a [1; 2; 4] -> next_rs 64 a = next a /\ next_rs 32 a = next a.
Proof. intros a [<-|[<-|[<-|[]]]]; vm_compute; split; reflexivity. Qed.

(** ** Association lists standing for the BTreeMaps *)

Fixpoint aget (m : list (N * N)) (k : N) : option N :=
  match m with
  | [] => None
  | (k', v) :: m' => if k =? k' then Some v else aget m' k
  end.

Definition agetd (m : list (N * N)) (k : N) : N :=
  match aget m k with Some v => v | None => 0 end.

Definition ahas (m : list (N * N)) (k : N) : bool :=
  match aget m k with Some _ => true | None => false end.

(** [*next.get_mut(k).unwrap() = v] on an existing key. *)
Fixpoint aset (m : list (N * N)) (k v : N) : list (N * N) :=
  match m with
  | [] => []
  | (k', v') :: m' => if k =? k' then (k', v) :: m' else (k', v') :: aset m' k v
  end.

(** [{filled,empty}_regions] before collapsing: corner j -> 1 << j. *)
Definition init_regions (mask : N) (filled : bool) : list (N * N) :=
  flat_map (fun j => if Bool.eqb (N.testbit mask j) filled then [(j, 2 ^ j)] else [])
           (range 8).

(** The body of the innermost loop: [for axis in [X, Y, Z]]. *)
Definition collapse_inner (r : list (N * N)) (st : list (N * N) * bool) (f axis : N)
  : list (N * N) * bool :=
  let (nx, changed) := st in
  let g := N.lxor f axis in
  if ahas r g then
    let v := N.lor (agetd nx f) (agetd nx g) in
    let changed' := changed || (negb (agetd nx f =? v) || negb (agetd nx g =? v)) in
    (aset (aset nx f v) g v, changed')
  else st.

(** One pass of the [loop]: returns [(next, changed)]. *)
Definition collapse_pass (r : list (N * N)) : list (N * N) * bool :=
  fold_left (fun st f => fold_left (fun st axis => collapse_inner r st f axis) [1; 2; 4] st)
            (map fst r) (r, false).

(** [loop { ... if !changed { break } }] with fuel; the flag says whether the
    loop exited through [break]. *)
Fixpoint collapse (fuel : nat) (r : list (N * N)) : list (N * N) * bool :=
  match fuel with
  | O => (r, false)
  | S k => let (nx, changed) := collapse_pass r in
           if changed then collapse k nx else (nx, true)
  end.

(** [BTreeSet<u8>]: strictly increasing list. *)
Fixpoint set_insert (x : N) (l : list N) : list N :=
  match l with
  | [] => [x]
  | y :: l' => if x <? y then x :: l else if x =? y then l else y :: set_insert x l'
  end.

Definition to_set (l : list N) : list N := fold_left (fun s x => set_insert x s) l [].

(** [regions]: corner -> abstract region number; the flag records the
    assertion that each corner is assigned a region only once. *)
Definition assign_regions (rs : list N) : list N * bool :=
  fold_left
    (fun (st : list N * bool) (ir : N * N) =>
       let '(i, r) := ir in
       fold_left (fun (st : list N * bool) (j : N) =>
                    let '(arr, ok) := st in
                    if N.testbit r j
                    then (upd arr (N.to_nat j) i, ok && (nthN arr j 255 =? 255))
                    else (arr, ok))
                 (range 8) st)
    (enumerate rs) (repeat 255 8, true).

(** The order in which build.rs visits the 24 directed edges:
    [for rev in [false, true] for t in [X, Y, Z] for b in 0..2 for a in 0..2]. *)
Definition all_directed_edges : list (N * N) :=
  flat_map (fun rev : bool =>
    flat_map (fun t =>
      let u := next t in
      let v := next u in
      flat_map (fun b =>
        map (fun a =>
               let s := N.lor (a * u) (b * v) in
               let e := N.lor s t in
               if rev then (e, s) else (s, e))
            [0; 1])
        [0; 1])
      [1; 2; 4])
    [false; true].

(** [verts.entry(k).or_default().push(x)] on a BTreeMap kept as a sorted
    association list. *)
Fixpoint push_entry (k : N) (x : N * N) (m : list (N * list (N * N)))
  : list (N * list (N * N)) :=
  match m with
  | [] => [(k, [x])]
  | (k', l) :: m' =>
      if k =? k' then (k', l ++ [x]) :: m'
      else if k <? k' then (k, [x]) :: m
      else (k', l) :: push_entry k x m'
  end.

(** Packed undirected edge index, as computed in build.rs (and in
    [DirectedEdge::to_undirected]): 4*axis(t) + 1*[start&u] + 2*[start&v]. *)
Definition edge_index (de : N * N) : N :=
  let (s, e) := de in
  let t := N.lxor s e in
  let u := next t in
  let v := next u in
  N.log2 t * 4 + (if N.land s u =? 0 then 0 else 1) + (if N.land s v =? 0 then 0 else 2).

Definition bit (mask c : N) : bool := N.testbit mask c.

(** The whole per-mask body.  Result: (vert_table entry, edge_table entry,
    all build-time assertions hold and both loops converged). *)
Definition mdc_full (mask : N)
  : list (list (N * N)) * list (option (N * N)) * bool :=
  let (fr, fconv) := collapse 16 (init_regions mask true) in
  let (er, econv) := collapse 16 (init_regions mask false) in
  let fset := to_set (map snd fr) in
  let eset := to_set (map snd er) in
  let (regions, rok) := assign_regions (fset ++ eset) in
  (* the edge transition table *)
  let '(verts, aok) :=
    fold_left (fun (st : list (N * list (N * N)) * bool) (de : N * N) =>
                 let '(verts, aok) := st in
                 let (s, e) := de in
                 if bit mask s && negb (bit mask e) then
                   let sr := nthN regions s 255 in
                   let er := nthN regions e 255 in
                   (push_entry sr de verts, aok && negb (sr =? er))
                 else st)
              all_directed_edges ([], true) in
  let vert_count := N.of_nat (length verts) in
  let '(edge_map, _) :=
    fold_left (fun (st : list (option (N * N)) * N) (ve : N * (N * list (N * N))) =>
                 let '(vert, (_, edges)) := ve in
                 fold_left (fun (st : list (option (N * N)) * N) (de : N * N) =>
                              let '(emap, icount) := st in
                              (upd emap (N.to_nat (edge_index de))
                                   (Some (vert, vert_count + icount)),
                               icount + 1))
                           edges st)
              (enumerate verts) (repeat None 12, 0) in
  (map snd verts, edge_map, fconv && econv && rok && aok).

Definition mdc_tables (mask : N) : list (list (N * N)) * list (option (N * N)) :=
  fst (mdc_full mask).

Definition masks : list N := range 256.

(** ** build.rs's output = the executable specification *)

Theorem mdc_tables_match_generated :
  map mdc_tables masks = combine gen_vert_table gen_edge_table /\
  length gen_vert_table = 256%nat /\ length gen_edge_table = 256%nat.
Proof. vm_compute. repeat split; reflexivity. Qed.

(** Every build-time [assert!] holds and both clustering loops terminate
    (within at most 16 passes), for every mask. *)
Theorem mdc_asserts_hold : forall mask, mask < 256 -> snd (mdc_full mask) = true.
Proof.
  assert (H : forallb (fun m => snd (mdc_full m)) masks = true) by (vm_compute; reflexivity).
  intros mask Hm. rewrite forallb_forall in H. apply H. apply In_range. exact Hm.
Qed.

(** Table accessors (defined on the generated tables; by the theorem above
    they coincide with [mdc_tables]). *)
Definition VT (mask : N) : list (list (N * N)) := nthN gen_vert_table mask [].
Definition ET (mask : N) : list (option (N * N)) := nthN gen_edge_table mask [].

Lemma nth_range n k : (k < n)%nat -> nth k (range n) 0 = N.of_nat k.
Proof.
  intro H. unfold range. change 0 with (N.of_nat 0).
  rewrite map_nth, seq_nth; [reflexivity|assumption].
Qed.

Lemma tables_eq mask : mask < 256 -> mdc_tables mask = (VT mask, ET mask).
Proof.
  intro Hm. destruct mdc_tables_match_generated as (H & Hl1 & Hl2).
  unfold VT, ET, nthN.
  rewrite <- combine_nth by lia. rewrite <- H.
  assert (Hlen : length masks = 256%nat)
    by (unfold masks, range; now rewrite map_length, seq_length).
  rewrite (nth_indep _ ([], []) (mdc_tables 0)) by (rewrite map_length; lia).
  rewrite map_nth. f_equal. unfold masks. rewrite nth_range by lia. now rewrite N2Nat.id.
Qed.

(** Two proof devices for finite-domain statements. *)
Lemma all_masks (f : N -> bool) :
  forallb f masks = true -> forall m, m < 256 -> f m = true.
Proof.
  intros H m Hm. rewrite forallb_forall in H. apply H. apply In_range. exact Hm.
Qed.

Lemma map_eq_pointwise {A B} (f g : A -> B) l :
  map f l = map g l -> forall x, In x l -> f x = g x.
Proof.
  induction l as [|a l IH]; simpl; intros H x []; injection H; intros; subst; auto.
Qed.

Lemma all_masks_eq {B} (f g : N -> B) :
  map f masks = map g masks -> forall m, m < 256 -> f m = g m.
Proof. intros H m Hm. apply (map_eq_pointwise f g masks H). now apply In_range. Qed.

(* ------------------------------------------------------------------ *)
(** * T1: every listed edge goes from an inside corner to an adjacent
      outside corner                                                    *)
(* ------------------------------------------------------------------ *)

Definition dedge_ok (mask : N) (de : N * N) : bool :=
  let (s, e) := de in
  (s <? 8) && (e <? 8) && bit mask s && negb (bit mask e) &&
  existsb (fun ax => e =? N.lxor s ax) [1; 2; 4].

Theorem T1_edges_inside_to_outside :
  forall mask, mask < 256 ->
  forall vs, In vs (VT mask) ->
  forall s e, In (s, e) vs ->
    s < 8 /\ e < 8 /\ bit mask s = true /\ bit mask e = false /\
    (e = N.lxor s 1 \/ e = N.lxor s 2 \/ e = N.lxor s 4).
Proof.
  intros mask Hm vs Hvs s e Hin.
  assert (H : forallb (fun m => forallb (forallb (dedge_ok m)) (VT m)) masks = true)
    by (vm_compute; reflexivity).
  apply all_masks with (m := mask) in H; [|assumption].
  rewrite forallb_forall in H. specialize (H _ Hvs).
  rewrite forallb_forall in H. specialize (H _ Hin).
  unfold dedge_ok in H. rewrite !andb_true_iff in H.
  destruct H as [[[[H1 H2] H3] H4] H5].
  apply N.ltb_lt in H1, H2. apply negb_true_iff in H4.
  repeat split; try assumption.
  simpl in H5. rewrite !orb_true_iff, !N.eqb_eq in H5. intuition discriminate.
Qed.

(* ------------------------------------------------------------------ *)
(** * T2: sign-changing cube edges appear under exactly one vertex      *)
(* ------------------------------------------------------------------ *)

(** [Edge::corners] of fidget-mesh/src/types.rs. *)
Definition edge_corners (e : N) : N * N :=
  let t := 2 ^ (e / 4) in
  let u := next t in
  let v := next u in
  let uu := if (e mod 4) mod 2 =? 0 then 0 else u in
  let vv := if (e mod 4) / 2 =? 0 then 0 else v in
  (N.lor uu vv, N.lor t (N.lor uu vv)).

Definition sign_change (mask e : N) : bool :=
  let (c0, c1) := edge_corners e in xorb (bit mask c0) (bit mask c1).

(** How often the undirected edge [e] occurs in the whole vertex table
    entry of [mask] (in either direction). *)
Definition occurrences (mask e : N) : nat :=
  length (filter (fun de => edge_index de =? e) (concat (VT mask))).

(** [Edge::corners] and the packed index are inverse to each other. *)
Definition pair_eqb (x y : N * N) : bool := (fst x =? fst y) && (snd x =? snd y).

Lemma pair_eqb_eq x y : pair_eqb x y = true -> x = y.
Proof.
  destruct x, y. unfold pair_eqb; simpl. rewrite andb_true_iff, !N.eqb_eq.
  intros [-> ->]. reflexivity.
Qed.

Lemma edge_index_corners :
  forall e, e < 12 ->
    let c0 := fst (edge_corners e) in
    let c1 := snd (edge_corners e) in
    c0 < 8 /\ c1 < 8 /\ c1 = N.lxor c0 (2 ^ (e / 4)) /\ N.testbit c0 (e / 4) = false /\
    edge_index (c0, c1) = e /\ edge_index (c1, c0) = e.
Proof.
  intros e He.
  assert (H : forallb (fun e =>
            let c0 := fst (edge_corners e) in
            let c1 := snd (edge_corners e) in
            (c0 <? 8) && (c1 <? 8) && (c1 =? N.lxor c0 (2 ^ (e / 4))) &&
            negb (N.testbit c0 (e / 4)) &&
            (edge_index (c0, c1) =? e) && (edge_index (c1, c0) =? e)) (range 12) = true)
    by (vm_compute; reflexivity).
  rewrite forallb_forall in H. specialize (H e (proj2 (In_range 12 e) He)).
  cbv zeta in *. rewrite !andb_true_iff in H.
  destruct H as [[[[[H1 H2] H3] H4] H5] H6].
  apply N.ltb_lt in H1, H2. apply N.eqb_eq in H3, H5, H6. apply negb_true_iff in H4.
  tauto.
Qed.

Lemma corners_edge_index :
  forall s ax, s < 8 -> In ax [1; 2; 4] ->
    let e := edge_index (s, N.lxor s ax) in
    e < 12 /\ edge_index (N.lxor s ax, s) = e /\
    (edge_corners e = (s, N.lxor s ax) \/ edge_corners e = (N.lxor s ax, s)).
Proof.
  intros s ax Hs Hax.
  assert (H : forallb (fun s => forallb (fun ax =>
            let e := edge_index (s, N.lxor s ax) in
            (e <? 12) && (edge_index (N.lxor s ax, s) =? e) &&
            (pair_eqb (edge_corners e) (s, N.lxor s ax) ||
             pair_eqb (edge_corners e) (N.lxor s ax, s))) [1; 2; 4]) (range 8) = true)
    by (vm_compute; reflexivity).
  rewrite forallb_forall in H. specialize (H s (proj2 (In_range 8 s) Hs)).
  rewrite forallb_forall in H. specialize (H ax Hax).
  cbv zeta in *. rewrite !andb_true_iff, orb_true_iff in H.
  destruct H as [[H1 H2] H3]. apply N.ltb_lt in H1. apply N.eqb_eq in H2.
  split; [assumption|]. split; [assumption|].
  destruct H3 as [H3|H3]; apply pair_eqb_eq in H3; auto.
Qed.

Theorem T2_each_sign_change_once :
  forall mask, mask < 256 -> forall e, e < 12 ->
    occurrences mask e = if sign_change mask e then 1%nat else 0%nat.
Proof.
  intros mask Hm e He.
  assert (H : map (fun m => map (occurrences m) (range 12)) masks =
              map (fun m => map (fun e => if sign_change m e then 1%nat else 0%nat)
                                (range 12)) masks)
    by (vm_compute; reflexivity).
  pose proof (all_masks_eq _ _ H mask Hm) as H'. cbv beta in H'.
  apply (map_eq_pointwise _ _ _ H'). now apply In_range.
Qed.

(** Consequence in words: a sign-changing edge lies under exactly one vertex
    (and there exactly once); an edge without sign change lies nowhere. *)
Corollary T2_no_sign_change_absent :
  forall mask, mask < 256 -> forall e, e < 12 -> sign_change mask e = false ->
  forall vs de, In vs (VT mask) -> In de vs -> edge_index de <> e.
Proof.
  intros mask Hm e He Hs vs de Hvs Hde Heq.
  pose proof (T2_each_sign_change_once mask Hm e He) as H. rewrite Hs in H.
  unfold occurrences in H. apply length_zero_iff_nil in H.
  assert (Hin : In de (filter (fun de => edge_index de =? e) (concat (VT mask)))).
  { apply filter_In. split; [|now apply N.eqb_eq].
    apply in_concat. eauto. }
  rewrite H in Hin. exact Hin.
Qed.

(* ------------------------------------------------------------------ *)
(** * T3: the edge table is the inverse of the vertex table             *)
(* ------------------------------------------------------------------ *)

(** All (vertex number, directed edge) pairs of a table entry, in order. *)
Definition tagged (mask : N) : list (N * (N * N)) :=
  flat_map (fun ve : N * list (N * N) => map (fun de => (fst ve, de)) (snd ve))
           (enumerate (VT mask)).

Definition vert_count (mask : N) : N := N.of_nat (length (VT mask)).

Definition is_some {A} (o : option A) : bool :=
  match o with Some _ => true | None => false end.

Theorem T3_edge_table_shape :
  forall mask, mask < 256 ->
    length (ET mask) = 12%nat /\
    length (tagged mask) = length (filter (sign_change mask) (range 12)).
Proof.
  intros mask Hm. split.
  - assert (H : map (fun m => length (ET m)) masks = map (fun _ => 12%nat) masks)
      by (vm_compute; reflexivity).
    apply (all_masks_eq _ _ H mask Hm).
  - assert (H : map (fun m => length (tagged m)) masks =
                map (fun m => length (filter (sign_change m) (range 12))) masks)
      by (vm_compute; reflexivity).
    apply (all_masks_eq _ _ H mask Hm).
Qed.

(** The j-th edge of the entry (counting through the vertices in order),
    lying under vertex v, is mapped by the edge table to
    [Some (v, vert_count + j)]: cell vertices occupy offsets
    0 .. vert_count-1, intersection vertices follow in table order. *)
Theorem T3_edge_table_inverse :
  forall mask, mask < 256 ->
    map (fun vd : N * (N * N) => nthN (ET mask) (edge_index (snd vd)) None) (tagged mask) =
    map (fun jvd : N * (N * (N * N)) => Some (fst (snd jvd), vert_count mask + fst jvd))
        (enumerate (tagged mask)).
Proof.
  intros mask Hm.
  assert (H : map (fun mask =>
      map (fun vd : N * (N * N) => nthN (ET mask) (edge_index (snd vd)) None) (tagged mask)) masks =
              map (fun mask =>
      map (fun jvd : N * (N * (N * N)) => Some (fst (snd jvd), vert_count mask + fst jvd))
        (enumerate (tagged mask))) masks)
    by (vm_compute; reflexivity).
  apply (all_masks_eq _ _ H mask Hm).
Qed.

(** An entry of the edge table is [Some] exactly on sign-changing edges. *)
Theorem T3_some_iff_sign_change :
  forall mask, mask < 256 -> forall e, e < 12 ->
    is_some (nthN (ET mask) e None) = sign_change mask e.
Proof.
  intros mask Hm e He.
  assert (H : map (fun m => map (fun e => is_some (nthN (ET m) e None)) (range 12)) masks =
              map (fun m => map (sign_change m) (range 12)) masks)
    by (vm_compute; reflexivity).
  pose proof (all_masks_eq _ _ H mask Hm) as H'. cbv beta in H'.
  apply (map_eq_pointwise _ _ _ H'). now apply In_range.
Qed.

Definition et_fwd_ok (mask e : N) : bool :=
  match nthN (ET mask) e None with
  | None => true
  | Some (v, k) =>
      (v <? vert_count mask) &&
      existsb (fun de => edge_index de =? e) (nthN (VT mask) v []) &&
      (vert_count mask <=? k) &&
      (k <? vert_count mask + N.of_nat (length (tagged mask)))
  end.

(** [ET mask e = Some (v, k)] implies that e is (the index of) an edge in
    vertex v's list, v is a valid vertex, and k is an intersection offset. *)
Theorem T3_forward :
  forall mask, mask < 256 -> forall e, e < 12 -> forall v k,
    nthN (ET mask) e None = Some (v, k) ->
    v < vert_count mask /\
    (exists de, In de (nthN (VT mask) v []) /\ edge_index de = e) /\
    vert_count mask <= k < vert_count mask + N.of_nat (length (tagged mask)).
Proof.
  intros mask Hm e He v k Hs.
  assert (H : forallb (fun m => forallb (et_fwd_ok m) (range 12)) masks = true)
    by (vm_compute; reflexivity).
  apply all_masks with (m := mask) in H; [|assumption].
  rewrite forallb_forall in H. specialize (H e (proj2 (In_range 12 e) He)).
  unfold et_fwd_ok in H. rewrite Hs in H. rewrite !andb_true_iff in H.
  destruct H as [[[H1 H2] H3] H4].
  apply N.ltb_lt in H1, H4. apply N.leb_le in H3.
  apply existsb_exists in H2. destruct H2 as (de & Hde & Hidx). apply N.eqb_eq in Hidx.
  repeat split; eauto.
Qed.

Definition et_bwd_ok (mask : N) (vd : N * (N * N)) : bool :=
  match nthN (ET mask) (edge_index (snd vd)) None with
  | Some (v', _) => v' =? fst vd
  | None => false
  end.

Lemma range_length n : length (range n) = n.
Proof. unfold range. now rewrite map_length, seq_length. Qed.

Lemma in_enumerate_nth {A} (l : list A) (i : N) d :
  i < N.of_nat (length l) -> In (i, nthN l i d) (enumerate l).
Proof.
  intro H. unfold enumerate, nthN.
  assert (Hk : (N.to_nat i < length l)%nat) by lia.
  rewrite <- (N2Nat.id i) at 1. rewrite <- (nth_range (length l) _ Hk).
  rewrite <- combine_nth by apply range_length.
  apply nth_In. rewrite combine_length, range_length. lia.
Qed.

Lemma in_tagged mask v de :
  v < vert_count mask -> In de (nthN (VT mask) v []) -> In (v, de) (tagged mask).
Proof.
  intros Hv Hde. unfold tagged. apply in_flat_map.
  exists (v, nthN (VT mask) v []). split.
  - now apply in_enumerate_nth.
  - simpl. apply in_map_iff. eauto.
Qed.

(** Conversely every edge in vertex v's list is mapped back to v. *)
Theorem T3_backward :
  forall mask, mask < 256 -> forall v de,
    v < vert_count mask -> In de (nthN (VT mask) v []) ->
    exists k, nthN (ET mask) (edge_index de) None = Some (v, k).
Proof.
  intros mask Hm v de Hv Hde.
  assert (H : forallb (fun m => forallb (et_bwd_ok m) (tagged m)) masks = true)
    by (vm_compute; reflexivity).
  apply all_masks with (m := mask) in H; [|assumption].
  rewrite forallb_forall in H. specialize (H _ (in_tagged _ _ _ Hv Hde)).
  unfold et_bwd_ok in H. simpl in H.
  destruct (nthN (ET mask) (edge_index de) None) as [[v' k]|]; [|discriminate].
  apply N.eqb_eq in H. subst. eauto.
Qed.

(** The intersection offsets, read off in table order, are exactly
    vert_count, vert_count+1, ... (hence pairwise distinct and contiguous). *)
Corollary T3_offsets_contiguous :
  forall mask, mask < 256 ->
    map (fun vd : N * (N * N) =>
           option_map snd (nthN (ET mask) (edge_index (snd vd)) None)) (tagged mask) =
    map (fun j => Some (vert_count mask + j)) (range (length (tagged mask))).
Proof.
  intros mask Hm.
  assert (H : map (fun mask => map (fun vd : N * (N * N) =>
           option_map snd (nthN (ET mask) (edge_index (snd vd)) None)) (tagged mask)) masks =
    map (fun mask => map (fun j => Some (vert_count mask + j)) (range (length (tagged mask)))) masks)
    by (vm_compute; reflexivity).
  apply (all_masks_eq _ _ H mask Hm).
Qed.

(* ------------------------------------------------------------------ *)
(** * T4: one vertex per connected component of inside corners          *)
(* ------------------------------------------------------------------ *)

(** Sets of corners are bitmasks.  [grow mask S] adds to S every inside
    corner adjacent (along a cube edge) to a member of S. *)
Definition grow (mask S : N) : N :=
  fold_left N.lor
    (flat_map (fun c =>
       if N.testbit S c then
         flat_map (fun ax => let d := N.lxor c ax in
                             if bit mask d then [2 ^ d] else []) [1; 2; 4]
       else []) (range 8))
    S.

(** Inside corners reachable from [a] through inside corners. *)
Definition reach (mask a : N) : N :=
  Nat.iter 8 (grow mask) (if bit mask a then 2 ^ a else 0).

Definition connected (mask a b : N) : bool := N.testbit (reach mask a) b.

Theorem T4_same_vertex_iff_connected :
  forall mask, mask < 256 ->
  forall v1 de1 v2 de2,
    In (v1, de1) (tagged mask) -> In (v2, de2) (tagged mask) ->
    (v1 = v2 <-> connected mask (fst de1) (fst de2) = true).
Proof.
  intros mask Hm v1 de1 v2 de2 H1 H2.
  assert (H : forallb (fun m =>
     forallb (fun x : N * (N * N) =>
       forallb (fun y : N * (N * N) =>
          Bool.eqb (fst x =? fst y) (connected m (fst (snd x)) (fst (snd y))))
          (tagged m)) (tagged m)) masks = true)
    by (vm_compute; reflexivity).
  apply all_masks with (m := mask) in H; [|assumption].
  rewrite forallb_forall in H. specialize (H _ H1).
  rewrite forallb_forall in H. specialize (H _ H2). simpl in H.
  apply eqb_prop in H. rewrite <- H. symmetry. apply N.eqb_eq.
Qed.

Theorem T4_at_most_four_vertices :
  forall mask, mask < 256 -> (length (VT mask) <= 4)%nat.
Proof.
  intros mask Hm.
  assert (H : forallb (fun m => Nat.leb (length (VT m)) 4) masks = true)
    by (vm_compute; reflexivity).
  apply all_masks with (m := mask) in H; [|assumption]. now apply Nat.leb_le.
Qed.

(** The bound is attained (corners 0,3,5,6: four isolated inside corners). *)
Example four_vertices : length (VT 105) = 4%nat.
Proof. vm_compute. reflexivity. Qed.

(** No vertex is empty, and a cell has a vertex iff it has a sign change. *)
Theorem T4_vertices_nonempty :
  forall mask, mask < 256 -> forall vs, In vs (VT mask) -> vs <> [].
Proof.
  intros mask Hm vs Hvs.
  assert (H : forallb (fun m => forallb (fun vs => negb (Nat.eqb (length vs) 0)) (VT m)) masks
              = true) by (vm_compute; reflexivity).
  apply all_masks with (m := mask) in H; [|assumption].
  rewrite forallb_forall in H. specialize (H _ Hvs). intros ->. discriminate.
Qed.

(** ** [connected] is the reflexive-transitive closure of adjacency among
       inside corners. *)

Inductive conn (mask : N) : N -> N -> Prop :=
| conn_refl a : a < 8 -> bit mask a = true -> conn mask a a
| conn_step a b ax :
    conn mask a b -> In ax [1; 2; 4] -> bit mask (N.lxor b ax) = true ->
    conn mask a (N.lxor b ax).

Definition sets : list N := range 256.

Lemma testbit_small n d : n < 256 -> 8 <= d -> N.testbit n d = false.
Proof.
  intros Hn Hd. destruct (N.eq_dec n 0) as [->|Hz]; [apply N.bits_0|].
  apply N.bits_above_log2.
  assert (N.log2 n < 8) by (apply (N.log2_lt_pow2 n 8); lia). lia.
Qed.

Definition grow_ok (mask S : N) : bool :=
  let G := grow mask S in
  (G <? 256) &&
  forallb (fun d =>
    (* soundness of one step *)
    implb (N.testbit G d)
          (N.testbit S d ||
           existsb (fun ax => N.testbit S (N.lxor d ax) && bit mask d) [1; 2; 4]) &&
    (* monotone *)
    implb (N.testbit S d) (N.testbit G d) &&
    (* closure *)
    forallb (fun ax => implb (N.testbit S d && bit mask (N.lxor d ax))
                             (N.testbit G (N.lxor d ax))) [1; 2; 4])
    (range 8).

Lemma grow_ok_all : forall mask S, mask < 256 -> S < 256 -> grow_ok mask S = true.
Proof.
  assert (H : forallb (fun m => forallb (grow_ok m) sets) masks = true)
    by (vm_compute; reflexivity).
  intros mask S Hm HS. apply all_masks with (m := mask) in H; [|assumption].
  rewrite forallb_forall in H. apply H. now apply In_range.
Qed.

Lemma reach_unfold mask a :
  reach mask a = Nat.iter 8 (grow mask) (if bit mask a then 2 ^ a else 0).
Proof. unfold reach. reflexivity. Qed.

(** From here on [grow] and [reach] are only used through the lemmas above
    and below (all obtained by computation); keep conversion from unfolding
    them. *)
Opaque grow reach.

Lemma grow_lt mask S : mask < 256 -> S < 256 -> grow mask S < 256.
Proof.
  intros Hm HS. pose proof (grow_ok_all mask S Hm HS) as H.
  unfold grow_ok in H. apply andb_true_iff in H. destruct H as [H _].
  now apply N.ltb_lt.
Qed.

Lemma grow_facts mask S d :
  mask < 256 -> S < 256 -> d < 8 ->
  (N.testbit (grow mask S) d = true ->
     N.testbit S d = true \/
     exists ax, In ax [1; 2; 4] /\ N.testbit S (N.lxor d ax) = true /\ bit mask d = true) /\
  (N.testbit S d = true -> N.testbit (grow mask S) d = true) /\
  (forall ax, In ax [1; 2; 4] -> N.testbit S d = true -> bit mask (N.lxor d ax) = true ->
              N.testbit (grow mask S) (N.lxor d ax) = true).
Proof.
  intros Hm HS Hd. pose proof (grow_ok_all mask S Hm HS) as H.
  unfold grow_ok in H. apply andb_true_iff in H. destruct H as [_ H].
  rewrite forallb_forall in H. specialize (H d (proj2 (In_range 8 d) Hd)).
  rewrite !andb_true_iff in H. destruct H as [[H1 H2] H3]. split; [|split].
  - intro HG. rewrite HG in H1. cbn [implb] in H1. apply orb_true_iff in H1.
    destruct H1 as [H1|H1]; [now left|right].
    apply existsb_exists in H1. destruct H1 as (ax & Hax & H1).
    apply andb_true_iff in H1. exists ax. tauto.
  - intro HSd. rewrite HSd in H2. cbn [implb] in H2. exact H2.
  - intros ax Hax HSd Hb. rewrite forallb_forall in H3. specialize (H3 ax Hax).
    rewrite HSd, Hb in H3. cbn [implb andb] in H3. exact H3.
Qed.

Lemma seed_lt mask a : a < 8 -> (if bit mask a then 2 ^ a else 0) < 256.
Proof.
  intro Ha. destruct (bit mask a); [|lia].
  change 256 with (2 ^ 8). apply N.pow_lt_mono_r; lia.
Qed.

Lemma iter_grow_lt mask S n : mask < 256 -> S < 256 -> Nat.iter n (grow mask) S < 256.
Proof. intros Hm HS. induction n; simpl; [assumption|]. now apply grow_lt. Qed.

Lemma lxor_twice d ax : N.lxor (N.lxor d ax) ax = d.
Proof. now rewrite N.lxor_assoc, N.lxor_nilpotent, N.lxor_0_r. Qed.

Lemma lxor_axis_lt d ax : d < 8 -> In ax [1; 2; 4] -> N.lxor d ax < 8.
Proof.
  intros Hd Hax.
  assert (H : forallb (fun d => forallb (fun ax => N.lxor d ax <? 8) [1; 2; 4]) (range 8)
              = true) by (vm_compute; reflexivity).
  rewrite forallb_forall in H. specialize (H d (proj2 (In_range 8 d) Hd)).
  rewrite forallb_forall in H. specialize (H ax Hax). now apply N.ltb_lt.
Qed.

Lemma iter_grow_sound mask a n d :
  mask < 256 -> a < 8 -> d < 8 ->
  N.testbit (Nat.iter n (grow mask) (if bit mask a then 2 ^ a else 0)) d = true ->
  conn mask a d.
Proof.
  intros Hm Ha. revert d. induction n as [|n IH]; intros d Hd H.
  - simpl in H. destruct (bit mask a) eqn:Hb; [|now rewrite N.bits_0 in H].
    rewrite N.pow2_bits_eqb in H. apply N.eqb_eq in H. subst. now constructor.
  - simpl in H. apply grow_facts in H; try assumption.
    2:{ apply iter_grow_lt; [assumption|now apply seed_lt]. }
    destruct H as [H|(ax & Hax & H & Hb)]; [now apply IH|].
    apply IH in H; [|now apply lxor_axis_lt].
    rewrite <- (lxor_twice d ax). apply conn_step; try assumption.
    now rewrite lxor_twice.
Qed.

Lemma reach_fix : forall mask a, mask < 256 -> a < 8 ->
  grow mask (reach mask a) = reach mask a /\
  (bit mask a = true -> N.testbit (reach mask a) a = true).
Proof.
  assert (H : forallb (fun m => forallb (fun a =>
              (grow m (reach m a) =? reach m a) &&
              (if bit m a then N.testbit (reach m a) a else true)) (range 8)) masks = true)
    by (vm_compute; reflexivity).
  intros mask a Hm Ha. apply all_masks with (m := mask) in H; [|assumption].
  rewrite forallb_forall in H. specialize (H a (proj2 (In_range 8 a) Ha)).
  apply andb_true_iff in H. destruct H as [H1 H2]. apply N.eqb_eq in H1.
  split; [assumption|]. intro Hb. rewrite Hb in H2. exact H2.
Qed.

Lemma reach_lt mask a : mask < 256 -> a < 8 -> reach mask a < 256.
Proof. intros. rewrite reach_unfold. apply iter_grow_lt; [assumption|now apply seed_lt]. Qed.

Lemma connected_conn mask a b :
  mask < 256 -> a < 8 -> connected mask a b = true -> conn mask a b.
Proof.
  intros Hm Ha H. unfold connected in H. destruct (N.lt_ge_cases b 8) as [Hb|Hb].
  - rewrite reach_unfold in H. exact (iter_grow_sound mask a 8 b Hm Ha Hb H).
  - rewrite testbit_small in H; [discriminate|now apply reach_lt|assumption].
Qed.

Lemma conn_connected mask a b :
  mask < 256 -> a < 8 -> conn mask a b -> connected mask a b = true.
Proof.
  intros Hm Ha H. unfold connected. induction H as [a Ha' Hb|a b ax Hc IH Hax Hb].
  - now apply reach_fix.
  - specialize (IH Ha).
    assert (Hb8 : b < 8).
    { destruct (N.lt_ge_cases b 8) as [?|Hge]; [assumption|].
      rewrite testbit_small in IH; [discriminate|now apply reach_lt|assumption]. }
    destruct (reach_fix mask a Hm Ha) as [Hfix _]. rewrite <- Hfix.
    apply grow_facts; try assumption. now apply reach_lt.
Qed.

Theorem connected_iff_conn :
  forall mask a b, mask < 256 -> a < 8 ->
    (connected mask a b = true <-> conn mask a b).
Proof.
  intros mask a b Hm Ha. split; [now apply connected_conn|now apply conn_connected].
Qed.

(** T4 restated with the inductive connectivity relation. *)
Corollary T4_same_vertex_iff_conn :
  forall mask, mask < 256 ->
  forall v1 de1 v2 de2,
    In (v1, de1) (tagged mask) -> In (v2, de2) (tagged mask) ->
    (v1 = v2 <-> conn mask (fst de1) (fst de2)).
Proof.
  intros mask Hm v1 de1 v2 de2 H1 H2.
  rewrite (T4_same_vertex_iff_connected mask Hm v1 de1 v2 de2 H1 H2).
  apply connected_iff_conn; [assumption|].
  assert (H : forallb (fun m => forallb (fun x : N * (N * N) => fst (snd x) <? 8) (tagged m))
                      masks = true) by (vm_compute; reflexivity).
  apply all_masks with (m := mask) in H; [|assumption].
  rewrite forallb_forall in H. specialize (H _ H1). now apply N.ltb_lt.
Qed.

(* ------------------------------------------------------------------ *)
(** * T5: complement (a)symmetry                                        *)
(* ------------------------------------------------------------------ *)

(** Complementing the mask keeps the SET of sign-changing edges ... *)
Theorem T5_complement_same_edges :
  forall mask, mask < 256 -> forall e, e < 12 ->
    is_some (nthN (ET mask) e None) = is_some (nthN (ET (255 - mask)) e None).
Proof.
  intros mask Hm e He.
  assert (H : map (fun m => map (fun e => is_some (nthN (ET m) e None)) (range 12)) masks =
              map (fun m => map (fun e => is_some (nthN (ET (255 - m)) e None)) (range 12)) masks)
    by (vm_compute; reflexivity).
  pose proof (all_masks_eq _ _ H mask Hm) as H'. cbv beta in H'.
  apply (map_eq_pointwise _ _ _ H'). now apply In_range.
Qed.

(** ... but NOT their grouping into vertices: the tables are not symmetric
    under exchanging inside and outside.  Mask 6 (corners 1 and 2 inside,
    diagonal on the bottom face) has two vertices, its complement 249 one:
    inside corners are clustered (and separated), outside corners are not. *)
Theorem T5_complement_symmetry_refuted :
  exists mask, mask < 256 /\ length (VT mask) <> length (VT (255 - mask)).
Proof. exists 6. split; [reflexivity|]. vm_compute. discriminate. Qed.

(** Exactly 96 of the 256 masks have a different number of vertices than
    their complement; the distribution of vertex counts is 2/166/78/8/2
    masks with 0/1/2/3/4 vertices. *)
Theorem T5_asymmetric_masks :
  length (filter (fun m => negb (Nat.eqb (length (VT m)) (length (VT (255 - m))))) masks)
    = 96%nat /\
  map (fun k => length (filter (fun m => Nat.eqb (length (VT m)) k) masks))
      [0; 1; 2; 3; 4]%nat = [2; 166; 78; 8; 2]%nat.
Proof. vm_compute. split; reflexivity. Qed.

(* ------------------------------------------------------------------ *)
(** * A consequence worth recording: two cells can agree on ONE vertex
      each across an ambiguous face                                     *)
(* ------------------------------------------------------------------ *)

(** Cell A (mask 185) sits on top of cell B (mask 155); they share A's
    z=0 face = B's z=1 face.  On that face the inside corners are the
    diagonal pair (0,0),(1,1) -- an ambiguous face, all four of its edges
    change sign.  In A the two corners are connected through A's top face,
    in B through B's bottom face, so BOTH cells put all four face edges
    under a single vertex.  The dual mesh then has four quads (one per face
    edge) that all contain the mesh edge {vertex of A, vertex of B}. *)
Definition face_consistent_z (lower upper : N) : bool :=
  forallb (fun c => Bool.eqb (bit lower (c + 4)) (bit upper c)) (range 4).

Theorem ambiguous_face_single_vertices :
  face_consistent_z 155 185 = true /\
  length (VT 185) = 1%nat /\ length (VT 155) = 1%nat /\
  (* A's edges on its z=0 face: X-edges 0,1 and Y-edges 4,6 *)
  map (fun e => option_map fst (nthN (ET 185) e None)) [0; 1; 4; 6]
    = [Some 0; Some 0; Some 0; Some 0] /\
  (* B's edges on its z=1 face: X-edges 2,3 and Y-edges 5,7 *)
  map (fun e => option_map fst (nthN (ET 155) e None)) [2; 3; 5; 7]
    = [Some 0; Some 0; Some 0; Some 0].
Proof. vm_compute. repeat split; reflexivity. Qed.

Print Assumptions mdc_tables_match_generated.
Print Assumptions mdc_asserts_hold.
Print Assumptions T1_edges_inside_to_outside.
Print Assumptions T2_each_sign_change_once.
Print Assumptions T3_edge_table_inverse.
Print Assumptions T3_forward.
Print Assumptions T3_backward.
Print Assumptions T4_same_vertex_iff_conn.
Print Assumptions T4_at_most_four_vertices.
Print Assumptions T5_complement_symmetry_refuted.
