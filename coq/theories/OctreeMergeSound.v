(* OctreeMergeSound.v -- theorems about the model in OctreeMerge.v *)

From Coq Require Import List Arith Lia Bool.
From FV Require Import OctreeMerge.
Import ListNotations.

Set Implicit Arguments.

(* ------------------------------------------------------------------ *)
(* generic list facts                                                 *)
(* ------------------------------------------------------------------ *)

Lemma upd_length : forall A (l : list A) i a, length (upd l i a) = length l.
Proof. induction l; destruct i; simpl; auto. Qed.

Lemma nth_error_upd_eq : forall A (l : list A) i a,
  i < length l -> nth_error (upd l i a) i = Some a.
Proof.
  induction l; destruct i; simpl; intros; try lia; auto. apply IHl. lia.
Qed.

Lemma nth_error_upd_neq : forall A (l : list A) i j a,
  i <> j -> nth_error (upd l i a) j = nth_error l j.
Proof.
  induction l; destruct i; destruct j; simpl; intros; try congruence; auto.
Qed.

Lemma upd_app_l : forall A (l m : list A) i a,
  i < length l -> upd (l ++ m) i a = upd l i a ++ m.
Proof.
  induction l; destruct i; simpl; intros; try lia; auto.
  f_equal. apply IHl. lia.
Qed.

Lemma upd_app_r : forall A (l m : list A) i a,
  upd (l ++ m) (length l + i) a = l ++ upd m i a.
Proof. induction l; simpl; intros; auto. f_equal. apply IHl. Qed.

Lemma upd_oob : forall A (l : list A) i a, length l <= i -> upd l i a = l.
Proof.
  induction l; destruct i; simpl; intros; try lia; auto. f_equal. apply IHl. lia.
Qed.

Lemma nth_error_Some_lt : forall A (l : list A) i x,
  nth_error l i = Some x -> i < length l.
Proof. intros. apply nth_error_Some. congruence. Qed.

Lemma nth_error_app_l : forall A (l m : list A) i x,
  nth_error l i = Some x -> nth_error (l ++ m) i = Some x.
Proof.
  intros. rewrite nth_error_app1; auto. eapply nth_error_Some_lt; eauto.
Qed.

Lemma map_opt_Forall2 : forall A B (f : A -> option B) l l',
  map_opt f l = Some l' <-> Forall2 (fun x y => f x = Some y) l l'.
Proof.
  induction l; simpl; intros.
  - split; intros H. inversion H. constructor. inversion H. reflexivity.
  - split; intros H.
    + destruct (f a) eqn:E; try discriminate.
      destruct (map_opt f l) eqn:E2; try discriminate. inversion H; subst.
      constructor; auto. apply IHl. reflexivity.
    + inversion H; subst. rewrite H2.
      apply IHl in H4. rewrite H4. reflexivity.
Qed.

Lemma Forall2_length' : forall A B (R : A -> B -> Prop) l l',
  Forall2 R l l' -> length l = length l'.
Proof. induction 1; simpl; auto. Qed.

Lemma Forall2_impl : forall A B (R S : A -> B -> Prop) l l',
  (forall x y, R x y -> S x y) -> Forall2 R l l' -> Forall2 S l l'.
Proof. induction 2; constructor; auto. Qed.

Lemma Forall2_app_inv : forall A B (R : A -> B -> Prop) l1 l2 m1 m2,
  Forall2 R l1 m1 -> Forall2 R l2 m2 -> Forall2 R (l1 ++ l2) (m1 ++ m2).
Proof. induction 1; simpl; auto. Qed.

Lemma Forall2_nth : forall A B (R : A -> B -> Prop) l l' i x,
  Forall2 R l l' -> nth_error l i = Some x ->
  exists y, nth_error l' i = Some y /\ R x y.
Proof.
  induction l; intros; destruct i; simpl in *; try discriminate;
    inversion H; subst.
  - inversion H0; subst. eauto.
  - eauto.
Qed.

Lemma firstn_skipn_app_ext : forall A (l m : list A) v n,
  v + n <= length l ->
  firstn n (skipn v (l ++ m)) = firstn n (skipn v l).
Proof.
  intros. rewrite skipn_app. rewrite firstn_app.
  rewrite skipn_length.
  replace (n - (length l - v)) with 0 by lia.
  replace (v - length l) with 0 by lia. simpl. rewrite app_nil_r. reflexivity.
Qed.

Lemma skipn_app_exact : forall A (l m : list A) v,
  skipn (length l + v) (l ++ m) = skipn v m.
Proof.
  induction l; simpl; intros; auto.
Qed.

(* ------------------------------------------------------------------ *)
(* Denotation relation                                                *)
(* ------------------------------------------------------------------ *)

Section Den.

Variable vertex : Type.
Variable nverts : nat -> nat.

Definition akind (a : atree vertex) : ckind :=
  match a with
  | AEmpty => KEmpty
  | AFull => KFull
  | ALeaf m _ => KLeaf m
  | ABranch _ => KBranch
  end.

(* den cs vs lb c a : in the arrays (cs, vs), cell c denotes the abstract
   tree a, following only Branch indices >= lb, with block indices
   strictly increasing along every path.  This is also the
   well-formedness predicate for reachable cells (M3): every reachable
   Branch index is in range, every reachable block has 8 non-Invalid
   cells, every reachable leaf's vertex run is in range.               *)
Inductive den (cs : list (list cell)) (vs : list vertex)
  : nat -> cell -> atree vertex -> Prop :=
| den_empty : forall lb, den cs vs lb Empty AEmpty
| den_full : forall lb, den cs vs lb Full AFull
| den_leaf : forall lb m v,
    v + nverts m <= length vs ->
    den cs vs lb (Leaf m v) (ALeaf m (firstn (nverts m) (skipn v vs)))
| den_branch : forall lb i blk ch,
    lb <= i ->
    nth_error cs i = Some blk ->
    length blk = 8 ->
    Forall2 (den cs vs (S i)) blk ch ->
    den cs vs lb (Branch i) (ABranch ch).

(* induction principle that goes through the Forall2 *)
Lemma den_ind' : forall cs vs (P : nat -> cell -> atree vertex -> Prop),
  (forall lb, P lb Empty AEmpty) ->
  (forall lb, P lb Full AFull) ->
  (forall lb m v, v + nverts m <= length vs ->
     P lb (Leaf m v) (ALeaf m (firstn (nverts m) (skipn v vs)))) ->
  (forall lb i blk ch, lb <= i -> nth_error cs i = Some blk -> length blk = 8 ->
     Forall2 (den cs vs (S i)) blk ch ->
     Forall2 (P (S i)) blk ch -> P lb (Branch i) (ABranch ch)) ->
  forall lb c a, den cs vs lb c a -> P lb c a.
Proof.
  intros cs vs P H1 H2 H3 H4.
  fix IH 4. intros lb c a D.
  destruct D as [ | | | lb i blk ch Hle Hn Hl HF].
  - apply H1.
  - apply H2.
  - apply H3; auto.
  - apply H4 with blk; auto.
    clear Hn Hl. revert blk ch HF.
    fix IH2 3. intros blk ch F. destruct F; constructor.
    + apply IH. assumption.
    + apply IH2. assumption.
Qed.

Lemma den_erase : forall cs vs lb c a, den cs vs lb c a -> erase c = akind a.
Proof. destruct 1; reflexivity. Qed.

Lemma den_not_invalid : forall cs vs lb c a, den cs vs lb c a -> c <> Invalid.
Proof. destruct 1; discriminate. Qed.

Lemma den_block_erase : forall cs vs lb blk ch,
  Forall2 (den cs vs lb) blk ch -> map erase blk = map akind ch.
Proof.
  induction 1; simpl; auto. f_equal; auto. eapply den_erase; eauto.
Qed.

Lemma den_weaken : forall cs vs lb c a,
  den cs vs lb c a -> forall lb', lb' <= lb -> den cs vs lb' c a.
Proof.
  destruct 1; intros; try constructor; auto.
  econstructor; eauto. lia.
Qed.

(* deterministic *)
Lemma den_fun : forall cs vs lb c a,
  den cs vs lb c a -> forall lb' a', den cs vs lb' c a' -> a = a'.
Proof.
  intros cs vs lb c a D. induction D using den_ind'; intros lb' a' D';
    inversion D'; subst; auto.
  f_equal.
  match goal with
  | [ Ha : nth_error cs i = Some ?a, Hb : nth_error cs i = Some ?b |- _ ] =>
      assert (a = b) by congruence; subst
  end.
  clear D'. revert ch0 H9. clear - H3.
  induction H3; intros c0 Hf; inversion Hf; subst; auto.
  f_equal; eauto.
Qed.

(* (M1, frame part) den only depends on the blocks with index >= lb, and
   is stable under appending vertices                                  *)
Lemma den_frame : forall cs vs lb c a,
  den cs vs lb c a ->
  forall cs' ext,
    (forall i blk, lb <= i -> nth_error cs i = Some blk ->
                   nth_error cs' i = Some blk) ->
    den cs' (vs ++ ext) lb c a.
Proof.
  intros cs vs lb c a D. induction D using den_ind'; intros cs' ext Hag.
  - constructor.
  - constructor.
  - rewrite <- (firstn_skipn_app_ext vs ext v (nverts m)) by auto.
    constructor. rewrite app_length. lia.
  - econstructor; eauto.
    eapply Forall2_impl; [|exact H3]. simpl. intros x y Hxy.
    apply Hxy. intros. apply Hag; auto. lia.
Qed.

Lemma den_frame_nov : forall cs vs lb c a,
  den cs vs lb c a ->
  forall cs',
    (forall i blk, lb <= i -> nth_error cs i = Some blk ->
                   nth_error cs' i = Some blk) ->
    den cs' vs lb c a.
Proof.
  intros. rewrite <- (app_nil_r vs). eapply den_frame; eauto.
Qed.

Lemma den_block_frame : forall cs vs lb blk ch,
  Forall2 (den cs vs lb) blk ch ->
  forall cs' ext,
    (forall i b, lb <= i -> nth_error cs i = Some b -> nth_error cs' i = Some b) ->
    Forall2 (den cs' (vs ++ ext) lb) blk ch.
Proof.
  induction 1; constructor; auto. eapply den_frame; eauto.
Qed.

(* Theorem M1 (extension): appending blocks and vertices never changes
   the denotation of an existing well-formed subtree.                  *)
Theorem M1_extend : forall cs vs lb c a more morev,
  den cs vs lb c a -> den (cs ++ more) (vs ++ morev) lb c a.
Proof.
  intros. eapply den_frame; eauto. intros. apply nth_error_app_l; auto.
Qed.

(* remapping of a local octree *)
Definition remap_block (coff voff : nat) (blk : list cell) : option (list cell) :=
  map_opt (remap_cell coff voff) blk.

Lemma remap_cell_den_some : forall cs vs lb c a coff voff,
  den cs vs lb c a -> exists c', remap_cell coff voff c = Some c'.
Proof. destruct 1; simpl; eauto. Qed.

(* Theorem M1 (remap): a local octree (lcs, lvs) embedded at offsets
   (length pre, length vpre) denotes the same abstract tree.           *)
Theorem M1_remap : forall lcs lvs lb c a,
  den lcs lvs lb c a ->
  forall pre vpre post vpost rcs c',
    map_opt (remap_block (length pre) (length vpre)) lcs = Some rcs ->
    remap_cell (length pre) (length vpre) c = Some c' ->
    den (pre ++ rcs ++ post) (vpre ++ lvs ++ vpost) (length pre + lb) c' a.
Proof.
  intros lcs lvs lb c a D. induction D using den_ind';
    intros pre vpre post vpost rcs c' Hm Hc; simpl in Hc; inversion Hc; subst.
  - constructor.
  - constructor.
  - assert (E : firstn (nverts m) (skipn v lvs) =
                firstn (nverts m) (skipn (v + length vpre) (vpre ++ lvs ++ vpost))).
    { rewrite (Nat.add_comm v). rewrite skipn_app_exact.
      rewrite firstn_skipn_app_ext; auto. }
    rewrite E. constructor. rewrite !app_length. lia.
  - apply map_opt_Forall2 in Hm.
    destruct (Forall2_nth _ Hm H0) as (rblk & Hn & Hr).
    unfold remap_block in Hr. apply map_opt_Forall2 in Hr.
    assert (Hch : Forall2 (den (pre ++ rcs ++ post) (vpre ++ lvs ++ vpost)
                               (S (i + length pre))) rblk ch).
    { clear H0 H1 H2 Hn Hc.
      revert rblk Hr. induction H3; intros rblk Hr; inversion Hr; subst;
        constructor; auto.
      replace (S (i + length pre)) with (length pre + S i) by lia.
      eapply H0; eauto. apply map_opt_Forall2. assumption. }
    apply den_branch with (blk := rblk); auto; try lia.
    + rewrite nth_error_app2 by lia.
      replace (i + length pre - length pre) with i by lia.
      apply nth_error_app_l. assumption.
    + apply Forall2_length' in Hr. lia.
Qed.

(* ---------------- den versus the executable abs ------------------- *)

Lemma abs_cell_den : forall cs vs lb c a,
  den cs vs lb c a ->
  forall fuel, length cs - lb < fuel \/ (length cs <= lb /\ 0 < fuel) ->
  abs_cell nverts fuel cs vs c = Some a.
Proof.
  intros cs vs lb c a D. induction D using den_ind'; intros fuel Hf;
    (destruct fuel as [|f]; [lia|]); simpl; auto.
  - destruct (Nat.leb_spec (v + nverts m) (length vs)); try lia. reflexivity.
  - pose proof (nth_error_Some_lt _ _ H0) as Hlt.
    rewrite H0. rewrite H1. simpl.
    assert (E : map_opt (abs_cell nverts f cs vs) blk = Some ch).
    { apply map_opt_Forall2. eapply Forall2_impl; [|exact H3].
      simpl. intros x y Hxy. apply Hxy.
      destruct (Nat.le_gt_cases (length cs) (S i)).
      - right. split; auto. lia.
      - left. lia. }
    rewrite E. reflexivity.
Qed.

Lemma abs_cell_den0 : forall cs vs c a,
  den cs vs 0 c a -> abs_cell nverts (S (length cs)) cs vs c = Some a.
Proof. intros. eapply abs_cell_den; eauto. left. lia. Qed.

End Den.

(* ------------------------------------------------------------------ *)
(* Pure denotation of `recurse`, and the spec of check_done / recurse *)
(* ------------------------------------------------------------------ *)

Definition wfblk (blk : list cell) : Prop :=
  length blk = 8 /\ Forall (fun c => c <> Invalid) blk.

Definition anyc (canc : nat -> bool) (k n : nat) : bool := existsb canc (seq k n).

Lemma anyc_app : forall canc k a b,
  anyc canc k (a + b) = anyc canc k a || anyc canc (k + a) b.
Proof. intros. unfold anyc. rewrite seq_app, existsb_app. reflexivity. Qed.

Lemma anyc_S : forall canc k n, anyc canc k (S n) = canc k || anyc canc (S k) n.
Proof. reflexivity. Qed.

Lemma anyc_true_iff : forall canc k n,
  anyc canc k n = true <-> exists j, j < n /\ canc (k + j) = true.
Proof.
  intros. unfold anyc. rewrite existsb_exists. split.
  - intros (x & Hin & Hx). apply in_seq in Hin. exists (x - k). split. lia.
    replace (k + (x - k)) with x by lia. assumption.
  - intros (j & Hj & Hc). exists (k + j). split; auto. apply in_seq. lia.
Qed.

Section Sound.

Variable vertex : Type.
Variable herm : Type.
Variable tape : Type.
Variable hdef : herm.
Variable root_tape : tape.
Variable max_depth : nat.
Variable interval : tape -> path -> ires tape.
Variable leaf_eval : tape -> path -> herm -> lres vertex herm.
Variable collapsible : list ckind -> option nat.
Variable hmerge : list herm -> option herm.
Variable hsolve : path -> nat -> herm -> option (herm * list vertex).
Variable nverts : nat -> nat.

(* a leaf owns exactly `nverts mask` vertices (MDC tables) *)
Hypothesis leaf_len : forall t p h m vs h',
  leaf_eval t p h = LLeaf m vs h' -> length vs = nverts m.
Hypothesis solve_len : forall p m h h2 vs,
  hsolve p m h = Some (h2, vs) -> length vs = nverts m.

Notation octree := (octree vertex).
Notation atree := (atree vertex).
Notation den := (@den vertex nverts).
Notation check_done := (check_done collapsible hmerge hsolve).
Notation rec := (rec hdef interval leaf_eval collapsible hmerge hsolve).

(* abstract check_done *)
Definition combine (p : path) (ch : list atree) (hs : list herm) (h : herm)
  : atree * herm :=
  match scan (map (@akind vertex) ch) 0 0 with
  | SPanic => (ABranch ch, h)
  | SBranch => (ABranch ch, h)
  | SCounts f e =>
      if f =? 8 then (AFull, h)
      else if e =? 8 then (AEmpty, h)
      else match collapsible (map (@akind vertex) ch) with
           | None => (ABranch ch, h)
           | Some mask =>
               match hmerge hs with
               | None => (ABranch ch, h)
               | Some hm =>
                   match hsolve p mask hm with
                   | None => (ABranch ch, hm)
                   | Some (h2, vs) => (ALeaf mask vs, h2)
                   end
               end
           end
  end.

(* abstract recurse: the tree a cell denotes and the hermite data passed up *)
Fixpoint T (rem : nat) (t : tape) (p : path) (h : herm) : atree * herm :=
  match interval t p with
  | IFull => (AFull, h)
  | IEmpty => (AEmpty, h)
  | IAmbig sub =>
      match rem with
      | 0 => match leaf_eval sub p h with
             | LEmpty => (AEmpty, h)
             | LFull => (AFull, h)
             | LLeaf m vs h' => (ALeaf m vs, h')
             end
      | S r =>
          let rs := map (fun i => T r sub (p ++ [i]) hdef) (seq 0 8) in
          combine p (map fst rs) (map snd rs) h
      end
  end.

(* number of polls of the cancel token made by an uncancelled recurse *)
Fixpoint NP (rem : nat) (t : tape) (p : path) : nat :=
  S (match interval t p with
     | IAmbig sub =>
         match rem with
         | 0 => 0
         | S r => list_sum (map (fun i => NP r sub (p ++ [i])) (seq 0 8))
         end
     | _ => 0
     end).

Definition slot_ok (cs : list (list cell)) (sl : slot) : Prop :=
  match sl with
  | None => True
  | Some (i, j) => exists blk, nth_error cs i = Some blk /\ j < length blk
  end.

Definition putc (cs : list (list cell)) (sl : slot) (c : cell) : list (list cell) :=
  match sl with
  | None => cs
  | Some (i, j) => upd cs i (upd (nth i cs []) j c)
  end.

Definition newroot (sl : slot) (c : cell) (r : cell) : cell :=
  match sl with None => c | Some _ => r end.

Lemma set_cell_ok : forall (o : octree) sl c,
  slot_ok (cells o) sl ->
  set_cell o sl c = Some (mkOct (newroot sl c (root o)) (putc (cells o) sl c) (verts o)).
Proof.
  intros o [[i j]|] c H; simpl in *; auto.
  destruct H as (blk & Hn & Hj). unfold set_cells. rewrite Hn.
  destruct (Nat.ltb_spec j (length blk)); try lia.
  rewrite (nth_error_nth _ _ [] Hn). reflexivity.
Qed.

Lemma putc_length : forall cs sl c, length (putc cs sl c) = length cs.
Proof. intros cs [[i j]|] c; simpl; auto. apply upd_length. Qed.

Lemma putc_app : forall cs more sl c,
  slot_ok cs sl -> putc (cs ++ more) sl c = putc cs sl c ++ more.
Proof.
  intros cs more [[i j]|] c H; simpl in *; auto.
  destruct H as (blk & Hn & Hj).
  pose proof (nth_error_Some_lt _ _ Hn).
  rewrite upd_app_l by auto. rewrite app_nth1 by auto. reflexivity.
Qed.

(* putc only touches the block of the slot *)
Lemma putc_nth_other : forall cs sl c i,
  (forall b j, sl = Some (b, j) -> b <> i) ->
  nth_error (putc cs sl c) i = nth_error cs i.
Proof.
  intros cs [[b j]|] c i H; simpl; auto.
  apply nth_error_upd_neq. eapply H; eauto.
Qed.

Lemma slot_ok_lt : forall cs b j, slot_ok cs (Some (b, j)) -> b < length cs.
Proof. intros cs b j (blk & Hn & _). eapply nth_error_Some_lt; eauto. Qed.

Lemma den_putc : forall cs vs lb c a sl x,
  den cs vs lb c a ->
  (forall b j, sl = Some (b, j) -> b < lb) ->
  den (putc cs sl x) vs lb c a.
Proof.
  intros. eapply den_frame_nov; eauto. intros.
  rewrite putc_nth_other; auto. intros b j E. specialize (H0 b j E). lia.
Qed.

Lemma scan_counts_all : forall ks f e f' e',
  scan ks f e = SCounts f' e' ->
  Forall (fun k => k <> KBranch /\ k <> KInvalid) ks.
Proof.
  induction ks as [|k ks]; simpl; intros; auto.
  destruct k; try discriminate; constructor; eauto; split; discriminate.
Qed.

Lemma scan_branch_or_counts : forall ks f e,
  Forall (fun k => k <> KInvalid) ks ->
  scan ks f e = SBranch \/ exists f' e', scan ks f e = SCounts f' e'.
Proof.
  induction ks as [|k ks]; simpl; intros; eauto.
  inversion H; subst. destruct k; try congruence; eauto.
Qed.

Lemma drop_block_length_le : forall cs i, length (drop_block cs i) <= length cs.
Proof.
  intros. unfold drop_block. destruct (i =? length cs - 1).
  - rewrite firstn_length. lia.
  - rewrite upd_length. lia.
Qed.

(* spec of check_done on a block whose 8 children are well-formed *)
Lemma check_done_spec : forall (o : octree) p C hd h blk ch,
  nth_error (cells o) C = Some blk ->
  length blk = 8 ->
  Forall2 (den (cells o) (verts o) (S C)) blk ch ->
  exists o' c newv,
    check_done o p C hd h = Ok (o', c, snd (combine p ch hd h)) /\
    root o' = root o /\
    verts o' = verts o ++ newv /\
    ((c = Branch C /\ cells o' = cells o /\ newv = [] /\
      fst (combine p ch hd h) = ABranch ch)
     \/
     (is_branch c = false /\ cells o' = drop_block (cells o) C /\
      Forall (fun x => is_branch x = false) blk /\
      forall cs lb, den cs (verts o') lb c (fst (combine p ch hd h)))).
Proof.
  intros o p C hd h blk ch Hn Hl HF.
  unfold check_done, combine. rewrite Hn.
  pose proof (den_block_erase HF) as HE. rewrite <- HE.
  assert (Hni : Forall (fun k => k <> KInvalid) (map erase blk)).
  { rewrite HE. clear. induction ch; simpl; constructor; auto.
    destruct a; discriminate. }
  destruct (scan_branch_or_counts 0 0 Hni) as [Hs | (f & e & Hs)]; rewrite Hs.
  - exists o, (Branch C), []. simpl. rewrite app_nil_r. intuition.
  - assert (Hnb : Forall (fun x => is_branch x = false) blk).
    { apply scan_counts_all in Hs. clear - Hs.
      induction blk; simpl in *; constructor; inversion Hs; subst; auto.
      destruct a; simpl in *; intuition congruence. }
    destruct (f =? 8).
    { exists (mkOct (root o) (drop_block (cells o) C) (verts o)), Full, [].
      simpl. rewrite app_nil_r. split; auto. split; auto. split; auto.
      right. repeat split; auto. intros; constructor. }
    destruct (e =? 8).
    { exists (mkOct (root o) (drop_block (cells o) C) (verts o)), Empty, [].
      simpl. rewrite app_nil_r. split; auto. split; auto. split; auto.
      right. repeat split; auto. intros; constructor. }
    unfold try_collapse.
    destruct (collapsible (map erase blk)) as [mask|].
    2:{ exists o, (Branch C), []. simpl. rewrite app_nil_r. intuition. }
    destruct (hmerge hd) as [hm|].
    2:{ exists o, (Branch C), []. simpl. rewrite app_nil_r. intuition. }
    destruct (hsolve p mask hm) as [[h2 vs]|] eqn:Hsol.
    2:{ exists o, (Branch C), []. simpl. rewrite app_nil_r. intuition. }
    exists (mkOct (root o) (drop_block (cells o) C) (verts o ++ vs)),
           (Leaf mask (length (verts o))), vs.
    simpl. split; auto. split; auto. split; auto.
    right. repeat split; auto.
    pose proof (solve_len _ _ _ Hsol) as Hlen || pose proof (solve_len Hsol) as Hlen.
    assert (E : vs = firstn (nverts mask) (skipn (length (verts o)) (verts o ++ vs))).
    { rewrite <- (Nat.add_0_r (length (verts o))). rewrite skipn_app_exact.
      simpl. rewrite <- Hlen. rewrite firstn_all. reflexivity. }
    intros cs lb. rewrite E at 2. constructor. rewrite app_length. lia.
Qed.

(* ---------------- spec of recurse --------------------------------- *)

Section RecSpec.
Variable canc : nat -> bool.

Definition nonbranch (c : cell) : Prop := is_branch c = false.

Definition rec_post (rem : nat) (t : tape) (sl : slot) (p : path) (h : herm)
           (o : octree) (k : nat) : Prop :=
  if anyc canc k (NP rem t p) then rec canc rem t sl p h o k = Cancel
  else exists o' c new newv,
      rec canc rem t sl p h o k = Ok (o', k + NP rem t p, snd (T rem t p h)) /\
      root o' = newroot sl c (root o) /\
      cells o' = putc (cells o) sl c ++ new /\
      verts o' = verts o ++ newv /\
      den (cells o') (verts o') (length (cells o)) c (fst (T rem t p h)) /\
      (nonbranch c -> new = []) /\
      Forall wfblk new.

Lemma putc_block : forall pre blk nw a c,
  a < length blk ->
  putc (pre ++ blk :: nw) (Some (length pre, a)) c = pre ++ upd blk a c :: nw.
Proof.
  intros. simpl. rewrite <- (Nat.add_0_r (length pre)) at 1.
  rewrite upd_app_r. simpl. rewrite app_nth2 by lia.
  rewrite Nat.sub_diag. reflexivity.
Qed.

Lemma upd_mid : forall A (l : list A) x r c,
  upd (l ++ x :: r) (length l) c = (l ++ [c]) ++ r.
Proof.
  intros. rewrite <- (Nat.add_0_r (length l)). rewrite upd_app_r. simpl.
  rewrite <- app_assoc. reflexivity.
Qed.

Lemma loop_spec : forall r sub p C,
  (forall sl p h o k, slot_ok (cells o) sl -> rec_post r sub sl p h o k) ->
  forall n a, a + n = 8 ->
  forall (o : octree) k hs pre dn nw cha,
    cells o = pre ++ (dn ++ repeat Invalid n) :: nw ->
    length pre = C -> length dn = a ->
    Forall2 (den (cells o) (verts o) (S C)) dn cha ->
    (Forall nonbranch dn -> nw = []) ->
    Forall wfblk nw ->
    let F := fun i o k => rec canc r sub (Some (C, i)) (p ++ [i]) hdef o k in
    let rs := map (fun i => T r sub (p ++ [i]) hdef) (seq a n) in
    let np := list_sum (map (fun i => NP r sub (p ++ [i])) (seq a n)) in
    if anyc canc k np then loop8 F (seq a n) o k hs = Cancel
    else exists o' dn' nw' nv,
        loop8 F (seq a n) o k hs = Ok (o', k + np, hs ++ map snd rs) /\
        root o' = root o /\
        cells o' = pre ++ (dn ++ dn') :: nw' /\
        verts o' = verts o ++ nv /\
        length dn' = n /\
        Forall2 (den (cells o') (verts o') (S C)) (dn ++ dn') (cha ++ map fst rs) /\
        (Forall nonbranch (dn ++ dn') -> nw' = []) /\
        Forall wfblk nw'.
Proof.
  intros r sub p C Hrec. induction n as [|n IH]; intros a Han o k hs pre dn nw cha
    Hcells Hpre Hdn Hden Hnb Hwf F rs np.
  - simpl in *. exists o, [], nw, []. rewrite !app_nil_r.
    subst rs np. rewrite Nat.add_0_r. rewrite app_nil_r in Hcells.
    repeat split; auto.
  - subst rs np. simpl seq. simpl map. simpl list_sum.
    rewrite anyc_app.
    assert (Hslot : slot_ok (cells o) (Some (C, a))).
    { simpl. exists (dn ++ repeat Invalid (S n)). split.
      - rewrite Hcells. rewrite nth_error_app2 by lia.
        replace (C - length pre) with 0 by lia. reflexivity.
      - rewrite app_length, repeat_length. lia. }
    pose proof (Hrec (Some (C, a)) (p ++ [a]) hdef o k Hslot) as Hp.
    unfold rec_post in Hp.
    destruct (anyc canc k (NP r sub (p ++ [a]))) eqn:Ec.
    + simpl. unfold F at 1. rewrite Hp. reflexivity.
    + simpl orb.
      destruct Hp as (o1 & c & new & newv & Hrun & Hroot & Hc1 & Hv1 & Hd1 & Hnb1 & Hwf1).
      assert (Hc1' : cells o1 = pre ++ ((dn ++ [c]) ++ repeat Invalid n) :: (nw ++ new)).
      { rewrite Hc1, Hcells. rewrite <- Hpre. rewrite putc_block.
        - simpl repeat. rewrite <- Hdn. rewrite upd_mid.
          rewrite <- app_assoc. simpl. reflexivity.
        - rewrite app_length, repeat_length. lia. }
      assert (Hlen1 : S C <= length (cells o)).
      { rewrite Hcells, app_length. simpl. lia. }
      assert (Hden1 : Forall2 (den (cells o1) (verts o1) (S C)) (dn ++ [c])
                        (cha ++ [fst (T r sub (p ++ [a]) hdef)])).
      { apply Forall2_app_inv.
        - rewrite Hv1. eapply den_block_frame; eauto.
          intros i b Hi Hb. rewrite Hc1. apply nth_error_app_l.
          rewrite putc_nth_other; auto. intros b0 j E. inversion E; subst. lia.
        - constructor; [|constructor]. eapply den_weaken; eauto. }
      specialize (IH (S a) ltac:(lia) o1 (k + NP r sub (p ++ [a]))
                     (hs ++ [snd (T r sub (p ++ [a]) hdef)]) pre (dn ++ [c])
                     (nw ++ new) (cha ++ [fst (T r sub (p ++ [a]) hdef)])
                     Hc1' Hpre).
      assert (Hl : length (dn ++ [c]) = S a) by (rewrite app_length; simpl; lia).
      specialize (IH Hl Hden1).
      assert (Hnb2 : Forall nonbranch (dn ++ [c]) -> nw ++ new = []).
      { intros Hall. apply Forall_app in Hall. destruct Hall as [Ha Hb].
        inversion Hb; subst. rewrite Hnb by auto. rewrite Hnb1 by auto. reflexivity. }
      assert (Hwf2 : Forall wfblk (nw ++ new)) by (apply Forall_app; auto).
      specialize (IH Hnb2 Hwf2). simpl in IH.
      cbn [loop8].
      change (F a o k) with (rec canc r sub (Some (C, a)) (p ++ [a]) hdef o k).
      rewrite Hrun. cbn [bind].
      destruct (anyc canc (k + NP r sub (p ++ [a]))
                  (list_sum (map (fun i => NP r sub (p ++ [i])) (seq (S a) n)))).
      * exact IH.
      * destruct IH as (o' & dn' & nw' & nv & Hrun' & Hr' & Hc' & Hv' & Hl' & Hd' & Hnb' & Hwf').
        exists o', (c :: dn'), nw', (newv ++ nv).
        unfold F. rewrite Hrun'. repeat split.
        -- f_equal. f_equal. f_equal. lia. rewrite <- app_assoc. reflexivity.
        -- rewrite Hr', Hroot. reflexivity.
        -- rewrite Hc'. rewrite <- app_assoc. reflexivity.
        -- rewrite Hv', Hv1. rewrite app_assoc. reflexivity.
        -- simpl. lia.
        -- rewrite <- app_assoc in Hd'. simpl in Hd'.
           rewrite <- app_assoc in Hd'. exact Hd'.
        -- intros Hall. apply Hnb'. rewrite <- app_assoc. exact Hall.
        -- exact Hwf'.
Qed.

Lemma slot_ok_app : forall cs more sl, slot_ok cs sl -> slot_ok (cs ++ more) sl.
Proof.
  intros cs more [[b j]|] H; simpl in *; auto.
  destruct H as (blk & Hn & Hj). exists blk. split; auto.
  apply nth_error_app_l; auto.
Qed.

(* writing a non-branch result *)
Lemma post_simple : forall (o : octree) sl c newv a (k' : nat) (hh : herm),
  slot_ok (cells o) sl -> nonbranch c ->
  (forall cs lb, den cs (verts o ++ newv) lb c a) ->
  exists o' c0 new newv0,
    (let* o' := of_opt (set_cell (mkOct (root o) (cells o) (verts o ++ newv)) sl c) in
     Ok (o', k', hh)) = Ok (o', k', hh) /\
    root o' = newroot sl c0 (root o) /\
    cells o' = putc (cells o) sl c0 ++ new /\
    verts o' = verts o ++ newv0 /\
    den (cells o') (verts o') (length (cells o)) c0 a /\
    (nonbranch c0 -> new = []) /\ Forall wfblk new.
Proof.
  intros o sl c newv a k' hh Hs Hnb Hd.
  rewrite set_cell_ok by exact Hs. simpl.
  eexists; exists c, [], newv. split; [reflexivity|]. simpl.
  rewrite app_nil_r. repeat split; auto.
Qed.

Lemma post_simple0 : forall (o : octree) sl c a (k' : nat) (hh : herm),
  slot_ok (cells o) sl -> nonbranch c ->
  (forall cs lb, den cs (verts o) lb c a) ->
  exists o' c0 new newv0,
    (let* o' := of_opt (set_cell o sl c) in
     Ok (o', k', hh)) = Ok (o', k', hh) /\
    root o' = newroot sl c0 (root o) /\
    cells o' = putc (cells o) sl c0 ++ new /\
    verts o' = verts o ++ newv0 /\
    den (cells o') (verts o') (length (cells o)) c0 a /\
    (nonbranch c0 -> new = []) /\ Forall wfblk new.
Proof.
  intros o sl c a k' hh Hs Hnb Hd.
  rewrite set_cell_ok by exact Hs. simpl.
  eexists; exists c, [], []. split; [reflexivity|]. simpl.
  rewrite !app_nil_r. repeat split; auto.
Qed.

Theorem rec_spec : forall rem t sl p h (o : octree) k,
  slot_ok (cells o) sl -> rec_post rem t sl p h o k.
Proof.
  induction rem as [|rem IH]; intros t sl p h o k Hs; unfold rec_post.
  - cbn [NP T rec]. rewrite anyc_S.
    destruct (canc k); [reflexivity|]. cbn [orb].
    destruct (interval t p) as [| |sub] eqn:Ei.
    + replace (k + 1) with (S k) by lia. simpl anyc.
      apply post_simple0; auto. reflexivity.
      intros; constructor.
    + replace (k + 1) with (S k) by lia. simpl anyc.
      apply post_simple0; auto. reflexivity.
      intros; constructor.
    + replace (k + 1) with (S k) by lia. simpl anyc.
      destruct (leaf_eval sub p h) as [| |m vs h'] eqn:El.
      * apply post_simple0; auto. reflexivity.
        intros; constructor.
      * apply post_simple0; auto. reflexivity.
        intros; constructor.
      * apply post_simple; auto. reflexivity.
        intros cs lb. pose proof (leaf_len El) as Hlen.
        assert (E : vs = firstn (nverts m) (skipn (length (verts o)) (verts o ++ vs))).
        { rewrite <- (Nat.add_0_r (length (verts o))). rewrite skipn_app_exact.
          simpl. rewrite <- Hlen. rewrite firstn_all. reflexivity. }
        rewrite E at 2. constructor. rewrite app_length. lia.
  - cbn [NP T rec]. rewrite anyc_S.
    destruct (canc k); [reflexivity|]. cbn [orb].
    destruct (interval t p) as [| |sub] eqn:Ei.
    + replace (k + 1) with (S k) by lia. simpl anyc.
      apply post_simple0; auto. reflexivity.
      intros; constructor.
    + replace (k + 1) with (S k) by lia. simpl anyc.
      apply post_simple0; auto. reflexivity.
      intros; constructor.
    + set (C := length (cells o)).
      set (o1 := mkOct (root o) (cells o ++ [invalid_block]) (verts o)).
      pose proof (@loop_spec rem sub p C (fun sl p h o k H => IH sub sl p h o k H)
                    8 0 eq_refl o1 (S k) [] (cells o) [] [] []) as HL.
      simpl app in HL. specialize (HL eq_refl eq_refl eq_refl).
      specialize (HL (Forall2_nil _) (fun _ => eq_refl) (Forall_nil _)).
      cbv zeta in HL.
      destruct (anyc canc (S k)
                  (list_sum (map (fun i => NP rem sub (p ++ [i])) (seq 0 8)))) eqn:Ec.
      * fold C. fold o1. rewrite HL. reflexivity.
      * destruct HL as (o2 & dn' & nw' & nv & Hrun & Hr2 & Hc2 & Hv2 & Hl2 & Hd2 & Hnb2 & Hwf2).
        fold C. fold o1. rewrite Hrun. cbn [bind].
        simpl app in *.
        assert (Hn2 : nth_error (cells o2) C = Some dn').
        { rewrite Hc2. rewrite nth_error_app2 by (unfold C; lia).
          unfold C. rewrite Nat.sub_diag. reflexivity. }
        remember (map (fun i => T rem sub (p ++ [i]) hdef) (seq 0 8)) as rs eqn:Hrs.
        destruct (@check_done_spec o2 p C (map snd rs) h dn' (map fst rs) Hn2 Hl2 Hd2)
          as (o3 & c & newv & Hcd & Hr3 & Hv3 & Hcase).
        rewrite Hcd. cbn [bind].
        assert (Hs3 : slot_ok (cells o) sl) by exact Hs.
        destruct Hcase as [(Ec3 & Hc3 & Hnv & Hfst) | (Hnb3 & Hc3 & Hall & Hd3)].
        -- (* stays a Branch *)
           assert (Hs' : slot_ok (cells o3) sl).
           { rewrite Hc3, Hc2. apply slot_ok_app. exact Hs. }
           rewrite set_cell_ok by exact Hs'. simpl.
           eexists; exists c, (dn' :: nw'), nv. split.
           { f_equal. f_equal. f_equal. lia. }
           simpl. rewrite Hc3, Hc2, Hr3, Hr2, Hv3, Hv2, Hnv.
           rewrite putc_app by exact Hs. rewrite app_nil_r.
           simpl root. simpl verts.
           repeat split; auto.
           ++ rewrite Hfst. subst c.
              apply den_branch with (blk := dn'); auto.
              ** rewrite nth_error_app2 by (rewrite putc_length; unfold C; lia).
                 rewrite putc_length. unfold C. rewrite Nat.sub_diag. reflexivity.
              ** rewrite <- putc_app by exact Hs.
                 eapply Forall2_impl; [|exact Hd2].
                 intros x y Hxy. rewrite Hc2, Hv2 in Hxy. simpl in Hxy.
                 apply den_putc; auto.
                 intros b j E. subst sl. apply slot_ok_lt in Hs. unfold C. lia.
           ++ intros Hc. subst c. discriminate.
           ++ constructor; auto. split; auto.
              clear - Hd2. induction Hd2; constructor; auto.
              eapply den_not_invalid; eauto.
        -- (* collapsed: the block is last, so it is truncated *)
           assert (Hnw : nw' = []).
           { apply Hnb2. exact Hall. }
           assert (Hc3' : cells o3 = cells o).
           { rewrite Hc3, Hc2, Hnw. unfold drop_block.
             rewrite app_length. simpl length.
             replace (length (cells o) + 1 - 1) with C by (unfold C; lia).
             rewrite Nat.eqb_refl. unfold C. rewrite firstn_app.
             rewrite Nat.sub_diag. simpl. rewrite firstn_all. apply app_nil_r. }
           assert (Hs' : slot_ok (cells o3) sl) by (rewrite Hc3'; exact Hs).
           rewrite set_cell_ok by exact Hs'. simpl.
           eexists; exists c, [], (nv ++ newv). split.
           { f_equal. f_equal. f_equal. lia. }
           simpl. rewrite Hc3', Hr3, Hr2, Hv3, Hv2. simpl root. simpl verts.
           rewrite app_nil_r, app_assoc.
           repeat split; auto.
           rewrite Hv3, Hv2 in Hd3. simpl in Hd3. apply Hd3.
Qed.

End RecSpec.

(* ---------------- single-threaded build --------------------------- *)

Notation build_st := (build_st hdef root_tape max_depth interval leaf_eval
                                collapsible hmerge hsolve).
Notation abs := (abs nverts).

Definition T_st : atree := fst (T max_depth root_tape [] hdef).
Definition NP_st : nat := NP max_depth root_tape [].

Definition wf_octree (o : octree) (a : atree) : Prop :=
  den (cells o) (verts o) 0 (root o) a.

Theorem build_st_spec : forall canc,
  if anyc canc 0 NP_st then build_st canc = Cancel
  else exists o, build_st canc = Ok o /\
                 wf_octree o T_st /\
                 Forall wfblk (cells o).
Proof.
  intros canc. unfold build_st.
  pose proof (@rec_spec canc max_depth root_tape None [] hdef (oct_new vertex) 0 I) as H.
  unfold rec_post in H. fold NP_st in H.
  destruct (anyc canc 0 NP_st).
  - rewrite H. reflexivity.
  - destruct H as (o' & c & new & newv & Hrun & Hr & Hc & Hv & Hd & _ & Hwf).
    rewrite Hrun. simpl. exists o'. split; auto. simpl in *.
    split.
    + unfold wf_octree, T_st. rewrite Hr. exact Hd.
    + rewrite Hc. exact Hwf.
Qed.

Lemma wf_abs : forall o a, wf_octree o a -> abs o = Some a.
Proof. intros. unfold abs. apply abs_cell_den0. exact H. Qed.

(* ---------------- breadth-first numbering of cells ---------------- *)
(* cell 0 is the root; the children of cell n are 8n+1 .. 8n+8.  The
   expansion loop of build_inner_mt expands cells 0, 1, 2, ... in this
   order, and the block reserved for cell n is block n.               *)

Local Arguments Nat.div : simpl never.
Local Arguments Nat.modulo : simpl never.

Fixpoint path_of_f (f n : nat) : path :=
  match f with
  | 0 => []
  | S f' => match n with
            | 0 => []
            | S m => path_of_f f' (m / 8) ++ [m mod 8]
            end
  end.
Definition path_of (n : nat) : path := path_of_f n n.

Lemma div8_le : forall m, m / 8 <= m.
Proof. intros. apply Nat.div_le_upper_bound; lia. Qed.

Lemma path_of_f_enough : forall f f' n, n <= f -> n <= f' ->
  path_of_f f n = path_of_f f' n.
Proof.
  induction f; intros f' n H H'.
  - assert (n = 0) by lia. subst. destruct f'; reflexivity.
  - destruct n; [destruct f'; reflexivity|].
    destruct f'; [lia|]. simpl. f_equal.
    pose proof (div8_le n). apply IHf; lia.
Qed.

Lemma path_of_S : forall m, path_of (S m) = path_of (m / 8) ++ [m mod 8].
Proof.
  intros. unfold path_of. simpl. f_equal.
  pose proof (div8_le m). apply path_of_f_enough; lia.
Qed.

Lemma div_mod_8 : forall k i, i < 8 -> (8 * k + i) / 8 = k /\ (8 * k + i) mod 8 = i.
Proof.
  intros. split.
  - symmetry. apply (Nat.div_unique _ 8 k i); lia.
  - symmetry. apply (Nat.mod_unique _ 8 k i); lia.
Qed.

Lemma path_of_child : forall k i, i < 8 -> path_of (8 * k + 1 + i) = path_of k ++ [i].
Proof.
  intros. replace (8 * k + 1 + i) with (S (8 * k + i)) by lia.
  rewrite path_of_S. destruct (div_mod_8 k H) as [-> ->]. reflexivity.
Qed.

Definition slot_of (n : nat) : slot :=
  match n with 0 => None | S m => Some (m / 8, m mod 8) end.

Definition mkcell (n : nat) : cidx := mkCI (slot_of n) (path_of n).

Lemma child_mkcell : forall k i, i < 8 ->
  ci_child (mkcell k) k i = mkcell (8 * k + 1 + i).
Proof.
  intros. unfold ci_child, mkcell. simpl ci_path.
  rewrite path_of_child by auto. f_equal.
  replace (8 * k + 1 + i) with (S (8 * k + i)) by lia. cbn [slot_of].
  destruct (div_mod_8 k H) as [-> ->]. reflexivity.
Qed.

Lemma slot_of_child : forall k i, i < 8 -> slot_of (8 * k + 1 + i) = Some (k, i).
Proof.
  intros. replace (8 * k + 1 + i) with (S (8 * k + i)) by lia. cbn [slot_of].
  destruct (div_mod_8 k H) as [-> ->]. reflexivity.
Qed.

(* every m >= 1 is the child (m-1) mod 8 of cell (m-1)/8 *)
Lemma child_decomp : forall m, 1 <= m ->
  exists b i, i < 8 /\ m = 8 * b + 1 + i /\ b = (m - 1) / 8.
Proof.
  intros. exists ((m - 1) / 8), ((m - 1) mod 8).
  pose proof (Nat.div_mod (m - 1) 8 ltac:(lia)).
  pose proof (Nat.mod_upper_bound (m - 1) 8 ltac:(lia)). lia.
Qed.

(* state of the expansion loop after k iterations *)
Definition stK (k : nat) : exp_state herm :=
  mkExp (map mkcell (seq k (7 * k + 1)))
        (repeat invalid_block k)
        (repeat (repeat hdef 8) k)
        (map (fun n => (mkcell n, n)) (seq 0 k)).

Lemma repeat_snoc : forall A (x : A) k, repeat x k ++ [x] = repeat x (S k).
Proof. intros. rewrite <- repeat_cons. reflexivity. Qed.

Lemma stK_step : forall k,
  match todo (stK k) with
  | [] => False
  | next :: rest =>
      mkExp (rest ++ map (ci_child next (length (xcells (stK k)))) (seq 0 8))
            (xcells (stK k) ++ [invalid_block])
            (xherm (stK k) ++ [repeat hdef 8])
            (fixup (stK k) ++ [(next, length (xcells (stK k)))]) = stK (S k)
  end.
Proof.
  intros. unfold stK. cbn [todo xcells xherm fixup].
  replace (7 * k + 1) with (S (7 * k)) by lia. cbn [seq map].
  rewrite repeat_length. rewrite !repeat_snoc.
  f_equal.
  - replace (7 * S k + 1) with (7 * k + 8) by lia.
    rewrite seq_app, map_app. f_equal.
    replace (S k + 7 * k) with (8 * k + 1) by lia.
    cbn [seq map].
    rewrite !child_mkcell by lia.
    repeat (f_equal; try lia).
  - change ((mkcell 0, 0) :: map (fun n => (mkcell n, n)) (seq 1 k))
      with (map (fun n => (mkcell n, n)) (seq 0 (S k))).
    rewrite seq_S, map_app. reflexivity.
Qed.

Lemma expand_spec : forall fuel target k,
  target <= fuel + k ->
  exists K, expand hdef fuel target (stK k) = Some (stK K) /\
            k <= K /\ target <= 7 * K + 1 /\
            (K = k \/ 7 * (K - 1) + 1 < target).
Proof.
  induction fuel; intros target k Hf.
  - cbn [expand]. assert (Hl : length (todo (stK k)) = 7 * k + 1).
    { unfold stK; simpl. rewrite map_length, seq_length. reflexivity. }
    rewrite Hl. destruct (Nat.ltb_spec (7 * k + 1) target); try lia.
    exists k. repeat split; auto; lia.
  - cbn [expand].
    assert (Hl : length (todo (stK k)) = 7 * k + 1).
    { unfold stK; simpl. rewrite map_length, seq_length. reflexivity. }
    rewrite Hl. destruct (Nat.ltb_spec (7 * k + 1) target).
    + pose proof (stK_step k) as Hs.
      destruct (todo (stK k)) as [|next rest]; [contradiction|].
      rewrite Hs.
      destruct (IHfuel target (S k) ltac:(lia)) as (K & HK & Hle & Ht & Hor).
      exists K. split; auto. split; [lia|]. split; auto.
      right. destruct Hor as [-> | ?]; auto.
      replace (S k - 1) with k by lia. lia.
    + exists k. repeat split; auto; lia.
Qed.

Lemma exp_init_stK : exp_init herm = stK 0.
Proof. reflexivity. Qed.

(* number of cells of depth < L *)
Fixpoint gcount (L : nat) : nat :=
  match L with 0 => 0 | S L' => 8 * gcount L' + 1 end.

Lemma pow8_gcount : forall L, 8 ^ L = 7 * gcount L + 1.
Proof. induction L; simpl gcount; [reflexivity|]. rewrite Nat.pow_succ_r'. lia. Qed.

Lemma path_of_length : forall L n, n < gcount (S L) -> length (path_of n) <= L.
Proof.
  induction L; intros n H.
  - simpl in H. assert (n = 0) by lia. subst. simpl. lia.
  - destruct n; [simpl; lia|].
    rewrite path_of_S. rewrite app_length. simpl.
    assert (n / 8 < gcount (S L)).
    { apply Nat.div_lt_upper_bound; try lia.
      change (gcount (S (S L))) with (8 * gcount (S L) + 1) in H. lia. }
    specialize (IHL _ H0). lia.
Qed.

(* ---------------- the tasks --------------------------------------- *)

Notation run_task := (run_task hdef root_tape max_depth interval leaf_eval
                                collapsible hmerge hsolve).
Notation run_tasks := (run_tasks hdef root_tape max_depth interval leaf_eval
                                 collapsible hmerge hsolve).
Notation output := (output vertex herm).

(* what task `n` (the cell with breadth-first number n) denotes *)
Definition Tn (n : nat) : atree * herm :=
  T (max_depth - length (path_of n)) root_tape (path_of n) hdef.
Definition NPn (n : nat) : nat :=
  NP (max_depth - length (path_of n)) root_tape (path_of n).

Record good_out (n : nat) (out : output) : Prop := {
  go_cell : o_cell out = mkcell n;
  go_herm : o_herm out = snd (Tn n);
  go_den : den (cells (o_oct out)) (verts (o_oct out)) 0 (root (o_oct out)) (fst (Tn n));
  go_wf : Forall wfblk (cells (o_oct out))
}.

Fixpoint tasks_cancel (cmt : nat -> nat -> bool) (i : nat) (ns : list nat) : bool :=
  match ns with
  | [] => false
  | n :: r => anyc (cmt i) 0 (NPn n) || tasks_cancel cmt (S i) r
  end.

Lemma run_task_spec : forall canc n,
  if anyc canc 0 (NPn n) then run_task canc (mkcell n) = Cancel
  else exists out, run_task canc (mkcell n) = Ok out /\ good_out n out.
Proof.
  intros. unfold run_task. cbn [mkcell ci_path].
  pose proof (@rec_spec canc (max_depth - length (path_of n)) root_tape None
                (path_of n) hdef (oct_new vertex) 0 I) as H.
  unfold rec_post in H. fold (NPn n) in H. fold (Tn n) in H.
  destruct (anyc canc 0 (NPn n)).
  - rewrite H. reflexivity.
  - destruct H as (o' & c & new & newv & Hrun & Hr & Hc & Hv & Hd & _ & Hwf).
    rewrite Hrun. cbn [bind]. eexists. split; [reflexivity|].
    simpl in Hr, Hc, Hv.
    constructor; cbn [o_cell o_oct o_herm]; auto.
    + rewrite Hr. exact Hd.
    + rewrite Hc. exact Hwf.
Qed.

Lemma run_tasks_spec : forall ns cmt i,
  if tasks_cancel cmt i ns then run_tasks cmt i (map mkcell ns) = Cancel
  else exists outs, run_tasks cmt i (map mkcell ns) = Ok outs /\
                    Forall2 good_out ns outs.
Proof.
  induction ns as [|n ns IH]; intros cmt i.
  - simpl. eexists; split; [reflexivity|constructor].
  - cbn [tasks_cancel map run_tasks].
    pose proof (run_task_spec (cmt i) n) as H1.
    destruct (anyc (cmt i) 0 (NPn n)).
    + rewrite H1. reflexivity.
    + destruct H1 as (out & -> & Hg). cbn [bind orb].
      specialize (IH cmt (S i)).
      destruct (tasks_cancel cmt (S i) ns).
      * rewrite IH. reflexivity.
      * destruct IH as (outs & -> & HF). cbn [bind].
        eexists; split; [reflexivity|]. constructor; auto.
Qed.

(* ---------------- two-dimensional arrays -------------------------- *)

Definition get2 {A} (ll : list (list A)) (sl : slot) : option A :=
  match sl with
  | Some (i, j) => match nth_error ll i with
                   | Some l => nth_error l j
                   | None => None
                   end
  | None => None
  end.

Definition rows8 {A} (ll : list (list A)) (K : nat) : Prop :=
  forall b, b < K -> exists l, nth_error ll b = Some l /\ length l = 8.

Definition slot_eqb (s1 s2 : slot) : bool :=
  match s1, s2 with
  | Some (i, j), Some (i', j') => (i =? i') && (j =? j')
  | _, _ => false
  end.

Lemma get2_upd : forall A (ll : list (list A)) i j l a sl,
  nth_error ll i = Some l -> j < length l ->
  get2 (upd ll i (upd l j a)) sl =
  if slot_eqb (Some (i, j)) sl then Some a else get2 ll sl.
Proof.
  intros A ll i j l a [[i' j']|] Hn Hj; simpl; auto.
  pose proof (nth_error_Some_lt _ _ Hn) as Hi.
  destruct (Nat.eqb_spec i i').
  - subst i'. rewrite nth_error_upd_eq by auto. rewrite Hn.
    destruct (Nat.eqb_spec j j'); simpl.
    + subst. apply nth_error_upd_eq; auto.
    + apply nth_error_upd_neq; auto.
  - simpl. rewrite nth_error_upd_neq by auto. reflexivity.
Qed.

Lemma rows8_upd : forall A (ll : list (list A)) K i j l a,
  rows8 ll K -> nth_error ll i = Some l ->
  rows8 (upd ll i (upd l j a)) K.
Proof.
  intros A ll K i j l a H Hn b Hb.
  pose proof (nth_error_Some_lt _ _ Hn) as Hi.
  destruct (H b Hb) as (l' & Hl' & Hlen).
  destruct (Nat.eq_dec i b).
  - subst b. rewrite nth_error_upd_eq by auto. eexists; split; eauto.
    rewrite upd_length. congruence.
  - rewrite nth_error_upd_neq by auto. eauto.
Qed.

Lemma slot_of_range : forall K m, 1 <= m <= 8 * K ->
  exists b i, slot_of m = Some (b, i) /\ b < K /\ i < 8 /\ m = 8 * b + 1 + i.
Proof.
  intros K m H. destruct (@child_decomp m ltac:(lia)) as (b & i & Hi & Hm & Hb).
  exists b, i. subst m. rewrite slot_of_child by auto. repeat split; auto. lia.
Qed.

Lemma slot_of_inj : forall m m', 1 <= m -> 1 <= m' -> slot_of m = slot_of m' -> m = m'.
Proof.
  intros m m' H H' E.
  destruct (child_decomp H) as (b & i & Hi & Hm & _).
  destruct (child_decomp H') as (b' & i' & Hi' & Hm' & _).
  subst m m'. rewrite !slot_of_child in E by auto. inversion E; subst. reflexivity.
Qed.

Lemma slot_eqb_of : forall m m', 1 <= m -> 1 <= m' ->
  slot_eqb (slot_of m) (slot_of m') = (m =? m').
Proof.
  intros m m' H H'.
  destruct (child_decomp H) as (b & i & Hi & Hm & _).
  destruct (child_decomp H') as (b' & i' & Hi' & Hm' & _).
  subst m m'. rewrite !slot_of_child by auto. cbn [slot_eqb].
  destruct (Nat.eqb_spec b b'); destruct (Nat.eqb_spec i i'); cbn [andb];
    destruct (Nat.eqb_spec (8 * b + 1 + i) (8 * b' + 1 + i')); auto; lia.
Qed.

(* ---------------- offsets loop ------------------------------------ *)

Fixpoint cumsum (b : nat) (l : list nat) : list nat :=
  match l with
  | [] => [b]
  | x :: r => b :: cumsum (b + x) r
  end.

Definition lc (out : output) : nat := length (cells (o_oct out)).
Definition lv (out : output) : nat := length (verts (o_oct out)).

Lemma last_snoc : forall A (l : list A) x d, last (l ++ [x]) d = x.
Proof. intros. apply last_last. Qed.

Lemma offsets_spec : forall K ns outs,
  Forall2 good_out ns outs ->
  (forall n, In n ns -> 1 <= n <= 8 * K) ->
  forall hm cpre b vpre v,
    rows8 hm K ->
    exists hm',
      offsets outs hm (cpre ++ [b]) (vpre ++ [v]) =
        Ok (hm', cpre ++ cumsum b (map lc outs), vpre ++ cumsum v (map lv outs)) /\
      rows8 hm' K /\
      forall m, 1 <= m <= 8 * K ->
        get2 hm' (slot_of m) =
        if existsb (Nat.eqb m) ns then Some (snd (Tn m)) else get2 hm (slot_of m).
Proof.
  induction 1 as [|n out ns outs Hg HF IH]; intros Hr hm cpre b vpre v Hrows.
  - simpl. eexists. split; [reflexivity|]. split; auto.
  - cbn [offsets].
    destruct (@slot_of_range K n (Hr n (in_eq n ns))) as (bb & i & Hsl & Hb & Hi & Hn).
    rewrite (go_cell Hg). cbn [mkcell ci_slot]. rewrite Hsl. cbn [of_opt bind].
    destruct (Hrows bb Hb) as (row & Hrow & Hlen).
    unfold upd2. rewrite Hrow.
    destruct (Nat.ltb_spec i (length row)); [|lia].
    cbn [of_opt bind]. rewrite !last_snoc.
    specialize (IH (fun n' Hin => Hr n' (in_cons n n' ns Hin))
                   (upd hm bb (upd row i (o_herm out)))
                   (cpre ++ [b]) (b + lc out) (vpre ++ [v]) (v + lv out)
                   (@rows8_upd _ hm K bb i row (o_herm out) Hrows Hrow)).
    destruct IH as (hm' & Hrun & Hrows' & Hget).
    exists hm'. fold (lc out). fold (lv out). rewrite Hrun.
    split. { cbn [map cumsum]. rewrite <- !app_assoc. reflexivity. }
    split; auto.
    intros m Hm. rewrite Hget by auto. cbn [existsb].
    destruct (existsb (Nat.eqb m) ns) eqn:Ein.
    + rewrite orb_true_r. reflexivity.
    + rewrite orb_false_r.
      rewrite (@get2_upd _ hm bb i row (o_herm out) (slot_of m) Hrow ltac:(lia)).
      rewrite <- Hsl.
      rewrite slot_eqb_of by lia. rewrite Nat.eqb_sym.
      destruct (Nat.eqb_spec m n); auto. subst m. rewrite (go_herm Hg). reflexivity.
Qed.

(* ---------------- merge loop -------------------------------------- *)

Notation merge := (@merge vertex herm).

Lemma remap_cell_total : forall coff voff c, c <> Invalid ->
  exists c', remap_cell coff voff c = Some c' /\ c' <> Invalid.
Proof.
  intros coff voff [] H; simpl; try congruence; eexists; split; eauto; discriminate.
Qed.

Lemma remap_block_total : forall coff voff blk, wfblk blk ->
  exists blk', map_opt (remap_cell coff voff) blk = Some blk' /\ wfblk blk'.
Proof.
  intros coff voff blk [Hl Hf].
  assert (exists blk', map_opt (remap_cell coff voff) blk = Some blk' /\
                       length blk' = length blk /\
                       Forall (fun c => c <> Invalid) blk').
  { clear Hl. induction Hf as [|c blk Hc Hf IH]; simpl.
    - eexists; split; [reflexivity|]. split; auto.
    - destruct (remap_cell_total coff voff Hc) as (c' & -> & Hc').
      destruct IH as (blk' & -> & Hl' & Hf').
      eexists; split; [reflexivity|]. split; simpl; auto. }
  destruct H as (blk' & E & Hl' & Hf'). exists blk'. split; auto.
  split; auto. lia.
Qed.

Lemma remap_blocks_total : forall coff voff cs, Forall wfblk cs ->
  exists cs', map_opt (map_opt (remap_cell coff voff)) cs = Some cs' /\
              length cs' = length cs /\ Forall wfblk cs'.
Proof.
  induction 1 as [|blk cs Hb Hf IH]; simpl.
  - eexists; split; [reflexivity|]. split; auto.
  - destruct (remap_block_total coff voff Hb) as (blk' & -> & Hb').
    destruct IH as (cs' & -> & Hl & Hf').
    eexists; split; [reflexivity|]. split; simpl; auto.
Qed.

(* state of the root octree while merging: `done` lists the tasks whose
   octrees have been appended                                          *)
Record merge_inv (K : nat) (done : list nat) (r : octree) : Prop := {
  mi_rows : rows8 (cells r) K;
  mi_done : forall n, In n done ->
      exists c, get2 (cells r) (slot_of n) = Some c /\
                den (cells r) (verts r) K c (fst (Tn n));
  mi_wf : forall i blk, K <= i -> nth_error (cells r) i = Some blk -> wfblk blk
}.

Lemma rows8_length : forall A (ll : list (list A)) K, rows8 ll K -> K <= length ll.
Proof.
  intros. destruct K; [lia|]. destruct (H K ltac:(lia)) as (l & Hn & _).
  apply nth_error_Some_lt in Hn. lia.
Qed.

Lemma get2_putc : forall cs b i c sl,
  slot_ok cs (Some (b, i)) ->
  get2 (putc cs (Some (b, i)) c) sl =
  if slot_eqb (Some (b, i)) sl then Some c else get2 cs sl.
Proof.
  intros cs b i c sl (blk & Hn & Hi). simpl putc.
  rewrite (nth_error_nth _ _ [] Hn).
  apply get2_upd; auto.
Qed.

Lemma rows8_putc : forall cs K sl c, rows8 cs K -> rows8 (putc cs sl c) K.
Proof.
  intros cs K [[b i]|] c H; simpl; auto.
  destruct (nth_error cs b) as [blk|] eqn:Hn.
  - rewrite (nth_error_nth _ _ [] Hn). apply rows8_upd; auto.
  - rewrite upd_oob; auto. apply nth_error_None. auto.
Qed.

Lemma rows8_app : forall A (ll more : list (list A)) K, rows8 ll K -> rows8 (ll ++ more) K.
Proof.
  intros A ll more K H b Hb. destruct (H b Hb) as (l & Hn & Hl).
  exists l. split; auto. apply nth_error_app_l; auto.
Qed.

Lemma merge_spec : forall K ns outs,
  Forall2 good_out ns outs ->
  (forall n, In n ns -> 1 <= n <= 8 * K) ->
  forall done cpre vpre (r : octree),
    length cpre = length vpre ->
    merge_inv K done r ->
    exists r',
      merge outs (length cpre)
            (cpre ++ cumsum (length (cells r)) (map lc outs))
            (vpre ++ cumsum (length (verts r)) (map lv outs)) r = Ok r' /\
      merge_inv K (done ++ ns) r' /\ root r' = root r.
Proof.
  induction 1 as [|n out ns outs Hg HF IH]; intros Hr done cpre vpre r Hlen Hinv.
  - simpl. exists r. rewrite app_nil_r. auto.
  - cbn [OctreeMerge.merge map cumsum].
    rewrite nth_error_app2 by lia. rewrite Nat.sub_diag. cbn [nth_error of_opt bind].
    rewrite Hlen. rewrite nth_error_app2 by lia. rewrite Nat.sub_diag.
    cbn [nth_error of_opt bind]. rewrite !Nat.eqb_refl. cbn [negb].
    destruct (@remap_blocks_total (length (cells r)) (length (verts r))
                (cells (o_oct out)) (go_wf Hg)) as (rcs & Hrcs & Hlrcs & Hwfr).
    rewrite Hrcs. cbn [of_opt bind].
    pose proof (go_den Hg) as Hden.
    destruct (remap_cell_total (length (cells r)) (length (verts r))
                (den_not_invalid Hden)) as (c' & Hc' & _).
    rewrite Hc'. cbn [of_opt bind].
    destruct (@slot_of_range K n (Hr n (in_eq n ns))) as (bb & i & Hsl & Hb & Hi & Hn).
    rewrite (go_cell Hg). cbn [mkcell ci_slot]. rewrite Hsl.
    pose proof (mi_rows Hinv) as Hrows.
    assert (Hso : slot_ok (cells r ++ rcs) (Some (bb, i))).
    { apply slot_ok_app. destruct (Hrows bb Hb) as (blk & Hblk & Hl8).
      exists blk. split; auto. lia. }
    rewrite set_cell_ok by exact Hso. cbn [of_opt bind].
    cbn [newroot root cells verts].
    pose proof (rows8_length Hrows) as HK.
    (* the new den *)
    assert (Hnew : den (cells r ++ rcs) (verts r ++ verts (o_oct out)) K c' (fst (Tn n))).
    { pose proof (@M1_remap _ nverts _ _ _ _ _ Hden (cells r) (verts r) [] [] rcs c'
                    Hrcs Hc') as HM.
      rewrite !app_nil_r in HM. eapply den_weaken; eauto. lia. }
    set (r2 := mkOct (root r) (putc (cells r ++ rcs) (Some (bb, i)) c')
                     (verts r ++ verts (o_oct out))).
    assert (Hinv2 : merge_inv K (done ++ [n]) r2).
    { constructor; cbn [r2 root cells verts].
      - apply rows8_putc. apply rows8_app. exact Hrows.
      - intros n' Hin. rewrite get2_putc by exact Hso.
        destruct (slot_eqb (Some (bb, i)) (slot_of n')) eqn:Eq.
        + assert (n' = n).
          { apply in_app_or in Hin. destruct Hin as [Hin|[->|[]]]; auto.
            destruct (mi_done Hinv n' Hin) as (c0 & Hg0 & _).
            destruct n' as [|n'']; [simpl in Hg0; discriminate|].
            rewrite <- Hsl in Eq. rewrite slot_eqb_of in Eq by lia.
            apply Nat.eqb_eq in Eq. auto. }
          subst n'. exists c'. split; auto.
          apply den_putc; auto. intros b0 j0 E. inversion E; subst. lia.
        + apply in_app_or in Hin. destruct Hin as [Hin|[->|[]]].
          * destruct (mi_done Hinv n' Hin) as (c0 & Hg0 & Hd0).
            exists c0. split.
            { destruct (slot_of n') as [[b0 j0]|]; [|discriminate].
              simpl in Hg0 |- *. destruct (nth_error (cells r) b0) eqn:E0; [|discriminate].
              rewrite (@nth_error_app_l _ (cells r) rcs b0 l E0). exact Hg0. }
            apply den_putc; [|intros b0 j0 E; inversion E; subst; lia].
            apply M1_extend. exact Hd0.
          * rewrite <- Hsl in Eq. rewrite slot_eqb_of in Eq by lia.
            rewrite Nat.eqb_refl in Eq. discriminate.
      - intros j blk Hj Hnth.
        rewrite putc_nth_other in Hnth by (intros b0 j0 E; inversion E; subst; lia).
        destruct (Nat.lt_ge_cases j (length (cells r))).
        + rewrite nth_error_app1 in Hnth by auto. eapply (mi_wf Hinv); eauto.
        + rewrite nth_error_app2 in Hnth by auto.
          rewrite Forall_forall in Hwfr. apply Hwfr. eapply nth_error_In; eauto. }
    specialize (IH (fun n' Hin => Hr n' (in_cons n n' ns Hin)) (done ++ [n])
                   (cpre ++ [length (cells r)]) (vpre ++ [length (verts r)]) r2).
    rewrite !app_length in IH. simpl length in IH.
    specialize (IH ltac:(lia) Hinv2).
    destruct IH as (r' & Hrun & Hinv' & Hroot).
    exists r'. split.
    + cbn [r2 cells verts] in Hrun. rewrite ?upd_length, ?putc_length in Hrun.
      rewrite !app_length in Hrun. rewrite Hlrcs in Hrun.
      fold (lc out) in Hrun. fold (lv out) in Hrun.
      rewrite <- !app_assoc in Hrun. cbn [app] in Hrun.
      replace (length cpre + 1) with (S (length vpre)) in Hrun by lia.
      exact Hrun.
    + split; auto. rewrite <- app_assoc in Hinv'. exact Hinv'.
Qed.

(* ---------------- what the multi-threaded build denotes ----------- *)
(* K = number of expanded cells.  Cells n >= K are tasks; a cell n < K
   is rebuilt from its 8 children by check_done in the fixup walk.     *)

Fixpoint Dmt_f (K fuel n : nat) : atree * herm :=
  if K <=? n then Tn n else
  match fuel with
  | 0 => (AEmpty, hdef)
  | S f =>
      let rs := map (fun i => Dmt_f K f (8 * n + 1 + i)) (seq 0 8) in
      combine (path_of n) (map fst rs) (map snd rs) hdef
  end.

Definition Dmt (K n : nat) : atree * herm := Dmt_f K (K - n) n.

Lemma Dmt_f_enough : forall K f f' n, K - n <= f -> K - n <= f' ->
  Dmt_f K f n = Dmt_f K f' n.
Proof.
  induction f; intros f' n H H'.
  - destruct f'; simpl; destruct (Nat.leb_spec K n); auto; lia.
  - destruct f'; cbn [Dmt_f]; destruct (Nat.leb_spec K n); auto; try lia.
    assert (E : map (fun i => Dmt_f K f (8 * n + 1 + i)) (seq 0 8) =
                map (fun i => Dmt_f K f' (8 * n + 1 + i)) (seq 0 8)).
    { apply map_ext_in. intros i Hi. apply in_seq in Hi. apply IHf; lia. }
    cbv zeta. rewrite E. reflexivity.
Qed.

Lemma Dmt_task : forall K n, K <= n -> Dmt K n = Tn n.
Proof.
  intros. unfold Dmt. replace (K - n) with 0 by lia. simpl.
  destruct (Nat.leb_spec K n); auto; lia.
Qed.

Lemma Dmt_exp : forall K n, n < K ->
  Dmt K n = combine (path_of n)
                    (map (fun i => fst (Dmt K (8 * n + 1 + i))) (seq 0 8))
                    (map (fun i => snd (Dmt K (8 * n + 1 + i))) (seq 0 8)) hdef.
Proof.
  intros. unfold Dmt at 1. destruct (K - n) as [|f] eqn:E; [lia|].
  cbn [Dmt_f]. destruct (Nat.leb_spec K n); [lia|]. cbv zeta.
  rewrite !map_map. f_equal.
  - apply map_ext_in. intros i Hi. apply in_seq in Hi. f_equal.
    unfold Dmt. apply Dmt_f_enough; lia.
  - apply map_ext_in. intros i Hi. apply in_seq in Hi. f_equal.
    unfold Dmt. apply Dmt_f_enough; lia.
Qed.

(* ---------------- helper lemmas on lists of length 8 -------------- *)

Lemma Forall2_from_nth : forall A B (R : A -> B -> Prop) (g : nat -> B) (l : list A) a,
  (forall i, i < length l -> exists x, nth_error l i = Some x /\ R x (g (a + i))) ->
  Forall2 R l (map g (seq a (length l))).
Proof.
  induction l as [|x l IH]; intros a H; simpl; constructor.
  - destruct (H 0 ltac:(simpl; lia)) as (x' & E & HR). simpl in E.
    inversion E; subst. rewrite Nat.add_0_r in HR. exact HR.
  - apply IH. intros i Hi. destruct (H (S i) ltac:(simpl; lia)) as (x' & E & HR).
    simpl in E. exists x'. split; auto.
    replace (S a + i) with (a + S i) by lia. exact HR.
Qed.

Lemma list_from_nth : forall A (g : nat -> A) (l : list A) a,
  (forall i, i < length l -> nth_error l i = Some (g (a + i))) ->
  l = map g (seq a (length l)).
Proof.
  induction l as [|x l IH]; intros a H; simpl; auto. f_equal.
  - specialize (H 0 ltac:(simpl; lia)). simpl in H. rewrite Nat.add_0_r in H. congruence.
  - apply IH. intros i Hi. specialize (H (S i) ltac:(simpl; lia)). simpl in H.
    replace (S a + i) with (a + S i) by lia. exact H.
Qed.

Lemma nth_error_firstn_lt : forall A (l : list A) n i,
  i < n -> nth_error (firstn n l) i = nth_error l i.
Proof.
  induction l; intros n i H; destruct n; destruct i; simpl; auto; try lia.
  apply IHl. lia.
Qed.

Lemma drop_block_other : forall cs n i b,
  i <> n -> nth_error cs i = Some b -> nth_error (drop_block cs n) i = Some b.
Proof.
  intros cs n i b Hne Hn. unfold drop_block.
  pose proof (nth_error_Some_lt _ _ Hn).
  destruct (Nat.eqb_spec n (length cs - 1)).
  - rewrite nth_error_firstn_lt by lia. exact Hn.
  - rewrite nth_error_upd_neq by auto. exact Hn.
Qed.

Lemma drop_block_inv : forall cs n i b,
  nth_error (drop_block cs n) i = Some b ->
  (i = n /\ b = invalid_block) \/ (i <> n /\ nth_error cs i = Some b).
Proof.
  intros cs n i b H. unfold drop_block in H.
  destruct (Nat.eqb_spec n (length cs - 1)).
  - pose proof (nth_error_Some_lt _ _ H) as Hl. rewrite firstn_length in Hl.
    right. split; [lia|]. rewrite nth_error_firstn_lt in H by lia. exact H.
  - destruct (Nat.eq_dec i n).
    + subst i. left. split; auto.
      pose proof (nth_error_Some_lt _ _ H) as Hl. rewrite upd_length in Hl.
      rewrite nth_error_upd_eq in H by auto. congruence.
    + right. split; auto. rewrite nth_error_upd_neq in H by auto. exact H.
Qed.

(* ---------------- the fixup walk ---------------------------------- *)

Notation fixup_walk := (fixup_walk hdef collapsible hmerge hsolve).

(* invariant before processing cell j-1 (cells j .. K-1 already done)  *)
Record fix_inv (K j : nat) (r : octree) (hm : list (list herm)) : Prop := {
  fi_rows : rows8 (cells r) j;
  fi_hrows : rows8 hm j;
  fi_done : forall m, j <= m -> m <= 8 * K -> 1 <= m -> (m - 1) / 8 < j ->
      exists c, get2 (cells r) (slot_of m) = Some c /\
                den (cells r) (verts r) (Nat.min m K) c (fst (Dmt K m)) /\
                get2 hm (slot_of m) = Some (snd (Dmt K m));
  fi_pending : forall m, 1 <= m -> m < j -> get2 hm (slot_of m) = Some hdef;
  fi_blocks : forall i blk, j <= i -> nth_error (cells r) i = Some blk ->
      blk = invalid_block \/ wfblk blk;
  fi_root : j = 0 -> den (cells r) (verts r) 0 (root r) (fst (Dmt K 0))
}.

Lemma rows8_weaken : forall A (ll : list (list A)) j j', j' <= j -> rows8 ll j -> rows8 ll j'.
Proof. intros A ll j j' H Hr b Hb. apply Hr. lia. Qed.

Lemma slot_of_block_lt : forall n b i, slot_of n = Some (b, i) -> b < n /\ i < 8.
Proof.
  intros n b i H. destruct n; [discriminate|]. simpl in H. inversion H; subst.
  split.
  - pose proof (div8_le n). lia.
  - apply Nat.mod_upper_bound. lia.
Qed.

Lemma fixup_step : forall K n r hm rest,
  n < K -> fix_inv K (S n) r hm ->
  exists r2 hm',
    fixup_walk ((mkcell n, n) :: rest) r hm = fixup_walk rest r2 hm' /\
    fix_inv K n r2 hm'.
Proof.
  intros K n r hm rest HnK Hinv.
  destruct (fi_rows Hinv (Nat.lt_succ_diag_r n)) as (blk & Hblk & Hblk8).
  destruct (fi_hrows Hinv (Nat.lt_succ_diag_r n)) as (hd & Hhd & Hhd8).
  (* the 8 children *)
  assert (Hch : forall i, i < 8 ->
            exists c, nth_error blk i = Some c /\
                      den (cells r) (verts r) (S n) c (fst (Dmt K (8 * n + 1 + i))) /\
                      nth_error hd i = Some (snd (Dmt K (8 * n + 1 + i)))).
  { intros i Hi.
    destruct (@fi_done _ _ _ _ Hinv (8 * n + 1 + i)) as (c & Hg & Hd & Hh); try lia.
    { replace (8 * n + 1 + i - 1) with (8 * n + i) by lia.
      destruct (div_mod_8 n Hi) as [-> _]. lia. }
    rewrite slot_of_child in Hg, Hh by auto. simpl in Hg, Hh.
    rewrite Hblk in Hg. rewrite Hhd in Hh.
    exists c. repeat split; auto. eapply den_weaken; eauto. lia. }
  set (ch := map (fun i => fst (Dmt K (8 * n + 1 + i))) (seq 0 8)).
  assert (HF : Forall2 (den (cells r) (verts r) (S n)) blk ch).
  { unfold ch. replace (seq 0 8) with (seq 0 (length blk)) by (rewrite Hblk8; reflexivity).
    apply Forall2_from_nth. rewrite Hblk8.
    intros i Hi. destruct (Hch i ltac:(lia)) as (c & Hc & Hd & _). eauto. }
  assert (Ehd : hd = map (fun i => snd (Dmt K (8 * n + 1 + i))) (seq 0 8)).
  { replace (seq 0 8) with (seq 0 (length hd)) by (rewrite Hhd8; reflexivity).
    apply list_from_nth. rewrite Hhd8.
    intros i Hi. destruct (Hch i ltac:(lia)) as (c & _ & _ & Hh). exact Hh. }
  destruct (@check_done_spec r (path_of n) n hd hdef blk ch Hblk Hblk8 HF)
    as (r1 & c & newv & Hcd & Hr1 & Hv1 & Hcase).
  assert (Ecomb : combine (path_of n) ch hd hdef = Dmt K n).
  { rewrite Dmt_exp by auto. fold ch. rewrite <- Ehd. reflexivity. }
  rewrite Ecomb in Hcd, Hcase.
  (* uniform facts about r1 *)
  assert (P1 : forall i b, i <> n -> nth_error (cells r) i = Some b ->
                           nth_error (cells r1) i = Some b).
  { intros i b Hi Hb. destruct Hcase as [(_ & -> & _) | (_ & -> & _)]; auto.
    apply drop_block_other; auto. }
  assert (P2 : forall i b, nth_error (cells r1) i = Some b ->
              (i = n /\ (b = invalid_block \/ b = blk)) \/
              (i <> n /\ nth_error (cells r) i = Some b)).
  { intros i b Hb. destruct Hcase as [(_ & E & _) | (_ & E & _)]; rewrite E in Hb.
    - destruct (Nat.eq_dec i n); [left|right]; split; auto. subst. right. congruence.
    - apply drop_block_inv in Hb. destruct Hb as [(-> & ->) | ?]; auto. }
  assert (P3 : den (cells r1) (verts r1) n c (fst (Dmt K n))).
  { destruct Hcase as [(-> & E & Env & Ef) | (_ & _ & _ & Hd)]; auto.
    rewrite Ef, E, Hv1, Env, app_nil_r.
    apply den_branch with (blk := blk); auto. }
  assert (Hwfblk : wfblk blk).
  { split; auto. clear - HF. induction HF; constructor; auto.
    eapply den_not_invalid; eauto. }
  (* unfold one iteration *)
  cbn [OctreeMerge.fixup_walk]. rewrite Hhd. cbn [of_opt bind mkcell ci_slot ci_path].
  destruct (slot_of n) as [[b j]|] eqn:Hsl.
  - (* n >= 1 *)
    assert (Hn1 : 1 <= n) by (destruct n; [discriminate|lia]).
    destruct (@slot_of_block_lt n b j Hsl) as [Hbn Hj8].
    pose proof (@fi_pending _ _ _ _ Hinv n Hn1 (Nat.lt_succ_diag_r n)) as Hpend.
    rewrite Hsl in Hpend. simpl in Hpend.
    destruct (nth_error hm b) as [row|] eqn:Hrow; [|discriminate].
    rewrite Hpend. cbn [of_opt bind]. rewrite Hcd. cbn [bind].
    destruct (fi_hrows Hinv (Nat.lt_lt_succ_r _ _ Hbn)) as (row' & Hrow' & Hrow8).
    assert (row' = row) by congruence. subst row'.
    unfold upd2. rewrite Hrow.
    destruct (Nat.ltb_spec j (length row)); [|lia]. cbn [of_opt bind].
    destruct (fi_rows Hinv (Nat.lt_lt_succ_r _ _ Hbn)) as (cb & Hcb & Hcb8).
    assert (Hso : slot_ok (cells r1) (Some (b, j))).
    { exists cb. split; [apply P1; auto; lia | lia]. }
    rewrite set_cell_ok by exact Hso. cbn [of_opt bind newroot].
    eexists; eexists. split; [reflexivity|].
    constructor; cbn [root cells verts].
    + apply rows8_putc. intros b0 Hb0.
      destruct (fi_rows Hinv (Nat.lt_lt_succ_r _ _ Hb0)) as (l & Hl & Hl8).
      exists l. split; auto. apply P1; auto. lia.
    + apply rows8_upd; auto. eapply rows8_weaken; [|exact (fi_hrows Hinv)]. lia.
    + intros m Hm1 Hm2 Hm3 Hm4.
      rewrite get2_putc by exact Hso.
      rewrite (@get2_upd _ hm b j row _ (slot_of m) Hrow ltac:(lia)).
      rewrite <- Hsl. rewrite slot_eqb_of by lia.
      destruct (Nat.eqb_spec n m).
      * subst m. exists c. split; auto. split; auto.
        apply den_putc.
        -- rewrite Nat.min_l by lia. exact P3.
        -- intros b0 j0 E. rewrite Hsl in E. inversion E; subst. lia.
      * destruct (@fi_done _ _ _ _ Hinv m) as (c0 & Hg0 & Hd0 & Hh0); try lia.
        exists c0. split; [|split]; auto.
        -- destruct (slot_of m) as [[b0 j0]|] eqn:Hslm; [|discriminate].
           simpl in Hg0 |- *.
           destruct (nth_error (cells r) b0) as [l0|] eqn:El0; [|discriminate].
           assert (b0 = (m - 1) / 8).
           { destruct m; [lia|]. simpl in Hslm. inversion Hslm.
             replace (S m - 1) with m by lia. reflexivity. }
           rewrite (P1 b0 l0 ltac:(lia) El0). exact Hg0.
        -- apply den_putc.
           ++ rewrite Hv1. eapply den_frame; eauto.
              intros i0 b0 Hi0 Hb0. apply P1; auto. lia.
           ++ intros b0 j0 E. rewrite Hsl in E. inversion E; subst. lia.
    + intros m Hm1 Hm2.
      rewrite (@get2_upd _ hm b j row _ (slot_of m) Hrow ltac:(lia)).
      rewrite <- Hsl. rewrite slot_eqb_of by lia.
      destruct (Nat.eqb_spec n m); [lia|].
      apply (fi_pending Hinv); lia.
    + intros i0 b0 Hi0 Hb0.
      rewrite putc_nth_other in Hb0 by (intros b1 j1 E; inversion E; subst; lia).
      apply P2 in Hb0. destruct Hb0 as [(-> & [->| ->]) | (Hne & Hb0)]; auto.
      apply (fi_blocks Hinv) with (i := i0); auto. lia.
    + intros ->. lia.
  - (* n = 0: the root *)
    assert (n = 0) by (destruct n; [reflexivity|discriminate]). subst n.
    cbn [bind]. rewrite Hcd. cbn [bind]. simpl set_cell. cbn [of_opt bind].
    eexists; eexists. split; [reflexivity|].
    constructor; cbn [root cells verts].
    + intros b0 Hb0. lia.
    + intros b0 Hb0. lia.
    + intros m Hm1 Hm2 Hm3 Hm4. lia.
    + intros m Hm1 Hm2. lia.
    + intros i0 b0 Hi0 Hb0.
      apply P2 in Hb0. destruct Hb0 as [(-> & [->| ->]) | (Hne & Hb0)]; auto.
      apply (fi_blocks Hinv) with (i := i0); auto. lia.
    + intros _. exact P3.
Qed.

Lemma fixup_walk_spec : forall K j r hm,
  j <= K -> fix_inv K j r hm ->
  exists r' hm',
    fixup_walk (rev (map (fun n => (mkcell n, n)) (seq 0 j))) r hm = Ok r' /\
    fix_inv K 0 r' hm'.
Proof.
  induction j; intros r hm HjK Hinv.
  - simpl. eauto.
  - rewrite seq_S, map_app, rev_app_distr. cbn [map rev app Nat.add].
    destruct (@fixup_step K j r hm (rev (map (fun n => (mkcell n, n)) (seq 0 j)))
                ltac:(lia) Hinv) as (r2 & hm2 & -> & Hinv2).
    apply IHj; auto. lia.
Qed.

(* ---------------- the multi-threaded build ------------------------ *)

Notation build_mt := (build_mt hdef root_tape max_depth interval leaf_eval
                                collapsible hmerge hsolve).

(* number of expansions = ceil((target-1)/7) *)
Definition K_of (target : nat) : nat := (target + 5) / 7.

Lemma expand_K : forall target,
  expand hdef target target (exp_init herm) = Some (stK (K_of target)).
Proof.
  intros. rewrite exp_init_stK.
  destruct (@expand_spec target target 0 ltac:(lia)) as (K & HK & _ & Ht & Hor).
  rewrite HK. f_equal. f_equal. unfold K_of.
  apply (Nat.div_unique (target + 5) 7 K (target + 5 - 7 * K)); lia.
Qed.

Lemma K_of_pos : forall target, 1 <= K_of target <-> 2 <= target.
Proof.
  intros. unfold K_of. split; intros H.
  - destruct (Nat.lt_ge_cases target 2); auto.
    rewrite Nat.div_small in H by lia. lia.
  - apply Nat.div_le_lower_bound; lia.
Qed.

Lemma get2_repeat : forall A (x : A) K b i, b < K -> i < 8 ->
  get2 (repeat (repeat x 8) K) (Some (b, i)) = Some x.
Proof.
  intros. unfold get2.
  assert (E : nth_error (repeat (repeat x 8) K) b = Some (repeat x 8)).
  { rewrite (nth_error_nth' _ (repeat x 8)) by (rewrite repeat_length; auto).
    f_equal. apply nth_repeat. }
  rewrite E.
  rewrite (nth_error_nth' _ x) by (rewrite repeat_length; auto).
  f_equal. apply nth_repeat.
Qed.

Lemma rows8_repeat : forall A (x : A) K, rows8 (repeat (repeat x 8) K) K.
Proof.
  intros A x K b Hb. exists (repeat x 8). split.
  - rewrite (nth_error_nth' _ (repeat x 8)) by (rewrite repeat_length; auto).
    f_equal. apply nth_repeat.
  - apply repeat_length.
Qed.

Lemma existsb_seq : forall m a n, existsb (Nat.eqb m) (seq a n) = (a <=? m) && (m <? a + n).
Proof.
  intros. destruct (existsb (Nat.eqb m) (seq a n)) eqn:E.
  - apply existsb_exists in E. destruct E as (x & Hin & Hx).
    apply in_seq in Hin. apply Nat.eqb_eq in Hx. subst x. symmetry.
    apply andb_true_iff. split; [apply Nat.leb_le | apply Nat.ltb_lt]; lia.
  - symmetry. apply not_true_is_false. intros Ht. apply andb_true_iff in Ht.
    destruct Ht as [H1 H2]. apply Nat.leb_le in H1. apply Nat.ltb_lt in H2.
    assert (existsb (Nat.eqb m) (seq a n) = true).
    { apply existsb_exists. exists m. split. apply in_seq; lia. apply Nat.eqb_refl. }
    congruence.
Qed.

Definition blocks_ok (o : octree) : Prop :=
  Forall (fun blk => blk = invalid_block \/ wfblk blk) (cells o).

(* The denotation of the multi-threaded result, for every target count *)
Theorem build_mt_spec : forall cmt target,
  let K := K_of target in
  if tasks_cancel cmt 0 (seq K (7 * K + 1)) then build_mt cmt target = Cancel
  else if K =? 0 then build_mt cmt target = Panic
  else exists o, build_mt cmt target = Ok o /\
                 wf_octree o (fst (Dmt K 0)) /\ blocks_ok o.
Proof.
  intros cmt target K. unfold build_mt. rewrite expand_K. fold K.
  cbn [of_opt bind].
  change (todo (stK K)) with (map mkcell (seq K (7 * K + 1))).
  pose proof (run_tasks_spec (seq K (7 * K + 1)) cmt 0) as Htasks.
  destruct (tasks_cancel cmt 0 (seq K (7 * K + 1))).
  { rewrite Htasks. reflexivity. }
  destruct Htasks as (outs & -> & Hgood). cbn [bind].
  destruct (Nat.eqb_spec K 0) as [HK0 | HK0].
  - (* the loop body never ran: todo = [root], index None *)
    rewrite HK0 in *. simpl seq in Hgood.
    inversion Hgood as [|n out ns outs' Hg Hrest]; subst.
    cbn [OctreeMerge.offsets]. rewrite (go_cell Hg). reflexivity.
  - assert (HK : 1 <= K) by lia.
    assert (Hrange : forall n, In n (seq K (7 * K + 1)) -> 1 <= n <= 8 * K).
    { intros n Hin. apply in_seq in Hin. lia. }
    unfold stK. cbn [xcells xherm fixup]. rewrite repeat_length.
    destruct (@offsets_spec K _ _ Hgood Hrange (repeat (repeat hdef 8) K) [] K [] 0
                (@rows8_repeat _ hdef K)) as (hm' & Hoff & Hrows' & Hget).
    cbn [app] in Hoff. rewrite Hoff. cbn [bind].
    set (r0 := mkOct Invalid (repeat invalid_block K) (@nil vertex)).
    assert (Hinv0 : merge_inv K [] r0).
    { constructor; cbn [r0 cells verts].
      - apply rows8_repeat.
      - intros n [].
      - intros i blk Hi Hn. apply nth_error_Some_lt in Hn.
        rewrite repeat_length in Hn. lia. }
    destruct (@merge_spec K _ _ Hgood Hrange [] [] [] r0 eq_refl Hinv0)
      as (r' & Hmerge & Hinv' & Hroot').
    cbn [app length r0 cells verts] in Hmerge. rewrite repeat_length in Hmerge.
    fold r0 in Hmerge. cbn [length] in Hmerge. rewrite Hmerge. cbn [bind].
    assert (Hfix : fix_inv K K r' hm').
    { constructor.
      - exact (mi_rows Hinv').
      - exact Hrows'.
      - intros m Hm1 Hm2 Hm3 Hm4.
        destruct (mi_done Hinv' m) as (c & Hg & Hd).
        { apply in_seq. lia. }
        exists c. split; auto. rewrite Dmt_task by auto. split.
        + rewrite Nat.min_r by lia. exact Hd.
        + rewrite Hget by lia. rewrite existsb_seq.
          destruct (Nat.leb_spec K m); [|lia].
          destruct (Nat.ltb_spec m (K + (7 * K + 1))); [|lia]. reflexivity.
      - intros m Hm1 Hm2. rewrite Hget by lia. rewrite existsb_seq.
        destruct (Nat.leb_spec K m); [lia|]. cbn [andb].
        destruct (@slot_of_range K m ltac:(lia)) as (b & i & -> & Hb & Hi & _).
        apply get2_repeat; auto.
      - intros i blk Hi Hn. right. eapply (mi_wf Hinv'); eauto.
      - intros ->. lia. }
    destruct (@fixup_walk_spec K K r' hm' (le_n K) Hfix) as (r'' & hm'' & Hwalk & Hfin).
    rewrite Hwalk. exists r''. split; auto. split.
    + exact (fi_root Hfin eq_refl).
    + unfold blocks_ok. apply Forall_forall. intros blk Hin.
      apply In_nth_error in Hin. destruct Hin as (i & Hi).
      apply (fi_blocks Hfin) with (i := i); auto. lia.
Qed.

(* ---------------- depth of expanded cells and tasks --------------- *)

Lemma K_of_le_gcount : forall target, target <= 8 ^ max_depth ->
  K_of target <= gcount max_depth.
Proof.
  intros target H. rewrite pow8_gcount in H. unfold K_of.
  apply Nat.lt_succ_r. apply Nat.div_lt_upper_bound; lia.
Qed.

(* every cell handed to a task has depth <= max_depth, every expanded
   cell has depth < max_depth: `rem = max_depth - depth` is faithful to
   the code's `cell.depth == max_depth` test.                          *)
Lemma tasks_depth : forall target n, target <= 8 ^ max_depth ->
  n <= 8 * K_of target -> length (path_of n) <= max_depth.
Proof.
  intros target n Ht Hn. apply path_of_length.
  pose proof (K_of_le_gcount Ht). change (gcount (S max_depth)) with (8 * gcount max_depth + 1).
  lia.
Qed.

Lemma expanded_depth : forall target n, target <= 8 ^ max_depth ->
  n < K_of target -> length (path_of n) < max_depth.
Proof.
  intros target n Ht Hn. pose proof (K_of_le_gcount Ht).
  destruct max_depth as [|d] eqn:E.
  - simpl in H. lia.
  - apply Nat.lt_succ_r. apply path_of_length. lia.
Qed.

(* ---------------- M3 / M4 packaged -------------------------------- *)

Notation abs_res := (abs_res nverts).

Theorem M3_st : forall canc o,
  build_st canc = Ok o -> wf_octree o T_st /\ Forall wfblk (cells o).
Proof.
  intros canc o H. pose proof (build_st_spec canc) as S.
  destruct (anyc canc 0 NP_st); [congruence|].
  destruct S as (o' & E & Hwf & Hb). assert (o' = o) by congruence. subst. auto.
Qed.

Theorem M3_mt : forall cmt target o,
  build_mt cmt target = Ok o ->
  wf_octree o (fst (Dmt (K_of target) 0)) /\ blocks_ok o.
Proof.
  intros cmt target o H. pose proof (build_mt_spec cmt target) as S. cbv zeta in S.
  destruct (tasks_cancel cmt 0 _); [congruence|].
  destruct (K_of target =? 0); [congruence|].
  destruct S as (o' & E & Hwf & Hb). assert (o' = o) by congruence. subst. auto.
Qed.

(* reachability of blocks, to spell out what wf_octree guarantees *)
Inductive reach (cs : list (list cell)) : cell -> nat -> Prop :=
| reach_here : forall i, reach cs (Branch i) i
| reach_step : forall i blk c j,
    nth_error cs i = Some blk -> In c blk -> reach cs c j -> reach cs (Branch i) j.

Lemma den_reach_wf : forall cs vs lb c a,
  den cs vs lb c a ->
  forall j, reach cs c j ->
  exists blk, nth_error cs j = Some blk /\ wfblk blk /\ lb <= j.
Proof.
  intros cs vs lb c a D. induction D using den_ind'; intros j R; inversion R; subst.
  - exists blk. split; auto. split; auto. split; auto.
    clear - H2. induction H2; constructor; auto. eapply den_not_invalid; eauto.
  - assert (blk0 = blk) by congruence. subst blk0.
    destruct (In_nth_error _ _ H6) as (k & Hk).
    destruct (Forall2_nth _ H3 Hk) as (y & _ & IHc).
    destruct (IHc j H7) as (b & Hb & Hw & Hle). exists b. split; [auto|split; [auto|lia]].
Qed.

Theorem M3_reachable : forall (o : octree) a j,
  wf_octree o a -> reach (cells o) (root o) j ->
  exists blk, nth_error (cells o) j = Some blk /\ wfblk blk.
Proof.
  intros o a j H R. destruct (den_reach_wf H R) as (b & Hb & Hw & _). eauto.
Qed.

Theorem M4_st : forall canc,
  (build_st canc = Cancel <-> exists k, k < NP_st /\ canc k = true) /\
  (build_st canc <> Cancel ->
   exists o, build_st canc = Ok o /\ abs o = Some T_st).
Proof.
  intros canc. pose proof (build_st_spec canc) as S.
  pose proof (anyc_true_iff canc 0 NP_st) as I. simpl in I.
  destruct (anyc canc 0 NP_st).
  - split; [|congruence]. split; intros; auto. apply I. reflexivity.
  - destruct S as (o & E & Hwf & _). split.
    + split; [congruence|]. intros H. apply I in H. discriminate.
    + intros _. exists o. split; auto. apply wf_abs. exact Hwf.
Qed.

Lemma tasks_cancel_iff : forall cmt ns i0,
  tasks_cancel cmt i0 ns = true <->
  exists idx n, nth_error ns idx = Some n /\ anyc (cmt (i0 + idx)) 0 (NPn n) = true.
Proof.
  induction ns as [|n ns IH]; intros i0; cbn [tasks_cancel].
  - split; [discriminate|]. intros (idx & n & H & _). destruct idx; discriminate.
  - rewrite orb_true_iff. rewrite IH. split.
    + intros [H | (idx & m & Hn & Ha)].
      * exists 0, n. rewrite Nat.add_0_r. auto.
      * exists (S idx), m. replace (i0 + S idx) with (S i0 + idx) by lia. auto.
    + intros (idx & m & Hn & Ha). destruct idx.
      * simpl in Hn. inversion Hn; subst. rewrite Nat.add_0_r in Ha. auto.
      * right. exists idx, m. replace (S i0 + idx) with (i0 + S idx) by lia. auto.
Qed.

Theorem M4_mt : forall cmt target,
  let K := K_of target in
  (build_mt cmt target = Cancel <->
   exists i k, i < 7 * K + 1 /\ k < NPn (K + i) /\ cmt i k = true) /\
  (2 <= target -> build_mt cmt target <> Cancel ->
   exists o, build_mt cmt target = Ok o /\ abs o = Some (fst (Dmt K 0))) /\
  (target <= 1 -> build_mt cmt target <> Cancel -> build_mt cmt target = Panic).
Proof.
  intros cmt target K. pose proof (build_mt_spec cmt target) as S. cbv zeta in S. fold K in S.
  assert (I : tasks_cancel cmt 0 (seq K (7 * K + 1)) = true <->
              exists i k, i < 7 * K + 1 /\ k < NPn (K + i) /\ cmt i k = true).
  { rewrite tasks_cancel_iff. split.
    - intros (idx & n & Hn & Ha). pose proof (nth_error_Some_lt _ _ Hn) as Hl.
      rewrite seq_length in Hl. rewrite nth_error_nth' with (d := 0) in Hn
        by (rewrite seq_length; auto).
      rewrite seq_nth in Hn by auto. inversion Hn; subst.
      apply anyc_true_iff in Ha. destruct Ha as (k & Hk & Hc). simpl in Hc. eauto.
    - intros (i & k & Hi & Hk & Hc). exists i, (K + i). split.
      + rewrite nth_error_nth' with (d := 0) by (rewrite seq_length; auto).
        rewrite seq_nth by auto. reflexivity.
      + apply anyc_true_iff. exists k. simpl. auto. }
  pose proof (K_of_pos target) as HKp. fold K in HKp.
  destruct (tasks_cancel cmt 0 (seq K (7 * K + 1))).
  - split; [|split]; try congruence. split; intros; auto. apply I. reflexivity.
  - split; [|split].
    + split; intros H.
      * destruct (K =? 0); [congruence|]. destruct S as (o & E & _). congruence.
      * apply I in H. discriminate.
    + intros Ht _. destruct (Nat.eqb_spec K 0); [lia|].
      destruct S as (o & E & Hwf & _). exists o. split; auto. apply wf_abs; auto.
    + intros Ht _. destruct (Nat.eqb_spec K 0); auto. lia.
Qed.

(* abs(build_mt) = abs(build_st)  iff  the pure denotations agree *)
Theorem M2_exact : forall cmt canc target omt ost,
  build_mt cmt target = Ok omt -> build_st canc = Ok ost ->
  (abs omt = abs ost <-> fst (Dmt (K_of target) 0) = T_st).
Proof.
  intros cmt canc target omt ost Hm Hs.
  destruct (M3_mt _ _ Hm) as [Hwm _]. destruct (M3_st _ Hs) as [Hws _].
  rewrite (wf_abs Hwm), (wf_abs Hws). split; congruence.
Qed.

(* ---------------- M2: multi-threaded = single-threaded ------------ *)

Definition ires_sim (a b : ires tape) : Prop :=
  match a, b with
  | IFull, IFull => True
  | IEmpty, IEmpty => True
  | IAmbig _, IAmbig _ => True
  | _, _ => False
  end.

Section M2.

(* V t p : tape t is a valid specialisation of the root tape on the
   region p.  (Instantiate with `fun _ _ => True` for "the tape never
   matters".)                                                          *)
Variable V : tape -> path -> Prop.
Hypothesis V_root : forall p, V root_tape p.
Hypothesis V_sub_self : forall t p sub,
  V t p -> interval t p = IAmbig sub -> V sub p.
Hypothesis V_sub_child : forall t p sub i,
  V t p -> interval t p = IAmbig sub -> i < 8 -> V sub (p ++ [i]).
(* (H-tape) valid tapes classify a region identically *)
Hypothesis V_agree_interval : forall t t' p,
  V t p -> V t' p -> ires_sim (interval t p) (interval t' p).
Hypothesis V_agree_leaf : forall t t' p h,
  V t p -> V t' p -> leaf_eval t p h = leaf_eval t' p h.

Lemma T_agree : forall rem t t' p h, V t p -> V t' p -> T rem t p h = T rem t' p h.
Proof.
  induction rem as [|r IH]; intros t t' p h Ht Ht'; cbn [T];
    pose proof (V_agree_interval Ht Ht') as Hs;
    destruct (interval t p) as [| |sub] eqn:E1;
    destruct (interval t' p) as [| |sub'] eqn:E2; simpl in Hs; try contradiction; auto.
  - rewrite (@V_agree_leaf sub sub' p h); eauto.
  - assert (E : map (fun i => T r sub (p ++ [i]) hdef) (seq 0 8) =
                map (fun i => T r sub' (p ++ [i]) hdef) (seq 0 8)).
    { apply map_ext_in. intros i Hi. apply in_seq in Hi. apply IH.
      - apply (@V_sub_child t p sub i Ht E1); lia.
      - apply (@V_sub_child t' p sub' i Ht' E2); lia. }
    rewrite E. reflexivity.
Qed.

(* (H-coh) the interval result of a cell is coherent with its subtree:
   if the interval proves the cell full (empty), every child's subtree
   evaluates to Full (Empty).                                          *)
Hypothesis coh_full : forall p i,
  length p < max_depth -> i < 8 -> interval root_tape p = IFull ->
  fst (T (max_depth - S (length p)) root_tape (p ++ [i]) hdef) = AFull.
Hypothesis coh_empty : forall p i,
  length p < max_depth -> i < 8 -> interval root_tape p = IEmpty ->
  fst (T (max_depth - S (length p)) root_tape (p ++ [i]) hdef) = AEmpty.

Lemma scan_all_full : forall ks f e, Forall (fun k => k = KFull) ks ->
  scan ks f e = SCounts (f + length ks) e.
Proof.
  induction ks; simpl; intros f e H. f_equal; lia.
  inversion H; subst. rewrite IHks by auto. f_equal. lia.
Qed.

Lemma scan_all_empty : forall ks f e, Forall (fun k => k = KEmpty) ks ->
  scan ks f e = SCounts f (e + length ks).
Proof.
  induction ks; simpl; intros f e H. f_equal; lia.
  inversion H; subst. rewrite IHks by auto. f_equal. lia.
Qed.

Lemma combine_all_full : forall p (ch : list atree) hs h,
  length ch = 8 -> Forall (fun a => a = AFull) ch -> combine p ch hs h = (AFull, h).
Proof.
  intros p ch hs h Hl Hf. unfold combine.
  rewrite scan_all_full.
  - rewrite map_length, Hl. reflexivity.
  - clear Hl. induction Hf; simpl; constructor; auto. subst. reflexivity.
Qed.

Lemma combine_all_empty : forall p (ch : list atree) hs h,
  length ch = 8 -> Forall (fun a => a = AEmpty) ch -> combine p ch hs h = (AEmpty, h).
Proof.
  intros p ch hs h Hl Hf. unfold combine.
  rewrite scan_all_empty.
  - rewrite map_length, Hl. reflexivity.
  - clear Hl. induction Hf; simpl; constructor; auto. subst. reflexivity.
Qed.

Lemma Tn_child : forall n i, i < 8 ->
  Tn (8 * n + 1 + i) =
  T (max_depth - S (length (path_of n))) root_tape (path_of n ++ [i]) hdef.
Proof.
  intros. unfold Tn. rewrite path_of_child by auto. rewrite app_length. simpl length.
  replace (length (path_of n) + 1) with (S (length (path_of n))) by lia. reflexivity.
Qed.

Lemma Dmt_eq_Tn : forall target, target <= 8 ^ max_depth ->
  forall f n, K_of target - n <= f -> Dmt (K_of target) n = Tn n.
Proof.
  intros target Ht. set (K := K_of target).
  induction f; intros n Hf.
  - apply Dmt_task. lia.
  - destruct (Nat.le_gt_cases K n) as [Hle|Hlt]; [apply Dmt_task; auto|].
    rewrite Dmt_exp by auto.
    assert (Hd : length (path_of n) < max_depth) by (eapply expanded_depth; eauto).
    assert (E1 : map (fun i => fst (Dmt K (8 * n + 1 + i))) (seq 0 8) =
                 map fst (map (fun i => T (max_depth - S (length (path_of n))) root_tape
                                          (path_of n ++ [i]) hdef) (seq 0 8))).
    { rewrite map_map. apply map_ext_in. intros i Hi. apply in_seq in Hi.
      rewrite IHf by lia. rewrite Tn_child by lia. reflexivity. }
    assert (E2 : map (fun i => snd (Dmt K (8 * n + 1 + i))) (seq 0 8) =
                 map snd (map (fun i => T (max_depth - S (length (path_of n))) root_tape
                                          (path_of n ++ [i]) hdef) (seq 0 8))).
    { rewrite map_map. apply map_ext_in. intros i Hi. apply in_seq in Hi.
      rewrite IHf by lia. rewrite Tn_child by lia. reflexivity. }
    rewrite E1, E2. unfold Tn.
    replace (max_depth - length (path_of n)) with (S (max_depth - S (length (path_of n)))) by lia.
    cbn [T].
    destruct (interval root_tape (path_of n)) as [| |sub] eqn:Ei.
    + apply combine_all_full.
      * rewrite !map_length, seq_length. reflexivity.
      * rewrite map_map. apply Forall_forall. intros a Ha. apply in_map_iff in Ha.
        destruct Ha as (i & <- & Hi). apply in_seq in Hi. apply coh_full; auto. lia.
    + apply combine_all_empty.
      * rewrite !map_length, seq_length. reflexivity.
      * rewrite map_map. apply Forall_forall. intros a Ha. apply in_map_iff in Ha.
        destruct Ha as (i & <- & Hi). apply in_seq in Hi. apply coh_empty; auto. lia.
    + assert (E : map (fun i => T (max_depth - S (length (path_of n))) root_tape
                                  (path_of n ++ [i]) hdef) (seq 0 8) =
                  map (fun i => T (max_depth - S (length (path_of n))) sub
                                  (path_of n ++ [i]) hdef) (seq 0 8)).
      { apply map_ext_in. intros i Hi. apply in_seq in Hi. apply T_agree; auto.
        apply (@V_sub_child root_tape (path_of n) sub i (V_root _) Ei); lia. }
      rewrite E. reflexivity.
Qed.

Theorem Dmt_root_eq_T_st : forall target, target <= 8 ^ max_depth ->
  fst (Dmt (K_of target) 0) = T_st.
Proof.
  intros. rewrite (@Dmt_eq_Tn target H (K_of target) 0) by lia.
  unfold Tn, T_st. simpl. rewrite Nat.sub_0_r. reflexivity.
Qed.

(* vertices of the leaves, in tree order *)
Fixpoint leaf_verts (a : atree) : list vertex :=
  match a with
  | ALeaf _ vs => vs
  | ABranch ch => flat_map leaf_verts ch
  | _ => []
  end.

(* M2, main theorem *)
Theorem M2_main : forall cmt canc target,
  2 <= target <= 8 ^ max_depth ->
  build_mt cmt target <> Cancel -> build_st canc <> Cancel ->
  exists omt ost,
    build_mt cmt target = Ok omt /\ build_st canc = Ok ost /\
    abs omt = Some T_st /\ abs ost = Some T_st.
Proof.
  intros cmt canc target [Ht1 Ht2] Hm Hs.
  destruct (M4_mt cmt target) as (_ & Hok & _). cbv zeta in Hok.
  destruct (Hok Ht1 Hm) as (omt & Em & Am).
  destruct (M4_st canc) as (_ & Hoks). destruct (Hoks Hs) as (ost & Es & As).
  exists omt, ost. repeat split; auto.
  rewrite Am. f_equal. apply Dmt_root_eq_T_st. exact Ht2.
Qed.

Lemma mt_target_range : forall threads,
  1 <= max_depth -> 1 <= threads ->
  2 <= mt_target max_depth threads <= 8 ^ max_depth.
Proof.
  intros threads Hd Ht. unfold mt_target.
  assert (8 <= 8 ^ max_depth).
  { destruct max_depth as [|d]; [lia|]. rewrite Nat.pow_succ_r'.
    assert (1 <= 8 ^ d) by (apply Nat.neq_0_lt_0, Nat.pow_nonzero; lia). lia. }
  lia.
Qed.

(* the result does not depend on the thread count *)
Corollary M2_threads : forall cmt1 cmt2 threads1 threads2,
  1 <= max_depth -> 1 <= threads1 -> 1 <= threads2 ->
  build_mt cmt1 (mt_target max_depth threads1) <> Cancel ->
  build_mt cmt2 (mt_target max_depth threads2) <> Cancel ->
  exists o1 o2,
    build_mt cmt1 (mt_target max_depth threads1) = Ok o1 /\
    build_mt cmt2 (mt_target max_depth threads2) = Ok o2 /\
    abs o1 = abs o2 /\
    (forall a1 a2, abs o1 = Some a1 -> abs o2 = Some a2 -> leaf_verts a1 = leaf_verts a2).
Proof.
  intros cmt1 cmt2 th1 th2 Hd H1 H2 Hc1 Hc2.
  destruct (M4_mt cmt1 (mt_target max_depth th1)) as (_ & Hok1 & _).
  destruct (M4_mt cmt2 (mt_target max_depth th2)) as (_ & Hok2 & _).
  cbv zeta in Hok1, Hok2.
  destruct (mt_target_range Hd H1) as [Ha1 Hb1].
  destruct (mt_target_range Hd H2) as [Ha2 Hb2].
  destruct (Hok1 Ha1 Hc1) as (o1 & E1 & A1).
  destruct (Hok2 Ha2 Hc2) as (o2 & E2 & A2).
  exists o1, o2. split; auto. split; auto.
  rewrite (Dmt_root_eq_T_st Hb1) in A1. rewrite (Dmt_root_eq_T_st Hb2) in A2.
  split; [congruence|]. intros a1 a2 G1 G2. congruence.
Qed.

End M2.

(* depth 0 with a thread pool: target_count = 1, the loop never runs,
   todo = [root] whose index is None, and `o.cell.index.unwrap()` panics *)
Theorem mt_depth0_panics : forall cmt threads,
  max_depth = 0 -> 1 <= threads ->
  build_mt cmt (mt_target max_depth threads) <> Cancel ->
  build_mt cmt (mt_target max_depth threads) = Panic.
Proof.
  intros cmt threads Hd Ht Hc.
  destruct (M4_mt cmt (mt_target max_depth threads)) as (_ & _ & Hp).
  apply Hp; auto. unfold mt_target. rewrite Hd. change (8 ^ 0) with 1. lia.
Qed.

End Sound.

(* ------------------------------------------------------------------ *)
(* Refutations: M2 is FALSE without the two semantic hypotheses.       *)
(* ------------------------------------------------------------------ *)

Ltac destruct_matches H :=
  repeat match type of H with
         | context [match ?x with _ => _ end] => destruct x
         end.

Lemma demo_leaf_len : forall t p h m vs h',
  Demo.ex_leaf t p h = LLeaf m vs h' -> length vs = Demo.ex_nverts m.
Proof.
  intros t p h m vs h' H. unfold Demo.ex_leaf in H.
  destruct_matches H; try discriminate; inversion H; reflexivity.
Qed.

Lemma demo_solve_len : forall p m h h2 vs,
  Demo.ex_hsolve p m h = Some (h2, vs) -> length vs = Demo.ex_nverts m.
Proof. intros. unfold Demo.ex_hsolve in H. inversion H; reflexivity. Qed.

(* (a) Without interval coherence.  One tape only (so tape independence
   holds trivially), leaves own exactly nverts vertices, the target count
   64 = 8^2 is what `min(8^depth, threads*10)` gives for >= 7 threads at
   depth 2 -- and the multi-threaded octree denotes a different tree.     *)
Theorem M2_without_coherence_refuted :
  ~ (forall (interval : unit -> path -> ires unit) (target : nat),
       2 <= target <= 8 ^ 2 ->
       abs_res Demo.ex_nverts
         (build_mt 0 tt 2 interval Demo.ex_leaf Demo.ex_collapsible
                   Demo.ex_hmerge Demo.ex_hsolve (fun _ _ => false) target) =
       abs_res Demo.ex_nverts
         (build_st 0 tt 2 interval Demo.ex_leaf Demo.ex_collapsible
                   Demo.ex_hmerge Demo.ex_hsolve (fun _ => false))).
Proof.
  intros H. specialize (H Demo.ex_interval_bad 64).
  apply Demo.bad_mt64_differs. apply H. simpl. lia.
Qed.

(* (b) Without tape independence.  Interval coherence holds vacuously
   (no cell is ever classified Full / Empty by its interval), depth 1,
   target 8 = 8^1 -- single-threaded says Empty, multi-threaded Full.    *)
Theorem M2_without_tape_independence_refuted :
  abs_res Demo2.ex_nverts (Demo2.mt 8) <> abs_res Demo2.ex_nverts Demo2.st.
Proof. rewrite Demo2.st_empty, Demo2.mt_full. discriminate. Qed.

(* Non-vacuity: the coherent demo instance satisfies every hypothesis of
   M2_main (with V := everything), so M2_main applies to it for every
   target count in range.                                               *)
Theorem demo_satisfies_M2 : forall target, 2 <= target <= 64 ->
  exists omt ost,
    Demo.mt target = Ok omt /\ Demo.st = Ok ost /\
    abs Demo.ex_nverts omt = abs Demo.ex_nverts ost.
Proof.
  intros target Ht.
  destruct (@M2_main nat nat unit 0 tt 2 Demo.ex_interval Demo.ex_leaf
              Demo.ex_collapsible Demo.ex_hmerge Demo.ex_hsolve Demo.ex_nverts
              demo_leaf_len demo_solve_len (fun _ _ => True))
    with (cmt := fun (_ _ : nat) => false) (canc := fun _ : nat => false)
         (target := target)
    as (omt & ost & Em & Es & Am & As); auto.
  - intros [] [] p _ _. destruct (Demo.ex_interval tt p); simpl; auto.
  - intros p i Hl Hi Hint.
    destruct p as [|x [|y q]]; simpl in Hl; try lia.
    + discriminate.
    + do 8 (destruct x as [|x]; [try discriminate; try reflexivity|]). discriminate.
  - intros p i Hl Hi Hint.
    destruct p as [|x [|y q]]; simpl in Hl; try lia.
    + discriminate.
    + do 8 (destruct x as [|x]; [try discriminate; try reflexivity|]). discriminate.
  - destruct (@M4_mt nat nat unit 0 tt 2 Demo.ex_interval Demo.ex_leaf
                Demo.ex_collapsible Demo.ex_hmerge Demo.ex_hsolve Demo.ex_nverts
                demo_leaf_len demo_solve_len (fun _ _ => false) target) as (Hc & _).
    intros E. apply Hc in E. destruct E as (i & k & _ & _ & E). discriminate.
  - destruct (@M4_st nat nat unit 0 tt 2 Demo.ex_interval Demo.ex_leaf
                Demo.ex_collapsible Demo.ex_hmerge Demo.ex_hsolve Demo.ex_nverts
                demo_leaf_len demo_solve_len (fun _ => false)) as (Hc & _).
    intros E. apply Hc in E. destruct E as (k & _ & E). discriminate.
  - exists omt, ost. unfold Demo.mt, Demo.st. repeat split; auto. congruence.
Qed.

(* ------------------------------------------------------------------ *)
(* Summary / assumptions                                               *)
(* ------------------------------------------------------------------ *)

Check M1_extend.
Check M1_remap.
Check rec_spec.
Check build_st_spec.
Check build_mt_spec.
Check M2_exact.
Check M2_main.
Check M2_threads.
Check M3_st.
Check M3_mt.
Check M3_reachable.
Check M4_st.
Check M4_mt.
Check mt_depth0_panics.
Check tasks_depth.
Check expanded_depth.

Print Assumptions M1_extend.
Print Assumptions M1_remap.
Print Assumptions M2_exact.
Print Assumptions M2_main.
Print Assumptions M2_threads.
Print Assumptions M3_st.
Print Assumptions M3_mt.
Print Assumptions M3_reachable.
Print Assumptions M4_st.
Print Assumptions M4_mt.
Print Assumptions mt_depth0_panics.
Print Assumptions demo_satisfies_M2.
Print Assumptions M2_without_coherence_refuted.
Print Assumptions M2_without_tape_independence_refuted.
