(* TraceValid.v — the trace a tracing evaluator records at an input is valid at
   that input, for any semantics whose choice function is honest:
   "Left" only when the result is the left operand, "Right" only when it is the right. *)
From Coq Require Import List Bool Arith Lia.
From FV Require Import Ops Tape SimplifyValidateProof.
Import ListNotations.

Section TraceValid.
Context {V I : Type}.
Variable sem : Sem V I.
Variable inputs : list V.
Notation op := (Tape.op I).
Notation st := (mstate (V:=V)).

Definition choice_law : Prop :=
  (forall b x y, bop_has_choice b = true ->
     (s_ch_rr sem b x y = TLeft -> s_rr sem b x y = x) /\
     (s_ch_rr sem b x y = TRight -> s_rr sem b x y = y)) /\
  (forall b x i, bop_has_choice b = true ->
     (s_ch_ri sem b x i = TLeft -> s_ri sem b x i = x) /\
     (s_ch_ri sem b x i = TRight -> s_ri sem b x i = s_imm sem i)).

(* the choices recorded while running [ops] from [s], in evaluation order *)
Fixpoint collect (ops : list op) (s : st) : list tchoice :=
  match ops with
  | [] => []
  | o :: rest =>
      let s' := step sem inputs s o in
      match o with
      | OBinRR b _ l r =>
          if bop_has_choice b then s_ch_rr sem b (m_slots s l) (m_slots s r) :: collect rest s' else collect rest s'
      | OBinRI b _ a imm =>
          if bop_has_choice b then s_ch_ri sem b (m_slots s a) imm :: collect rest s' else collect rest s'
      | _ => collect rest s'
      end
  end.

Lemma collect_trace ops : forall s,
  rev (m_trace (run_fwd sem inputs ops s)) = rev (m_trace s) ++ collect ops s.
Proof.
  induction ops as [|o ops IH]; intros s; unfold run_fwd in *; cbn [fold_left collect].
  - now rewrite app_nil_r.
  - rewrite IH. destruct o; cbn [step]; try reflexivity.
    + destruct (bop_has_choice b); cbn [m_trace set_slot push_choice rev]; [rewrite <- app_assoc|]; reflexivity.
    + destruct (bop_has_choice b); cbn [m_trace set_slot push_choice rev]; [rewrite <- app_assoc|]; reflexivity.
Qed.

Lemma collect_valid (Hlaw : choice_law) ops : forall s, valid_run sem inputs ops s (collect ops s).
Proof.
  destruct Hlaw as [Hrr Hri].
  induction ops as [|o ops IH]; intros s; cbn [valid_run collect]; [exact Logic.I|].
  destruct o; cbn [op_has_choice]; try apply IH.
  - destruct (bop_has_choice b) eqn:Eb; [|apply IH].
    split; [|apply IH].
    destruct (s_ch_rr sem b (m_slots s lhs) (m_slots s rhs)) eqn:Ec; cbn [choice_ok]; try exact Logic.I;
      rewrite ?Ec; destruct (Hrr b (m_slots s lhs) (m_slots s rhs) Eb) as [HL HR]; auto.
  - destruct (bop_has_choice b) eqn:Eb; [|apply IH].
    split; [|apply IH].
    destruct (s_ch_ri sem b (m_slots s arg) imm) eqn:Ec; cbn [choice_ok]; try exact Logic.I;
      destruct (Hri b (m_slots s arg) imm Eb) as [HL HR]; auto.
Qed.

(* the recorded trace (in evaluation order) is valid at the inputs that produced it,
   whatever the evaluator's slots held before *)
Theorem recorded_trace_valid (Hlaw : choice_law) tape e0 out0 :
  valid_at sem inputs tape e0 out0 (rev (m_trace (eval_tape sem tape inputs e0 out0))).
Proof.
  unfold valid_at, eval_tape. rewrite collect_trace. simpl. apply collect_valid, Hlaw.
Qed.

End TraceValid.
