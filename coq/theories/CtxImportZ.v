(* CtxImportZ.v — P4, the version up to the sign of zero.  [eqz] is a congruence for
   most opcodes (add sub mul min max compare and or; neg abs sqrt square floor ceil
   round not) and for the numerator of div; it is not for recip, the divisor of div,
   atan2, mod, mix, rand and the libm functions (an arbitrary oracle on bit patterns).
   [import_rec_sound_z]: the imported node is [eqz] to the direct denotation provided
   the operands of the non-congruent opcodes are not zeros, and the mul / div side
   conditions of P3 hold.  Zero constants, zero matrix entries and zero intermediate
   values are allowed everywhere else. *)
From Coq Require Import List Bool Arith ZArith Lia.
From Flocq Require Import IEEE754.BinarySingleNaN.
From FV Require Import F32 Ops Tape Alloc Flatten F32Sem CtxEval FlattenLib FlattenPass2 F32Facts Ctx CtxBase CtxCtors CtxSem CtxImport.
Import ListNotations.
Local Open Scope nat_scope.

Definition uop_z (u : uop) : bool :=
  match u with
  | UNeg | UAbs | USqrt | USquare | UFloor | UCeil | URound | UNot | UCopy => true
  | _ => false
  end.
Definition bop_z (p : bop) : bool :=
  match p with
  | BAdd | BSub | BMul | BMin | BMax | BCompare | BAnd | BOr => true
  | _ => false
  end.

Lemma eqz_cases a a' : eqz a a' -> a = a' \/ exists s s', a = B754_zero s /\ a' = B754_zero s'.
Proof.
  intros [->|[Z Z']]; auto. apply is_zerob_spec in Z, Z'.
  destruct Z as [s ->], Z' as [s' ->]. right; eauto.
Qed.

Lemma eqz_nan a b : eqz a b -> is_nanb a = is_nanb b.
Proof. intros H. apply eqz_cases in H. destruct H as [->|(s & s' & -> & ->)]; reflexivity. Qed.

Section Resp.
Variable o : oracle.

Lemma f32_un_eqz u a a' : uop_z u = true -> eqz a a' -> eqz (f32_un o u a) (f32_un o u a').
Proof.
  intros Hu H. apply eqz_cases in H. destruct H as [->|(s & s' & -> & ->)]; [apply eqz_refl|].
  destruct u; try discriminate; cbn [f32_un]; zz.
Qed.

Ltac zb b := destruct b as [sb|sb| |sb mb eb Hb]; try (left; reflexivity); zz.

Lemma f32_bin_eqz p a a' b b' :
  bop_z p = true -> eqz a a' -> eqz b b' -> eqz (f32_bin o p a b) (f32_bin o p a' b').
Proof.
  intros Hp Ha Hb. apply eqz_cases in Ha, Hb.
  destruct Ha as [->|(s1 & s2 & -> & ->)], Hb as [->|(s3 & s4 & -> & ->)]; try apply eqz_refl.
  - destruct p; try discriminate; cbn [f32_bin]; zb a'.
  - destruct p; try discriminate; cbn [f32_bin]; zb b'.
  - destruct p; try discriminate; cbn [f32_bin]; zz.
Qed.

Lemma fdiv_eqz_num a a' b : is_zerob b = false -> eqz a a' -> eqz (fdiv a b) (fdiv a' b).
Proof.
  intros Zb Ha. apply eqz_cases in Ha.
  destruct Ha as [->|(s1 & s2 & -> & ->)]; [apply eqz_refl|].
  destruct b as [sb|sb| |sb mb eb Hb]; try discriminate; zz.
Qed.

End Resp.

Section ImportZ.
Variable o : oracle.
Notation val := (ctx_eval (f32_sem o)).

(* when may the operands of an operation be replaced by [eqz] ones *)
Definition un_resp (u : uop) (x : f32) : Prop := uop_z u = true \/ nz x.
Definition bin_resp (p : bop) (x y : f32) : Prop :=
  match p with
  | BDiv => nz y
  | _ => bop_z p = true \/ (nz x /\ nz y)
  end.

Lemma un_resp_eqz u x x' : un_resp u x -> eqz x' x -> eqz (f32_un o u x') (f32_un o u x).
Proof.
  intros [Hu|Z] E; [apply f32_un_eqz; auto|].
  rewrite (eqz_nonzero _ _ E Z). apply eqz_refl.
Qed.

Lemma bin_resp_eqz p x x' y y' :
  bin_resp p x y -> eqz x' x -> eqz y' y -> eqz (f32_bin o p x' y') (f32_bin o p x y).
Proof.
  intros R Ex Ey.
  assert (G : bop_z p = true \/ (nz x /\ nz y) -> eqz (f32_bin o p x' y') (f32_bin o p x y)).
  { intros [Hp|[Zx Zy]]; [apply f32_bin_eqz; auto|].
    rewrite (eqz_nonzero _ _ Ex Zx), (eqz_nonzero _ _ Ey Zy). apply eqz_refl. }
  destruct p; try (apply G; exact R).
  simpl in R |- *. rewrite (eqz_nonzero _ _ Ey R). apply fdiv_eqz_num; auto.
Qed.

Lemma bin_side_eqz p x x' y y' : eqz x' x -> eqz y' y -> bin_side p x y -> bin_side p x' y'.
Proof.
  intros Ex Ey S. destruct p; simpl in *; auto.
  - eapply bin_side_mul_eqz; eauto.
  - intros Z. rewrite (eqz_zero_iff _ _ Ex) in Z. destruct (S Z) as [N Zy].
    rewrite (eqz_nan _ _ Ey), (eqz_zero_iff _ _ Ey). auto.
Qed.

Fixpoint tgoodz (fuel : nat) (t : list tnode) (env : nat -> f32) (i : nat) : Prop :=
  match fuel with
  | O => True
  | S f =>
      match nth_error t i with
      | None | Some (TConst _) | Some (TInput _) => True
      | Some (TUn u a) => tgoodz f t env a /\ un_resp u (tden o f t env a)
      | Some (TBin p l r) =>
          tgoodz f t env l /\ tgoodz f t env r /\
          bin_side p (tden o f t env l) (tden o f t env r) /\
          bin_resp p (tden o f t env l) (tden o f t env r)
      | Some (TRemapAxes target x y z) =>
          tgoodz f t env x /\ tgoodz f t env y /\ tgoodz f t env z /\
          tgoodz f t (set_axes env (tden o f t env x) (tden o f t env y) (tden o f t env z)) target
      | Some (TRemapAffine target mat) =>
          let X := env 0 in let Y := env 1 in let Z := env 2 in
          (forall i, i < 3 -> bin_side BMul (mat_at mat i 0) X /\ bin_side BMul (mat_at mat i 1) Y /\
                              bin_side BMul (mat_at mat i 2) Z) /\
          tgoodz f t (set_axes env (aff_row mat 0 X Y Z) (aff_row mat 1 X Y Z) (aff_row mat 2 X Y Z)) target
      end
  end.

Definition agree_z (c : ctx) (env env' : nat -> f32) (ax ay az : nat) : Prop :=
  (forall v, 3 <= v -> env' v = env v) /\
  eqz (val c env ax) (env' 0) /\ eqz (val c env ay) (env' 1) /\ eqz (val c env az) (env' 2).

Lemma agree_z_reach c c1 env env' ax ay az :
  reach goodc c c1 -> ax < length c -> ay < length c -> az < length c ->
  agree_z c env env' ax ay az -> agree_z c1 env env' ax ay az.
Proof.
  intros Rc Lx Ly Lz (A & B & C & D). repeat split; auto; rewrite (rv o c c1); auto.
Qed.

Lemma stepz_bin c p a b c1 n :
  arena_wf c -> build_bin o c p a b = Ok (c1, n) ->
  reach goodc c c1 /\ n < length c1 /\ arena_wf c1 /\
  forall env x y, eqz (val c env a) x -> eqz (val c env b) y ->
                  bin_side p x y -> bin_resp p x y -> eqz (val c1 env n) (f32_bin o p x y).
Proof.
  intros WF E. destruct (step_bin o c p a b c1 n WF E) as (_ & _ & A & B & C & _).
  repeat split; auto. intros env x y Ex Ey S Rp.
  eapply eqz_trans; [|apply bin_resp_eqz; eauto].
  apply (build_bin_sound_strong o c p a b c1 n env WF E).
  eapply bin_side_eqz; eauto.
Qed.

Theorem import_rec_sound_z : forall fuel t, no_copy t ->
  forall c ax ay az i c' n,
  arena_wf c -> ax < length c -> ay < length c -> az < length c ->
  import_rec o fuel t c (ax, ay, az) i = Ok (c', n) ->
  forall env env', agree_z c env env' ax ay az -> tgoodz fuel t env' i ->
                   eqz (val c' env n) (tden o fuel t env' i).
Proof.
  induction fuel as [|f IH]; intros t NC c ax ay az i c' n WF Lx Ly Lz E; [discriminate|].
  rewrite import_rec_S in E. cbn [tden tgoodz].
  destruct (nth_error t i) as [[v|v|u a|p l r|tg x y z|tg mat]|] eqn:Hi; [| | | | | |discriminate].
  - (* TInput *)
    destruct v as [|[|[|v]]].
    + inversion E; subst. intros env env' (A & B & C & D) _. auto.
    + inversion E; subst. intros env env' (A & B & C & D) _. auto.
    + inversion E; subst. intros env env' (A & B & C & D) _. auto.
    + intros env env' (A & B & C & D) _.
      rewrite (var_sound o c _ c' n env WF E). rewrite A by lia. apply eqz_refl.
  - (* TConst *)
    intros env env' _ _. apply (constant_sound o c v c' n env WF E).
  - (* TUn *)
    apply bindR_ok in E. destruct E as (c1 & na & E1 & E2).
    destruct (import_rec_sound o f t NC _ _ _ _ _ _ _ WF Lx Ly Lz E1) as (R1 & L1 & WF1 & _).
    intros env env' AG (G1 & Rsp).
    eapply eqz_trans; [apply (op_unary_sound o c1 na u c' n env WF1 E2)|].
    apply un_resp_eqz; auto. apply (IH t NC c ax ay az a c1 na WF Lx Ly Lz E1 env env' AG G1).
  - (* TBin *)
    apply bindR_ok in E. destruct E as (c1 & nr & E1 & E).
    apply bindR_ok in E. destruct E as (c2 & nl & E2 & E3).
    destruct (import_rec_sound o f t NC _ _ _ _ _ _ _ WF Lx Ly Lz E1) as (R1 & L1 & WF1 & _).
    pose proof (reach_length _ _ _ R1) as Len1.
    destruct (import_rec_sound o f t NC c1 ax ay az _ _ _ WF1 ltac:(lia) ltac:(lia) ltac:(lia) E2)
      as (R2 & L2 & WF2 & _).
    destruct (stepz_bin _ _ _ _ _ _ WF2 E3) as (R3 & L3 & WF3 & V3).
    intros env env' AG (Gl & Gr & S & Rsp).
    apply V3; auto.
    + apply (IH t NC c1 ax ay az l c2 nl WF1 ltac:(lia) ltac:(lia) ltac:(lia) E2 env env'); auto.
      eapply agree_z_reach; eauto.
    + rewrite (rv o c1 c2); auto.
      apply (IH t NC c ax ay az r c1 nr WF Lx Ly Lz E1 env env' AG Gr).
  - (* TRemapAxes *)
    apply bindR_ok in E. destruct E as (c1 & nz' & E1 & E).
    apply bindR_ok in E. destruct E as (c2 & ny & E2 & E).
    apply bindR_ok in E. destruct E as (c3 & nx & E3 & E4).
    destruct (import_rec_sound o f t NC _ _ _ _ _ _ _ WF Lx Ly Lz E1) as (R1 & L1 & WF1 & _).
    pose proof (reach_length _ _ _ R1) as Len1.
    destruct (import_rec_sound o f t NC c1 ax ay az _ _ _ WF1 ltac:(lia) ltac:(lia) ltac:(lia) E2)
      as (R2 & L2 & WF2 & _).
    pose proof (reach_length _ _ _ R2) as Len2.
    destruct (import_rec_sound o f t NC c2 ax ay az _ _ _ WF2 ltac:(lia) ltac:(lia) ltac:(lia) E3)
      as (R3 & L3 & WF3 & _).
    pose proof (reach_length _ _ _ R3) as Len3.
    pose proof (reach_trans _ _ _ _ R1 R2) as R02.
    intros env env' AG (Gx & Gy & Gz & Gt).
    assert (AG1 : agree_z c1 env env' ax ay az) by (eapply agree_z_reach; eauto).
    assert (AG2 : agree_z c2 env env' ax ay az) by (eapply agree_z_reach; eauto; lia).
    apply (IH t NC c3 nx ny nz' tg c' n WF3 ltac:(lia) ltac:(lia) ltac:(lia) E4 env _); auto.
    pose proof AG as (A & _). repeat split.
    + intros v Hv. destruct v as [|[|[|v]]]; try lia. simpl. apply A; auto.
    + simpl.
      apply (IH t NC c2 ax ay az x c3 nx WF2 ltac:(lia) ltac:(lia) ltac:(lia) E3 env env' AG2 Gx).
    + simpl. rewrite (rv o c2 c3); auto.
      apply (IH t NC c1 ax ay az y c2 ny WF1 ltac:(lia) ltac:(lia) ltac:(lia) E2 env env' AG1 Gy).
    + simpl. rewrite (rv o c1 c3); [|eapply reach_trans; eauto|auto].
      apply (IH t NC c ax ay az z c1 nz' WF Lx Ly Lz E1 env env' AG Gz).
  - (* TRemapAffine *)
    apply bindR_ok in E. destruct E as (c1 & nx & E1 & E).
    apply bindR_ok in E. destruct E as (c2 & ny & E2 & E).
    apply bindR_ok in E. destruct E as (c3 & nz' & E3 & E4).
    destruct (arow_sound_z o _ _ _ _ _ _ _ _ WF Lx Ly Lz E1) as (R1 & L1 & WF1 & V1).
    pose proof (reach_length _ _ _ R1) as Len1.
    destruct (arow_sound_z o mat ax ay az c1 1 _ _ WF1 ltac:(lia) ltac:(lia) ltac:(lia) E2)
      as (R2 & L2 & WF2 & V2).
    pose proof (reach_length _ _ _ R2) as Len2.
    destruct (arow_sound_z o mat ax ay az c2 2 _ _ WF2 ltac:(lia) ltac:(lia) ltac:(lia) E3)
      as (R3 & L3 & WF3 & V3).
    pose proof (reach_length _ _ _ R3) as Len3.
    pose proof (reach_trans _ _ _ _ R1 R2) as R02.
    intros env env' AG (Sd & Gt).
    assert (AG1 : agree_z c1 env env' ax ay az) by (eapply agree_z_reach; eauto).
    assert (AG2 : agree_z c2 env env' ax ay az) by (eapply agree_z_reach; eauto; lia).
    apply (IH t NC c3 nx ny nz' tg c' n WF3 ltac:(lia) ltac:(lia) ltac:(lia) E4 env _); auto.
    destruct AG as (A & B & C & D). destruct AG1 as (_ & B1 & C1 & D1).
    destruct AG2 as (_ & B2 & C2 & D2).
    destruct (Sd 0 ltac:(lia)) as (S00 & S01 & S02).
    destruct (Sd 1 ltac:(lia)) as (S10 & S11 & S12).
    destruct (Sd 2 ltac:(lia)) as (S20 & S21 & S22).
    repeat split.
    + intros v Hv. destruct v as [|[|[|v]]]; try lia. simpl. apply A; auto.
    + simpl. rewrite (rv o c1 c3); [|eapply reach_trans; eauto|auto]. apply V1; auto.
    + simpl. rewrite (rv o c2 c3) by auto. apply V2; auto.
    + simpl. apply V3; auto.
Qed.

(* Context::import, up to the sign of zero; exact when the result is not a zero *)
Theorem import_sound_z t root c c' n :
  arena_wf c -> no_copy t -> import o t root c = Ok (c', n) ->
  forall env, tgoodz (S (length t)) t env root ->
              eqz (val c' env n) (tden o (S (length t)) t env root).
Proof.
  intros WF NC E. unfold import in E.
  apply bindR_ok in E. destruct E as (c1 & x & E1 & E).
  apply bindR_ok in E. destruct E as (c2 & y & E2 & E).
  apply bindR_ok in E. destruct E as (c3 & z & E3 & E4).
  destruct (step_var o _ _ _ _ WF E1) as (R1 & L1 & WF1 & V1).
  destruct (step_var o _ _ _ _ WF1 E2) as (R2 & L2 & WF2 & V2).
  destruct (step_var o _ _ _ _ WF2 E3) as (R3 & L3 & WF3 & V3).
  pose proof (reach_length _ _ _ R2) as Len2. pose proof (reach_length _ _ _ R3) as Len3.
  intros env G.
  apply (import_rec_sound_z _ t NC c3 x y z root c' n WF3 ltac:(lia) ltac:(lia) ltac:(lia) E4 env env); auto.
  repeat split; auto.
  - rewrite (rv o c1 c3); [|eapply reach_trans; eauto|auto]. rewrite V1. apply eqz_refl.
  - rewrite (rv o c2 c3); auto. rewrite V2. apply eqz_refl.
  - rewrite V3. apply eqz_refl.
Qed.

Corollary import_sound_z_exact t root c c' n :
  arena_wf c -> no_copy t -> import o t root c = Ok (c', n) ->
  forall env, tgoodz (S (length t)) t env root ->
              nz (tden o (S (length t)) t env root) ->
              val c' env n = tden o (S (length t)) t env root.
Proof.
  intros WF NC E env G Z. apply eqz_nonzero; auto. eapply import_sound_z; eauto.
Qed.

End ImportZ.

Print Assumptions import_rec_sound_z.
Print Assumptions import_sound_z.
