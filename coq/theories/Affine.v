(* Affine.v — consecutive affine remaps collapse into one (Tree::remap_affine flattens
   `RemapAffine{target, next}.remap_affine(mat)` into `RemapAffine{target, next * mat}`):
   over the reals, applying the product is applying the factors, the later remap acting
   on the coordinates first. *)
From Coq Require Import Reals Lra.
Open Scope R_scope.

Record aff := { a00 : R; a01 : R; a02 : R; a03 : R;
                a10 : R; a11 : R; a12 : R; a13 : R;
                a20 : R; a21 : R; a22 : R; a23 : R }.

Definition apply (m : aff) (p : R * R * R) : R * R * R :=
  let '(x, y, z) := p in
  (a00 m * x + a01 m * y + a02 m * z + a03 m,
   a10 m * x + a11 m * y + a12 m * z + a13 m,
   a20 m * x + a21 m * y + a22 m * z + a23 m).

(* homogeneous product of two affine maps *)
Definition compose (n m : aff) : aff :=
  {| a00 := a00 n * a00 m + a01 n * a10 m + a02 n * a20 m;
     a01 := a00 n * a01 m + a01 n * a11 m + a02 n * a21 m;
     a02 := a00 n * a02 m + a01 n * a12 m + a02 n * a22 m;
     a03 := a00 n * a03 m + a01 n * a13 m + a02 n * a23 m + a03 n;
     a10 := a10 n * a00 m + a11 n * a10 m + a12 n * a20 m;
     a11 := a10 n * a01 m + a11 n * a11 m + a12 n * a21 m;
     a12 := a10 n * a02 m + a11 n * a12 m + a12 n * a22 m;
     a13 := a10 n * a03 m + a11 n * a13 m + a12 n * a23 m + a13 n;
     a20 := a20 n * a00 m + a21 n * a10 m + a22 n * a20 m;
     a21 := a20 n * a01 m + a21 n * a11 m + a22 n * a21 m;
     a22 := a20 n * a02 m + a21 n * a12 m + a22 n * a22 m;
     a23 := a20 n * a03 m + a21 n * a13 m + a22 n * a23 m + a23 n |}.

(* a target t remapped by `next` and then by `mat` evaluates at p to t (next (mat p)):
   the flattened matrix is next * mat *)
Theorem affine_compose (next mat : aff) (p : R * R * R) :
  apply (compose next mat) p = apply next (apply mat p).
Proof.
  destruct p as [[x y] z]. unfold apply, compose; simpl.
  f_equal; [f_equal|]; ring.
Qed.

Definition aff_id : aff :=
  {| a00 := 1; a01 := 0; a02 := 0; a03 := 0; a10 := 0; a11 := 1; a12 := 0; a13 := 0;
     a20 := 0; a21 := 0; a22 := 1; a23 := 0 |}.

Lemma apply_id p : apply aff_id p = p.
Proof. destruct p as [[x y] z]. unfold apply, aff_id; simpl. f_equal; [f_equal|]; ring. Qed.

Lemma compose_assoc a b c p : apply (compose (compose a b) c) p = apply (compose a (compose b c)) p.
Proof. now rewrite !affine_compose. Qed.
