(* Render3.v — executable model of the tiled 3D (heightmap + normal) renderer

     fidget-raster/src/voxel.rs   Worker::render_tile, render_tile_recurse,
                                  render_tile_pixels, render, GeometryPixel
     fidget-raster/src/lib.rs     Tile, TileSizesRef, render_tiles, Image
   (tile-size helpers, [pixel_offset], [root_tiles], [znth]/[upd] come from
   Render2.v)

   Abstract evaluators (everything that touches f32 lives inside them: the
   `as f32` casts, the interval [base, base + tile_size] per axis, the
   screen-to-model transform, variable binding):

     tape, trace, ires, V, G : Type
     ieval   : tape -> Z*Z*Z -> Z -> ires * option trace
                     [ieval t (cx,cy,cz) s]: interval evaluation over the
                     closed box [cx,cx+s] x [cy,cy+s] x [cz,cz+s]
     i_upper_neg, i_lower_pos : ires -> bool    `i.upper() < 0.0`, `i.lower() > 0.0`
     simplify : tape -> trace -> tape            RenderHandle::simplify
     feval   : tape -> Z*Z*Z -> V                one lane of eval_float_slice
     neg     : V -> bool                         `d < 0.0` (first-hit search)
     geval   : tape -> Z*Z*Z -> G                one lane of eval_grad_slice at
                     (Grad(x,1,0,0), Grad(y,0,1,0), Grad(z,0,0,1)), reduced to
                     [g.dx, g.dy, g.dz]
     g_zero, g_up : G                            the normals [0,0,0] (Default)
                     and [0,0,1] (saturated pixels)

   Conventions
   * usize/u32 are [Z]; the `try_into().unwrap()` conversions usize -> u32 are
     not modelled (they fail only beyond 2^32 voxels of depth).
   * A worker's state is the tile image [out] plus a flag [ok]; [ok] becomes
     false when one of the two `assert!`s of render_tile_pixels
     (`size > 0`, `self.out[o].depth < z`) fails, i.e. when Rust would panic.
     Render3Sound proves the flag stays true.
   * scratch.columns is a [list Z] that is filtered in the first loop and
     overwritten in place (`columns[grad] = o`) in the second loop, exactly as
     in the code; scratch.xg/yg/zg[..grad] is the list [gpts] (one triple per
     gradient point, appended in order).
   * `out.chunks(tile_size)`: the col-th chunk is
     [firstn tile_size (skipn (col*tile_size) out)] (the iterator is advanced
     exactly once per loop iteration, also on `continue`).
   * `(0..n).rev()` is [rev (zrange n)]; `.all(..)` is [forallb].
   * The return value of nested `render_tile_recurse` calls is discarded, as
     in the code; only Worker::render_tile looks at it (`break`).
   * render_tiles: sequential semantics, no cancellation.
   * The merge loop of voxel::render is modelled in BOTH versions: the current
     one (commit d2ae9d5: `let d = depth(); if out.depth >= d { depth: d, .. }`)
     and the one before the repair (`let d = depth() - 1; if out.depth >= d
     { depth: d + 1, .. }`), selected by a boolean [old].  [render3_full],
     [render3], [brute3], [clamp_up] are the current code; [render3_full_old],
     [brute3_old], [clamp_up_old] are the code before the repair.
   * the theorems assume image depth >= 1 (with the old clamp, depth 0 made
     `image_size.depth() - 1` underflow in u32).

   ENTRY POINTS (after the section is closed; argument order):

     render3_full (* implicit: tape trace ires V G *)
                  ieval i_upper_neg i_lower_pos simplify feval neg geval
                  g_zero g_up
                  tile_sizes width height depth root
        : list (gpix G) * bool      (row-major image, index y*width + x;
                                     the bool is "no assertion failed")
     render3      (same arguments)
        : list Z * list G           (depth image, normal image)
     render3_full_old (same arguments)           the merge loop before d2ae9d5 *)

From Coq Require Import List ZArith Bool Lia.
From FV Require Import Render2.
Import ListNotations.
Open Scope Z_scope.

Set Implicit Arguments.

(* GeometryPixel *)
Record gpix (G : Type) : Type := mkG { g_depth : Z; g_normal : G }.

(* 1 + (the largest z in [lo, lo+n) with f z), or 0 if there is none:
   the brute-force heightmap of one column, searched from the top *)
Fixpoint colmax_n (f : Z -> bool) (lo : Z) (n : nat) : Z :=
  match n with
  | O => 0
  | S m => if f (lo + Z.of_nat m) then lo + Z.of_nat m + 1 else colmax_n f lo m
  end.

Definition colmax (f : Z -> bool) (lo hi : Z) : Z := colmax_n f lo (Z.to_nat (hi - lo)).

(* the final `Clamp voxels to the image depth` of voxel::render *)
Definition clamp_up (d h : Z) : Z := if d <=? h then d else h.
(* ... and before the repair d2ae9d5 (off by one) *)
Definition clamp_up_old (d h : Z) : Z := if d - 1 <=? h then d else h.

(* depth.iter().enumerate().find(|(_, d)| **d < 0.0) *)
Fixpoint find_idx (A : Type) (f : A -> bool) (l : list A) (i : Z) : option Z :=
  match l with
  | [] => None
  | a :: r => if f a then Some i else find_idx f r (i + 1)
  end.

Section Render3.
  Variables (tape trace ires V G : Type).
  Variable ieval : tape -> Z * Z * Z -> Z -> ires * option trace.
  Variable i_upper_neg : ires -> bool.
  Variable i_lower_pos : ires -> bool.
  Variable simplify : tape -> trace -> tape.
  Variable feval : tape -> Z * Z * Z -> V.
  Variable neg : V -> bool.
  Variable geval : tape -> Z * Z * Z -> G.
  Variable g_zero : G.
  Variable g_up : G.

  Notation gp := (gpix G).
  Definition gdefault : gp := mkG 0 g_zero.        (* GeometryPixel::default() *)

  Record wstate : Type := mkW { w_out : list gp; w_ok : bool }.

  Definition depth_at (out : list gp) (o : Z) : Z := g_depth (znth out o gdefault).

  (* Worker::render_tile_pixels *)
  Definition render_tile_pixels (t0 : Z) (shape : tape) (tile_size : Z)
             (corner : Z * Z * Z) (st : wstate) : wstate :=
    let '(cx, cy, cz) := corner in
    let zmax := cz + tile_size in
    (* first loop: scratch.columns and scratch.{x,y,z} *)
    let columns0 :=
      filter (fun xy =>
                let i := xy mod tile_size in
                let j := xy / tile_size in
                let o := pixel_offset t0 (cx + i, cy + j) in
                negb (zmax <=? depth_at (w_out st) o))
             (zrange (tile_size * tile_size)) in
    let pts :=
      flat_map (fun xy =>
                  let i := xy mod tile_size in
                  let j := xy / tile_size in
                  map (fun k => (cx + i, cy + j, cz + k)) (rev (zrange tile_size)))
               columns0 in
    let size := zlength pts in
    let ok1 := w_ok st && (0 <? size) in                 (* assert!(size > 0) *)
    let out := map (feval shape) pts in
    (* second loop *)
    let '(buf, columns, gpts, ok2) :=
      fold_left (fun (acc : list gp * list Z * list (Z * Z * Z) * bool) col =>
        let '(buf, columns, gpts, ok) := acc in
        let chunk := firstn (Z.to_nat tile_size) (skipn (Z.to_nat (col * tile_size)) out) in
        match find_idx neg chunk 0 with
        | None => acc                                    (* continue *)
        | Some kidx =>
            let xy := znth columns col 0 in
            let i := xy mod tile_size in
            let j := xy / tile_size in
            let k := tile_size - 1 - kidx in
            let o := pixel_offset t0 (cx + i, cy + j) in
            let z := cz + k + 1 in
            let ok' := ok && (depth_at buf o <? z) in    (* assert!(out[o].depth < z) *)
            let buf' := upd buf o (mkG z (g_normal (znth buf o gdefault))) in
            let grad := zlength gpts in
            (buf', upd columns grad o, gpts ++ [(cx + i, cy + j, cz + k)], ok')
        end)
        (zrange (zlength columns0)) (w_out st, columns0, [], ok1) in
    let grad := zlength gpts in
    if 0 <? grad then
      let gout := map (geval shape) gpts in
      let buf' :=
        fold_left (fun buf index =>
          let o := znth columns index 0 in
          upd buf o (mkG (g_depth (znth buf o gdefault)) (znth gout index g_zero)))
          (zrange grad) buf in
      mkW buf' ok2
    else mkW buf ok2.

  (* Worker::render_tile_recurse; returns (state, keep going?) *)
  Fixpoint render_tile_recurse (t0 : Z) (sizes : list Z) (shape : tape)
           (corner : Z * Z * Z) (st : wstate) : wstate * bool :=
    match sizes with
    | [] => (st, true)                              (* self.tile_sizes[depth] panics *)
    | tile_size :: rest =>
        let '(cx, cy, cz) := corner in
        let fill_z := cz + tile_size + 1 in
        (* Early exit if every single pixel is filled *)
        if forallb (fun y =>
             let i := pixel_offset t0 (cx + 0, cy + y) in
             forallb (fun x => fill_z <=? depth_at (w_out st) (i + x)) (zrange tile_size))
             (zrange tile_size)
        then (st, false)
        else
          let '(i, tr) := ieval shape corner tile_size in
          if i_upper_neg i then
            let out' :=
              fold_left (fun out y =>
                let i := pixel_offset t0 (cx + 0, cy + y) in
                fold_left (fun out x =>
                  let old := znth out (i + x) gdefault in
                  upd out (i + x) (mkG (Z.max (g_depth old) fill_z) (g_normal old)))
                  (zrange tile_size) out)
                (zrange tile_size) (w_out st) in
            (mkW out' (w_ok st), false)             (* completely full, stop rendering *)
          else if i_lower_pos i then (st, true)     (* completely empty, keep going *)
          else
            let sub_tape := match tr with
                            | Some tr => simplify shape tr
                            | None => shape
                            end in
            match rest with
            | next_tile_size :: _ =>
                let n := tile_size / next_tile_size in
                (fold_left (fun st j =>
                   fold_left (fun st i =>
                     fold_left (fun st k =>
                       fst (render_tile_recurse t0 rest sub_tape
                              (cx + i * next_tile_size,
                               cy + j * next_tile_size,
                               cz + k * next_tile_size) st))
                       (rev (zrange n)) st)
                     (zrange n) st)
                   (zrange n) st, true)
            | [] => (render_tile_pixels t0 sub_tape tile_size corner st, true)
            end
    end.

  (* the `for k in (0..).rev() { if !recurse {break} }` loop of Worker::render_tile *)
  Fixpoint root_loop (t0 : Z) (sizes : list Z) (shape : tape) (tile : Z * Z)
           (ks : list Z) (st : wstate) : wstate :=
    match ks with
    | [] => st
    | k :: r =>
        let '(st', cont) :=
          render_tile_recurse t0 sizes shape (fst tile, snd tile, k * t0) st in
        if cont then root_loop t0 sizes shape tile r st' else st'
    end.

  (* Worker::render_tile *)
  Definition render_tile (sizes : list Z) (image_depth : Z) (shape : tape)
             (tile : Z * Z) : wstate :=
    let t0 := hd 0 sizes in
    let st := mkW (repeat gdefault (Z.to_nat (t0 * t0))) true in
    root_loop t0 sizes shape tile (rev (zrange (div_ceil image_depth t0))) st.

  Definition render_tiles (sizes : list Z) (width height image_depth : Z) (shape : tape)
    : list ((Z * Z) * wstate) :=
    map (fun tile => (tile, render_tile sizes image_depth shape tile))
        (root_tiles (hd 0 sizes) width height).

  (* the merge loop of voxel::render; [old = true] is the loop before the
     repair d2ae9d5 *)
  Definition assemble3_gen (old : bool) (t0 width height image_depth : Z)
             (tiles : list ((Z * Z) * wstate)) : list gp :=
    let image := repeat gdefault (Z.to_nat (width * height)) in
    fold_left (fun image td =>
      let '(tile, wst) := td in
      let out := w_out wst in
      fold_left (fun image j =>
        let y := j + snd tile in
        fold_left (fun image i =>
          let x := i + fst tile in
          let index := j * t0 + i in
          if (x <? width) && (y <? height) then
            let o := y * width + x in
            let px := znth out index gdefault in
            if g_depth (znth image o gdefault) <=? g_depth px then
              if old then
                let d := image_depth - 1 in
                if d <=? g_depth px
                then upd image o (mkG (d + 1) g_up)
                else upd image o px
              else
                (* Clamp voxels to the image depth *)
                let d := image_depth in
                if d <=? g_depth px
                then upd image o (mkG d g_up)
                else upd image o px
            else image
          else image)
          (zrange t0) image)
        (zrange t0) image)
      tiles image.

  (* voxel::render *)
  Definition render3_full_gen (old : bool) (tiles : list Z)
             (width height image_depth : Z) (root : tape) : list gp * bool :=
    let max_size := Z.max width height in
    let sizes := tile_sizes_ref tiles max_size in
    let rendered := render_tiles sizes width height image_depth root in
    (assemble3_gen old (hd 0 sizes) width height image_depth rendered,
     forallb (fun td => w_ok (snd td)) rendered).

  Definition render3_full := render3_full_gen false.
  Definition render3_full_old := render3_full_gen true.

  Definition render3 (tiles : list Z) (width height image_depth : Z) (root : tape)
    : list Z * list G :=
    let img := fst (render3_full tiles width height image_depth root) in
    (map (@g_depth G) img, map (@g_normal G) img).

  (** brute force: per-voxel evaluation *)

  (* heightmap of column (x,y) over z in [0, d) *)
  Definition heightmap (root : tape) (d : Z) (x y : Z) : Z :=
    colmax (fun z => neg (feval root (x, y, z))) 0 d.

  (* what the renderer produces: heightmap over the padded grid
     [0, ztop), ztop = ceil(d / t0) * t0, followed by the code's clamp *)
  Definition brute3_pixel_gen (old : bool) (root : tape) (d ztop : Z) (x y : Z) : gp :=
    let hh := heightmap root ztop x y in
    if (if old then d - 1 else d) <=? hh then mkG d g_up
    else if hh =? 0 then gdefault
    else mkG hh (geval root (x, y, hh - 1)).

  Definition brute3_gen (old : bool) (tiles : list Z) (width height d : Z) (root : tape)
    : list gp :=
    let t0 := hd 0 (tile_sizes_ref tiles (Z.max width height)) in
    let ztop := div_ceil d t0 * t0 in
    map (fun o => brute3_pixel_gen old root d ztop (o mod width) (o / width))
        (zrange (width * height)).

  Definition brute3_pixel := brute3_pixel_gen false.
  Definition brute3 := brute3_gen false.
  Definition brute3_old := brute3_gen true.

End Render3.

(** * A tiny executable instance: a sphere, exact integer interval arithmetic *)

Module Render3Demo.
  Import Render2Demo.

  Definition tape := (Z * Z * Z * Z)%type.            (* centre, radius *)

  Definition feval (t : tape) (p : Z * Z * Z) : Z :=
    let '(a, b, c, r) := t in
    let '(x, y, z) := p in
    (x - a) * (x - a) + (y - b) * (y - b) + (z - c) * (z - c) - r * r.

  Definition geval (t : tape) (p : Z * Z * Z) : Z * Z * Z :=
    let '(a, b, c, r) := t in
    let '(x, y, z) := p in
    (2 * (x - a), 2 * (y - b), 2 * (z - c)).

  Definition ieval (t : tape) (c : Z * Z * Z) (s : Z) : (Z * Z) * option unit :=
    let '(a, b, c0, r) := t in
    let '(x, y, z) := c in
    let ix := sq_itv a x (x + s) in
    let iy := sq_itv b y (y + s) in
    let iz := sq_itv c0 z (z + s) in
    ((fst ix + fst iy + fst iz - r * r, snd ix + snd iy + snd iz - r * r), Some tt).

  Definition simplify (t : tape) (_ : unit) : tape := t.

  Definition render (ts : list Z) (w h d : Z) (t : tape) :=
    render3_full ieval i_upper_neg i_lower_pos simplify feval neg geval
                 (0, 0, 0) (0, 0, 1) ts w h d t.

  Definition brute (ts : list Z) (w h d : Z) (t : tape) :=
    brute3 feval neg geval (0, 0, 0) (0, 0, 1) ts w h d t.

  (* the renderer before the repair d2ae9d5 *)
  Definition render_old (ts : list Z) (w h d : Z) (t : tape) :=
    render3_full_old ieval i_upper_neg i_lower_pos simplify feval neg geval
                     (0, 0, 0) (0, 0, 1) ts w h d t.

  Definition brute_old (ts : list Z) (w h d : Z) (t : tape) :=
    brute3_old feval neg geval (0, 0, 0) (0, 0, 1) ts w h d t.

  Definition gpix_eqb (a b : gpix (Z * Z * Z)) : bool :=
    (g_depth a =? g_depth b) &&
    (let '(x, y, z) := g_normal a in let '(x', y', z') := g_normal b in
     (x =? x') && (y =? y') && (z =? z')).

  (* 12 x 10 x 12 voxels, tile sizes [8;4;2] (the grid depth is not a multiple
     of the root tile: the root tile column extends to z = 16) *)
  Eval vm_compute in
      chop 10 12 (map (@g_depth _) (fst (render [8; 4; 2] 12 10 12 (5, 5, 5, 4)))).

  Example demo3_equiv_brute :
    let r := render [8; 4; 2] 12 10 12 (5, 5, 5, 4) in
    forallb2 gpix_eqb (fst r) (brute [8; 4; 2] 12 10 12 (5, 5, 5, 4)) && snd r = true.
  Proof. vm_compute. reflexivity. Qed.

  (* a bigger one; the sphere pokes through the top of the grid *)
  Example demo3_32 :
    let r := render [16; 4] 32 32 24 (15, 17, 14, 11) in
    forallb2 gpix_eqb (fst r) (brute [16; 4] 32 32 24 (15, 17, 14, 11)) && snd r = true.
  Proof. vm_compute. reflexivity. Qed.

  (* d = 8; the sphere of radius 3 around (4,4,4) has its top voxel at z = 6 in
     column (4,4) (true height 7 = d-1) and at z = 4 in column (2,2). *)
  Example demo3_second_from_top :
    let img := fst (render [8; 4; 2] 8 8 8 (4, 4, 4, 3)) in
    heightmap feval neg (4, 4, 4, 3) 8 2 2 = 5 /\
    g_depth (znth img (2 * 8 + 2) (mkG 0 (0, 0, 0))) = 5 /\
    heightmap feval neg (4, 4, 4, 3) 8 4 4 = 7 /\
    g_depth (znth img (4 * 8 + 4) (mkG 0 (0, 0, 0))) = 7 /\
    g_normal (znth img (4 * 8 + 4) (mkG 0 (0, 0, 0))) = geval (4, 4, 4, 3) (4, 4, 6).
  Proof. vm_compute. repeat split. Qed.

  (* before the repair: the column of true height d-1 was reported as
     saturated: depth d, normal (0,0,1) *)
  Example demo3_clamp_quirk_old :
    let img := fst (render_old [8; 4; 2] 8 8 8 (4, 4, 4, 3)) in
    g_depth (znth img (2 * 8 + 2) (mkG 0 (0, 0, 0))) = 5 /\
    g_depth (znth img (4 * 8 + 4) (mkG 0 (0, 0, 0))) = 8 /\
    g_normal (znth img (4 * 8 + 4) (mkG 0 (0, 0, 0))) = (0, 0, 1).
  Proof. vm_compute. repeat split. Qed.

  Example demo3_old_equiv_brute_old :
    let r := render_old [8; 4; 2] 12 10 12 (5, 5, 5, 4) in
    forallb2 gpix_eqb (fst r) (brute_old [8; 4; 2] 12 10 12 (5, 5, 5, 4)) && snd r = true.
  Proof. vm_compute. reflexivity. Qed.

End Render3Demo.
