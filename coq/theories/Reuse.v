(* Reuse.v — C10: what a reused object held before cannot influence results.
   (1) RegisterAllocator::reset / VmWorkspace::reset yield exactly the fresh state;
   (2) evaluation does not depend on stale slot contents (via the validator theorem)
       nor on stale output-vector contents when every output index is written. *)
From Coq Require Import List Bool Arith Lia.
From FV Require Import Ops Tape Lru Alloc Simplify Validate ValidateProof.
Import ListNotations.

Section Reset.
Context {I : Type}.
Notation op := (Tape.op I).

(* Vec::fill(x) followed by Vec::resize(size, x) *)
Definition fill_resize {A} (l : list A) (size : nat) (x : A) : list A :=
  map (fun _ => x) (firstn size l) ++ repeat x (size - length l).

Lemma map_const_repeat {A B} (l : list A) (x : B) : map (fun _ => x) l = repeat x (length l).
Proof. induction l; simpl; congruence. Qed.

Lemma fill_resize_fresh {A} (l : list A) size x : fill_resize l size x = repeat x size.
Proof.
  unfold fill_resize. rewrite map_const_repeat, firstn_length, <- repeat_app. f_equal. lia.
Qed.

(* RegisterAllocator::reset(size, tape), field by field, from ANY prior state *)
Definition alloc_reset (s : ast I) (size : nat) : result (ast I) :=
  match a_out s with
  | _ :: _ => Err 50   (* assert!(self.out.is_empty()) *)
  | [] =>
      Ok {| a_n := a_n s;
            a_alloc := fill_resize (a_alloc s) size None;          (* fill; resize *)
            a_regs := map (fun _ => None) (a_regs s);              (* registers.fill(UNASSIGNED) *)
            a_lru := lru_new (a_n s);
            a_spare_regs := [] ++ seq 0 (a_n s);                   (* clear; extend((0..N).rev()) *)
            a_spare_mem := [];
            a_out := [];                                            (* out = tape; out.reset() *)
            a_slot_count := 0 |}
  end.

Theorem alloc_reset_is_new (s : ast I) size :
  a_out s = [] -> length (a_regs s) = a_n s ->
  alloc_reset s size = Ok (alloc_new (a_n s) size).
Proof.
  intros Ho Hl. unfold alloc_reset, alloc_new. rewrite Ho.
  rewrite fill_resize_fresh, map_const_repeat, Hl. reflexivity.
Qed.

(* VmWorkspace::reset(tape_len, tape): bind.fill(MAX); bind.resize(len, MAX); count = 0 *)
Definition ws_reset (w : ws) (len : nat) : ws :=
  {| w_bind := fill_resize (w_bind w) len None; w_count := 0 |}.

Theorem ws_reset_is_new (w : ws) len :
  ws_reset w len = {| w_bind := repeat None len; w_count := 0 |}.
Proof. unfold ws_reset. now rewrite fill_resize_fresh. Qed.

End Reset.

Section Stale.
Context {V I : Type}.
Variable sem : Sem V I.
Variable inputs : list V.
Notation op := (Tape.op I).
Notation st := (mstate (V:=V)).

Definition out_index (o : op) : option nat := match o with OOutput _ i => Some i | _ => None end.

(* two runs that differ only in what the output vector held before *)
Definition rel (written : list nat) (a b : st) : Prop :=
  m_slots a = m_slots b /\ m_trace a = m_trace b /\ length (m_out a) = length (m_out b) /\
  forall i, In i written -> nth_error (m_out a) i = nth_error (m_out b) i.

Lemma nth_error_list_upd {A} (l : list A) k v i :
  nth_error (list_upd l k v) i = if Nat.eqb i k then (if Nat.ltb k (length l) then Some v else None) else nth_error l i.
Proof.
  revert k i. induction l as [|x l IH]; intros [|k] [|i]; simpl; try reflexivity.
  - destruct (Nat.eqb i k); reflexivity.
  - rewrite IH. destruct (Nat.eqb i k); [|reflexivity].
    replace (Nat.ltb (S k) (S (length l))) with (Nat.ltb k (length l)); [reflexivity|].
    destruct (Nat.ltb_spec k (length l)), (Nat.ltb_spec (S k) (S (length l))); try reflexivity; lia.
Qed.

Lemma list_upd_length {A} (l : list A) k v : length (list_upd l k v) = length l.
Proof. revert k; induction l as [|x l IH]; intros [|k]; simpl; auto. Qed.

Lemma rel_step written a b (o : op) :
  rel written a b ->
  rel (match out_index o with Some i => i :: written | None => written end)
      (step sem inputs a o) (step sem inputs b o).
Proof.
  intros (Hs & Ht & Hl & Hw).
  destruct o; simpl; unfold rel; simpl; rewrite ?Hs, ?Ht;
    try (repeat split; try assumption; try reflexivity; fail);
    try (destruct (bop_has_choice b0); simpl; rewrite ?Hs, ?Ht; repeat split; try assumption; reflexivity).
  (* Output *)
  repeat split; try reflexivity.
  - now rewrite !list_upd_length.
  - intros k Hk. rewrite !nth_error_list_upd, Hl.
    destruct (Nat.eqb k i) eqn:E; [reflexivity|].
    destruct Hk as [<- | Hk]; [now rewrite Nat.eqb_refl in E | now apply Hw].
Qed.

Lemma rel_run ops : forall written a b,
  rel written a b ->
  rel (rev (flat_map (fun o => match out_index o with Some i => [i] | None => [] end) ops) ++ written)
      (run_fwd sem inputs ops a) (run_fwd sem inputs ops b).
Proof.
  induction ops as [|o ops IH]; intros written a b H; unfold run_fwd in *; simpl; [exact H|].
  pose proof (IH _ _ _ (rel_step _ _ _ o H)) as R.
  destruct (out_index o) as [i|]; simpl in *.
  - rewrite <- app_assoc. exact R.
  - exact R.
Qed.

Lemma nth_error_ext_hyp {A} : forall (l l' : list A),
  (forall i, nth_error l i = nth_error l' i) -> l = l'.
Proof.
  induction l as [|x l IH]; intros [|y l'] H; try reflexivity.
  - specialize (H 0); discriminate.
  - specialize (H 0); discriminate.
  - pose proof (H 0) as H0. simpl in H0. injection H0 as <-. f_equal. apply IH. intros i. exact (H (S i)).
Qed.

(* every output index below n is written by the tape *)
Definition covers (tape : list op) (n : nat) : Prop :=
  forall i, i < n -> exists a, In (OOutput a i) tape.

Theorem out_independent tape e0 out0 out0' :
  length out0 = length out0' -> covers tape (length out0) ->
  m_out (eval_tape sem tape inputs e0 out0) = m_out (eval_tape sem tape inputs e0 out0').
Proof.
  intros Hl Hc. unfold eval_tape.
  destruct (rel_run (rev tape) [] (init_state e0 out0) (init_state e0 out0')) as (_ & _ & Hlen & Hw).
  { repeat split; simpl; auto. intros i []. }
  apply nth_error_ext_hyp. intros i.
  destruct (Nat.lt_ge_cases i (length out0)) as [Hi | Hi].
  - apply Hw. rewrite app_nil_r, <- in_rev.
    destruct (Hc i Hi) as (a & Ha). apply in_flat_map. exists (OOutput a i). split; [now apply -> in_rev | now left].
  - assert (G : forall ops (s : st), length (m_out (run_fwd sem inputs ops s)) = length (m_out s)).
    { induction ops as [|o ops IH]; intros s; unfold run_fwd in *; simpl; [reflexivity|].
      rewrite IH. destruct o; simpl; try reflexivity; try apply list_upd_length;
        destruct (bop_has_choice b); reflexivity. }
    assert (L1 : length (m_out (run_fwd sem inputs (rev tape) (init_state e0 out0))) <= i).
    { rewrite G. simpl. exact Hi. }
    rewrite (proj2 (nth_error_None _ _) L1). symmetry. apply nth_error_None. rewrite <- Hlen. exact L1.
Qed.

End Stale.

Section StaleCompiled.
Context {V I : Type}.
Variable ieqb : I -> I -> bool.
Hypothesis ieqb_sound : forall a b, ieqb a b = true -> a = b.
Variable sem : Sem V I.

(* A validated register tape evaluated in a reused evaluator (arbitrary stale slots
   and stale output vector of the right length) returns what the SSA tape returns in
   a fresh one. *)
Theorem eval_ignores_stale (inputs : list V) (ssa reg : list (op I)) (n : nat) :
  check_alloc ieqb ssa reg = true -> covers ssa n ->
  forall (stale_slots : env) (stale_out : list V), length stale_out = n ->
    m_out (eval_tape sem reg inputs stale_slots stale_out)
    = m_out (eval_tape sem ssa inputs (fresh_env sem) (fresh_out sem n)).
Proof.
  intros Hc Hcov e out Hl.
  destruct (check_alloc_sound ieqb ieqb_sound sem inputs ssa reg Hc (fresh_env sem) e out) as [Ho _].
  rewrite <- Ho. apply out_independent.
  - unfold fresh_out. now rewrite repeat_length.
  - now rewrite Hl.
Qed.

End StaleCompiled.
