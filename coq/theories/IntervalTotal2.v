(* IntervalTotal2.v — totality (C11) of the remaining interval operations (isin, icos,
   itan, iatan2, irem_euclid, irand, imix) and the summary: over the extended reals,
   EVERY unary opcode and EVERY binary opcode is total on valid operands
   ([un_total], [bin_total]); so are ifrom (immediates) and imul_f (MulRegImm). *)
From Coq Require Import Reals Lra Lia ZArith Psatz List Bool.
From FV Require Import Ops Tape Interval ER TrigLemmas Atan2Lemmas ERLemmas IntervalSound
  IntervalTotal IntervalLibm IntervalTrig IntervalRem IntervalAtan2.
Local Open Scope R_scope.

Section Total2.
Variable rnd : er -> er.
Variable mix : er -> er -> er.
Notation F := (er_fl_gen rnd mix).

Ltac tot :=
  first [ eexists; reflexivity
        | apply inew_total; first [ solve [left; atom] | solve [right; split; reflexivity] ] ].

Lemma itan_total : total1 (itan F).
Proof.
  unfold total1, itan. intros [a1 a2] _. fl_red. unfold ge. fl_red.
  destruct (er_leb _ _); [apply inan_total|].
  destruct (er_eqb _ _); [apply ifrom_total'|].
  destruct (er_leb (er_tan a1) (er_tan a2)) eqn:E; [|apply inan_total].
  apply inew_total. left. now apply er_leb_spec.
Qed.

Lemma irand_total : total1 (irand F).
Proof.
  unfold total1, irand. intros a _. destruct (_ || _); [|apply ifrom_total'].
  apply inew_total. left. cbn. lra.
Qed.

Lemma imix_total : total2 (imix F).
Proof.
  unfold total2, imix. intros a b _ _. destruct (_ || _); [apply inan_total|apply ifrom_total'].
Qed.

Lemma isin_total : total1 (isin F).
Proof.
  unfold total1. intros [a1 a2] V. unfold isin, full_trig, width, has_nan. fl_red.
  unfold valid in V. cbn [lo hi] in V.
  destruct V as [V|[-> ->]]; [|cbn; apply inan_total].
  destruct a1 as [| | |a1], a2 as [| | |a2]; try contradiction;
    try (cbn; signs; tot; fail).
  cbn [er_is_nan orb er_sub er_eqb]. unfold ge. fl_red. cbn [er_leb].
  unfold Rleb, Reqb. cbn in V. unfold er_sin, er_trig.
  pose proof (SIN_bound a1) as SB1. pose proof (SIN_bound a2) as SB2.
  destruct (Rle_dec (2 * PI) (a2 - a1)) as [W|W]; [tot|].
  destruct (Req_EM_T a1 a2) as [E|E]; [apply ifrom_total'|].
  assert (Hlt : a1 < a2) by lra. assert (Hw : a2 - a1 < 2 * PI) by lra.
  assert (A1 : a1 <= a1) by lra.
  rewrite !quadrant_fin.
  destruct (Rle_dec PI (a2 - a1)) as [B|B].
  - zsetup a1 a2 a1 A1 V Hlt Hw.
    assert (C1 : (m1 = 0 \/ m1 = 1 \/ m1 = 2 \/ m1 = 3)%Z) by lia.
    assert (C2 : (m2 = 0 \/ m2 = 1 \/ m2 = 2 \/ m2 = 3)%Z) by lia.
    destruct C1 as [C1|[C1|[C1|C1]]], C2 as [C2|[C2|[C2|C2]]]; subst m1 m2; cbn [quad_of_Z];
      apply inew_total; left;
      first [ cbn [er_le]; lra | apply er_min_lb_l; cbn; lra | apply er_max_ub_l; cbn; lra ].
  - assert (Hs : a2 - a1 < PI) by lra. pose proof (qz_order_small a1 a2 Hlt Hs) as Hos.
    zsetup a1 a2 a1 A1 V Hlt Hw.
    assert (C1 : (m1 = 0 \/ m1 = 1 \/ m1 = 2 \/ m1 = 3)%Z) by lia.
    assert (C2 : (m2 = 0 \/ m2 = 1 \/ m2 = 2 \/ m2 = 3)%Z) by lia.
    destruct C1 as [C1|[C1|[C1|C1]]], C2 as [C2|[C2|[C2|C2]]]; subst m1 m2; cbn [quad_of_Z];
      apply inew_total; left;
      first [ cbn [er_le]; lra | apply er_min_lb_l; cbn; lra | apply er_max_ub_l; cbn; lra
            | cbn [er_le];
              assert (K : (k2 = k1 \/ k2 = k1 + 1)%Z) by lia; destruct K; subst k2; try lia;
              subst z1 z2; izr; wins k1 ].
Qed.

Lemma icos_total : total1 (icos F).
Proof.
  unfold total1. intros [a1 a2] V. unfold icos, full_trig, width, has_nan. fl_red.
  unfold valid in V. cbn [lo hi] in V.
  destruct V as [V|[-> ->]]; [|cbn; apply inan_total].
  destruct a1 as [| | |a1], a2 as [| | |a2]; try contradiction;
    try (cbn; signs; tot; fail).
  cbn [er_is_nan orb er_sub er_eqb]. unfold ge. fl_red. cbn [er_leb].
  unfold Rleb, Reqb. cbn in V. unfold er_cos, er_trig.
  pose proof (COS_bound a1) as SB1. pose proof (COS_bound a2) as SB2.
  destruct (Rle_dec (2 * PI) (a2 - a1)) as [W|W]; [tot|].
  destruct (Req_EM_T a1 a2) as [E|E]; [apply ifrom_total'|].
  assert (Hlt : a1 < a2) by lra. assert (Hw : a2 - a1 < 2 * PI) by lra.
  assert (A1 : a1 <= a1) by lra.
  rewrite !quadrant_fin.
  destruct (Rle_dec PI (a2 - a1)) as [B|B].
  - zsetup a1 a2 a1 A1 V Hlt Hw.
    assert (C1 : (m1 = 0 \/ m1 = 1 \/ m1 = 2 \/ m1 = 3)%Z) by lia.
    assert (C2 : (m2 = 0 \/ m2 = 1 \/ m2 = 2 \/ m2 = 3)%Z) by lia.
    destruct C1 as [C1|[C1|[C1|C1]]], C2 as [C2|[C2|[C2|C2]]]; subst m1 m2; cbn [quad_of_Z];
      apply inew_total; left;
      first [ cbn [er_le]; lra | apply er_min_lb_l; cbn; lra | apply er_max_ub_l; cbn; lra ].
  - assert (Hs : a2 - a1 < PI) by lra. pose proof (qz_order_small a1 a2 Hlt Hs) as Hos.
    zsetup a1 a2 a1 A1 V Hlt Hw.
    assert (C1 : (m1 = 0 \/ m1 = 1 \/ m1 = 2 \/ m1 = 3)%Z) by lia.
    assert (C2 : (m2 = 0 \/ m2 = 1 \/ m2 = 2 \/ m2 = 3)%Z) by lia.
    destruct C1 as [C1|[C1|[C1|C1]]], C2 as [C2|[C2|[C2|C2]]]; subst m1 m2; cbn [quad_of_Z];
      apply inew_total; left;
      first [ cbn [er_le]; lra | apply er_min_lb_l; cbn; lra | apply er_max_ub_l; cbn; lra
            | cbn [er_le];
              assert (K : (k2 = k1 \/ k2 = k1 + 1)%Z) by lia; destruct K; subst k2; try lia;
              subst z1 z2; izr; wins k1 ].
Qed.

Lemma two_pts_total v1 v2 : v1 <> ENaN -> v2 <> ENaN ->
  exists r, inew F (er_min (er_min EPInf v1) v2) (er_max (er_max ENInf v1) v2) = Some r.
Proof.
  intros. apply inew_total. left. unfold er_min, er_max. er_destr; signs; atom.
Qed.

Lemma iatan2_total : total2 (iatan2 F).
Proof.
  unfold total2. intros [y1 y2] [x1 x2] Vy Vx. unfold iatan2, has_nan. fl_red.
  unfold valid in *. cbn [lo hi] in *.
  destruct Vy as [Vy|[-> ->]]; [|cbn; apply inan_total].
  destruct Vx as [Vx|[-> ->]]; [|cbn [er_is_nan]; rewrite orb_true_r; apply inan_total].
  pose proof (er_le_nn_l _ _ Vy). pose proof (er_le_nn_r _ _ Vy).
  pose proof (er_le_nn_l _ _ Vx). pose proof (er_le_nn_r _ _ Vx).
  replace (er_is_nan y1 || er_is_nan y2 || (er_is_nan x1 || er_is_nan x2)) with false
    by (destruct y1, y2, x1, x2; try reflexivity; contradiction).
  destruct (_ && _ && _).
  { apply inew_total. left. cbn. pose proof PI_RGT_0. lra. }
  unfold ge. fl_red.
  repeat match goal with |- context[if ?c then _ else _] => destruct c end;
    apply two_pts_total; now apply er_atan2_nn.
Qed.

Lemma fallback_total b1 b2 : er_le b1 b2 ->
  contains F {| lo := b1; hi := b2 |} (EFin 0) = false ->
  exists r, fallback rnd mix {| lo := b1; hi := b2 |} = Some r.
Proof.
  intros V Hc. unfold fallback, iabs, contains, ge, gt in *. fl_red. fl_red_in Hc. unfold er_max.
  destruct b1, b2; try contradiction; cbn in *; signs; try (exfalso; lra);
    repeat match goal with
    | |- context[match inew _ ?l ?u with _ => _ end] =>
        let E := fresh "E" in
        destruct (inew_total (rnd:=rnd) (mix:=mix) l u) as [ab E];
        [ first [ solve [left; atom] | solve [right; split; reflexivity] ]
        | rewrite E; apply inew_some in E; destruct E as [-> _]; cbn [hi] ]
    end; tot.
Qed.

Lemma irem_euclid_total : total2 (irem_euclid F).
Proof.
  unfold total2. intros [a1 a2] [b1 b2] Va Vb. unfold irem_euclid.
  change (match iabs F {| lo := b1; hi := b2 |} with
          | Some ab => inew F (fl_zero er F) (hi ab) | None => None end)
    with (fallback rnd mix {| lo := b1; hi := b2 |}).
  destruct (_ || _ || contains F _ _) eqn:E; [apply inan_total|].
  apply orb_false_iff in E. destruct E as [E Ec]. apply orb_false_iff in E. destruct E as [Ea Eb].
  unfold valid, has_nan in *. cbn [lo hi] in *. fl_red_in Ea. fl_red_in Eb.
  destruct Va as [Va|[-> ->]]; [|discriminate]. destruct Vb as [Vb|[-> ->]]; [|discriminate].
  pose proof (fallback_total b1 b2 Vb Ec) as FT.
  unfold gt. fl_red.
  destruct (er_eqb b1 b2 && er_ltb (EFin 0) b1) eqn:Ep; [|exact FT].
  destruct (negb _ && _) eqn:Eq; [|exact FT].
  apply andb_true_iff in Ep. destruct Ep as [Ep1 Ep2]. apply er_eqb_eq in Ep1. destruct Ep1 as [<- _].
  apply andb_true_iff in Eq. destruct Eq as [Eq1 Eq2]. apply er_eqb_eq in Eq2. destruct Eq2 as [Eq2 Eq3].
  apply inew_total. left.
  destruct b1 as [| | |c]; try discriminate.
  - exfalso. destruct a1; cbn in *; try discriminate; try contradiction.
    assert (Z0 : Rfloor 0 = 0) by (change 0 with (IZR 0); apply Rfloor_unique; lra).
    rewrite Z0 in Eq1. unfold Reqb in Eq1. destruct (Req_EM_T 0 0); [discriminate | lra].
  - cbn in Ep2. unfold Rltb in Ep2. destruct (Rlt_dec 0 c) as [Hc|]; [|discriminate]. clear Ep2.
    destruct a1 as [| | |p1], a2 as [| | |p2]; try contradiction;
      try (cbn in Eq1; destruct (Rlt_dec c 0); cbn in Eq1; discriminate);
      try (cbn in Eq2; destruct (Req_EM_T c 0); [lra|]; destruct (Rlt_dec c 0); cbn in Eq2; discriminate).
    cbn in *. destruct (Req_EM_T c 0) as [|_]; [lra|]. cbn in *.
    injection Eq2 as Eq2. rewrite Rabs_pos_eq by lra. rewrite <- Eq2. lra.
Qed.

(* ---- summary (C11 over the extended reals) -------------------------------------------- *)
Theorem un_total u : total1 (i_un F u).
Proof.
  destruct u; cbn [i_un].
  - apply ineg_total. - apply iabs_total. - apply irecip_total. - apply isqrt_total.
  - apply isquare_total. - apply ifloor_total. - apply iceil_total. - apply iround_total.
  - apply isin_total. - apply icos_total. - apply itan_total. - apply iasin_total.
  - apply iacos_total. - apply iatan_total. - apply iexp_total. - apply iln_total.
  - apply inot_total. - apply irand_total.
  - intros a _. eexists; reflexivity.
Qed.

Theorem bin_total b : total2 (i_bin F b).
Proof.
  destruct b; cbn [i_bin].
  - apply iadd_total. - apply isub_total.
  - apply imul_total. - apply idiv_total. - apply iatan2_total. - apply imin_total.
  - apply imax_total. - apply icompare_total. - apply irem_euclid_total. - apply iand_total.
  - apply ior_total. - apply imix_total.
Qed.

End Total2.

Print Assumptions un_total.
Print Assumptions bin_total.
