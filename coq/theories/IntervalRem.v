(* IntervalRem.v — enclosure (C03) of irem_euclid over the extended reals with NaN. *)
From Coq Require Import Reals Lra Lia ZArith Psatz List Bool.
From FV Require Import Ops Tape Interval ER TrigLemmas ERLemmas IntervalSound.
Local Open Scope R_scope.

(* 0 <= p rem_euclid q < |q| *)
Lemma Rrem_bounds p q : q <> 0 ->
  0 <= p - Rabs q * Rfloor (p / Rabs q) < Rabs q.
Proof.
  intros Hq. assert (Ha : 0 < Rabs q) by now apply Rabs_pos_lt.
  pose proof (Rfloor_bounds (p / Rabs q)) as [H1 H2].
  set (n := Rfloor (p / Rabs q)) in *.
  assert (E : p = p / Rabs q * Rabs q) by (field; lra).
  assert (n * Rabs q <= p). { rewrite E. apply Rmult_le_compat_r; lra. }
  assert (p < (n + 1) * Rabs q). { rewrite E at 1. apply Rmult_lt_compat_r; lra. }
  lra.
Qed.

Lemma Rdiv_le_pos a b c : 0 < c -> a <= b -> a / c <= b / c.
Proof. intros Hc H. unfold Rdiv. apply Rmult_le_compat_r; [left; now apply Rinv_0_lt_compat | exact H]. Qed.

Lemma Rfloor_mono a b : a <= b -> Rfloor a <= Rfloor b.
Proof.
  intros H. pose proof (Rfloor_bounds a). pose proof (Rfloor_bounds b). unfold Rfloor in *.
  apply IZR_le. destruct (Z_le_gt_dec (up a - 1) (up b - 1)) as [L|L]; [exact L|]. exfalso.
  assert (IZR (up b - 1) + 1 <= IZR (up a - 1)).
  { rewrite <- plus_IZR. apply IZR_le. lia. }
  lra.
Qed.

Lemma er_eqb_eq p q : er_eqb p q = true -> p = q /\ p <> ENaN.
Proof.
  destruct p, q; cbn; try discriminate; try (split; [reflexivity|discriminate]).
  unfold Reqb. destruct (Req_EM_T r r0); [subst; split; [reflexivity|discriminate]|discriminate].
Qed.

Section Rem.
Variable rnd : er -> er.
Variable mix : er -> er -> er.
Notation F := (er_fl_gen rnd mix).

Definition fallback (b : interval er) : option (interval er) :=
  match iabs F b with Some ab => inew F (EFin 0) (hi ab) | None => None end.

Ltac inner_inew H :=
  try match type of H with
  | match inew _ ?l ?u with _ => _ end = _ =>
      let Eab := fresh "Eab" in
      destruct (inew F l u) as [ab|] eqn:Eab;
      [ apply inew_some in Eab; destruct Eab as [-> _]; cbn [hi] in H | discriminate ]
  end.

Lemma fallback_sound b1 b2 x y r :
  er_le b1 y -> er_le y b2 -> x <> ENaN ->
  contains F {| lo := b1; hi := b2 |} (EFin 0) = false ->
  er_rem_euclid x y <> ENaN ->
  fallback {| lo := b1; hi := b2 |} = Some r -> valid r /\ encl r (er_rem_euclid x y).
Proof.
  intros B1 B2 Hx Hc Hn H. unfold fallback, iabs, contains, ge, gt in *. fl_red_in H. fl_red_in Hc.
  destruct x as [| | |p]; try (exfalso; apply Hn; destruct y; reflexivity); try contradiction.
  destruct y as [| | |q]; try contradiction.
  - (* y = -inf *)
    destruct b1, b2; try contradiction; cbn in *; signs; inner_inew H; res_inew H Hn; atom.
  - (* y = +inf *)
    destruct b1, b2; try contradiction; cbn in *; signs; inner_inew H; res_inew H Hn; atom.
  - (* y finite *)
    cbn [er_rem_euclid] in *. destruct (Req_EM_T q 0) as [E|E]; [exfalso; now apply Hn|].
    pose proof (Rrem_bounds p q E) as RB.
    set (v := p - Rabs q * Rfloor (p / Rabs q)) in *. clearbody v.
    unfold er_max in H.
    destruct b1, b2; try contradiction; cbn in *; signs; try (exfalso; lra); inner_inew H; res_inew H Hn; atom.
Qed.

Lemma irem_euclid_sound : sound2s (irem_euclid F) er_rem_euclid.
Proof.
  start2 a b x y. intros Hn r H. unfold irem_euclid in H. clear Va Vb Ea Eb.
  change (match iabs F {| lo := b1; hi := b2 |} with
          | Some ab => inew F (fl_zero er F) (hi ab) | None => None end)
    with (fallback {| lo := b1; hi := b2 |}) in H.
  set (FB := fallback {| lo := b1; hi := b2 |}) in *.
  unfold has_nan in H.
  destruct Ca as [[-> ->]|[A1 A2]]; [cbn in H; nan_res H|].
  destruct Cb as [[-> ->]|[B1 B2]].
  { fl_red_in H. cbn [er_is_nan] in H. rewrite orb_true_r in H. cbn in H. nan_res H. }
  destruct (contains F {| lo := b1; hi := b2 |} (fl_zero er F)) eqn:Ec.
  { rewrite orb_true_r in H. nan_res H. }
  assert (En : fl_is_nan er F (lo {| lo := a1; hi := a2 |}) || fl_is_nan er F (hi {| lo := a1; hi := a2 |})
               || (fl_is_nan er F (lo {| lo := b1; hi := b2 |}) || fl_is_nan er F (hi {| lo := b1; hi := b2 |})) = false).
  { fl_red. apply er_le_nn_l in A1, B1. apply er_le_nn_r in A2, B2.
    destruct a1, a2, b1, b2; try reflexivity; contradiction. }
  rewrite En in H. cbn [orb] in H. clear En.
  assert (Hx : x <> ENaN) by (apply (er_le_nn_r _ _ A1)).
  assert (FBS : FB = Some r -> valid r /\ encl r (er_rem_euclid x y)).
  { intros HF. eapply fallback_sound; eauto. }
  cbn [lo hi] in H. unfold gt in H. fl_red_in H.
  destruct (er_eqb b1 b2 && er_ltb (EFin 0) b1) eqn:Ep; [|now apply FBS].
  destruct (negb _ && _) eqn:Eq in H; [|now apply FBS].
  clear FBS FB Ec.
  apply andb_true_iff in Ep. destruct Ep as [Ep1 Ep2]. apply er_eqb_eq in Ep1. destruct Ep1 as [<- _].
  assert (y = b1) by (now apply er_le_antisym). subst y.
  apply andb_true_iff in Eq. destruct Eq as [Eq1 Eq2]. apply er_eqb_eq in Eq2. destruct Eq2 as [Eq2 Eq3].
  apply (inew_encl _ _ _ _ H Hn). intros _. clear H.
  destruct b1 as [| | |c]; try discriminate.
  - (* divisor +inf: x/inf = 0 is an integer, or NaN: not this branch *)
    exfalso. destruct a1; cbn in *; try discriminate; try contradiction.
    assert (Z0 : Rfloor 0 = 0) by (change 0 with (IZR 0); apply Rfloor_unique; lra).
    rewrite Z0 in Eq1. unfold Reqb in Eq1. destruct (Req_EM_T 0 0); [discriminate | lra].
  - cbn in Ep2. unfold Rltb in Ep2. destruct (Rlt_dec 0 c) as [Hc|]; [|discriminate]. clear Ep2.
    destruct x as [| | |p]; try (exfalso; now apply Hn).
    destruct a1 as [| | |p1]; try contradiction;
      [cbn in Eq1; destruct (Rlt_dec c 0); cbn in Eq1; discriminate|].
    destruct a2 as [| | |p2]; try contradiction;
      [cbn in Eq2; destruct (Req_EM_T c 0); [lra|]; destruct (Rlt_dec c 0); cbn in Eq2; discriminate|].
    cbn in *. destruct (Req_EM_T c 0) as [|_]; [lra|]. cbn in *.
    injection Eq2 as Eq2. rewrite Rabs_pos_eq by lra.
    assert (F1 : Rfloor (p1 / c) <= Rfloor (p / c)) by (apply Rfloor_mono, Rdiv_le_pos; lra).
    assert (F2 : Rfloor (p / c) <= Rfloor (p2 / c)) by (apply Rfloor_mono, Rdiv_le_pos; lra).
    assert (F3 : Rfloor (p / c) = Rfloor (p1 / c)) by lra.
    rewrite F3, <- Eq2. lra.
Qed.

End Rem.

Print Assumptions irem_euclid_sound.
